import NetVerif.Driver.Util
import NetVerif.Model.QuicStream
import NetVerif.Model.QuicMonitor
/-! Line-protocol step function for the QUIC stream state-machine model
(tie "sm" of C19 / C20 / C32).  One result line per op, carrying the complete
model state of the stream touched and of the connection-level counters. -/
namespace NetVerif.Driver.QuicStreamStep
open NetVerif.Driver NetVerif.Model NetVerif.Model.QuicStream

structure St where
  cfg : List Int
  conn : Conn
  streams : List (Int × Stream) := []     -- in the order they were opened
  pnum : Int := 0
  pkts : List (Int × List Rec) := []
  dead : Bool := false

def b01 (b : Bool) : Nat := if b then 1 else 0

def showSV : SV → String
  | .unset => "-" | .unsent => "U" | .sent pn => s!"S{pn}" | .received => "R"

def showRS (l : Rangeset.RS) : String :=
  "[" ++ ",".intercalate (l.map fun r => s!"{r.s}-{r.e}") ++ "]"

def showStream (s : Stream) : String :=
  s!"in={s.inp.start},{s.inp.stop} win={s.inwin} sm={showSV s.insendmax} size={s.insize} set={showRS s.inset} " ++
  s!"cl={showSV s.inclosed} rc={s.inresetcode} ib={s.inbuf.length},{s.inbufoff} " ++
  s!"out={s.out.start},{s.out.stop} fl={s.outflushed} win={s.outwin} ms={s.outmaxsent} un={showRS s.outunsent} " ++
  s!"ak={showRS s.outacked} op={showSV s.outopened} cl={showSV s.outclosed} bl={showSV s.outblocked} " ++
  s!"rs={showSV s.outreset} ob={s.outbuf},{s.outbufoff} done={b01 s.allAcked}" ++
  (if s.panicked then " PANIC" else "")

def showConn (c : Conn) : String :=
  s!"cf u={c.usedLimit} s={c.sentLimit} n={c.newLimit} c={c.credit} sv={showSV c.inSent} om={c.omax} ou={c.oused}"

def showFrame : Frame → String
  | .stream id off data fin => s!" stream {id} {off} {b01 fin} {hexOfBytes data}"
  | .maxData v => s!" maxdata {v}"
  | .maxStreamData id v => s!" maxsd {id} {v}"
  | .resetStream id code final => s!" reset {id} {code} {final}"
  | .stopSending id code => s!" stop {id} {code}"
  | .dataBlocked id v => s!" blocked {id} {v}"

def showFrames (fs : List Frame) : String := String.join (fs.map showFrame)

def getS (st : St) (id : Int) : Option Stream := (st.streams.find? (·.1 == id)).map (·.2)
def setS (st : St) (id : Int) (s : Stream) : St :=
  { st with streams := st.streams.map fun p => if p.1 == id then (id, s) else p }

def cfgAt (cfg : List Int) (i : Nat) : Int := cfg.getD i 0

/-- the stream `streamForFrame` / `newLocalStream` create on a server conn. -/
def mkStream (cfg : List Int) (id : Int) : Stream :=
  match id % 4 with
  | 0 => { id := id, readOnly := false, writeOnly := false, inwin := cfgAt cfg 0, inmaxbuf := cfgAt cfg 0,
           outwin := cfgAt cfg 4, outmaxbuf := cfgAt cfg 1 }
  | 1 => { id := id, readOnly := false, writeOnly := false, inwin := cfgAt cfg 0, inmaxbuf := cfgAt cfg 0,
           outwin := cfgAt cfg 5, outmaxbuf := cfgAt cfg 1 }
  | 2 => { id := id, readOnly := true, writeOnly := false, inwin := cfgAt cfg 0, inmaxbuf := cfgAt cfg 0,
           outwin := 0, outmaxbuf := 0 }
  | _ => { id := id, readOnly := false, writeOnly := true, inwin := 0, inmaxbuf := 0,
           outwin := cfgAt cfg 6, outmaxbuf := cfgAt cfg 1 }

def tailS (st : St) (s : Stream) : String := " | " ++ showStream s ++ " | " ++ showConn st.conn
def tailC (st : St) : String := " | " ++ showConn st.conn

def errName (code : Int) : String :=
  if code = errFlowControl then "flow" else if code = errFinalSize then "finalsize" else "other"

def parseAll (l : List String) : Option (List Int) := l.mapM parseInt

/-- apply the fate of one remembered frame -/
def applyRec (st : St) (pn : Int) (acked : Bool) (r : Rec) : St :=
  match r with
  | .maxData => { st with conn := { st.conn with inSent := st.conn.inSent.ackLatestOrLoss pn acked } }
  | .reset id | .stop id | .maxSD id | .blocked id =>
    match getS st id with
    | some s => setS st id (ackOrLoss s pn r acked)
    | none => st
  | .stream id a e fin =>
    match getS st id with
    | some s => setS st id (ackOrLossData s pn a e fin acked)
    | none => st

def step (sto : Option St) (line : String) : Option St × String :=
  match tokens line with
  | "reset" :: rest =>
    match parseAll rest with
    | some cfg =>
      if cfg.length ≠ 7 ∨ cfg.any (fun v => v < 1 ∨ v > 1099511627776) then (sto, "bad-op") else
      let c : Conn := { maxConnRead := cfgAt cfg 2, sentLimit := cfgAt cfg 2, newLimit := cfgAt cfg 2,
                        omax := setMaxData 0 (cfgAt cfg 3) }
      let st : St := { cfg := cfg, conn := c }
      (some st, "ok" ++ tailC st)
    | none => (sto, "bad-op")
  | toks =>
    match sto with
    | none => (sto, "bad-op")
    | some st =>
    if toks.isEmpty then (sto, "bad-op") else
    if st.dead then (sto, "dead") else
    match toks with
    | ["open", id] =>
      match parseInt id with
      | some id =>
        if id < 0 ∨ (getS st id).isSome then (sto, "bad-op") else
        let same := (st.streams.filter fun p => p.1 % 4 == id % 4).length
        if id ≠ id % 4 + 4 * (same : Int) then (sto, "bad-op") else
        let s := mkStream st.cfg id
        let st := { st with streams := st.streams ++ [(id, s)] }
        (some st, "ok" ++ tailS st s)
      | none => (sto, "bad-op")
    | ["rstream", id, off, hex, fin] =>
      match parseInt id, parseInt off, parseBytes hex with
      | some id, some off, some data =>
        match getS st id with
        | some s =>
          if s.writeOnly ∨ off < 0 then (sto, "bad-op") else
          let (c, s, err) := handleData st.conn s off data (fin == "1")
          if err ≠ 0 then (some { st with dead := true }, "err " ++ errName err) else
          let st := setS { st with conn := c } id s
          (some st, "ok" ++ tailS st s)
        | none => (sto, "bad-op")
      | _, _, _ => (sto, "bad-op")
    | ["rreset", id, code, final] =>
      match parseInt id, parseInt code, parseInt final with
      | some id, some code, some final =>
        match getS st id with
        | some s =>
          if s.writeOnly ∨ final < 0 then (sto, "bad-op") else
          let (c, s, err) := handleReset st.conn s code final
          if err ≠ 0 then (some { st with dead := true }, "err " ++ errName err) else
          let st := setS { st with conn := c } id s
          (some st, "ok" ++ tailS st s)
        | none => (sto, "bad-op")
      | _, _, _ => (sto, "bad-op")
    | ["rstop", id, code] =>
      match parseInt id, parseInt code with
      | some id, some code =>
        match getS st id with
        | some s =>
          if s.readOnly then (sto, "bad-op") else
          let s := resetInternal s code false
          let st := setS st id s
          (some st, "ok" ++ tailS st s)
        | none => (sto, "bad-op")
      | _, _ => (sto, "bad-op")
    | ["rmaxdata", v] =>
      match parseInt v with
      | some v =>
        if v < 0 then (sto, "bad-op") else
        let st := { st with conn := { st.conn with omax := setMaxData st.conn.omax v } }
        (some st, "ok" ++ tailC st)
      | none => (sto, "bad-op")
    | ["rmaxsd", id, v] =>
      match parseInt id, parseInt v with
      | some id, some v =>
        match getS st id with
        | some s =>
          if s.readOnly ∨ v < 0 then (sto, "bad-op") else
          let s := handleMaxStreamData s v
          let st := setS st id s
          (some st, "ok" ++ tailS st s)
        | none => (sto, "bad-op")
      | _, _ => (sto, "bad-op")
    | ["write", id, hex] =>
      match parseInt id, parseBytes hex with
      | some id, some data =>
        match getS st id with
        | some s =>
          let (s, r) := write s data
          let res := match r with
            | .ok n => s!"ok {n}"
            | .blocked n => s!"blocked {n}"
            | .errClosed n => s!"closed {n}"
            | .errReadOnly => "err readonly"
          let st := setS st id s
          (some st, res ++ tailS st s)
        | none => (sto, "bad-op")
      | _, _ => (sto, "bad-op")
    | ["flush", id] =>
      match parseInt id with
      | some id =>
        match getS st id with
        | some s =>
          let (s, ok) := flush s
          let st := setS st id s
          (some st, s!"ok {b01 ok}" ++ tailS st s)
        | none => (sto, "bad-op")
      | none => (sto, "bad-op")
    | ["read", id, n] =>
      match parseInt id, parseNat n with
      | some id, some n =>
        match getS st id with
        | some s =>
          if n > 1048576 then (sto, "bad-op") else
          let (c, s, r) := read st.conn s n
          let res := match r with
            | .data b false => "ok " ++ hexOfBytes b
            | .data b true => "eof " ++ hexOfBytes b
            | .eof => "eof -"
            | .errReset => "err reset"
            | .errClosed => "err closed"
            | .errWriteOnly => "err writeonly"
            | .blocked => "blocked"
            | .panic => "panic"
          let st := setS { st with conn := c } id s
          (some st, res ++ tailS st s)
        | none => (sto, "bad-op")
      | _, _ => (sto, "bad-op")
    | ["closeread", id] =>
      match parseInt id with
      | some id =>
        match getS st id with
        | some s =>
          let (c, s) := closeRead st.conn s
          let st := setS { st with conn := c } id s
          (some st, "ok" ++ tailS st s)
        | none => (sto, "bad-op")
      | none => (sto, "bad-op")
    | ["closewrite", id] =>
      match parseInt id with
      | some id =>
        match getS st id with
        | some s =>
          let s := closeWrite s
          let st := setS st id s
          (some st, "ok" ++ tailS st s)
        | none => (sto, "bad-op")
      | none => (sto, "bad-op")
    | ["sreset", id, code] =>
      match parseInt id, parseInt code with
      | some id, some code =>
        match getS st id with
        | some s =>
          if code < 0 then (sto, "bad-op") else
          let s := resetInternal s code true
          let st := setS st id s
          (some st, "ok" ++ tailS st s)
        | none => (sto, "bad-op")
      | _, _ => (sto, "bad-op")
    | ["send", id, cap, pto] =>
      match parseInt id, parseInt cap with
      | some id, some cap =>
        match getS st id with
        | some s =>
          if cap < 0 ∨ cap > 65536 then (sto, "bad-op") else
          let pto := pto == "1"
          let w : Writer := { avail := cap }
          let (s, w, ok) := appendInFrames s w st.pnum pto
          let (c, s, w, ok) := if ok then appendOutFrames st.conn s w st.pnum pto else (st.conn, s, w, false)
          let pn := st.pnum
          let st := setS { st with conn := c, pnum := st.pnum + 1, pkts := st.pkts ++ [(pn, w.recs)] } id s
          (some st, s!"ok {b01 ok} {pn}" ++ showFrames w.frames ++ tailS st s)
        | none => (sto, "bad-op")
      | _, _ => (sto, "bad-op")
    | ["sendmd", cap, pto] =>
      match parseInt cap with
      | some cap =>
        if cap < 0 ∨ cap > 65536 then (sto, "bad-op") else
        let w : Writer := { avail := cap }
        let (c, w, ok) := appendMaxData st.conn w st.pnum (pto == "1")
        let pn := st.pnum
        let st := { st with conn := c, pnum := st.pnum + 1, pkts := st.pkts ++ [(pn, w.recs)] }
        (some st, s!"ok {b01 ok} {pn}" ++ showFrames w.frames ++ tailC st)
      | none => (sto, "bad-op")
    | [fate, pn] =>
      if fate ≠ "ack" ∧ fate ≠ "lose" then (sto, "bad-op") else
      match parseInt pn with
      | some pn =>
        match st.pkts.find? (·.1 == pn) with
        | some (_, recs) =>
          let st := { st with pkts := st.pkts.filter (·.1 != pn) }
          let st := recs.foldl (fun st r => applyRec st pn (fate == "ack") r) st
          (some st, "ok" ++ String.join (st.streams.map fun p => " | " ++ showStream p.2) ++ tailC st)
        | none => (sto, "bad-op")
      | none => (sto, "bad-op")
    | _ => (sto, "bad-op")

end NetVerif.Driver.QuicStreamStep

/-! ### monitor lines (`ev ...`) of the "net" tie -/
namespace NetVerif.Driver.QuicStreamStep
open NetVerif.Driver NetVerif.Model.QuicMonitor

def parseEv (t : List String) : Option Ev :=
  match t with
  | ["init", s, c, w] => do pure (.init (← parseNat s) (← parseInt c) (← parseInt w))
  | ["tx", s, "stream", id, off, len, fin] =>
    do pure (.txStream (← parseNat s) (← parseInt id) (← parseInt off) (← parseInt len) (fin == "1"))
  | ["tx", s, "maxdata", v] => do pure (.txMaxData (← parseNat s) (← parseInt v))
  | ["tx", s, "maxsd", id, v] => do pure (.txMaxSD (← parseNat s) (← parseInt id) (← parseInt v))
  | ["tx", s, "reset", id, f] => do pure (.txReset (← parseNat s) (← parseInt id) (← parseInt f))
  | ["tx", s, "close", c] => do pure (.txClose (← parseNat s) (← parseInt c))
  | ["rx", s, "stream", id, off, len, fin] =>
    do pure (.rxStream (← parseNat s) (← parseInt id) (← parseInt off) (← parseInt len) (fin == "1"))
  | ["rx", s, "maxdata", v] => do pure (.rxMaxData (← parseNat s) (← parseInt v))
  | ["rx", s, "maxsd", id, v] => do pure (.rxMaxSD (← parseNat s) (← parseInt id) (← parseInt v))
  | ["rx", s, "reset", id, f] => do pure (.rxReset (← parseNat s) (← parseInt id) (← parseInt f))
  | ["write", s, id, hex] => do pure (.write (← parseNat s) (← parseInt id) (← parseBytes hex))
  | ["wclose", s, id] => do pure (.wclose (← parseNat s) (← parseInt id))
  | ["closeread", s, id] => do pure (.closeread (← parseNat s) (← parseInt id))
  | ["read", s, id, hex] => do pure (.read (← parseNat s) (← parseInt id) (← parseBytes hex))
  | ["eof", s, id] => do pure (.eof (← parseNat s) (← parseInt id))
  | ["readerr", s, id] => do pure (.readerr (← parseNat s) (← parseInt id))
  | ["closeok", s, id] => do pure (.closeok (← parseNat s) (← parseInt id))
  | ["fin"] => some .fin
  | _ => none

def sideOk : Ev → Bool
  | .init s _ _ | .txStream s _ _ _ _ | .txMaxData s _ | .txMaxSD s _ _ | .txReset s _ _ | .txClose s _
  | .rxStream s _ _ _ _ | .rxMaxData s _ | .rxMaxSD s _ _ | .rxReset s _ _ | .write s _ _ | .wclose s _
  | .closeread s _ | .read s _ _ | .eof s _ | .readerr s _ | .closeok s _ => s ≤ 1
  | .fin => true

structure Both where
  sm : Option St := none
  hist : List Ev := []

def initBoth : Both := {}

/-- `prop` = 19, 20 or 32 selects the monitor clauses. -/
def stepBoth (prop : Nat) (b : Both) (line : String) : Both × String :=
  match tokens line with
  | ["ev", "begin"] => ({ b with hist := [] }, "ok")
  | "scn" :: _ => (b, "ok")
  | "ev" :: rest =>
    match parseEv rest with
    | some e =>
      if !sideOk e then (b, "bad-op") else
      if okEv prop b.hist e then ({ b with hist := b.hist ++ [e] }, "ok")
      else ({ b with hist := b.hist ++ [e] }, "reject " ++ (rest.take 3 |> " ".intercalate))
    | none => (b, "bad-op")
  | _ =>
    let (sm, out) := step b.sm line
    ({ b with sm := sm }, out)

end NetVerif.Driver.QuicStreamStep
