import NetVerif.Driver.Util
import NetVerif.Model.Dns
import NetVerif.Model.DnsChecked
/-! Line-protocol driver for the dnsmessage model (shared by C36 and C37). Stateless.

Message syntax (tokens): `<id> <flags:7×0/1> <opcode> <rcode> <nq> Q* <nan> RR* <nau> RR* <nad> RR*`,
`Q = <name> <type> <class>`, `RR = <name> <type> <class> <ttl> <length> <KIND> <fields…>`. -/
open NetVerif.Driver NetVerif.Model.Dns

namespace NetVerif.Driver.Dns

abbrev P (α : Type) := List String → Option (α × List String)

def pNat : P Nat
  | t :: r => (parseNat t).map (·, r)
  | [] => none

def pBytes : P Bytes
  | t :: r => (parseBytes t).map (·, r)
  | [] => none

def pTok : P String
  | t :: r => some (t, r)
  | [] => none

def pMany {α : Type} (p : P α) : Nat → P (List α)
  | 0, ts => some ([], ts)
  | n + 1, ts =>
    match p ts with
    | none => none
    | some (x, r) =>
      match pMany p n r with
      | none => none
      | some (xs, r') => some (x :: xs, r')

def pCounted {α : Type} (p : P α) : P (List α) := fun ts =>
  match pNat ts with
  | none => none
  | some (n, r) => pMany p n r

def pPair : P (Nat × Bytes) := fun ts =>
  match pNat ts with
  | none => none
  | some (k, r) => match pBytes r with
    | none => none
    | some (v, r') => some ((k, v), r')

def pFlags : P (List Bool)
  | t :: r =>
    let cs := t.toList
    if cs.length = 7 ∧ cs.all (fun c => c = '0' ∨ c = '1') then some (cs.map (· = '1'), r) else none
  | [] => none

def pQuestion : P Question := fun ts => do
  let (n, r) ← pBytes ts
  let (t, r) ← pNat r
  let (c, r) ← pNat r
  pure ({ name := n, typ := t, cls := c }, r)

def pSVCB (ts : List String) : Option ((Nat × Bytes × List (Nat × Bytes)) × List String) := do
  let (p, r) ← pNat ts
  let (t, r) ← pBytes r
  let (ps, r) ← pCounted pPair r
  pure ((p, t, ps), r)

def pBody : P Body := fun ts => do
  let (k, r) ← pTok ts
  match k with
  | "A" => let (b, r) ← pBytes r; pure (.a b, r)
  | "AAAA" => let (b, r) ← pBytes r; pure (.aaaa b, r)
  | "NS" => let (b, r) ← pBytes r; pure (.ns b, r)
  | "CNAME" => let (b, r) ← pBytes r; pure (.cname b, r)
  | "PTR" => let (b, r) ← pBytes r; pure (.ptr b, r)
  | "MX" => let (p, r) ← pNat r; let (b, r) ← pBytes r; pure (.mx p b, r)
  | "TXT" => let (ss, r) ← pCounted pBytes r; pure (.txt ss, r)
  | "SOA" =>
    let (ns, r) ← pBytes r; let (mb, r) ← pBytes r
    let (a, r) ← pNat r; let (b, r) ← pNat r; let (c, r) ← pNat r; let (d, r) ← pNat r; let (e, r) ← pNat r
    pure (.soa ns mb a b c d e, r)
  | "SRV" =>
    let (a, r) ← pNat r; let (b, r) ← pNat r; let (c, r) ← pNat r; let (t, r) ← pBytes r
    pure (.srv a b c t, r)
  | "OPT" => let (os, r) ← pCounted pPair r; pure (.opt os, r)
  | "SVCB" => let ((p, t, ps), r) ← pSVCB r; pure (.svcb p t ps, r)
  | "HTTPS" => let ((p, t, ps), r) ← pSVCB r; pure (.https p t ps, r)
  | "UNK" => let (t, r) ← pNat r; let (d, r) ← pBytes r; pure (.unknown t d, r)
  | _ => none

def pResource : P Resource := fun ts => do
  let (n, r) ← pBytes ts
  let (t, r) ← pNat r
  let (c, r) ← pNat r
  let (ttl, r) ← pNat r
  let (len, r) ← pNat r
  let (b, r) ← pBody r
  pure ({ hdr := { name := n, typ := t, cls := c, ttl := ttl, length := len }, body := b }, r)

def pMessage : P Message := fun ts => do
  let (id, r) ← pNat ts
  let (fl, r) ← pFlags r
  let (op, r) ← pNat r
  let (rc, r) ← pNat r
  let (qs, r) ← pCounted pQuestion r
  let (an, r) ← pCounted pResource r
  let (au, r) ← pCounted pResource r
  let (ad, r) ← pCounted pResource r
  match fl with
  | [f0, f1, f2, f3, f4, f5, f6] =>
    pure ({ hdr := { id := id, response := f0, opCode := op, authoritative := f1, truncated := f2,
                     recursionDesired := f3, recursionAvailable := f4, authenticData := f5,
                     checkingDisabled := f6, rCode := rc },
            questions := qs, answers := an, authorities := au, additionals := ad }, r)
  | _ => none

def sBit (b : Bool) : String := if b then "1" else "0"

def sPairs (ps : List (Nat × Bytes)) : List String :=
  toString ps.length :: ps.flatMap (fun (k, v) => [toString k, hexOfBytes v])

def sBody : Body → List String
  | .a b => ["A", hexOfBytes b]
  | .aaaa b => ["AAAA", hexOfBytes b]
  | .ns b => ["NS", hexOfBytes b]
  | .cname b => ["CNAME", hexOfBytes b]
  | .ptr b => ["PTR", hexOfBytes b]
  | .mx p b => ["MX", toString p, hexOfBytes b]
  | .txt ss => "TXT" :: toString ss.length :: ss.map hexOfBytes
  | .soa ns mb a b c d e => ["SOA", hexOfBytes ns, hexOfBytes mb, toString a, toString b, toString c, toString d, toString e]
  | .srv a b c t => ["SRV", toString a, toString b, toString c, hexOfBytes t]
  | .opt os => "OPT" :: sPairs os
  | .svcb p t ps => ["SVCB", toString p, hexOfBytes t] ++ sPairs ps
  | .https p t ps => ["HTTPS", toString p, hexOfBytes t] ++ sPairs ps
  | .unknown t d => ["UNK", toString t, hexOfBytes d]

def sResource (r : Resource) : List String :=
  [hexOfBytes r.hdr.name, toString r.hdr.typ, toString r.hdr.cls, toString r.hdr.ttl, toString r.hdr.length] ++ sBody r.body

def sQuestion (q : Question) : List String := [hexOfBytes q.name, toString q.typ, toString q.cls]

def sMessage (m : Message) : String :=
  let h := m.hdr
  " ".intercalate (
    [toString h.id,
     sBit h.response ++ sBit h.authoritative ++ sBit h.truncated ++ sBit h.recursionDesired ++
       sBit h.recursionAvailable ++ sBit h.authenticData ++ sBit h.checkingDisabled,
     toString h.opCode, toString h.rCode] ++
    (toString m.questions.length :: m.questions.flatMap sQuestion) ++
    (toString m.answers.length :: m.answers.flatMap sResource) ++
    (toString m.authorities.length :: m.authorities.flatMap sResource) ++
    (toString m.additionals.length :: m.additionals.flatMap sResource))

/-- pack, then unpack what was packed. -/
def roundTrip (m : Message) (comp : Option CompMap) : String :=
  match packMessageWith m comp with
  | .error e => s!"err {e.tag}"
  | .ok bs =>
    match unpackMessage bs with
    | .ok m' => s!"ok {hexOfBytes bs} U {sMessage m'}"
    | .error e => s!"ok {hexOfBytes bs} E {e.tag}"

/-- names packed one after the other with a shared map, `gap` arbitrary bytes before each. -/
def packNames : List (Bytes × Bytes) → Bytes → Option CompMap → Except Err Bytes
  | [], out, _ => .ok out
  | (gap, n) :: r, out, comp =>
    match packName n (out ++ gap) comp with
    | .error e => .error e
    | .ok (bs, c) => packNames r (out ++ gap ++ bs) c

def pGapName : P (Bytes × Bytes) := fun ts =>
  match pBytes ts with
  | none => none
  | some (g, r) => match pBytes r with
    | none => none
    | some (n, r') => some ((g, n), r')

def pBOp : P BOp := fun ts =>
  match ts with
  | "C" :: r => some (.enableCompression, r)
  | "F" :: r => some (.finish, r)
  | "S2" :: r => some (.start 2, r)
  | "S3" :: r => some (.start 3, r)
  | "S4" :: r => some (.start 4, r)
  | "S5" :: r => some (.start 5, r)
  | "Q" :: r => (pQuestion r).map (fun (q, r') => (.question q, r'))
  | "R" :: r => (pResource r).map (fun (x, r') => (.resource x, r'))
  | _ => none

def pHeader : P Header := fun ts => do
  let (id, r) ← pNat ts
  let (fl, r) ← pFlags r
  let (op, r) ← pNat r
  let (rc, r) ← pNat r
  match fl with
  | [f0, f1, f2, f3, f4, f5, f6] =>
    pure ({ id := id, response := f0, opCode := op, authoritative := f1, truncated := f2,
            recursionDesired := f3, recursionAvailable := f4, authenticData := f5,
            checkingDisabled := f6, rCode := rc }, r)
  | _ => none

/-- run a Builder call sequence: one result token per call -/
def runBuilder (b : Builder) : List BOp → List String
  | [] => []
  | op :: ops =>
    let (b1, e) := b.step op
    let tok := match e, op with
      | some err, _ => err.tag
      | none, .finish => hexOfBytes b1.bytes
      | none, _ => "."
    tok :: runBuilder b1 ops

def pScript (s : String) : Option (List Step) :=
  if s == "-" then some [] else
  s.toList.mapM (fun c =>
    if c = 'p' then some Step.parse else if c = 's' then some Step.skip
    else if c = 'h' then some Step.headerBody else if c = 'w' then some Step.headerBody else if c = 'k' then some Step.headerSkip else none)

def sItem : Item → List String
  | .q q => "Q" :: sQuestion q
  | .r r => "R" :: sResource r
  | .h h => ["H", hexOfBytes h.name, toString h.typ, toString h.cls, toString h.ttl, toString h.length]
  | .skipped => ["S"]

def step (_ : Unit) (line : String) : Unit × String :=
  let out : String :=
    match tokens line with
    | "rt" :: rest =>
      match pMessage rest with
      | some (m, []) => roundTrip m (some [])
      | _ => "bad-op"
    | "build" :: c :: _pre :: rest =>
      match pMessage rest with
      | some (m, []) =>
        if c = "1" then roundTrip m (some []) else if c = "0" then roundTrip m none else "bad-op"
      | _ => "bad-op"
    | "bseq" :: _pre :: rest =>
      match pHeader rest with
      | some (h, r) =>
        (match pCounted pBOp r with
         | some (ops, []) => " ".intercalate ("ok" :: runBuilder (newBuilder h) ops)
         | _ => "bad-op")
      | none => "bad-op"
    | ["unpack", b] =>
      match parseBytes b with
      | some b => (match unpackMessageC b with | .ok m => s!"ok {sMessage m}" | .error e => s!"err {e.tag}")
      | none => "bad-op"
    | ["skipall", b] =>
      match parseBytes b with
      | some b => (match skipMessageC b with | .ok o => s!"ok {o}" | .error e => s!"err {e.tag}")
      | none => "bad-op"
    | ["walk", b, sc] =>
      match parseBytes b, pScript sc with
      | some b, some sc =>
        (match walkMessageC b sc with
         | .ok (its, o) => " ".intercalate (["ok", toString o] ++ its.flatMap sItem)
         | .error e => s!"err {e.tag}")
      | _, _ => "bad-op"
    | ["uname", b, o] =>
      match parseBytes b, parseNat o with
      | some b, some o =>
        (match unpackNameC b o with | .ok (n, o') => s!"ok {hexOfBytes n} {o'}" | .error e => s!"err {e.tag}")
      | _, _ => "bad-op"
    | ["sname", b, o] =>
      match parseBytes b, parseNat o with
      | some b, some o => (match skipNameC b o with | .ok o' => s!"ok {o'}" | .error e => s!"err {e.tag}")
      | _, _ => "bad-op"
    | "pnames" :: c :: rest =>
      match pCounted pGapName rest with
      | some (l, []) =>
        if c = "0" ∨ c = "1" then
          (match packNames l [] (if c = "1" then some [] else none) with
           | .ok bs => s!"ok {hexOfBytes bs}" | .error e => s!"err {e.tag}")
        else "bad-op"
      | _ => "bad-op"
    | _ => "bad-op"
  ((), out)

end NetVerif.Driver.Dns

def main : IO Unit := NetVerif.Driver.runLoop NetVerif.Driver.Dns.step ()
