import NetVerif.Driver.Util
import NetVerif.Model.Icmp
import NetVerif.Model.CtlMsg
/-! Line-protocol driver for the ICMP / IPv4-header model (C60). Stateless. -/
open NetVerif.Driver NetVerif.Model.Icmp

abbrev P := StateT (List String) Option

def tokP : P String := do
  match (← get) with
  | [] => failure
  | t :: rest => set rest; pure t

def natP : P Nat := do let t ← tokP; match parseNat t with | some v => pure v | none => failure
def intP : P Int := do let t ← tokP; match parseInt t with | some v => pure v | none => failure
def bytesP : P (List Nat) := do let t ← tokP; match parseBytes t with | some v => pure v | none => failure
def boolP : P Bool := do
  let t ← tokP
  if t == "1" then pure true else if t == "0" then pure false else failure

def repP {α : Type} (p : P α) : Nat → P (List α)
  | 0 => pure []
  | n + 1 => do let x ← p; let xs ← repP p n; pure (x :: xs)

def labelP : P MplsLabel := do
  let l ← intP; let tc ← intP; let s ← boolP; let ttl ← intP
  pure ⟨l, tc, s, ttl⟩

def extP : P Ext := do
  let k ← tokP
  if k == "mpls" then
    let c ← intP; let t ← intP; let n ← natP
    if n > 4096 then failure
    let ls ← repP labelP n
    pure (.mpls c t ls)
  else if k == "info" then
    let c ← intP; let t ← intP
    let i ← tokP
    let iface ← (if i == "if1" then do
        let idx ← intP; let nm ← bytesP; let mtu ← intP
        pure (some (⟨idx, nm, mtu⟩ : Iface))
      else if i == "if0" then pure none else failure)
    let a ← tokP
    let addr ← (if a == "ad1" then do
        let ip ← bytesP; let z ← bytesP
        pure (some (⟨ip, z⟩ : IPAddr))
      else if a == "ad0" then pure none else failure)
    pure (.info c t iface addr)
  else if k == "ident" then
    let c ← intP; let t ← intP; let nm ← bytesP; let idx ← intP; let afi ← intP; let ad ← bytesP
    pure (.ident c t nm idx afi ad)
  else if k == "rawx" then
    let d ← bytesP
    pure (.raw d)
  else failure

def extsP : P (List Ext) := do
  let n ← natP
  if n > 4096 then failure
  repP extP n

def bodyP : P Body := do
  let k ← tokP
  if k == "echo" then do let i ← intP; let s ← intP; let d ← bytesP; pure (.echo i s d)
  else if k == "xreq" then do let i ← intP; let s ← intP; let l ← boolP; let e ← extsP; pure (.extEchoReq i s l e)
  else if k == "xrep" then do
    let i ← intP; let s ← intP; let st ← intP; let a ← boolP; let v4 ← boolP; let v6 ← boolP
    pure (.extEchoReply i s st a v4 v6)
  else if k == "du" then do let d ← bytesP; let e ← extsP; pure (.dstUnreach d e)
  else if k == "te" then do let d ← bytesP; let e ← extsP; pure (.timeExceeded d e)
  else if k == "pp" then do let p ← intP; let d ← bytesP; let e ← extsP; pure (.paramProb p d e)
  else if k == "ptb" then do let m ← intP; let d ← bytesP; pure (.packetTooBig m d)
  else if k == "raw" then do let d ← bytesP; pure (.raw d)
  else if k == "nil" then pure .noBody
  else failure

def b01 (b : Bool) : String := if b then "1" else "0"

def showExt : Ext → String
  | .mpls c t ls =>
    s!"mpls {c} {t} {ls.length}" ++ String.join (ls.map fun l => s!" {l.label} {l.tc} {b01 l.s} {l.ttl}")
  | .info c t iface addr =>
    s!"info {c} {t} " ++
      (match iface with | none => "if0" | some i => s!"if1 {i.index} {hexOfBytes i.name} {i.mtu}") ++ " " ++
      (match addr with | none => "ad0" | some a => s!"ad1 {hexOfBytes a.ip} {hexOfBytes a.zone}")
  | .ident c t nm idx afi ad => s!"ident {c} {t} {hexOfBytes nm} {idx} {afi} {hexOfBytes ad}"
  | .raw d => s!"rawx {hexOfBytes d}"

def showExts (es : List Ext) : String :=
  toString es.length ++ String.join (es.map fun e => " " ++ showExt e)

def showBody : Body → String
  | .echo i s d => s!"echo {i} {s} {hexOfBytes d}"
  | .extEchoReq i s l e => s!"xreq {i} {s} {b01 l} {showExts e}"
  | .extEchoReply i s st a v4 v6 => s!"xrep {i} {s} {st} {b01 a} {b01 v4} {b01 v6}"
  | .dstUnreach d e => s!"du {hexOfBytes d} {showExts e}"
  | .timeExceeded d e => s!"te {hexOfBytes d} {showExts e}"
  | .paramProb p d e => s!"pp {p} {hexOfBytes d} {showExts e}"
  | .packetTooBig m d => s!"ptb {m} {hexOfBytes d}"
  | .raw d => s!"raw {hexOfBytes d}"
  | .noBody => "nil"

def showMsg (m : Msg) : String := s!"{m.typ} {m.code} {m.cksum} {showBody m.body}"

def showHeader (h : Header) : String :=
  s!"{h.version} {h.len} {h.tos} {h.totalLen} {h.id} {h.flags} {h.fragOff} {h.ttl} {h.protocol} {h.cksum} " ++
    s!"{hexOfBytes h.src} {hexOfBytes h.dst} {hexOfBytes h.options}"

def protoOK (p : Nat) : Bool := p == protocolICMP || p == protocolIPv6ICMP

def msgP : P String := do
  let proto ← natP
  let pshT ← tokP
  let psh : Option (List Nat) ← (if pshT == "nopsh" then pure none else
    match parseBytes pshT with | some v => pure (some v) | none => failure)
  let typ ← natP
  let code ← intP
  let body ← bodyP
  if (← get) ≠ [] then failure
  if !protoOK proto || typ > 255 then failure
  match psh with
  | some p =>
    if (proto == protocolIPv6ICMP && p.length != 40) || (proto != protocolIPv6ICMP && p.length > 64) then failure
  | none => pure ()
  let m : Msg := { proto := proto, typ := typ, code := code, cksum := 0, body := body }
  match m.marshal psh with
  | none => pure "merr"
  | some wire =>
    let back := match parseMessage proto wire with
      | none => "perr"
      | some pm => showMsg pm
    -- verification value: checksum over (pseudo-header ++) wire; 0 means valid
    let v := match (if proto == protocolIPv6ICMP then psh else none) with
      | some p => checksum (copyAt p 32 (be32 (wire.length : Nat)) ++ wire)
      | none => checksum wire
    pure s!"ok {hexOfBytes wire} {v} {back}"

def hdrP : P String := do
  let version ← intP; let len ← intP; let tos ← intP; let totalLen ← intP; let id ← intP
  let flags ← intP; let fragOff ← intP; let ttl ← intP; let protocol ← intP; let cksum ← intP
  let src ← bytesP; let dst ← bytesP; let options ← bytesP
  if (← get) ≠ [] then failure
  let h : Header := ⟨version, len, tos, totalLen, id, flags, fragOff, ttl, protocol, cksum, src, dst, options⟩
  match h.marshal with
  | .error .tooShort => pure "merr-short"
  | .error .invalidOptions => pure "merr-opt"
  | .error _ => pure "merr-addr"
  | .ok wire =>
    let back := match parseHeader wire with
      | .error .tooShort => "perr-short"
      | .error _ => "perr-ext"
      | .ok h' => showHeader h'
    pure s!"ok {hexOfBytes wire} {back}"

open NetVerif.Model.CtlMsg in
def showPErr : PErr → String
  | .invalidHeaderLength => "err-hdr"
  | .invalidMessageLength => "err-msg"
  | .shortBuffer => "err-short"

open NetVerif.Model.CtlMsg in
def showCM4 (r : PR CM4) : String :=
  match r with
  | .ok c => s!"ok {c.ttl} {hexOfBytes c.src} {hexOfBytes c.dst} {c.ifIndex}"
  | .err e => showPErr e
  | .panic => "panic"

open NetVerif.Model.CtlMsg in
def showCM6 (r : Except PErr CM6) : String :=
  match r with
  | .ok c => s!"ok {c.trafficClass} {c.hopLimit} {hexOfBytes c.src} {hexOfBytes c.dst} {c.ifIndex} {hexOfBytes c.nextHop} {c.mtu}"
  | .error e => showPErr e

open NetVerif.Model.CtlMsg in
def cm4mP : P String := do
  let ttl ← intP; let src ← bytesP; let dst ← bytesP; let ifi ← intP
  if (← get) ≠ [] then failure
  let cm : CM4 := ⟨ttl, src, dst, ifi⟩
  let w := cm.marshal
  pure s!"ok {hexOfBytes w} {showCM4 (CM4.zero.parse w)}"

open NetVerif.Model.CtlMsg in
def cm6mP : P String := do
  let tc ← intP; let hl ← intP; let src ← bytesP; let dst ← bytesP; let ifi ← intP; let nh ← bytesP; let mtu ← intP
  if (← get) ≠ [] then failure
  let cm : CM6 := ⟨tc, hl, src, dst, ifi, nh, mtu⟩
  let w := cm.marshal
  pure s!"ok {hexOfBytes w} {showCM6 (CM6.zero.parse w)}"

def runP (p : P String) (ts : List String) : String :=
  match p.run ts with
  | some (s, _) => s
  | none => "bad-op"

def c60Step (_ : Unit) (line : String) : Unit × String :=
  let out : String :=
    match tokens line with
    | "msg" :: rest => runP msgP rest
    | "hdr" :: rest => runP hdrP rest
    | ["parse", p, b] =>
      match parseNat p, parseBytes b with
      | some p, some b => (match parseMessage p b with | none => "perr" | some m => "ok " ++ showMsg m)
      | _, _ => "bad-op"
    | ["phdr2", _, b] =>
      -- Parse into a re-used Header = a fresh parse (the first parse leaves nothing behind)
      match parseBytes b with
      | some b =>
        (match parseHeader b with
         | .error .tooShort => "perr-short"
         | .error _ => "perr-ext"
         | .ok h => "ok " ++ showHeader h)
      | none => "bad-op"
    | ["phdr", b] =>
      match parseBytes b with
      | some b =>
        (match parseHeader b with
         | .error .tooShort => "perr-short"
         | .error _ => "perr-ext"
         | .ok h => "ok " ++ showHeader h)
      | none => "bad-op"
    | "cm4m" :: rest => runP cm4mP rest
    | "cm6m" :: rest => runP cm6mP rest
    | ["cm4p", b] =>
      match parseBytes b with
      | some b => showCM4 (NetVerif.Model.CtlMsg.CM4.zero.parse b)
      | none => "bad-op"
    | ["cm6p", b] =>
      match parseBytes b with
      | some b => showCM6 (NetVerif.Model.CtlMsg.CM6.zero.parse b)
      | none => "bad-op"
    | ["csum", b] =>
      match parseBytes b with
      | some b => s!"ok {checksum b}"
      | none => "bad-op"
    | ["bigecho", n, fill, id, seq] =>
      match parseNat n, parseNat fill, parseInt id, parseInt seq with
      | some n, some fill, some id, some seq =>
        if fill > 255 || n > 600000 then "bad-op" else
        let m : Msg := { proto := protocolICMP, typ := v4Echo, code := 0, cksum := 0,
                         body := .echo id seq (List.replicate n fill) }
        (match m.marshal none with
         | none => "merr"
         | some wire => s!"ok {wire.length} {hexOfBytes (wire.take 8)} {checksum wire}")
      | _, _, _, _ => "bad-op"
    | _ => "bad-op"
  ((), out)

def main : IO Unit := runLoop c60Step ()
