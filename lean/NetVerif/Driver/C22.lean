import NetVerif.Driver.Util
import NetVerif.Model.VarintQuic
/-! Line-protocol driver for the quicwire model (C22). Stateless. -/
open NetVerif.Driver NetVerif.Model.VarintQuic

def c22Step (_ : Unit) (line : String) : Unit × String :=
  let out : String :=
    match tokens line with
    | ["size", v] =>
      match parseNat v with
      | some v => (match sizeVarint v with | some n => s!"ok {n}" | none => "panic")
      | none => "bad-op"
    | ["append", v] =>
      match parseNat v with
      | some v => (match appendVarint v with | some bs => s!"ok {hexOfBytes bs}" | none => "panic")
      | none => "bad-op"
    | ["consume", b] =>
      match parseBytes b with
      | some b => (match consumeVarint b with | some (v, n) => s!"ok {v} {n}" | none => "err")
      | none => "bad-op"
    | ["u8append", b] =>
      match parseBytes b with
      | some b => (match appendUint8Bytes b with | some bs => s!"ok {hexOfBytes bs}" | none => "panic")
      | none => "bad-op"
    | ["u8consume", b] =>
      match parseBytes b with
      | some b => (match consumeUint8Bytes b with | some (p, n) => s!"ok {hexOfBytes p} {n}" | none => "err")
      | none => "bad-op"
    | ["vbappend", b] =>
      match parseBytes b with
      | some b => (match appendVarintBytes b with | some bs => s!"ok {hexOfBytes bs}" | none => "panic")
      | none => "bad-op"
    | ["vbconsume", b] =>
      match parseBytes b with
      | some b => (match consumeVarintBytes b with | some (p, n) => s!"ok {hexOfBytes p} {n}" | none => "err")
      | none => "bad-op"
    | ["u32", b] =>
      match parseBytes b with
      | some b => (match consumeUint32 b with | some (v, n) => s!"ok {v} {n}" | none => "err")
      | none => "bad-op"
    | ["u64", b] =>
      match parseBytes b with
      | some b => (match consumeUint64 b with | some (v, n) => s!"ok {v} {n}" | none => "err")
      | none => "bad-op"
    | _ => "bad-op"
  ((), out)

def main : IO Unit := runLoop c22Step ()
