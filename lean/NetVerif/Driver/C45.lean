import NetVerif.Driver.Util
import NetVerif.Model.DavPath
/-! Line-protocol driver for the webdav Dir path model (C45). Stateless.
The ops `stat/removeall/rename` run against the symbolic root `$` (the harness replaces its
temporary root directory by `$` in every path it reports). -/
open NetVerif.Driver NetVerif.Model.DavPath

def c45Show : FsOutcome → String
  | .notExist => "err NotExist"
  | .invalid => "err Invalid"
  | .os ps => "os " ++ " ".intercalate (ps.map hexOfBytes)

def c45Root : Bytes := [36, 47]  -- "$/": the harness uses Dir(tmp + "/"), an unclean spelling

def c45Step (_ : Unit) (line : String) : Unit × String :=
  let out : String :=
    match tokens line with
    | ["clean", n] =>
      match parseBytes n with
      | some n => s!"ok {hexOfBytes (slashClean n)}"
      | none => "bad-op"
    | ["resolve", d, n] =>
      match parseBytes d, parseBytes n with
      | some d, some n => (match resolve d n with | some p => s!"ok {hexOfBytes p}" | none => "rej")
      | _, _ => "bad-op"
    | ["stat", n] =>
      match parseBytes n with
      | some n => c45Show (simpleOp c45Root n)
      | none => "bad-op"
    | ["removeall", n] =>
      match parseBytes n with
      | some n => c45Show (removeAll c45Root n)
      | none => "bad-op"
    | ["rename", a, b] =>
      match parseBytes a, parseBytes b with
      | some a, some b => c45Show (rename c45Root a b)
      | _, _ => "bad-op"
    | _ => "bad-op"
  ((), out)

def main : IO Unit := runLoop c45Step ()
