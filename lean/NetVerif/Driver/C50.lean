import NetVerif.Driver.Util
import NetVerif.Model.Punycode
/-!
Line-protocol driver for C50 (idna/punycode.go + A-label branch of Profile.process).
Code-point lists are `-` (empty) or comma separated decimals.
D-tie ops (tie `puny`): digit / edigit / madd / adapt / decode / encode / toascii / tounicode.
V-tie op (tie `profiles`): `obs …` — the monitor `Model.Punycode.monitorObs`.
-/
open NetVerif.Driver NetVerif.Model.Punycode

namespace NetVerif.Driver.C50

def parseRunes (s : String) : Option (List Nat) :=
  if s == "-" then some [] else (s.splitOn ",").mapM (·.toNat?)

def showRunes (l : List Nat) : String :=
  if l.isEmpty then "-" else ",".intercalate (l.map toString)

def parseBool (s : String) : Option Bool :=
  if s == "1" then some true else if s == "0" then some false else none

def showRes (r : List Nat × Bool) : String :=
  (if r.2 then "err " else "ok ") ++ showRunes r.1

def step (_ : Unit) (line : String) : Unit × String :=
  let out : String :=
    match tokens line with
    | ["digit", x] =>
      match parseNat x with
      | some x => (match decodeDigit x with | some d => s!"ok {d}" | none => "err")
      | none => "bad-op"
    | ["edigit", d] =>
      match parseNat d with
      | some d => (match encodeDigit d with | some c => s!"ok {c}" | none => "panic")
      | none => "bad-op"
    | ["madd", a, b, c] =>
      match parseNat a, parseNat b, parseNat c with
      | some a, some b, some c => (match madd a b c with | some v => s!"ok {v}" | none => "err")
      | _, _, _ => "bad-op"
    | ["adapt", d, np, f] =>
      match parseNat d, parseNat np, parseBool f with
      | some d, some np, some f => if np = 0 then "bad-op" else s!"ok {adapt d np f}"
      | _, _, _ => "bad-op"
    | ["decode", e] =>
      match parseRunes e with
      | some e => (match decode e with | some u => "ok " ++ showRunes u | none => "err")
      | none => "bad-op"
    | ["encode", s] =>
      match parseRunes s with
      | some s => (match encode [] s with | some a => "ok " ++ showRunes a | none => "err")
      | none => "bad-op"
    | ["toascii", u16, s] =>
      match parseBool u16, parseRunes s with
      | some u16, some s => showRes (processPunycode u16 true s)
      | _, _ => "bad-op"
    | ["tounicode", u16, s] =>
      match parseBool u16, parseRunes s with
      | some u16, some s => showRes (processPunycode u16 false s)
      | _, _ => "bad-op"
    | ["obs", _p, fl, x, a, ae, aa, aae, u, ue, au, aue] =>
      match parseRunes x, parseRunes a, parseBool ae, parseRunes aa, parseBool aae,
            parseRunes u, parseBool ue, parseRunes au, parseBool aue with
      | some x, some a, some ae, some aa, some aae, some u, some ue, some au, some aue =>
        match monitorObs { transitional := fl.contains 't', vonly := fl.contains 'v', x := x, a := a, ae := ae, aa := aa, aae := aae, u := u, ue := ue, au := au, aue := aue } with
        | none => "ok"
        | some why => "reject " ++ why
      | _, _, _, _, _, _, _, _, _ => "bad-op"
    | _ => "bad-op"
  ((), out)

end NetVerif.Driver.C50

def main : IO Unit := runLoop NetVerif.Driver.C50.step ()
