import NetVerif.Driver.Util
import NetVerif.Model.Atom
/-! Line-protocol driver for the html/atom model (C42). Stateless. -/
open NetVerif.Driver NetVerif.Model.Atom

def c42Step (_ : Unit) (line : String) : Unit × String :=
  let out : String :=
    match tokens line with
    | ["lookup", b] =>
      match parseBytes b with
      | some s => (match lookup s with | some a => s!"ok {a}" | none => "panic")
      | none => "bad-op"
    | ["str", b] =>
      match parseBytes b with
      | some s => (match stringOf s with | some t => s!"ok {hexOfBytes t}" | none => "panic")
      | none => "bad-op"
    | ["atom", v] =>
      match parseNat v with
      | some a =>
        if a < 4294967296 then
          (match lookup (text a) with | some b => s!"ok {hexOfBytes (text a)} {b}" | none => "panic")
        else "bad-op"
      | none => "bad-op"
    | ["string", v] =>
      match parseNat v with
      | some a => if a < 4294967296 then s!"ok {hexOfBytes (text a)}" else "bad-op"
      | none => "bad-op"
    | ["fnv", h, b] =>
      match parseNat h, parseBytes b with
      | some h, some s => if h < 4294967296 then s!"ok {fnv h s}" else "bad-op"
      | _, _ => "bad-op"
    | _ => "bad-op"
  ((), out)

def main : IO Unit := runLoop c42Step ()
