import NetVerif.Driver.Util
import NetVerif.Model.QuicRetryToken
/-! Line-protocol driver for the Retry-token model (C31). Stateless. -/
open NetVerif.Driver NetVerif.Model.QuicRetryToken

namespace C31Drv

def addrTok (s : String) : Option (List Nat) :=
  match parseBytes s with
  | some b => if b.length = 4 ∨ b.length = 16 then some b else none
  | none => none

def portTok (s : String) : Option Nat :=
  match parseNat s with
  | some v => if v < 65536 then some v else none
  | none => none

def step (_ : Unit) (line : String) : Unit × String :=
  let out : String :=
    match tokens line with
    | ["ad", src, addr, port] =>
      (do
        let src ← parseBytes src; let addr ← addrTok addr; let port ← portTok port
        pure (match additionalData src addr port with
              | some b => s!"ok {hexOfBytes b}"
              | none => "panic")).getD "bad-op"
    | ["validate", sec, ns, token, src, dst, addr, port] =>
      (do
        let sec ← parseInt sec; let ns ← parseInt ns
        if ns < 0 ∨ ns > 999999999 ∨ sec > 2305843009213693952 ∨ sec < -2305843009213693952 then none
        let token ← parseBytes token; let src ← parseBytes src; let dst ← parseBytes dst
        let addr ← addrTok addr; let port ← portTok port
        pure (match validateToken toy (sec * 1000000000 + ns) token src dst addr port with
              | .panic => "panic"
              | .reject => "reject"
              | .accept od => s!"ok {hexOfBytes od}")).getD "bad-op"
    | ["real", t0, t0ns, dns, mutk, src, odcid, addr, port, salt] =>
      (do
        let t0 ← parseInt t0; let t0ns ← parseInt t0ns; let _ ← parseInt dns; let mutk ← parseNat mutk
        let src ← parseBytes src; let _ ← parseBytes odcid; let _ ← addrTok addr; let _ ← portTok port
        let salt ← parseNat salt
        if t0 < 0 ∨ t0 > 2199023255552 ∨ t0ns < 0 ∨ t0ns > 999999999 ∨ mutk > 7 ∨ src.length > 255 ∨
           salt ≥ 18446744073709551616 then none
        pure "ok").getD "bad-op"
    | ["realpair", t0, cid, addr, port, odcid] =>
      (do
        let t0 ← parseInt t0; let cid ← parseBytes cid; let addr ← addrTok addr; let _ ← portTok port
        let _ ← parseBytes odcid
        if t0 < 0 ∨ t0 > 2199023255552 then none
        if (addr.length = 16 ∧ cid.length ≤ 243) ∨ (addr.length = 4 ∧ 12 ≤ cid.length ∧ cid.length ≤ 255) then pure "ok"
        else none).getD "bad-op"
    | ["resetconc", key, ncid, ng, iters] =>
      (do
        let key ← parseBytes key; let ncid ← parseNat ncid; let ng ← parseNat ng; let iters ← parseNat iters
        if key.length ≠ 32 ∨ ncid < 1 ∨ ncid > 64 ∨ ng < 1 ∨ ng > 64 ∨ iters < 1 ∨ iters > 100000 then none
        pure "ok").getD "bad-op"
    | ["reset", key, cid] =>
      (do
        let key ← parseBytes key; let _ ← parseBytes cid
        if key.length ≠ 32 then none
        pure "ok").getD "bad-op"
    | _ => "bad-op"
  ((), out)

end C31Drv

def main : IO Unit := runLoop C31Drv.step ()
