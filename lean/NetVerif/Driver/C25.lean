import NetVerif.Driver.Util
import NetVerif.Model.AckState
/-! Line-protocol driver for the `ackState` model (C25, tie "acks"). -/
open NetVerif.Driver NetVerif.Model.AckState NetVerif.Model.Rangeset

def showRanges (s : RS) : String :=
  if s.isEmpty then "-" else ",".intercalate (s.map fun r => s!"{r.s}-{r.e}")

def showAcks (a : Acks) : String := s!"seen={showRanges a.seen} unacked={a.unacked}"

def c25Step (st : Option Acks) (line : String) : Option Acks × String :=
  match tokens line, st with
  | ["reset", sp], _ =>
    match parseNat sp with
    | some sp => if sp > 2 then (st, "bad-op") else let a : Acks := {}; (some a, "ok " ++ showAcks a)
    | none => (st, "bad-op")
  | _, none => (st, "bad-op")
  | ["arrive", n, ae], some a =>
    match parseInt n with
    | some n =>
      if n < 0 ∨ n ≥ 4611686018427387904 ∨ (ae ≠ "0" ∧ ae ≠ "1") then (st, "bad-op") else
      let (a', p) := arrive a n (ae == "1")
      (some a', (if p then "ok proc " else "ok drop ") ++ showAcks a')
    | none => (st, "bad-op")
  | ["should", n], some a =>
    match parseInt n with
    | some n => (st, s!"ok {shouldProcess a n}")
    | none => (st, "bad-op")
  | ["hack", n], some a =>
    match parseInt n with
    | some n => let a' := handleAck a n; (some a', "ok " ++ showAcks a')
    | none => (st, "bad-op")
  | ["sent"], some a => let a' := sentAck a; (some a', "ok " ++ showAcks a')
  | ["frame", av, d], some a =>
    match parseNat av, parseNat d with
    | some av, some d =>
      if av > 65536 ∨ d ≥ 4611686018427387904 then (st, "bad-op") else
      match appendAckFrame (acksToSend a) d av with
      | none => (st, "ok none")
      | some f =>
        match f.ranges with
        | none => (st, "err frame")
        | some rs => (st, s!"ok {f.largest} {f.delay} {showRanges rs}")
    | _, _ => (st, "bad-op")
  | _, _ => (st, "bad-op")

def main : IO Unit := runLoop c25Step none
