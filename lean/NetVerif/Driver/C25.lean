import NetVerif.Driver.Util
import NetVerif.Model.AckState
/-! Line-protocol driver for the `ackState` model (C25, tie "acks"). -/
open NetVerif.Driver NetVerif.Model.AckState NetVerif.Model.Rangeset

def showRanges (s : RS) : String :=
  if s.isEmpty then "-" else ",".intercalate (s.map fun r => s!"{r.s}-{r.e}")

def showAcks (a : Acks) : String := s!"seen={showRanges a.seen} unacked={a.unacked}"

def c25Step (st : Option Acks) (line : String) : Option Acks × String :=
  match tokens line, st with
  | ["reset", sp], _ =>
    match parseNat sp with
    | some sp => if sp > 2 then (st, "bad-op") else let a : Acks := {}; (some a, "ok " ++ showAcks a)
    | none => (st, "bad-op")
  | _, none => (st, "bad-op")
  | ["arrive", n, ae], some a =>
    match parseInt n with
    | some n =>
      if n < 0 ∨ n ≥ 4611686018427387904 ∨ (ae ≠ "0" ∧ ae ≠ "1") then (st, "bad-op") else
      let (a', p) := arrive a n (ae == "1")
      (some a', (if p then "ok proc " else "ok drop ") ++ showAcks a')
    | none => (st, "bad-op")
  | ["should", n], some a =>
    match parseInt n with
    | some n => (st, s!"ok {shouldProcess a n}")
    | none => (st, "bad-op")
  | ["hack", n], some a =>
    match parseInt n with
    | some n => let a' := handleAck a n; (some a', "ok " ++ showAcks a')
    | none => (st, "bad-op")
  | ["sent"], some a => let a' := sentAck a; (some a', "ok " ++ showAcks a')
  | ["sweep", d, rs], some _ =>
    match parseNat d, (rs.splitOn ",").mapM (fun part => match part.splitOn "-" with
        | [x, y] => (match parseNat x, parseNat y with
          | some x, some y => if s!"{x}-{y}" == part then some (({ s := (x : Int), e := (y : Int) } : Rg)) else none
          | _, _ => none)
        | _ => none) with
    | some d, some set =>
      let okSet := set.length ≥ 1 ∧ set.length ≤ 100 ∧ d < 4611686018427387904 ∧
        (set.zip (({ s := -2, e := -2 } : Rg) :: set)).all (fun (r, p) => decide (p.e < r.s ∧ r.s < r.e ∧ r.e < 2305843009213693952))
      if ¬ okSet then (st, "bad-op") else
      match appendAckFrame set d 65536 with
      | none => (st, "err full")
      | some f =>
        let full := 1 + szv f.largest + szv f.delay + 1 + szv f.firstRange +
          (f.more.map fun (g, l) => szv g + szv l).foldl (· + ·) 0
        let ks := (List.range (full + 3)).map fun avail =>
          match appendAckFrame set d avail with
          | none => "-1"
          | some g => toString (g.more.length + 1)
        (st, s!"ok full={full} k={",".intercalate ks}")
    | _, _ => (st, "bad-op")
  | ["frame", av, d], some a =>
    match parseNat av, parseNat d with
    | some av, some d =>
      if av > 65536 ∨ d ≥ 4611686018427387904 then (st, "bad-op") else
      match appendAckFrame (acksToSend a) d av with
      | none => (st, "ok none")
      | some f =>
        match f.ranges with
        | none => (st, "err frame")
        | some rs => (st, s!"ok {f.largest} {f.delay} {showRanges rs}")
    | _, _ => (st, "bad-op")
  | _, _ => (st, "bad-op")

def main : IO Unit := runLoop c25Step none
