import NetVerif.Driver.Util
import NetVerif.Model.WriteSched
import NetVerif.Model.WriteSched7540
import NetVerif.Model.RFC9218Priority
/-! Line-protocol driver for the HTTP/2 write-scheduler models (C12, C13).

ops:  reset <rr|p9218|rand> <maxFrame> <connWin> <initWin> | reset p7540 <maxFrame> <connWin> <initWin> <maxClosed> <maxIdle> <throttle>
      open <id> <pusher> <u> <i> | close <id> | adjust <id> <dep> <excl> <weight> <u> <i>
      data <id> <tag> <len> <fin> | hdr <id> <tag> | ctl <tag> | rst <id> <tag>
      win <id> <delta> (id 0 = connection) | maxframe <n> | pop [served-stream|-]
-/
open NetVerif.Driver NetVerif.Model.WriteSched

namespace NetVerif.Driver.C12

structure St where
  e : Env := { maxFrame := 16384, connWin := 65535, win := fun _ => 65535 }
  s : Option Sched := none
  p : Option P7540 := none

def b01 (b : Bool) : String := if b then "1" else "0"

def showFrame : Frame → String
  | .data sid tag off len fin last => s!"data {sid} {tag} {off} {len} {b01 fin} {b01 last}"
  | .hdr sid tag => s!"hdr {sid} {tag}"
  | .ctl tag => s!"ctl {tag}"
  | .rst sid tag => s!"rst {sid} {tag}"
  | .empty => "empty"

def showRes : Res → String
  | .ok => "ok"
  | .panic => "panic"
  | .frame f => "ok " ++ showFrame f
  | .none => "none"
  | .reject => "reject"

def parseBool (s : String) : Option Bool :=
  if s == "0" then some false else if s == "1" then some true else none

def showIds (l : List Nat) : String := if l.isEmpty then "-" else ",".intercalate (l.map toString)

def qlen (q : WQ) : Nat := q.curr.length + q.next.length

def dumpSched : Sched → String
  | .rr s => s!"rr ctl={qlen s.control} ring={showIds s.ring} q=" ++ String.join (s.ring.map fun id => s!"{qlen (s.qs id)},")
  | .p9 s =>
    s!"p9 ctl={qlen s.control} t={String.join ((List.range 8).map fun u => b01 (s.pref u))} buf={s.bufId}:{s.bufClass}" ++
      String.join ((List.range 16).map fun c => if (s.ring c).isEmpty then "" else s!" r{c}={showIds (s.ring c)}")
  | .rnd s => s!"rand ctl={qlen s.zero} sq={showIds (s.sq.mergeSort (· ≤ ·))}"

partial def dumpTree (s : P7540) (nid : Nat) : String :=
  let n := s.node nid
  s!"({n.id} w{n.weight} s{n.state} b{n.bytes} t{n.sub} q{qlen n.q}" ++
    String.join (n.kids.map (dumpTree s)) ++ ")"

def dumpP7 (s : P7540) : String :=
  let ids := (s.nodes.map (·.1)).mergeSort (· ≤ ·)
  s!"p7 max={s.maxID} lim={s.limit} pool={s.poolN} closed={showIds (s.closedL.map fun n => (s.node n).id)} " ++
  s!"idle={showIds (s.idleL.map fun n => (s.node n).id)} nodes={showIds ids} tree={dumpTree s 0}"

def doOp (st : St) (op : Op) : St × String :=
  match st.s, st.p with
  | some s, _ => let (e', s', r) := s.step st.e op; ({ e := e', s := some s' }, showRes r)
  | none, some p => let (e', p', r) := p.step st.e op; ({ e := e', p := some p' }, showRes r)
  | none, none => (st, "bad-op")

def step (st : St) (line : String) : St × String :=
  match tokens line with
  | ["reset", k, mf, cw, iw] =>
    match parseInt mf, parseInt cw, parseInt iw with
    | some mf, some cw, some iw =>
      let e : Env := { maxFrame := mf, connWin := cw, win := fun _ => iw }
      if k == "rr" then ({ e := e, s := some (.rr {}) }, "ok")
      else if k == "p9218" then ({ e := e, s := some (.p9 {}) }, "ok")
      else if k == "rand" then ({ e := e, s := some (.rnd {}) }, "ok")
      else (st, "bad-op")
    | _, _, _ => (st, "bad-op")
  | ["reset", k, mf, cw, iw, mc, mi, th] =>
    match parseInt mf, parseInt cw, parseInt iw, parseNat mc, parseNat mi, parseBool th with
    | some mf, some cw, some iw, some mc, some mi, some th =>
      let e : Env := { maxFrame := mf, connWin := cw, win := fun _ => iw }
      if k == "p7540" then ({ e := e, s := none, p := some (P7540.init mc mi th) }, "ok") else (st, "bad-op")
    | _, _, _, _, _, _ => (st, "bad-op")
  | ["open", id, pu, u, i] =>
    match parseNat id, parseNat pu, parseNat u, parseNat i with
    | some id, some pu, some u, some i =>
      if u < 8 ∧ i < 2 then doOp st (.openS id pu (2 * u + i)) else (st, "bad-op")
    | _, _, _, _ => (st, "bad-op")
  | ["close", id] =>
    match parseNat id with
    | some id => doOp st (.closeS id)
    | none => (st, "bad-op")
  | ["adjust", id, dep, ex, w, u, i] =>
    match parseNat id, parseNat dep, parseBool ex, parseNat w, parseNat u, parseNat i with
    | some id, some dep, some ex, some w, some u, some i =>
      if u < 8 ∧ i < 2 ∧ w < 256 then doOp st (.adjust id dep ex w (2 * u + i)) else (st, "bad-op")
    | _, _, _, _, _, _ => (st, "bad-op")
  | ["data", id, tag, len, fin] =>
    match parseNat id, parseNat tag, parseNat len, parseBool fin with
    | some id, some tag, some len, some fin => doOp st (.push (.data id tag 0 len fin true))
    | _, _, _, _ => (st, "bad-op")
  | ["hdr", id, tag] =>
    match parseNat id, parseNat tag with
    | some id, some tag => doOp st (.push (.hdr id tag))
    | _, _ => (st, "bad-op")
  | ["ctl", tag] =>
    match parseNat tag with
    | some tag => doOp st (.push (.ctl tag))
    | none => (st, "bad-op")
  | ["rst", id, tag] =>
    match parseNat id, parseNat tag with
    | some id, some tag => doOp st (.push (.rst id tag))
    | _, _ => (st, "bad-op")
  | ["win", id, d] =>
    match parseNat id, parseInt d with
    | some id, some d =>
      doOp st (.win id d)
    | _, _ => (st, "bad-op")
  | ["maxframe", n] =>
    match parseInt n with
    | some n => doOp st (.maxframe n)
    | none => (st, "bad-op")
  | ["pparse", b, c] =>
    -- parseRFC9218Priority(string, canUseDefault) = ok <urgency> <incremental> <ok>
    match parseBytes b, parseBool c, st.s.isSome || st.p.isSome with
    | some bs, some cud, true =>
      let r := NetVerif.Model.RFC9218Priority.parsePriority bs cud
      (st, s!"ok {r.1.1} {r.1.2} {b01 r.2}")
    | _, _, _ => (st, "bad-op")
  | ["dump"] =>
    match st.s, st.p with
    | some s, _ => (st, "ok " ++ dumpSched s)
    | none, some p => (st, "ok " ++ dumpP7 p)
    | none, none => (st, "bad-op")
  | ["pop"] => doOp st (.pop none)
  | ["pop", h] =>
    if h == "-" then doOp st (.pop none)
    else match parseNat h with
      | some h => doOp st (.pop (some h))
      | none => (st, "bad-op")
  | _ => (st, "bad-op")

end NetVerif.Driver.C12

