import NetVerif.Driver.Util
import NetVerif.Model.SendWin
/-!
Line-protocol step function shared by the C08 (server) and C09 (client) drivers.
A line is `<action> [=> <observations>]` recorded from the package's own test rigs: the action
is what the scripted peer / application did, the observations are the frames the endpoint under
test wrote in response, in wire order. The line is turned into wire events (`SendWin.Ev`) and
run through the monitor `SendWin.Mon`; output `ok` or `reject <why>`.
-/
namespace NetVerif.Driver.SendWin
open NetVerif.Driver NetVerif.Model.SendWin

def parseOptInt (s : String) : Option (Option Int) :=
  if s == "-" then some none else (parseInt s).map some

def parseBool (s : String) : Option Bool := if s == "1" then some true else if s == "0" then some false else none

/-- Events of the action part. `none` = unknown action. -/
def parseAct : List String → Option (List Ev)
  | ["settings", mfs, iw] => do pure [.settings (← parseOptInt mfs) (← parseOptInt iw)]
  | ["wu", sid, inc] => do pure [.wu (← parseNat sid) (← parseNat inc)]
  | ["hdr", sid] => do pure [.sopen (← parseNat sid)]          -- server rig: the scripted client opens a stream
  | ["hdr", sid, dep, w, ex] => do                             -- ... with RFC 7540 priority (no flow-control meaning)
      let _ ← parseNat dep; let _ ← parseNat w; let _ ← parseBool ex
      pure [.sopen (← parseNat sid)]
  | ["prio", sid, dep, w, ex] => do                            -- PRIORITY frame: no wire event for the monitor
      let _ ← parseNat sid; let _ ← parseNat dep; let _ ← parseNat w; let _ ← parseBool ex
      pure []
  | ["prst", sid] => do pure [.sclose (← parseNat sid)]        -- the scripted peer resets a stream
  -- application-side steps: no wire event of their own
  | ["write", sid, n, k] => do let _ ← parseNat sid; let _ ← parseNat n; let _ ← parseNat k; pure []
  | ["hexit", sid] => do let _ ← parseNat sid; pure []
  | ["req", k, n] => do let _ ← parseNat k; let _ ← parseInt n; pure []
  | ["body", k, n] => do let _ ← parseNat k; let _ ← parseNat n; pure []
  | ["eof", k] => do let _ ← parseNat k; pure []
  | ["cancel", k] => do let _ ← parseNat k; pure []
  | ["resp", sid, fin] => do let _ ← parseNat sid; let _ ← parseBool fin; pure []
  | ["ping"] => some []
  | ["quiesce"] => some []
  | _ => none

/-- Events of one observation token. `none` = unknown token. -/
def parseObs (tok : String) : Option (List Ev) :=
  match tok.splitOn ":" with
  | ["data", sid, len, fin] => do pure [.data (← parseNat sid) (← parseNat len) (← parseBool fin)]
  | ["open", sid] => do pure [.sopen (← parseNat sid)]         -- client rig: request HEADERS seen on the wire
  | ["end", sid] => do pure [.sclose (← parseNat sid)]         -- HEADERS with END_STREAM from the endpoint
  | ["rst", sid, _] => do pure [.sclose (← parseNat sid)]      -- RST_STREAM from the endpoint
  | ["goaway", code] => do pure (if (← parseNat code) = 0 then [] else [.stop])
  | ["closed"] => some [.stop]
  | ["hdrs", _] => some []
  | ["ack"] => some []
  | ["busy"] => some []
  | ["skip"] => some []
  | ["frame"] => some []
  | ["wuout", _, _] => some []
  | _ => none

def splitArrow (ts : List String) : List String × List String :=
  (ts.takeWhile (· ≠ "=>"), (ts.dropWhile (· ≠ "=>")).drop 1)

def collect : List String → Option (List Ev)
  | [] => some []
  | t :: ts => do
    let a ← parseObs t
    let b ← collect ts
    pure (a ++ b)

/-- driver state: the monitor, or `none` before the `reset` line of a case (every case starts with the
line `begin`, written by the harness itself, which forgets the previous case's connection) -/
abbrev St := Option Mon

def step (st : St) (line : String) : St × String :=
  let (at_, ot) := splitArrow (tokens line)
  match at_, st with
  | ["begin"], _ => (none, "ok")
  | ["reset", r], none =>
    if ["default", "rr", "p9218", "p7540", "p7540t", "client"].contains r then
      match collect ot with
      | some b =>
        match Mon.init.run b with
        | .ok m' => (some m', "ok")
        | .error e => (some Mon.init, s!"reject {e}")
      | none => (st, "bad-op")
    else (st, "bad-op")
  | "reset" :: _, _ => (st, "bad-op")
  | _, none => (st, "bad-op")
  | _, some m =>
    match parseAct at_, collect ot with
    | some a, some b =>
      match m.run (a ++ b) with
      | .ok m' => (some m', "ok")
      | .error e => (some m, s!"reject {e}")
    | _, _ => (st, "bad-op")

end NetVerif.Driver.SendWin
