import NetVerif.Driver.Util
import NetVerif.Model.QuicFrames
import NetVerif.Model.QuicTransportParams
import NetVerif.Model.QuicPacket
/-! Line-protocol driver for the QUIC codec models (C28). Stateless. -/
open NetVerif.Driver NetVerif.Model.QuicFrames NetVerif.Model.QuicTransportParams
open NetVerif.Model

namespace C28Drv

def b01 (b : Bool) : String := if b then "1" else "0"

def showRanges (rs : List (Nat × Nat)) : String :=
  if rs.isEmpty then "-" else ",".intercalate (rs.map (fun r => s!"{r.1}-{r.2}"))

/-- Rendering of a frame as the Go harness renders a `debugFrame`. -/
def showFrame : Frame → String
  | .padding n => s!"PADDING {n}"
  | .ping => "PING"
  | .ack _ delay ranges ecn =>
    s!"ACK {delay} {showRanges (debugReverse ranges)} {ecn.1} {ecn.2.1} {ecn.2.2}"
  | .resetStream id code fs => s!"RESET_STREAM {id} {code} {fs}"
  | .stopSending id code => s!"STOP_SENDING {id} {code}"
  | .crypto off data => s!"CRYPTO {off} {hexOfBytes data}"
  | .newToken tok => s!"NEW_TOKEN {hexOfBytes tok}"
  | .stream id off fin data => s!"STREAM {id} {off} {b01 fin} {hexOfBytes data}"
  | .maxData m => s!"MAX_DATA {m}"
  | .maxStreamData id m => s!"MAX_STREAM_DATA {id} {m}"
  | .maxStreams uni m => s!"MAX_STREAMS {b01 uni} {m}"
  | .dataBlocked m => s!"DATA_BLOCKED {m}"
  | .streamDataBlocked id m => s!"STREAM_DATA_BLOCKED {id} {m}"
  | .streamsBlocked uni m => s!"STREAMS_BLOCKED {b01 uni} {m}"
  | .newConnectionID seq retire cid tok =>
    s!"NEW_CONNECTION_ID {seq} {retire} {hexOfBytes cid} {hexOfBytes tok}"
  | .retireConnectionID seq => s!"RETIRE_CONNECTION_ID {seq}"
  | .pathChallenge d => s!"PATH_CHALLENGE {hexOfBytes d}"
  | .pathResponse d => s!"PATH_RESPONSE {hexOfBytes d}"
  | .connCloseTransport code ft reason => s!"CONNECTION_CLOSE_TRANSPORT {code} {ft} {hexOfBytes reason}"
  | .connCloseApp code reason => s!"CONNECTION_CLOSE_APP {code} {hexOfBytes reason}"
  | .handshakeDone => "HANDSHAKE_DONE"

def showWR : WR → String
  | .panic => "panic"
  | .full => "full"
  | .added bs => s!"ok {hexOfBytes bs}"

def parseBool01 (s : String) : Option Bool :=
  if s == "0" then some false else if s == "1" then some true else none

def parseRange (s : String) : Option (Nat × Nat) :=
  match s.splitOn "-" with
  | [a, b] => do
    let x ← parseNat a
    let y ← parseNat b
    pure (x, y)
  | _ => none

def parseRanges (s : String) : Option (List (Nat × Nat)) :=
  if s == "-" then some [] else (s.splitOn ",").mapM parseRange

def u64 (s : String) : Option Nat :=
  match parseNat s with
  | some v => if v < 18446744073709551616 then some v else none
  | none => none

def bytesN (s : String) (n : Nat) : Option (List Nat) :=
  match parseBytes s with
  | some b => if b.length = n then some b else none
  | none => none

def stepWrite (avail : Nat) (t : List String) : Option String :=
  match t with
  | ["ping"] => some (showWR (writePing avail))
  | ["hsdone"] => some (showWR (writeHandshakeDone avail))
  | ["reset", a, b, c] => do
    let a ← u64 a; let b ← u64 b; let c ← u64 c
    pure (showWR (writeResetStream avail a b c))
  | ["stop", a, b] => do
    let a ← u64 a; let b ← u64 b
    pure (showWR (writeStopSending avail a b))
  | ["crypto", a, d] => do
    let a ← u64 a; let d ← parseBytes d
    pure (showWR (writeCrypto avail a d))
  | ["newtoken", d] => do
    let d ← parseBytes d
    pure (showWR (writeNewToken avail d))
  | ["stream", a, b, f, d] => do
    let a ← u64 a; let b ← u64 b; let f ← u64 f; let d ← parseBytes d
    pure (showWR (writeStream avail a b (f == 1) d))
  | ["maxdata", a] => do
    let a ← u64 a
    pure (showWR (writeMaxData avail a))
  | ["maxstreamdata", a, b] => do
    let a ← u64 a; let b ← u64 b
    pure (showWR (writeMaxStreamData avail a b))
  | ["maxstreams", a, b] => do
    let a ← u64 a; let b ← u64 b
    pure (showWR (writeMaxStreams avail (a == 1) b))
  | ["datablocked", a] => do
    let a ← u64 a
    pure (showWR (writeDataBlocked avail a))
  | ["sdblocked", a, b] => do
    let a ← u64 a; let b ← u64 b
    pure (showWR (writeStreamDataBlocked avail a b))
  | ["streamsblocked", a, b] => do
    let a ← u64 a; let b ← u64 b
    pure (showWR (writeStreamsBlocked avail (a == 1) b))
  | ["newcid", a, b, c, d] => do
    let a ← u64 a; let b ← u64 b; let c ← parseBytes c; let d ← bytesN d 16
    pure (showWR (writeNewConnectionID avail a b c d))
  | ["retirecid", a] => do
    let a ← u64 a
    pure (showWR (writeRetireConnectionID avail a))
  | ["pathch", d] => do
    let d ← bytesN d 8
    pure (showWR (writePath avail ftPathChallenge d))
  | ["pathresp", d] => do
    let d ← bytesN d 8
    pure (showWR (writePath avail ftPathResponse d))
  | ["cctransport", a, b, d] => do
    let a ← u64 a; let b ← u64 b; let d ← parseBytes d
    pure (showWR (writeConnCloseTransport avail a b d))
  | ["ccapp", a, d] => do
    let a ← u64 a; let d ← parseBytes d
    pure (showWR (writeConnCloseApp avail a d))
  | ["padding", n] => do
    let n ← parseNat n
    pure (showWR (writePadding avail n))
  | ["padto", n] => do
    let n ← parseInt n
    pure s!"ok {hexOfBytes (List.replicate (paddingTo avail n) 0)}"
  | ["ack", d, t0, t1, ce, rs] => do
    let d ← u64 d; let t0 ← u64 t0; let t1 ← u64 t1; let ce ← u64 ce; let rs ← parseRanges rs
    pure (showWR (writeAck avail rs d (t0, t1, ce)))
  | _ => none

/-! transport parameters -/

def optBytesTok (s : String) : Option (Option (List Nat)) :=
  if s == "nil" then some none else (parseBytes s).map some

def showOpt : Option (List Nat) → String
  | none => "nil"
  | some b => hexOfBytes b

def i63 (s : String) : Option Nat :=
  match parseNat s with
  | some v => if v < 9223372036854775808 then some v else none
  | none => none

def addrTok (s : String) : Option (List Nat) :=
  match parseBytes s with
  | some b => if b.length = 0 ∨ b.length = 4 ∨ b.length = 16 then some b else none
  | none => none

def portTok (s : String) : Option Nat :=
  match parseNat s with
  | some v => if v < 65536 then some v else none
  | none => none

def parseTP (t : List String) : Option TParams :=
  match t with
  | [odcid, idle, srt, udp, md, sdbl, sdbr, sdu, sb, su, ade, mad, dam, pacid, v4, v4p, v6, v6p, patok,
     acl, iscid, rscid] => do
    let odcid ← optBytesTok odcid
    let idle ← i63 idle
    let srt ← optBytesTok srt
    let udp ← i63 udp; let md ← i63 md; let sdbl ← i63 sdbl; let sdbr ← i63 sdbr; let sdu ← i63 sdu
    let sb ← i63 sb; let su ← i63 su
    let ade ← i63 ade
    if ade > 127 then none
    let mad ← i63 mad
    let dam ← parseBool01 dam
    let pacid ← optBytesTok pacid
    let v4 ← addrTok v4; let v4p ← portTok v4p; let v6 ← addrTok v6; let v6p ← portTok v6p
    let patok ← optBytesTok patok
    let acl ← i63 acl
    let iscid ← optBytesTok iscid
    let rscid ← optBytesTok rscid
    pure { originalDstConnID := odcid, maxIdleTimeout := idle, statelessResetToken := srt,
           maxUDPPayloadSize := udp, initialMaxData := md, initialMaxStreamDataBidiLocal := sdbl,
           initialMaxStreamDataBidiRemote := sdbr, initialMaxStreamDataUni := sdu,
           initialMaxStreamsBidi := sb, initialMaxStreamsUni := su, ackDelayExponent := ade,
           maxAckDelay := mad, disableActiveMigration := dam, preferredAddrConnID := pacid,
           preferredAddrV4 := (v4, v4p), preferredAddrV6 := (v6, v6p), preferredAddrResetToken := patok,
           activeConnIDLimit := acl, initialSrcConnID := iscid, retrySrcConnID := rscid }
  | _ => none

def showTP (p : TParams) : String :=
  " ".intercalate
    [showOpt p.originalDstConnID, toString p.maxIdleTimeout, showOpt p.statelessResetToken,
     toString p.maxUDPPayloadSize, toString p.initialMaxData, toString p.initialMaxStreamDataBidiLocal,
     toString p.initialMaxStreamDataBidiRemote, toString p.initialMaxStreamDataUni,
     toString p.initialMaxStreamsBidi, toString p.initialMaxStreamsUni, toString p.ackDelayExponent,
     toString p.maxAckDelay, b01 p.disableActiveMigration, showOpt p.preferredAddrConnID,
     hexOfBytes p.preferredAddrV4.1, toString p.preferredAddrV4.2,
     hexOfBytes p.preferredAddrV6.1, toString p.preferredAddrV6.2,
     showOpt p.preferredAddrResetToken, toString p.activeConnIDLimit,
     showOpt p.initialSrcConnID, showOpt p.retrySrcConnID]

def step (_ : Unit) (line : String) : Unit × String :=
  let out : String :=
    match tokens line with
    | "w" :: avail :: rest =>
      match parseNat avail with
      | some a => if a > 1048576 then "bad-op" else (stepWrite a rest).getD "bad-op"
      | none => "bad-op"
    | ["parse", b] =>
      match parseBytes b with
      | some b =>
        (match parseFrame b with
         | some (f, n) => s!"ok {n} {showFrame f}"
         | none => "err")
      | none => "bad-op"
    | ["ack", b] =>
      match parseBytes b with
      | some (t :: rest) =>
        (match consumeAck t rest with
         | some (largest, delay, ranges, ecn, r) =>
           s!"ok {rest.length + 1 - r.length} {largest} {delay} {showRanges ranges} {ecn.1} {ecn.2.1} {ecn.2.2}"
         | none => "err")
      | _ => "bad-op"
    | "tpmarshal" :: rest =>
      match parseTP rest with
      | some p => (match marshal p with | some bs => s!"ok {hexOfBytes bs}" | none => "panic")
      | none => "bad-op"
    | ["tpunmarshal", b] =>
      match parseBytes b with
      | some b => (match unmarshal b with | some p => s!"ok {showTP p}" | none => "err")
      | none => "bad-op"
    | "pkt" :: rest => QuicPacket.driverStep rest
    | _ => "bad-op"
  ((), out)

end C28Drv

def main : IO Unit := runLoop C28Drv.step ()
