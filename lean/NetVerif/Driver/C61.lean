import NetVerif.Driver.Util
import NetVerif.Model.TimeSeries
/-! Line-protocol driver for the time-series / histogram model (C61). Stateful. -/
open NetVerif.Driver NetVerif.Model.TimeSeries

structure C61State where
  ts : TS
  h0 : Hist
  h1 : Hist

def c61Init : C61State := ⟨TS.init 1 [1], Hist.empty, Hist.empty⟩

def showObs (o : Obs) : String := toString o.v ++ (if o.approx then "~" else "")

def showSlot : Option Obs → String
  | none => "."
  | some o => showObs o

def showLB : LB → String
  | .nil => "nil"
  | .panic => "panic"
  | .vals xs => " ".intercalate ("ok" :: toString xs.length :: xs.map showObs)

def showLevel (l : Level) : String :=
  s!"[{l.oldest} {l.newest} {l.end_} {l.size} " ++ " ".intercalate (l.buckets.map showSlot) ++ "]"

def showTS (s : TS) : String :=
  s!"ok {s.lastAdd} {s.pendingTime} {if s.dirty then 1 else 0} {showObs s.pending} {showObs s.total} " ++
    " ".intercalate (s.levels.map showLevel)

def showHist (h : Hist) : String :=
  let bs := match h.buckets with
    | none => "nil"
    | some l => "[" ++ " ".intercalate (l.map toString) ++ "]"
  s!"ok {h.sum} {h.value} {h.valueCount} {bs} {h.total}"

def parseInts (xs : List String) : Option (List Int) := xs.mapM parseInt

def strictlyIncreasing : List Int → Bool
  | a :: b :: rest => decide (a < b) && strictlyIncreasing (b :: rest)
  | _ => true

def getH (s : C61State) (k : String) : Option Hist :=
  if k == "0" then some s.h0 else if k == "1" then some s.h1 else none

def setH (s : C61State) (k : String) (h : Hist) : C61State :=
  if k == "0" then { s with h0 := h } else { s with h1 := h }

def c61Step (s : C61State) (line : String) : C61State × String :=
  match tokens line with
  | "reset" :: n :: rs =>
    match parseNat n, parseInts rs with
    | some n, some rs =>
      if n ≥ 1 ∧ rs ≠ [] ∧ rs.all (· ≥ 1) ∧ strictlyIncreasing rs then
        ({ s with ts := TS.init n rs }, "ok")
      else (s, "bad-op")
    | _, _ => (s, "bad-op")
  | ["add", t, v] | ["addnow", t, v] =>
    match parseInt t, parseInt v with
    | some t, some v => ({ s with ts := s.ts.addWithTime (Obs.exact v) t }, "ok")
    | _, _ => (s, "bad-op")
  | ["total"] =>
    let (ts, o) := s.ts.totalOp
    ({ s with ts := ts }, "ok " ++ showObs o)
  | ["latest", now, level, num] =>
    match parseInt now, parseInt level, parseInt num with
    | some now, some level, some num =>
      let (ts, r) := s.ts.latest now level num
      ({ s with ts := ts }, match r with | none => "panic" | some o => "ok " ++ showObs o)
    | _, _, _ => (s, "bad-op")
  | ["lbuckets", now, level, num] =>
    match parseInt now, parseInt level, parseInt num with
    | some now, some level, some num =>
      let (ts, r) := s.ts.latestBuckets now level num
      ({ s with ts := ts }, showLB r)
    | _, _, _ => (s, "bad-op")
  | ["range", a, b, num] =>
    match parseInt a, parseInt b, parseInt num with
    | some a, some b, some num =>
      let (ts, r) := s.ts.computeRange a b num
      ({ s with ts := ts }, showLB r)
    | _, _, _ => (s, "bad-op")
  | ["range1", a, b] =>
    match parseInt a, parseInt b with
    | some a, some b =>
      let (ts, r) := s.ts.range a b
      ({ s with ts := ts }, match r with | none => "panic" | some o => "ok " ++ showObs o)
    | _, _ => (s, "bad-op")
  | ["clear"] => ({ s with ts := s.ts.clear }, "ok")
  | ["dump"] => (s, showTS s.ts)
  | ["bucket", v] =>
    match parseInt v with
    | some v => (s, s!"ok {getBucket v}")
    | none => (s, "bad-op")
  | ["hreset"] => ({ s with h0 := Hist.empty, h1 := Hist.empty }, "ok")
  | ["hadd", k, v] =>
    match getH s k, parseInt v with
    | some h, some v => let h' := h.addMeasurement v; (setH s k h', showHist h')
    | _, _ => (s, "bad-op")
  | ["hclear", k] =>
    match getH s k with
    | some _ => (setH s k Hist.empty, showHist Hist.empty)
    | none => (s, "bad-op")
  | ["hmerge", k] =>
    -- h_k.Add(h_{1-k})
    match getH s k with
    | some h =>
      let o := if k == "0" then s.h1 else s.h0
      let h' := h.add o
      (setH s k h', showHist h')
    | none => (s, "bad-op")
  | _ => (s, "bad-op")

def main : IO Unit := runLoop c61Step c61Init
