import NetVerif.Driver.Util
import NetVerif.Model.Huffman
import NetVerif.Model.HuffmanTable
/-! Line-protocol driver for the Huffman model (C04). Stateless.
`enc`/`len`/`dec`/`decmax` (byte-level models as coded) mirror AppendHuffmanString / HuffmanEncodeLength /
HuffmanDecode / huffmanDecode(maxLen). `encspec`/`decspec`/`decmaxspec` are the bit-level specifications. -/
open NetVerif.Driver NetVerif.Model.Huffman

def showDec : Except DecErr (List Nat) → String
  | .ok s => s!"ok {hexOfBytes s}"
  | .error .invalid => "err Invalid"
  | .error .strLen => "err StringLength"

def c04Step (_ : Unit) (line : String) : Unit × String :=
  let out : String :=
    match tokens line with
    | ["enc", s] =>
      match parseBytes s with
      | some s => s!"ok {hexOfBytes (appendHuffman s)}"
      | none => "bad-op"
    | ["encspec", s] =>
      match parseBytes s with
      | some s => s!"ok {hexOfBytes (encode s)}"
      | none => "bad-op"
    | ["len", s] =>
      match parseBytes s with
      | some s => s!"ok {encodeLength s}"
      | none => "bad-op"
    | ["dec", v] =>
      match parseBytes v with
      | some v => showDec (decodeBytes v)
      | none => "bad-op"
    | ["decmax", n, v] =>
      match parseNat n, parseBytes v with
      | some n, some v => showDec (decodeBytesMax n v)
      | _, _ => "bad-op"
    | ["decspec", v] =>
      match parseBytes v with
      | some v => showDec (decode v)
      | none => "bad-op"
    | ["decmaxspec", n, v] =>
      match parseNat n, parseBytes v with
      | some n, some v => showDec (decodeMax n v)
      | _, _ => "bad-op"
    | ["race", k, trials, seed] =>
      -- concurrent first use of the decode tree: the sequential function is what is modelled; the
      -- expected result of every decode(encode s) is s, i.e. "ok"
      match parseNat k, parseNat trials, parseNat seed with
      | some k, some t, some _ => if k < 1 ∨ k > 64 ∨ t < 1 ∨ t > 100000 then "bad-op" else "ok"
      | _, _, _ => "bad-op"
    | _ => "bad-op"
  ((), out)

def main : IO Unit := runLoop c04Step ()
