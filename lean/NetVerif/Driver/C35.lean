import NetVerif.Driver.Util
import NetVerif.Model.H3Conn
import NetVerif.Model.QpackHuffman
/-! Line-protocol driver for the HTTP/3 stream framing model (C35). State: the current stream and body reader. -/
open NetVerif.Driver NetVerif.Model.H3Stream NetVerif.Model.Qpack NetVerif.Model.H3Conn

namespace NetVerif.Driver.C35

def H : Huff := NetVerif.Model.QpackHuffman.huff

structure DS where
  st : St
  body : Body
  broken : Bool   -- a previous op panicked/hung: the Go side stops using the stream too

def errTag : Err → String
  | .eof => "eof"
  | .plain c => s!"h3:{c}"
  | .conn c => s!"conn:{c}"
  | .strm c => s!"strm:{c}"
  | .other => "other"

def stateStr (s : St) : String := s!"lim={s.lim} dead={if s.dead then 1 else 0}"

def connStr : ConnRes → String
  | .abort c => s!"abort:{c}"
  | .closed => "closed"
  | .reset c => s!"reset:{c}"
  | .panic => "panic"
  | .hang => "hang"

def run {α : Type} (d : DS) (o : Out α) (showA : α → String) : DS × String :=
  match o with
  | .ok a s => ({ d with st := s }, s!"ok {showA a} {stateStr s}")
  | .err e s => ({ d with st := s }, s!"err {errTag e} {stateStr s}")
  | .panic => ({ d with broken := true }, "panic")
  | .hang => ({ d with broken := true }, "hang")

def settingsStr (l : List (Nat × Nat)) : String :=
  if l.isEmpty then "-" else ",".intercalate (l.map fun p => s!"{p.1}={p.2}")

def step (d : DS) (line : String) : DS × String :=
  match tokens line with
  | ["open", data] =>
    (match parseBytes data with
     | some data => ({ st := St.fresh data, body := ⟨-1, none⟩, broken := false }, "ok")
     | none => (d, "bad-op"))
  | ["uni", data] =>
    (match parseBytes data with
     | some data => (d, s!"ok {connStr (handleUni (St.fresh data))}")
     | none => (d, "bad-op"))
  | ["sreq", data] =>
    -- the real serverConn.handleRequestStream on a whole request: request construction in server.go
    -- is not modelled; the modelled outcome is only "no panic"
    (match parseBytes data with
     | some _ => (d, "ok")
     | none => (d, "bad-op"))
  | ["phdr", data] =>
    (match parseBytes data with
     | some data =>
       (d, match parseHeaderFrames H staticTable (data.length + 2) (St.fresh data) with
           | .ok _ _ => "ok"
           | .err e _ => s!"err {errTag e}"
           | .panic => "panic"
           | .hang => "hang")
     | none => (d, "bad-op"))
  | ["req", k, data] =>
    (match parseNat k, parseBytes data with
     | some k, some data =>
       if k = 0 then (d, "bad-op") else
       let r := requestHandler H staticTable k (St.fresh data)
       let herr := match r.2 with
         | .ok _ _ => "nil"
         | .err e _ => errTag e
         | .panic => "?"
         | .hang => "?"
       (d, s!"ok {connStr (finish r.2)} herr={herr} body={hexOfBytes r.1}")
     | _, _ => (d, "bad-op"))
  | toks =>
    if d.broken then (d, "skipped") else
    match toks with
    | ["hdr"] => run d (readFrameHeader d.st) toString
    | ["end"] => run d (endFrame d.st) (fun _ => "-")
    | ["data"] =>
      if d.st.lim > 65536 then (d, "skipped-big") else run d (readFrameData d.st) hexOfBytes
    | ["byte"] => run d (readByte d.st) toString
    | ["read", k] =>
      (match parseNat k with
       | some k => run d (read d.st k) (fun r => s!"{hexOfBytes r.1} eof={if r.2 then 1 else 0}")
       | none => (d, "bad-op"))
    | ["varint"] => run d (readVarint d.st) toString
    | ["discard"] => run d (discardFrame d.st) (fun _ => "-")
    | ["discardunk", ft] =>
      (match parseNat ft with
       | some ft => run d (discardUnknownFrame d.st ft) (fun _ => "-")
       | none => (d, "bad-op"))
    | ["settings"] => run d (readSettings d.st) settingsStr
    | ["bopen", remain] =>
      (match parseInt remain with
       | some r => if r ≥ -1 then ({ d with body := ⟨r, none⟩ }, "ok") else (d, "bad-op")
       | none => (d, "bad-op"))
    | ["bread", k] =>
      (match parseNat k with
       | some k =>
         (match bodyRead H staticTable d.body d.st k with
          | .done bs e b s =>
            ({ d with st := s, body := b },
             s!"ok {hexOfBytes bs} err={match e with | some e => errTag e | none => "nil"} {stateStr s}")
          | .panic => ({ d with broken := true }, "panic")
          | .hang => ({ d with broken := true }, "hang"))
       | none => (d, "bad-op"))
    | ["rest"] => if d.st.dead then (d, "ok dead") else (d, s!"ok {hexOfBytes d.st.data}")
    | _ => (d, "bad-op")

end NetVerif.Driver.C35

def main : IO Unit :=
  NetVerif.Driver.runLoop NetVerif.Driver.C35.step
    { st := NetVerif.Model.H3Stream.St.fresh [], body := ⟨-1, none⟩, broken := false }
