import NetVerif.Driver.FlowCommon
/-! Driver for C11 (same step function as C10: arithmetic D-tie and trace monitor). -/
open NetVerif.Driver NetVerif.Driver.Flow

def main : IO Unit := runLoop step {}
