/-
Line-protocol helpers shared by every model driver (core Lean only, so the
drivers link as native executables).
Protocol: one operation per input line, tokens separated by single spaces;
byte strings are `x<hex>` (or `-` for empty); one output line per input line.
-/
namespace NetVerif.Driver

def hexDigit (n : Nat) : Char :=
  if n < 10 then Char.ofNat (48 + n) else Char.ofNat (87 + n)

def hexOfBytes (bs : List Nat) : String :=
  if bs.isEmpty then "-" else
  "x" ++ String.ofList (bs.foldr (fun b acc => hexDigit (b / 16 % 16) :: hexDigit (b % 16) :: acc) [])

def hexVal (c : Char) : Option Nat :=
  if '0' ≤ c ∧ c ≤ '9' then some (c.toNat - 48)
  else if 'a' ≤ c ∧ c ≤ 'f' then some (c.toNat - 87)
  else if 'A' ≤ c ∧ c ≤ 'F' then some (c.toNat - 55)
  else none

def bytesOfHexChars : List Char → Option (List Nat)
  | [] => some []
  | [_] => none
  | a :: b :: rest => do
    let x ← hexVal a
    let y ← hexVal b
    let r ← bytesOfHexChars rest
    pure ((x * 16 + y) :: r)

/-- Parse `x<hex>` or `-`. -/
def parseBytes (s : String) : Option (List Nat) :=
  if s == "-" then some [] else
  match s.toList with
  | 'x' :: cs => bytesOfHexChars cs
  | _ => none

def parseNat (s : String) : Option Nat := s.toNat?

def parseInt (s : String) : Option Int := s.toInt?

def tokens (line : String) : List String :=
  (line.trimAscii.toString.splitOn " ").filter (· ≠ "")

def showInts (xs : List Int) : String := " ".intercalate (xs.map toString)
def showNats (xs : List Nat) : String := " ".intercalate (xs.map toString)

/-- Run a stateful line loop: `step s line = (s', output)`. -/
partial def lineLoop {σ : Type} (h : IO.FS.Stream) (out : IO.FS.Stream)
    (step : σ → String → σ × String) (s : σ) : IO Unit := do
  let line ← h.getLine
  if line.isEmpty then
    out.flush
    return ()
  let l := (line.dropEndWhile (fun c => c == '\n' || c == '\r')).toString
  if l.startsWith "#" then
    -- case separators / comments: echoed as a bare `#`, state untouched
    out.putStrLn "#"
    lineLoop h out step s
  else
    let (s', o) := step s l
    out.putStrLn o
    lineLoop h out step s'

def runLoop {σ : Type} (step : σ → String → σ × String) (init : σ) : IO Unit := do
  let stdin ← IO.getStdin
  let stdout ← IO.getStdout
  lineLoop stdin stdout step init

end NetVerif.Driver
