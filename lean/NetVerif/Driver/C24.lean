import NetVerif.Driver.Util
import NetVerif.Model.Rangeset
/-! Line-protocol driver for the rangeset model (C24). State: the current range list. -/
open NetVerif.Driver NetVerif.Model.Rangeset

def c24Show (l : RS) : String :=
  if l.isEmpty then "-" else ",".intercalate (l.map (fun r => s!"{r.s}:{r.e}"))

def c24Bool (b : Bool) : String := if b then "true" else "false"

def c24Step (l : RS) (line : String) : RS × String :=
  match tokens line with
  | ["reset"] => ([], "ok")
  | ["add", a, b] =>
    match parseInt a, parseInt b with
    | some a, some b => let l' := add l a b; (l', s!"ok {c24Show l'}")
    | _, _ => (l, "bad-op")
  | ["sub", a, b] =>
    match parseInt a, parseInt b with
    | some a, some b => let l' := sub l a b; (l', s!"ok {c24Show l'}")
    | _, _ => (l, "bad-op")
  | ["contains", v] =>
    match parseInt v with
    | some v => (l, s!"ok {c24Bool (contains l v)}")
    | none => (l, "bad-op")
  | ["rc", v] =>
    match parseInt v with
    | some v => let r := rangeContaining l v; (l, s!"ok {r.s} {r.e}")
    | none => (l, "bad-op")
  | ["q"] => (l, s!"ok {min l} {max l} {end_ l} {numRanges l} {size l}")
  | ["isrange", a, b] =>
    match parseInt a, parseInt b with
    | some a, some b => (l, s!"ok {c24Bool (isrange l a b)}")
    | _, _ => (l, "bad-op")
  | _ => (l, "bad-op")

def main : IO Unit := runLoop c24Step []
