import NetVerif.Driver.Util
import NetVerif.Model.StreamLimits
/-! Line-protocol driver for the stream-count limit model (C21). -/
open NetVerif.Driver NetVerif.Model.StreamLimits

structure C21State where
  loc : Option Local := none
  rem : Option Remote := none

def b01 (b : Bool) : Nat := if b then 1 else 0

def showLocal (l : Local) : String :=
  s!"max={l.max} opened={l.opened} gate={b01 l.gate}"

def showRemote (r : Remote) : String :=
  s!"max={r.max} opened={r.opened} closed={r.closed} maxopen={r.maxOpen} unsent={b01 r.sendUnsent}"

def c21Step (st : C21State) (line : String) : C21State × String :=
  match tokens line with
  | ["lreset"] =>
    let l := Local.init
    ({ st with loc := some l }, "ok " ++ showLocal l)
  | ["lopen"] =>
    match st.loc with
    | none => (st, "bad-op")
    | some l =>
      let (l', r) := l.open
      let res := match r with
        | .blocked => "err blocked"
        | .closed => "err closed"
        | .ok n => s!"ok {n}"
      ({ st with loc := some l' }, res ++ " " ++ showLocal l')
  | ["lsetmax", m] =>
    match st.loc, parseInt m with
    | some l, some m =>
      let l' := l.setMax m
      ({ st with loc := some l' }, "ok " ++ showLocal l')
    | _, _ => (st, "bad-op")
  | ["lclose"] =>
    match st.loc with
    | none => (st, "bad-op")
    | some l =>
      let l' := l.connHasClosed
      ({ st with loc := some l' }, "ok " ++ showLocal l')
  | ["lwas", n] =>
    match st.loc, parseInt n with
    | some l, some n =>
      let (l', w) := l.wasOpened n
      ({ st with loc := some l' }, s!"ok {w} " ++ showLocal l')
    | _, _ => (st, "bad-op")
  | ["rreset", typ, cfg] =>
    if typ ≠ "b" ∧ typ ≠ "u" then (st, "bad-op") else
    match parseInt cfg with
    | some v =>
      let r := Remote.init (maxRemoteStreams v)
      ({ st with rem := some r }, "ok " ++ showRemote r)
    | none => (st, "bad-op")
  | ["ropen", n] =>
    match st.rem, parseInt n with
    | some r, some n =>
      if n < 0 ∨ n ≥ maxStreamsLimit then (st, "bad-op") else
      let (r', ok) := r.open n
      ({ st with rem := some r' }, (if ok then "ok " else "err limit ") ++ showRemote r')
    | _, _ => (st, "bad-op")
  | ["rclose"] =>
    match st.rem with
    | none => (st, "bad-op")
    | some r =>
      if r.closed ≥ r.opened then (st, "skip " ++ showRemote r) else
      let r' := r.close
      ({ st with rem := some r' }, "ok " ++ showRemote r')
  | ["rsend"] =>
    match st.rem with
    | none => (st, "bad-op")
    | some r =>
      let (r', f) := r.appendFrame
      let res := match f with
        | some v => s!"ok frame {v} "
        | none => "ok none "
      ({ st with rem := some r' }, res ++ showRemote r')
  | _ => (st, "bad-op")

def main : IO Unit := runLoop c21Step {}
