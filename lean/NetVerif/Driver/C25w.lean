import NetVerif.Driver.Util
import NetVerif.Model.AckWire
/-! Monitor driver for the C25 wire tie (V-tie): prints `ok` or `reject <why>` per recorded event. -/
open NetVerif.Driver NetVerif.Model.AckWire

structure MState where
  space : Nat
  st : WState

def parseRange1 (s : String) : Option (Int × Int) :=
  match s.splitOn "-" with
  | [a, b] => match parseNat a, parseNat b with
    | some a, some b => some ((a : Int), (b : Int))
    | _, _ => none
  | _ => none

def parseRangesW (s : String) : Option (List (Int × Int)) :=
  if s == "-" then some [] else (s.splitOn ",").mapM parseRange1

/-- Fold the observation tokens of one line into an event; `none` = malformed. -/
def evOfTokens (space : Nat) : List String → Ev → Option Ev
  | [], e => some e
  | t :: ts, e =>
    match t.splitOn ":" with
    | ["p", n] => (parseNat n).bind fun n => evOfTokens space ts { e with arrival := some (n : Int) }
    | ["q", rs] => (parseRangesW rs).bind fun rs => evOfTokens space ts { e with peerAck := rs }
    | ["f", _] => evOfTokens space ts e
    | ["e", _] => evOfTokens space ts e
    | ["c", _] => evOfTokens space ts { e with challenge := true }
    | ["s", sp, n] =>
      match parseNat sp, parseNat n with
      | some sp, some n => evOfTokens space ts (if sp = space then { e with sent := e.sent ++ [(n : Int)] } else e)
      | _, _ => none
    | ["a", sp, rs] =>
      match parseNat sp, parseRangesW rs with
      | some sp, some rs => evOfTokens space ts (if sp = space then { e with acks := e.acks ++ [rs] } else e)
      | _, _ => none
    | ["r", tag] => (parseNat tag).bind fun tag => evOfTokens space ts { e with resp := e.resp ++ [((tag / 1048576 : Nat) : Int)] }
    | ["x", code] =>
      if code == "app" then evOfTokens space ts { e with close := some 999999 }
      else (parseNat code).bind fun c => evOfTokens space ts { e with close := some c }
    | ["-"] => evOfTokens space ts e
    | _ => none

def why (st : WState) (e : Ev) : String :=
  if !(e.acks.all fun f => f.all fun r => allIn r.1 r.2 fun n => (arrivedAfter st e).contains n) then
    "ack-frame-acknowledges-a-packet-that-never-arrived"
  else if !((e.resp.all fun pn => !(st.procd.contains pn)) && nodupB e.resp) then "packet-number-processed-twice"
  else if !(if e.challenge && isFresh st e then (match e.arrival with | some p => e.resp.contains p | none => true) else true) then
    "fresh-packet-not-processed"
  else "peer-ack-of-never-sent-number-and-protocol-violation-close-disagree"

def c25wStep (ms : Option MState) (line : String) : Option MState × String :=
  match line.splitOn "=>" with
  | [op, obs] =>
    let optoks := tokens op
    let otoks := tokens obs
    if otoks == ["dead"] ∨ otoks == ["bad-op"] ∨ otoks == ["aborted"] ∨ otoks == ["timeout"] then (ms, "ok") else
    match optoks with
    | "reset" :: _ =>
      -- n:<space>:<N> h:<space>:<ranges>
      let ns := otoks.filterMap fun t => match t.splitOn ":" with
        | ["n", sp, n] => match parseNat sp, parseNat n with | some sp, some n => some (sp, (n : Int)) | _, _ => none
        | _ => none
      let hs := otoks.filterMap fun t => match t.splitOn ":" with
        | ["h", _, rs] => parseRangesW rs
        | _ => none
      match ns, hs with
      | [(sp, n)], [h] =>
        let arrived := h.flatMap fun r => (List.range (r.2 - r.1).toNat).map fun (i : Nat) => r.1 + (i : Int)
        (some { space := sp, st := { arrived := arrived, sent := [], sentLow := n, procd := [] } }, "ok")
      | _, _ => (ms, "reject malformed-reset")
    | _ =>
      match ms with
      | none => (ms, "reject event-before-reset")
      | some m =>
        match evOfTokens m.space otoks {} with
        | none => (ms, "reject malformed-observation")
        | some e =>
          let out := if check m.st e then "ok" else "reject " ++ why m.st e
          (some { m with st := next m.st e }, out)
  | _ => (ms, "reject malformed-line")

def main : IO Unit := runLoop c25wStep none
