import NetVerif.Driver.Util
import NetVerif.Model.WebdavCopyMove
/-! Line-protocol driver for the COPY/MOVE handler model over the memFS model (C46).

Ops (paths are `p:<text>` tokens):
  reset <prefix>                                  → ok
  mkdir <path> | put <path> <hex>                 → ok | err
  lock <path> <0|1 zeroDepth>                     → ok <index> | err
  copy|move <src> <none|same|other|absent|invalid> <dst> <-|T|F|X> <-|0|1|infinity|bad> <-|i,j,…>
                                                  → ok <status> <snapshot>
-/
open NetVerif.Driver NetVerif.Model.FS NetVerif.Model.WebdavCopyMove

structure C46State where
  pre : List Nat := []
  tree : Tree := []
  locks : List (Option Lock) := []

def bytesOfString (s : String) : List Nat := s.toUTF8.toList.map (·.toNat)

def parsePathTok (s : String) : Option (List Nat) :=
  if s.startsWith "p:" then some (bytesOfString (s.drop 2).toString) else none

def strOfName (n : Name) : String := String.ofList (n.map Char.ofNat)

def pathString (p : Path) : String := p.foldl (fun acc c => acc ++ "/" ++ strOfName c) ""

def pathKey (p : Path) : Name := p.foldr (fun c acc => 47 :: c ++ acc) []

def insertEntry (e : Path × Entry) : List (Path × Entry) → List (Path × Entry)
  | [] => [e]
  | m :: ms => if nameLt (pathKey m.1) (pathKey e.1) then m :: insertEntry e ms else e :: m :: ms

/-- Canonical snapshot: entries sorted by path text. -/
def snapshot (t : Tree) : String :=
  if t.isEmpty then "-" else
  ",".intercalate ((t.foldr insertEntry []).map (fun e =>
    match e.2 with
    | .dir => pathString e.1 ++ "=d"
    | .file data => pathString e.1 ++ "=f:" ++ hexOfBytes data))

def parseOverwrite : String → Option Overwrite
  | "-" => some .absent | "T" => some .t | "F" => some .f | "X" => some .other | _ => none

def parseDepthTok : String → Option Depth
  | "-" => some .absent | "0" => some .zero | "1" => some .one
  | "infinity" => some .infinity | "bad" => some .invalid | _ => none

def parseIf (s : String) : Option (Option (List Nat)) :=
  if s == "-" then some none
  else ((s.splitOn ",").mapM (fun (x : String) => x.toNat?)).map some

def parseDest (h : String) (p : List Nat) : Option Dest :=
  match h with
  | "none" => some (.parsed .none p)
  | "same" => some (.parsed .same p)
  | "other" => some (.parsed .other p)
  | "absent" => some .absent
  | "invalid" => some .invalid
  | _ => none

def c46Step (s : C46State) (line : String) : C46State × String :=
  match tokens line with
  | ["reset", pre] =>
    if pre == "-" then ({}, "ok") else ({ pre := bytesOfString pre }, "ok")
  | ["mkdir", p] =>
    match parsePathTok p with
    | none => (s, "bad-op")
    | some p =>
      match Mem.mkdir s.tree (clean p) with
      | .ok t => ({ s with tree := t }, "ok")
      | .error _ => (s, "err")
  | ["put", p, d] =>
    match parsePathTok p, parseBytes d with
    | some p, some d =>
      match Mem.openFile s.tree (clean p) Mem.rdwrCreateTrunc with
      | .error _ => (s, "err")
      | .ok (t, info) =>
        if info.isDir then ({ s with tree := t }, "err")
        else ({ s with tree := setEntry t (clean p) (.file d) }, "ok")
    | _, _ => (s, "bad-op")
  | ["lock", p, zd] =>
    match parsePathTok p with
    | none => (s, "bad-op")
    | some p =>
      let zd := zd == "1"
      if canCreate (s.locks.filterMap id) (clean p) zd then
        ({ s with locks := s.locks ++ [some ⟨clean p, zd⟩] }, s!"ok {s.locks.length}")
      else (s, "err")
  | [m, src, host, dst, ow, depth, ift] =>
    if m != "copy" && m != "move" then (s, "bad-op") else
    match parsePathTok src, parsePathTok dst, parseOverwrite ow, parseDepthTok depth, parseIf ift with
    | some src, some dst, some ow, some depth, some ift =>
      match parseDest host dst with
      | none => (s, "bad-op")
      | some dest =>
        let req : Req := { isMove := m == "move", path := src, dest := dest, overwrite := ow,
                           depth := depth, ifTokens := ift }
        let r := handle (memGate s.locks) s.pre s.tree req
        ({ s with tree := r.1 }, s!"ok {r.2} {snapshot r.1}")
    | _, _, _, _, _ => (s, "bad-op")
  | _ => (s, "bad-op")

def main : IO Unit := runLoop c46Step {}
