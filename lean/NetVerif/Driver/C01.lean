import NetVerif.Driver.Util
import NetVerif.Model.HpackEnc
/-! Line-protocol driver for the HPACK encoder model paired with the decoder model (C01 and C05).
State: one encoder and one decoder (`NewDecoder(4096)` + `SetAllowedMaxDynamicTableSize(A)`).

ops:  reset <A>
      setmax <v> | setlimit <v>                 -> ok ET <enc state>
      wf <name> <value> <0|1>                   WriteField, then Decoder.Write of exactly those bytes
          -> (ok | err <Tag>) B <bytes> E <emits> ET <enc state> DT <dec state>
      end                                       Decoder.Close
          -> (ok | err <Tag>) DT <dec state>
      search <name> <value> <0|1>               -> ok <idx> <0|1>
enc state: <size> <maxSize> <minSize> <maxSizeLimit> <tableSizeUpdate> <entries newest first>
dec state: <size> <maxSize> <allowedMax> <entries newest first> <firstField>
-/
open NetVerif.Driver NetVerif.Model.Hpack NetVerif.Model.HpackEnc

namespace C01Drv

def errTag : PErr → String
  | .needMore => "NeedMore"
  | .invalidIndex => "InvalidIndex"
  | .huffman => "Huffman"
  | .strLen => "StringLength"
  | .strLenParanoia => "StringLength"
  | .tableUpdateTooLarge => "UpdateTooLarge"
  | .updateNotAtStart => "UpdateNotAtStart"
  | .varintOverflow => "VarintOverflow"
  | .invalidEncoding => "InvalidEncoding"
  | .truncated => "Truncated"
  | .internal => "Internal"

def hexRaw (bs : List Nat) : String :=
  String.ofList (bs.foldr (fun b acc => hexDigit (b / 16 % 16) :: hexDigit (b % 16) :: acc) [])

def showField (f : Field) : String :=
  s!"{hexRaw f.name}:{hexRaw f.value}:{if f.sensitive then 1 else 0}"

def showEmits (em : List Field) : String :=
  if em.isEmpty then "-" else ",".intercalate (em.map showField)

def showEntries (es : List Entry) : String :=
  if es.isEmpty then "-" else ",".intercalate (es.map fun e => s!"{hexRaw e.1}:{hexRaw e.2}")

def showEnc (e : Encoder) : String :=
  s!"ET {e.dyn.size} {e.dyn.maxSize} {e.minSize} {e.maxSizeLimit} {if e.tableSizeUpdate then 1 else 0} {showEntries e.dyn.ents}"

def showDec (d : Decoder) : String :=
  s!"DT {d.dyn.size} {d.dyn.maxSize} {d.dyn.allowedMaxSize} {showEntries d.dyn.ents} {if d.firstField then 1 else 0} {if d.emitEnabled then 1 else 0}"

def head (e : Option PErr) : String :=
  match e with
  | none => "ok"
  | some e => s!"err {errTag e}"

structure St where
  enc : Encoder
  dec : Decoder
  /-- the emit callback is armed: at the next emitted field it calls `SetEmitEnabled(false)` -/
  cbOff : Bool := false

def parseFlag (s : String) : Option Bool :=
  if s == "0" then some false else if s == "1" then some true else none

def step (st : Option St) (line : String) : Option St × String :=
  match tokens line, st with
  | ["reset", a], _ =>
    match parseNat a with
    | some a => (some { enc := Encoder.new, dec := (Decoder.new 4096).setAllowedMaxDynamicTableSize a }, "ok")
    | none => (st, "bad-op")
  | ["setmax", v], some s =>
    match parseNat v with
    | some v => let e := s.enc.setMaxDynamicTableSize v; (some { s with enc := e }, s!"ok {showEnc e}")
    | none => (st, "bad-op")
  | ["setlimit", v], some s =>
    match parseNat v with
    | some v => let e := s.enc.setMaxDynamicTableSizeLimit v; (some { s with enc := e }, s!"ok {showEnc e}")
    | none => (st, "bad-op")
  | ["wf", n, v, sf], some s =>
    match parseBytes n, parseBytes v, parseFlag sf with
    | some n, some v, some sf =>
      let r := s.enc.writeField { name := n, value := v, sensitive := sf }
      let w := s.dec.write r.2
      -- one field per Write: "the callback disables emission when it sees the field" is
      -- SetEmitEnabled(false) right after that Write
      let fired := s.cbOff && !w.2.1.isEmpty
      let dec1 := if fired then w.1.setEmitEnabled false else w.1
      let w := (dec1, w.2)
      (some { enc := r.1, dec := w.1, cbOff := s.cbOff && !fired },
       s!"{head w.2.2} B {hexOfBytes r.2} E {showEmits w.2.1} {showEnc r.1} {showDec w.1}")
    | _, _, _ => (st, "bad-op")
  | ["emit", v], some s =>
    match parseFlag v with
    | some b => (some { s with dec := s.dec.setEmitEnabled b }, "ok")
    | none => (st, "bad-op")
  | ["cboff"], some s => (some { s with cbOff := true }, "ok")
  | ["end"], some s =>
    let r := s.dec.close
    (some { s with dec := r.1 }, s!"{head r.2} {showDec r.1}")
  | ["search", n, v, sf], some s =>
    match parseBytes n, parseBytes v, parseFlag sf with
    | some n, some v, some sf =>
      let r := s.enc.searchTable { name := n, value := v, sensitive := sf }
      (st, s!"ok {r.1} {if r.2 then 1 else 0}")
    | _, _, _ => (st, "bad-op")
  | _, _ => (st, "bad-op")

end C01Drv

def main : IO Unit := runLoop C01Drv.step none
