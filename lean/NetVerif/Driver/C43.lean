import NetVerif.Driver.Util
import NetVerif.Model.DavLock
/-! Line-protocol driver for the webdav lock models (C43). Runs the implementation model
(`MemLS`) and the specification state machine (`Spec`) side by side on every op; the printed
result is the implementation model's, and any disagreement between the two models is printed as
`SPLIT …` (which can never equal a real result line).

    reset
    create <now> <root> <zeroDepth 0|1> <duration>     -> ok <token#> | err Locked
    refresh <now> <tok> <duration>                     -> ok <root> <zd> <duration> | err NoSuchLock | err Locked
    unlock <now> <tok>                                 -> ok | err NoSuchLock | err Locked
    confirm <now> <name0> <name1> <tok>*               -> ok <hold#> | err ConfirmationFailed
    release <hold#>                                    -> ok | err NoHold

names are hex tokens (`-` = empty); `<tok>` is `t<k>` (k-th created token; unknown until
created) or `-` (the empty token string). -/
open NetVerif.Driver NetVerif.Model.DavPath NetVerif.Model.DavLock

def c43ShowRes : Res → String
  | .created t => s!"ok {t}"
  | .refreshed root zd dur => s!"ok {hexOfBytes (47 :: joinSlash root)} {if zd then 1 else 0} {dur}"
  | .ok => "ok"
  | .confirmed k => s!"ok {k}"
  | .errLocked => "err Locked"
  | .errNoSuchLock => "err NoSuchLock"
  | .errConfirmationFailed => "err ConfirmationFailed"
  | .errNoHold => "err NoHold"

def c43ParseTok (s : String) : Option (Option Nat) :=
  if s == "-" then some none
  else match s.toList with
    | 't' :: ds => (String.ofList ds).toNat?.map some
    | _ => none

def c43ParseToks : List String → Option (List (Option Nat))
  | [] => some []
  | s :: ss => do
    let t ← c43ParseTok s
    let ts ← c43ParseToks ss
    pure (t :: ts)

def c43ParseBool (s : String) : Option Bool :=
  if s == "0" then some false else if s == "1" then some true else none

def c43ParseOp : List String → Option Op
  | ["create", now, root, zd, dur] => do
    pure (.create (← parseInt now) (← parseBytes root) (← c43ParseBool zd) (← parseInt dur))
  | ["refresh", now, tok, dur] => do
    pure (.refresh (← parseInt now) (← c43ParseTok tok) (← parseInt dur))
  | ["unlock", now, tok] => do
    pure (.unlock (← parseInt now) (← c43ParseTok tok))
  | "confirm" :: now :: n0 :: n1 :: toks => do
    pure (.confirm (← parseInt now) (← parseBytes n0) (← parseBytes n1) (← c43ParseToks toks))
  | ["release", k] => do
    pure (.release (← parseNat k))
  | _ => none

def c43Step (st : MemLS × Spec) (line : String) : (MemLS × Spec) × String :=
  match tokens line with
  | ["reset"] => ((MemLS.init, Spec.init), "ok")
  | ts =>
    match c43ParseOp ts with
    | none => (st, "bad-op")
    | some op =>
      let (m, r) := st.1.step op
      let (s, r') := st.2.step op
      let out := if r = r' then c43ShowRes r else s!"SPLIT impl-model={c43ShowRes r} spec={c43ShowRes r'}"
      ((m, s), out)

def main : IO Unit := runLoop c43Step (MemLS.init, Spec.init)
