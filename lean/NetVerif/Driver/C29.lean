import NetVerif.Driver.Util
import NetVerif.Model.ChanSemMonitor
/-! Trace monitor driver for C29 (gate and queue stress traces). -/
open NetVerif.Driver NetVerif.Model.ChanSemMonitor

inductive C29State where
  | idle
  | gate (m : GMon)
  | queue (m : QMon)

def c29Bool (s : String) : Option Bool :=
  if s == "1" then some true else if s == "0" then some false else none

def c29How (s : String) : Option Nat :=
  if s == "lock" then some 0 else if s == "lockIfSet" then some 1
  else if s == "waitAndLock" then some 2 else none

def c29GateEv (ts : List String) : Option GEv :=
  match ts with
  | ["acq", g, h, b] => do
    let g ← parseNat g; let h ← c29How h; let b ← c29Bool b
    pure (.acq g h b)
  | ["rel", g, b] => do
    let g ← parseNat g; let b ← c29Bool b
    pure (.rel g b)
  | ["miss", g, h] => do
    let g ← parseNat g; let _ ← c29How h
    pure (.miss g)
  | ["end"] => some .fin
  | _ => none

def c29QueueEv (ts : List String) : Option QEv :=
  match ts with
  | ["pinv", p, k] => do pure (.pinv (← parseNat p) (← parseNat k))
  | ["pret", p, k, b] => do pure (.pret (← parseNat p) (← parseNat k) (← c29Bool b))
  | ["ginv", c] => do pure (.ginv (← parseNat c))
  | ["gret", c, "item", p, k] => do pure (.gitem (← parseNat c) (← parseNat p) (← parseNat k))
  | ["gret", c, "closed"] => do pure (.gclosed (← parseNat c))
  | ["gret", c, "ctx"] => do pure (.gctx (← parseNat c))
  | ["cinv"] => some .cinv
  | ["cret"] => some .cret
  | ["end", b] => do pure (.fin (← c29Bool b))
  | _ => none

def c29Step (st : C29State) (line : String) : C29State × String :=
  match tokens line with
  | ["run", "gate", _, _, init, _] =>
    match c29Bool init with
    | some b => (.gate { holder := none, cond := b }, "ok")
    | none => (.idle, "bad-op")
  | ["run", "queue", _, _, _, _, _] => (.queue {}, "ok")
  | ["run", "qlong", _, _, _, _] => (.queue {}, "ok")
  | ts =>
    match st with
    | .idle => (st, "bad-op")
    | .gate m =>
      match c29GateEv ts with
      | none => (st, "bad-op")
      | some e =>
        match m.step e with
        | .ok m' => (.gate m', "ok")
        | .error why => (st, "reject " ++ why)
    | .queue m =>
      match c29QueueEv ts with
      | none => (st, "bad-op")
      | some e =>
        match m.step e with
        | .ok m' => (.queue m', "ok")
        | .error why => (st, "reject " ++ why)

def main : IO Unit := runLoop c29Step .idle
