import NetVerif.Driver.Util
import NetVerif.Model.HtmlNode
/-!
Driver for C41.

D-tie (node ops on a small store, ids 0..k-1):
  reset k | append n c | insert n c <old|-> | remove n c | poke i <parent|first|last|prev|next> <v|-> | wf
  → `ok <dump>` / `panic` / `ok consistent=b acyclic=b`
V-tie (monitor for trees returned by Parse / ParseFragment):
  tree <config…> | node id type parent first last prev next | check n | abort <why>
  → `ok` / `reject <why>`
-/
open NetVerif.Driver NetVerif.Model.HtmlNode

structure C41State where
  k : Nat := 0
  store : Store := Store.empty
  recs : Array Rec := #[]

def parsePtr (s : String) : Option Ptr :=
  if s == "-" then some none else (parseNat s).map some

def ptrInRange (k : Nat) : Ptr → Bool
  | some o => decide (o < k)
  | none => true

def showPtr : Ptr → String
  | none => "-"
  | some n => toString n

def dump (k : Nat) (s : Store) : String :=
  ";".intercalate ((List.range k).map fun i =>
    ",".intercalate [showPtr (s.parent i), showPtr (s.first i), showPtr (s.last i), showPtr (s.prev i), showPtr (s.next i)])

def b2s (b : Bool) : String := if b then "1" else "0"

def opResult (k : Nat) (st : C41State) (r : Option Store) : C41State × String :=
  match r with
  | some s' => ({ st with store := s' }, "ok " ++ dump k s')
  | none => (st, "panic")

def c41Step (st : C41State) (line : String) : C41State × String :=
  match tokens line with
  | ["reset", k] =>
    match parseNat k with
    | some k => ({ st with k := k, store := Store.empty }, "ok")
    | none => (st, "bad-op")
  | ["append", n, c] =>
    match parseNat n, parseNat c with
    | some n, some c => if n < st.k ∧ c < st.k then opResult st.k st (appendChild st.store n c) else (st, "bad-op")
    | _, _ => (st, "bad-op")
  | ["insert", n, c, o] =>
    match parseNat n, parseNat c, parsePtr o with
    | some n, some c, some o =>
      if n < st.k ∧ c < st.k ∧ ptrInRange st.k o = true then
        opResult st.k st (insertBefore st.store n c o) else (st, "bad-op")
    | _, _, _ => (st, "bad-op")
  | ["remove", n, c] =>
    match parseNat n, parseNat c with
    | some n, some c => if n < st.k ∧ c < st.k then opResult st.k st (removeChild st.store n c) else (st, "bad-op")
    | _, _ => (st, "bad-op")
  | ["poke", i, f, v] =>
    match parseNat i, parsePtr v with
    | some i, some v =>
      if i < st.k ∧ ptrInRange st.k v = true then
        let s := st.store
        let s' : Option Store :=
          if f == "parent" then some { s with parent := upd s.parent i v }
          else if f == "first" then some { s with first := upd s.first i v }
          else if f == "last" then some { s with last := upd s.last i v }
          else if f == "prev" then some { s with prev := upd s.prev i v }
          else if f == "next" then some { s with next := upd s.next i v }
          else none
        match s' with
        | some s' => ({ st with store := s' }, "ok " ++ dump st.k s')
        | none => (st, "bad-op")
      else (st, "bad-op")
    | _, _ => (st, "bad-op")
  | ["wf"] =>
    let s := st.store
    let ids := List.range st.k
    let cons := ids.all (fun x => localOK s x)
    let acyc := ids.all (fun x => chainEnds s.parent st.k x && chainEnds s.next st.k x && chainEnds s.prev st.k x)
    (st, s!"ok consistent={b2s cons} acyclic={b2s acyc}")
  | "tree" :: _ => ({ st with recs := #[] }, "ok")
  | ["node", id, ty, p, f, l, pv, nx] =>
    match parseNat id, parseNat ty, parsePtr p, parsePtr f, parsePtr l, parsePtr pv, parsePtr nx with
    | some id, some ty, some p, some f, some l, some pv, some nx =>
      if id ≠ st.recs.size then (st, "reject node-id-out-of-order")
      else ({ st with recs := st.recs.push { ty := ty, parent := p, first := f, last := l, prev := pv, next := nx } }, "ok")
    | _, _, _, _, _, _, _ => (st, "bad-op")
  | ["check", n] =>
    match parseNat n with
    | some n =>
      let l := st.recs.toList
      if n ≠ l.length then (st, "reject node-count") else
      if wfTree l then (st, "ok") else (st, "reject " ++ wfTreeWhy l)
    | none => (st, "bad-op")
  | "abort" :: _ => (st, "reject implementation-did-not-return-a-tree")
  | _ => (st, "bad-op")

def main : IO Unit := runLoop c41Step {}
