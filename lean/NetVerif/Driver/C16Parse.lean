import NetVerif.Driver.H2Common
import NetVerif.Model.H2FrameParse
/-! Driver for the C16 `parse` tie: the checked frame-decoder model, result for result. -/
open NetVerif.Driver NetVerif.Driver.H2 NetVerif.Model.H2Frame NetVerif.Model.H2FrameParse

namespace NetVerif.Driver.C16Parse

def showItems : List Item → List String
  | [] => []
  | .frame fh _ :: r => s!"f:{fh.type}:{fh.length}:{9 + fh.length}" :: showItems r
  | .tooLarge _ :: r => "toolarge" :: showItems r
  | .short :: r => "short" :: showItems r
  | .panic :: r => "PANIC" :: showItems r

def endsOpen : List Item → Bool
  | [] => true
  | [.frame _ _] => true
  | [_] => false
  | _ :: r => endsOpen r

def step (st : Unit) (line : String) : Unit × String :=
  match tokens line with
  | ["pf", hdr, payload] =>
    match parseBytes hdr, parsePayload payload with
    | some h, some p =>
      if h.length ≠ 9 then (st, "bad-op") else
      match readFrameHeader h with
      | none => (st, "panic")
      | some fh =>
        match NetVerif.Model.H2FrameParse.parseFrame fh p with
        | none => (st, "panic")
        | some r => (st, showRead r)
    | _, _ => (st, "bad-op")
  | ["rf", max, bs] =>
    match max.toNat?, parsePayload bs with
    | some m, some b =>
      if m > 16777216 then (st, "bad-op") else
      let m' := setMaxReadFrameSize m
      let (items, _) := readFrames m' (b.length + 1) b
      let toks := showItems items ++ (if endsOpen items then ["eof"] else [])
      (st, "ok " ++ " ".intercalate toks)
    | _, _ => (st, "bad-op")
  | _ => (st, "bad-op")

end NetVerif.Driver.C16Parse

def main : IO Unit := NetVerif.Driver.runLoop NetVerif.Driver.C16Parse.step ()
