import NetVerif.Driver.SendWinStep
/-! Driver for C08: trace monitor for the server's outbound flow control. -/
open NetVerif.Driver NetVerif.Driver.SendWin

def main : IO Unit := runLoop step none
