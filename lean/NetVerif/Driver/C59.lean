import NetVerif.Driver.Util
import NetVerif.Model.WebSocket
/-! Line-protocol driver for the WebSocket model (C59). Stateless ops. -/
open NetVerif.Driver NetVerif.Model.WebSocket

def showMask : Option (List Nat) → String
  | none => "none"
  | some k => hexOfBytes k

def parseMask (s : String) : Option (Option (List Nat)) :=
  if s == "none" then some none else (parseBytes s).map some

def showRes : RecvResult → String
  | .msg t d => s!"M{t}:{hexOfBytes d}"
  | .tooLarge => "TOOLARGE"
  | .eof => "EOF"
  | .err => "ERR"

def showWritten (w : Nat × List Nat × Bool) : String :=
  s!"W{w.1}:{if w.2.2 then 1 else 0}:{hexOfBytes w.2.1}"

def c59Step (_ : Unit) (line : String) : Unit × String :=
  let out : String :=
    match tokens line with
    | ["wframe", fin, rsv, op, key, msg] =>
      match parseNat fin, parseNat rsv, parseNat op, parseMask key, parseBytes msg with
      | some fin, some rsv, some op, some key, some msg =>
        (match writeFrame (fin == 1) rsv op key msg with
         | some bs => s!"ok {hexOfBytes bs}"
         | none => "err badkey")
      | _, _, _, _, _ => "bad-op"
    | ["rframe", b] =>
      match parseBytes b with
      | some b =>
        (match readFrame b with
         | some (h, payload, rest) =>
           s!"ok {if h.fin then 1 else 0} {h.rsv} {h.op} {h.len} {showMask h.mask} {hexOfBytes payload} {hexOfBytes rest}"
         | none => "err")
      | none => "bad-op"
    | ["send", role, typ, b] =>
      match parseNat typ, parseBytes b with
      | some typ, some b =>
        if role == "server" || role == "client" then
          let c := handlerWrite (newConn (role == "server") 0 []) typ b
          match c.written with
          | [w] => s!"ok {w.1} {if w.2.2 then 1 else 0} 1 {hexOfBytes w.2.1}"
          | _ => "err"
        else "bad-op"
      | _, _ => "bad-op"
    | ["session", role, mx, n, b] =>
      match parseNat mx, parseNat n, parseBytes b with
      | some mx, some n, some b =>
        if role == "server" || role == "client" then
          let (rs, c) := receiveN n (newConn (role == "server") mx b)
          "ok " ++ " ".intercalate (rs.map showRes) ++ " |" ++
            String.join (c.written.map (fun w => " " ++ showWritten w))
        else "bad-op"
      | _, _, _ => "bad-op"
    | _ => "bad-op"
  ((), out)

def main : IO Unit := runLoop c59Step ()
