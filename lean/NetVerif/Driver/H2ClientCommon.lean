import NetVerif.Driver.Util
import NetVerif.Model.H2Client
/-!
Line parser shared by the C17 and C18 drivers: a line is `<action> [=> <observations>]` as
recorded by harness/C17/rig_test.go; it becomes a list of `Ev` (the scripted action first,
then the observations in recorded order, then `eol`).
-/
namespace NetVerif.Driver.H2Client
open NetVerif.Driver NetVerif.Model.H2Client

def parseBool (s : String) : Option Bool :=
  if s == "1" then some true else if s == "0" then some false else none

def parseDone (s : String) : DoneK :=
  if s.startsWith "s" then .status
  else if s == "canceled" then .canceled
  else if s.startsWith "rst" then .rst
  else if s == "goawayconn" then .goAwayConn
  else if s == "goawayfirst" then .goAwayFirst
  else if s == "noreplay" then .noReplay
  else if s == "gotgoaway" then .gotGoAway
  else if s == "ueof" || s == "eof" then .connErr
  else .other

inductive Parsed where
  | reset (strict : Bool)
  | evs (l : List Ev)
  | bad

def parseObs (tok : String) : Option Ev :=
  match tok.splitOn ":" with
  | ["pick", r, c, f] => do pure (.pick (← parseNat r) (← parseNat c) (← parseBool f))
  | ["hdr", c, id, r, es] => do pure (.hdr (← parseNat c) (← parseNat id) (← parseNat r) (← parseBool es))
  | ["cend", c, id] => do pure (.cend (← parseNat c) (← parseNat id))
  | ["crst", c, id, code] => do pure (.crst (← parseNat c) (← parseNat id) (← parseNat code))
  | ["ping", c] => do pure (.ping (← parseNat c))
  | ["done", r, k] => do pure (.done (← parseNat r) (parseDone k))
  | ["body", r, k] => do pure (.body (← parseNat r) (parseDone k))
  | ["st", c, n, res, pr, mx, nx] => do
      let res ← if res == "-" then some none else (parseNat res).map some
      pure (.snap (← parseNat c) (← parseNat n) res (← parseNat pr) (← parseNat mx) (← parseNat nx))
  | ["newconn", _] => some .other
  | ["closed", _] => some .other
  | ["cgoaway", _] => some .other
  | ["pickerr", _] => some .other
  | ["skip"] => some .other
  | _ => none

def parseOptNat (s : String) : Option (Option Nat) :=
  if s == "-1" then some none else (parseNat s).map some

def parseAct : List String → Option (List Ev)
  | ["req", r, k] => do
      let k ← parseNat k
      let b ← if k = 0 then some BodyK.none else if k = 1 then some BodyK.once else if k = 2 then some BodyK.replayable else none
      pure [.req (← parseNat r) b]
  | ["cancel", r] => do pure [.cancel (← parseNat r)]
  | ["bodyend", r] => do let _ ← parseNat r; pure []
  | ["closebody", r] => do let _ ← parseNat r; pure []
  | ["readbody", r] => do let _ ← parseNat r; pure []
  | ["tick"] => some []
  | ["greet", c, m] => do pure [.setMax (← parseNat c) (← parseOptNat m)]
  | ["set", c, m] => do pure [.setMax (← parseNat c) (← parseOptNat m)]
  | ["resp", c, id, es] => do pure [.sresp (← parseNat c) (← parseNat id) (← parseBool es)]
  | ["sdata", c, id] => do pure [.sdata (← parseNat c) (← parseNat id)]
  | ["srst", c, id, code] => do pure [.srst (← parseNat c) (← parseNat id) (← parseNat code)]
  | ["pingack", c] => do pure [.pingAck (← parseNat c)]
  | ["goaway", c, l, code] => do pure [.goaway (← parseNat c) (← parseNat l) (← parseNat code)]
  | ["closeconn", c] => do pure [.sclose (← parseNat c)]
  | _ => none

def splitArrow (toks : List String) : List String × List String :=
  (toks.takeWhile (· ≠ "=>"), (toks.dropWhile (· ≠ "=>")).drop 1)

def parseLine (line : String) : Parsed :=
  let (act, obs) := splitArrow (tokens line)
  match act with
  | ["reset", s] => match parseBool s with | some b => .reset b | none => .bad
  | _ =>
    match parseAct act with
    | none => .bad
    | some a =>
      match obs.mapM parseObs with
      | none => .bad
      | some os =>
        -- a skipped step performed nothing: only the observations count
        let a := if obs.contains "skip" then [] else a
        .evs (a ++ os ++ [.eol])

end NetVerif.Driver.H2Client
