import NetVerif.Driver.H2ClientCommon
/-! Driver for C18: GOAWAY trace monitor + differential lines for canRetryError / shouldRetryRequest. -/
open NetVerif.Driver NetVerif.Driver.H2Client NetVerif.Model.H2Client

structure C18St where
  mon : Option S18 := none
  dead : Bool := false

def retryLine (k e : String) : Option String := do
  let b ← if k == "0" || k == "3" then some BodyK.none else if k == "1" then some BodyK.once
          else if k == "2" then some BodyK.replayable else none
  let err ← if e == "gotgoaway" then some ErrK.gotGoAway else if e == "unusable" then some ErrK.unusable
          else if e == "refused" then some ErrK.refusedStream
          else if e == "rstcancel" || e == "goawayconn" || e == "notestablished" || e == "eof" then some ErrK.other
          else none
  let f := fun (x : Bool) => if x then "1" else "0"
  pure s!"ok {f (canRetryError err)} {f (shouldRetry b err)}"

def c18Step (s : C18St) (line : String) : C18St × String :=
  match tokens line with
  | ["retryq", k, e] => (s, (retryLine k e).getD "bad-op")
  | _ =>
  match parseLine line with
  | .bad => (s, "bad-op")
  | .reset b =>
    match s.mon with
    | some _ => (s, if s.dead then "reject earlier" else "ok")
    | none => ({ mon := some { strict := b }, dead := false }, "ok")
  | .evs l =>
    match s.mon with
    | none => (s, "ok")
    | some m =>
      if s.dead then (s, "reject earlier")
      else match run18 m l with
        | .ok m' => ({ s with mon := some m' }, "ok")
        | .error why => ({ s with dead := true }, s!"reject {why}")

partial def c18Loop (stdin stdout : IO.FS.Stream) (s : C18St) : IO Unit := do
  let line ← stdin.getLine
  if line.isEmpty then
    stdout.flush
    return ()
  let l := (line.dropEndWhile (fun c => c == '\n' || c == '\r')).toString
  if l.startsWith "#" then
    stdout.putStrLn "#"
    c18Loop stdin stdout {}
  else
    let (s', o) := c18Step s l
    stdout.putStrLn o
    c18Loop stdin stdout s'

def main : IO Unit := do
  c18Loop (← IO.getStdin) (← IO.getStdout) {}
