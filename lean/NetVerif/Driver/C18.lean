import NetVerif.Driver.H2ClientCommon
/-! Driver for C18: GOAWAY trace monitor + differential lines for canRetryError / shouldRetryRequest. -/
open NetVerif.Driver NetVerif.Driver.H2Client NetVerif.Model.H2Client

structure C18St where
  mon : Option S18 := none
  dead : Bool := false

/-- Driver-level optimisation (semantically the identity on indices < 64, the only ones the
harness uses: larger connection / request numbers are `bad-op`): the function-valued fields of
the monitor state are rebuilt as table look-ups after every line so that look-ups do not walk
the whole history of the case. -/
def tab {α : Type} (f : Nat → α) (dflt : α) : IO (Nat → α) := do
  let arr ← pure ((Array.range 64).map f)
  pure (fun k => arr.getD k dflt)

def compact (s : S18) : IO S18 := do
  let w ← tab s.w {}
  let owner ← tab s.owner []
  let gaCode ← tab s.gaCode 0
  let rs ← tab s.rs {}
  pure { s with w := w, owner := owner, gaCode := gaCode, rs := rs }

def evIndexOK : Ev → Bool
  | .req r _ => r < 64
  | .cancel r => r < 64
  | .pick r c _ => r < 64 && c < 64
  | .hdr c _ r _ => r < 64 && c < 64
  | .cend c _ => c < 64
  | .crst c _ _ => c < 64
  | .ping c => c < 64
  | .sresp c _ _ => c < 64
  | .sdata c _ => c < 64
  | .srst c _ _ => c < 64
  | .setMax c _ => c < 64
  | .pingAck c => c < 64
  | .goaway c _ _ => c < 64
  | .sclose c => c < 64
  | .done r _ => r < 64
  | .body r _ => r < 64
  | .snap c _ _ _ _ _ => c < 64
  | _ => true

def retryLine (k e : String) : Option String := do
  let b ← if k == "0" || k == "3" then some BodyK.none else if k == "1" then some BodyK.once
          else if k == "2" then some BodyK.replayable else none
  let err ← if e == "gotgoaway" then some ErrK.gotGoAway else if e == "unusable" then some ErrK.unusable
          else if e == "refused" then some ErrK.refusedStream
          else if e == "rstcancel" || e == "goawayconn" || e == "notestablished" || e == "eof" then some ErrK.other
          else none
  let f := fun (x : Bool) => if x then "1" else "0"
  pure s!"ok {f (canRetryError err)} {f (shouldRetry b err)}"

def c18Step (s : C18St) (line : String) : C18St × String :=
  match tokens line with
  | ["retryq", k, e] => (s, (retryLine k e).getD "bad-op")
  | _ =>
  match parseLine line with
  | .bad => (s, "bad-op")
  | .reset b =>
    match s.mon with
    | some _ => (s, if s.dead then "reject earlier" else "ok")
    | none => ({ mon := some { strict := b }, dead := false }, "ok")
  | .evs l =>
    if !l.all evIndexOK then (s, "bad-op") else
    match s.mon with
    | none => (s, "ok")
    | some m =>
      if s.dead then (s, "reject earlier")
      else match run18 m l with
        | .ok m' => ({ s with mon := some m' }, "ok")
        | .error why => ({ s with dead := true }, s!"reject {why}")

partial def c18Loop (stdin stdout : IO.FS.Stream) (s : C18St) : IO Unit := do
  let line ← stdin.getLine
  if line.isEmpty then
    stdout.flush
    return ()
  let l := (line.dropEndWhile (fun c => c == '\n' || c == '\r')).toString
  if l.startsWith "#" then
    stdout.putStrLn "#"
    c18Loop stdin stdout {}
  else
    let (s', o) := c18Step s l
    stdout.putStrLn o
    let s' ← match s'.mon with
      | some m => do pure { s' with mon := some (← compact m) }
      | none => pure s'
    c18Loop stdin stdout s'

def main : IO Unit := do
  c18Loop (← IO.getStdin) (← IO.getStdout) {}
