import NetVerif.Driver.Util
import NetVerif.Model.HtmlEscape
/-! Line-protocol driver for the html escape/unescape model (C40, tie "escape"). Stateless. -/
open NetVerif.Driver NetVerif.Model.HtmlEscape

def parseFlag (s : String) : Option Bool :=
  if s == "0" then some false else if s == "1" then some true else none

def c40Step (_ : Unit) (line : String) : Unit × String :=
  let out : String :=
    match tokens line with
    | ["esc", b] =>
      match parseBytes b with
      | some s => s!"ok {hexOfBytes (escape s)}"
      | none => "bad-op"
    | ["cesc", b] =>
      match parseBytes b with
      | some s => s!"ok {hexOfBytes (escapeComment s)}"
      | none => "bad-op"
    | ["nl", b] =>
      match parseBytes b with
      | some s => s!"ok {hexOfBytes (convertNewlines s)}"
      | none => "bad-op"
    | ["unesc", a, b] =>
      match parseFlag a, parseBytes b with
      | some attr, some s => s!"ok {hexOfBytes (unescape s attr)}"
      | _, _ => "bad-op"
    | ["ent", a, b] =>
      match parseFlag a, parseBytes b with
      | some attr, some (38 :: rest) =>
        let (r1, r2, n) := unescapeEntity rest attr
        s!"ok {r1} {r2} {n}"
      | _, _ => "bad-op"
    | _ => "bad-op"
  ((), out)

def main : IO Unit := runLoop c40Step ()
