import NetVerif.Driver.Util
import NetVerif.Model.Bpf
/-!
Text syntax of BPF instructions shared by the C48 and C49 drivers (and by
harness/C48, harness/C49 on the Go side).  One instruction is a `:`-separated
token, a program is a `,`-separated list of instructions:

  LC:dst:val  LS:dst:n  LA:off:size  LI:off:size  LM:off  LE:num  SS:src:n
  AK:op:val  AX:op  NEG  JA:skip  JI:cond:val:st:sf  JX:cond:st:sf
  RA  RK:val  TXA  TAX  RAW:op:jt:jf:k
-/
namespace NetVerif.Driver.BpfText
open NetVerif.Driver NetVerif.Model.Bpf

def showInstr : Instr → String
  | .loadConstant d v => s!"LC:{d}:{v}"
  | .loadScratch d n => s!"LS:{d}:{n}"
  | .loadAbsolute o s => s!"LA:{o}:{s}"
  | .loadIndirect o s => s!"LI:{o}:{s}"
  | .loadMemShift o => s!"LM:{o}"
  | .loadExtension n => s!"LE:{n}"
  | .storeScratch s n => s!"SS:{s}:{n}"
  | .aluOpConstant o v => s!"AK:{o}:{v}"
  | .aluOpX o => s!"AX:{o}"
  | .negateA => "NEG"
  | .jump s => s!"JA:{s}"
  | .jumpIf c v t f => s!"JI:{c}:{v}:{t}:{f}"
  | .jumpIfX c t f => s!"JX:{c}:{t}:{f}"
  | .retA => "RA"
  | .retConstant v => s!"RK:{v}"
  | .txa => "TXA"
  | .tax => "TAX"
  | .raw r => s!"RAW:{r.op}:{r.jt}:{r.jf}:{r.k}"

def natLt (s : String) (bound : Nat) : Option Nat :=
  match parseNat s with
  | some n => if n < bound then some n else none
  | none => none

def int64 (s : String) : Option Int :=
  match parseInt s with
  | some n => if -9223372036854775808 ≤ n ∧ n < 9223372036854775808 then some n else none
  | none => none

def u8 (s : String) := natLt s 256
def u16 (s : String) := natLt s 65536
def u32 (s : String) := natLt s 4294967296

/-- Parses one instruction token; rejects values outside the Go field types. -/
def parseInstr (s : String) : Option Instr :=
  match s.splitOn ":" with
  | ["LC", d, v] => do pure (.loadConstant (← u16 d) (← u32 v))
  | ["LS", d, n] => do pure (.loadScratch (← u16 d) (← int64 n))
  | ["LA", o, z] => do pure (.loadAbsolute (← u32 o) (← int64 z))
  | ["LI", o, z] => do pure (.loadIndirect (← u32 o) (← int64 z))
  | ["LM", o] => do pure (.loadMemShift (← u32 o))
  | ["LE", n] => do pure (.loadExtension (← int64 n))
  | ["SS", d, n] => do pure (.storeScratch (← u16 d) (← int64 n))
  | ["AK", o, v] => do pure (.aluOpConstant (← u16 o) (← u32 v))
  | ["AX", o] => do pure (.aluOpX (← u16 o))
  | ["NEG"] => some .negateA
  | ["JA", k] => do pure (.jump (← u32 k))
  | ["JI", c, v, t, f] => do pure (.jumpIf (← u16 c) (← u32 v) (← u8 t) (← u8 f))
  | ["JX", c, t, f] => do pure (.jumpIfX (← u16 c) (← u8 t) (← u8 f))
  | ["RA"] => some .retA
  | ["RK", v] => do pure (.retConstant (← u32 v))
  | ["TXA"] => some .txa
  | ["TAX"] => some .tax
  | ["RAW", o, t, f, k] => do pure (.raw ⟨← u16 o, ← u8 t, ← u8 f, ← u32 k⟩)
  | _ => none

def parseProg (s : String) : Option (List Instr) :=
  (s.splitOn ",").mapM parseInstr

def parseRaw (o t f k : String) : Option Raw := do
  pure ⟨← u16 o, ← u8 t, ← u8 f, ← u32 k⟩

def showRaw (r : Raw) : String := s!"{r.op} {r.jt} {r.jf} {r.k}"

end NetVerif.Driver.BpfText
