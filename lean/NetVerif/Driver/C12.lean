import NetVerif.Driver.C12Step
/-! Model driver executable for C12 (write schedulers); the step function is in `Driver/C12Step.lean`. -/
open NetVerif.Driver

def main : IO Unit := runLoop NetVerif.Driver.C12.step {}
