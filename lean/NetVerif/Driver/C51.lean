import Std.Data.HashMap
import Std.Data.HashSet
import NetVerif.Driver.Util
import NetVerif.Model.PublicSuffix
import NetVerif.Gen.C51
/-!
Driver for C51. Input: the dump of the rule list and of the packed trie tables
(`dump-begin … dump-end`), then `ps <isIP> d:<domain>` / `etld1 <isIP> d:<domain>` queries.

For every query the driver
* interns the labels with an order-preserving map into `Nat` (sorted table of all dumped labels:
  present label ↦ 2·rank+1, absent label ↦ 2·(number of smaller table labels)),
* runs the model of `PublicSuffix` over the dumped packed tables (`flatResult`),
* checks that the dumped tables denote the trie built from the dumped rules along the queried
  path (`Flat.look` vs `nodeAt`, the latter answered from a hash index built with gen.go's
  insertion procedure; every 16th query the index is cross-checked against the `List` definitions
  `nodeAt` / `hasExc` / `hasNormal` / `hasWild` the theorems are about),
* answers with the PSL spec over the dumped rules (`specLen`) and the flag of the model walk
  (every 16th query compared with `specFlag` over the rule list).
Any disagreement is printed as `reject …` (the harness expects `ok …`).
-/
open NetVerif.Driver NetVerif.Model.PublicSuffix

namespace NetVerif.Driver.C51

structure St where
  numTLD : Nat := 0
  numICANN : Nat := 0
  rawRules : Array (Kind × List String × Bool) := #[]     -- labels TLD-first
  rawNodes : Array (Nat × String) := #[]
  rawChildren : Array Nat := #[]
  ready : Bool := false
  table : Array String := #[]                              -- sorted distinct labels
  rules : List Rule := []
  flat : Flat := { nodes := #[], labels := #[], children := #[], numTLD := 0 }
  exc : Std.HashSet (List Nat) := {}
  normal : Std.HashSet (List Nat) := {}
  wild : Std.HashSet (List Nat) := {}
  trie : Std.HashMap (List Nat) NodeInfo := {}
  queries : Nat := 0

/-- Number of table entries `< s`, and whether `s` is present. -/
def rank (table : Array String) (s : String) : Nat × Bool := Id.run do
  let mut lo := 0
  let mut hi := table.size
  while lo < hi do
    let mid := lo + (hi - lo) / 2
    if table[mid]! < s then lo := mid + 1 else hi := mid
  return (lo, lo < table.size && table[lo]! == s)

def intern (table : Array String) (s : String) : Nat :=
  let (r, found) := rank table s
  if found then 2 * r + 1 else 2 * r

def dedupSorted (a : Array String) : Array String := Id.run do
  let mut out : Array String := #[]
  for s in a do
    if out.size == 0 || out[out.size - 1]! != s then out := out.push s
  return out

def prefixes (l : List Nat) : List (List Nat) := (List.range l.length).map (fun i => l.take (i + 1))

/-- gen.go's insertion of one rule into the path-indexed trie. -/
def insertRule (t : Std.HashMap (List Nat) NodeInfo) (r : Rule) : Std.HashMap (List Nat) NodeInfo :=
  let t := (prefixes r.labels).foldl (fun t p =>
    if t.contains p then t else t.insert p { icann := true, ntype := 2, wildcard := false }) t
  match t.get? r.labels with
  | none => t
  | some n =>
    let nt := match r.kind with | .normal => 0 | .exception => 1 | .wildcard => 2
    t.insert r.labels {
      ntype := if nt != 2 && n.ntype == 2 then nt else n.ntype
      icann := n.icann && r.icann
      wildcard := n.wildcard || (r.kind == .wildcard) }

def finalize (s : St) : St :=
  let all : Array String := s.rawRules.foldl (fun acc r => r.2.1.foldl (fun a l => a.push l) acc) #[]
  let all := s.rawNodes.foldl (fun acc n => acc.push n.2) all
  let table := dedupSorted (all.qsort (· < ·))
  let rules : List Rule := s.rawRules.toList.map (fun r =>
    { kind := r.1, labels := r.2.1.map (intern table), icann := r.2.2 })
  let flat : Flat := {
    nodes := s.rawNodes.map (·.1), labels := s.rawNodes.map (fun n => intern table n.2),
    children := s.rawChildren, numTLD := s.numTLD }
  let mk (k : Kind) : Std.HashSet (List Nat) :=
    rules.foldl (fun h r => if r.kind == k then h.insert r.labels else h) {}
  { s with ready := true, table := table, rules := rules, flat := flat,
           exc := mk .exception, normal := mk .normal, wild := mk .wildcard,
           trie := rules.foldl insertRule {} }

def hashIndex (s : St) : Index :=
  { exc := fun p => s.exc.contains p, normal := fun p => s.normal.contains p, wild := fun p => s.wild.contains p }

/-- Compare the dumped tables with the trie built from the rules along the path of `d`. -/
def lockstep (s : St) (d : List Nat) (checkList : Bool) : Option String :=
  (prefixes d).foldl (fun acc p =>
    match acc with
    | some e => some e
    | none =>
      let a := s.flat.look p
      let b := s.trie.get? p
      if a != b then some s!"trie-differs-from-build-rules depth={p.length}"
      else if checkList && (b != nodeAt s.rules p || s.exc.contains p != hasExc s.rules p ||
          s.normal.contains p != hasNormal s.rules p || s.wild.contains p != hasWild s.rules p) then
        some s!"index-differs-from-list-definitions depth={p.length}"
      else none) none

def parseRule (idx : Nat) (numICANN : Nat) (r : String) : Kind × List String × Bool :=
  let (k, body) :=
    if r.startsWith "*." then (Kind.wildcard, (r.drop 2).toString)
    else if r.startsWith "!" then (Kind.exception, (r.drop 1).toString)
    else (Kind.normal, r)
  (k, (body.splitOn ".").reverse, idx < numICANN)

def query (s : St) (isIP : Bool) (domain : String) : St × List Nat × List String × Option String × Nat × Bool :=
  let labels := (domain.splitOn ".")
  let d := labels.reverse.map (intern s.table)
  let s' := { s with queries := s.queries + 1 }
  let err := lockstep s d (s.queries % 16 == 0)
  let (kf, flag) := flatResult s.flat d
  let ks := specLen (hashIndex s) d
  let err := match err with
    | some e => some e
    | none =>
      if kf != ks && !isIP then some s!"model-walk-differs-from-spec walk={kf} spec={ks}"
      else if s.queries % 16 == 0 && flag != specFlag s.rules d then
        some s!"model-walk-flag-differs-from-spec walk={flag}"
      else none
  (s', d, labels, err, ks, flag)

def step (s : St) (line : String) : St × String :=
  match tokens line with
  | ["dump-begin", ntld, nicann, _, _, _] =>
    match parseNat ntld, parseNat nicann with
    | some a, some b => ({ numTLD := a, numICANN := b }, "ok")
    | _, _ => (s, "bad-op")
  | ["rule", idx, r] =>
    match parseNat idx with
    | some i => ({ s with rawRules := s.rawRules.push (parseRule i s.numICANN r) }, "ok")
    | none => (s, "bad-op")
  | ["node", _, raw, label] =>
    match parseNat raw with
    | some v => ({ s with rawNodes := s.rawNodes.push (v, label) }, "ok")
    | none => (s, "bad-op")
  | ["child", _, raw] =>
    match parseNat raw with
    | some v => ({ s with rawChildren := s.rawChildren.push v }, "ok")
    | none => (s, "bad-op")
  | ["dump-end"] =>
    if s.numTLD != NetVerif.Gen.C51.numTLD then (s, "reject numTLD-differs-from-table.go")
    else (finalize s, "ok")
  | [op, ip, dom] =>
    if !(op == "ps" || op == "etld1") || !(ip == "0" || ip == "1") || !dom.startsWith "d:" then (s, "bad-op")
    else if !s.ready then (s, "reject no-dump")
    else
      let isIP := ip == "1"
      let domain := (dom.drop 2).toString
      let (s', d, labels, err, ks, flag) := query s isIP domain
      match err with
      | some e => (s', "reject " ++ e)
      | none =>
        if op == "ps" then
          if isIP then (s', s!"ok {d.length} 0")
          else (s', s!"ok {ks} {if flag then 1 else 0}")
        else
          match etld1 (labels.any (· == "")) d.length (if isIP then none else some ks) with
          | some n => (s', s!"ok {n}")
          | none => (s', "err")
  | _ => (s, "bad-op")

end NetVerif.Driver.C51

def main : IO Unit := runLoop NetVerif.Driver.C51.step {}
