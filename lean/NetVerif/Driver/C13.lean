import NetVerif.Driver.C12Step
/-! Model driver executable for C13 (RFC 9218 scheduler); same line protocol and step function as C12. -/
open NetVerif.Driver

def main : IO Unit := runLoop NetVerif.Driver.C12.step {}
