import NetVerif.Driver.QuicStreamStep
/-! Driver for C32: state-machine ops go to the stream model (tie "sm"), `ev` lines to the
wire/API monitor with the C32 clauses (tie "net"). -/
open NetVerif.Driver

def main : IO Unit := runLoop (NetVerif.Driver.QuicStreamStep.stepBoth 32) NetVerif.Driver.QuicStreamStep.initBoth
