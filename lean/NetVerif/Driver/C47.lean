import NetVerif.Driver.Util
import NetVerif.Model.DavProps
import NetVerif.Gen.C47
/-! Line-protocol driver for the WebDAV dead-property model (C47). State: the maps of file /f and dir /d. -/
open NetVerif.Driver NetVerif.Model.DavProps

/-- op lines carry names as hex tokens of their UTF-8 bytes; render the regenerated table the same way -/
def tokOf (s : String) : String := hexOfBytes (s.toUTF8.toList.map (·.toNat))

def liveTok : List LiveRow :=
  NetVerif.Gen.C47.liveProps.map (fun r => (tokOf r.1, tokOf r.2.1, r.2.2.1, r.2.2.2))

structure St where
  f : Dead
  d : Dead

def showName (n : PName) : String := n.1 ++ "/" ++ n.2

def showStat (s : Nat × List PName) : String :=
  s!"{s.1}:" ++ ",".intercalate (s.2.map showName)

def showFind (s : Nat × List (PName × Option String)) : String :=
  s!"{s.1}:" ++ ",".intercalate (s.2.map (fun e =>
    if s.1 = 200 then showName e.1 ++ "=" ++ (match e.2 with | some v => v | none => "live") else showName e.1))

/-- parse `S ns loc val ns loc val | R ns loc val …` -/
partial def parsePatches (ts : List String) : Option (List Patch) :=
  let rec group (ts : List String) (acc : List (PName × String)) : Option (List (PName × String) × List String) :=
    match ts with
    | [] => some (acc.reverse, [])
    | "|" :: rest => some (acc.reverse, rest)
    | ns :: loc :: v :: rest => group rest (((ns, loc), v) :: acc)
    | _ => none
  match ts with
  | [] => some []
  | flag :: rest =>
    if flag != "S" && flag != "R" then none else
    match group rest [] with
    | none => none
    | some (props, rest') =>
      if props.isEmpty then none else
      match parsePatches rest' with
      | none => none
      | some ps => some ({ remove := flag == "R", props := props } :: ps)

def parseNames : List String → Option (List PName)
  | [] => some []
  | ns :: loc :: rest => (parseNames rest).map (fun r => (ns, loc) :: r)
  | _ => none

def c47Step (s : St) (line : String) : St × String :=
  match tokens line with
  | ["reset"] => ({ f := [], d := [] }, "ok")
  | "patch" :: tgt :: rest =>
    if tgt != "f" && tgt != "d" then (s, "bad-op") else
    match parsePatches rest with
    | none => (s, "bad-op")
    | some ps =>
      let cur := if tgt == "f" then s.f else s.d
      let (stats, cur') := patch liveTok cur ps
      let s' := if tgt == "f" then { s with f := cur' } else { s with d := cur' }
      (s', "ok " ++ " ".intercalate (stats.map showStat))
  | "find" :: tgt :: rest =>
    if tgt != "f" && tgt != "d" then (s, "bad-op") else
    match parseNames rest with
    | none => (s, "bad-op")
    | some names =>
      let cur := if tgt == "f" then s.f else s.d
      (s, "ok " ++ " ".intercalate ((props liveTok cur (tgt == "d") names).map showFind))
  | _ => (s, "bad-op")

def main : IO Unit := runLoop c47Step { f := [], d := [] }
