import NetVerif.Driver.Util
import NetVerif.Model.Edns0
/-! Line-protocol driver for the EDNS(0) model (C38). Stateless. -/
open NetVerif.Driver NetVerif.Model.Edns0

def c38Bool (b : Bool) : String := if b then "1" else "0"

def c38Step (_ : Unit) (line : String) : Unit × String :=
  let out : String :=
    match tokens line with
    | ["edns", len, ext, d] =>
      match parseNat len, parseNat ext, parseNat d with
      | some len, some ext, some d =>
        if ext < 65536 ∧ d < 2 ∧ len < 9223372036854775808 then
          let h := setEDNS0 len ext (d == 1)
          s!"ok {h.typ} {h.cls} {h.ttl} {extendedRCode h.ttl (ext % 16)} {c38Bool (dnssecAllowed h.ttl)}"
        else "bad-op"
      | _, _, _ => "bad-op"
    | ["xr", ttl, r] =>
      match parseNat ttl, parseNat r with
      | some ttl, some r =>
        if ttl < 4294967296 ∧ r < 65536 then s!"ok {extendedRCode ttl r}" else "bad-op"
      | _, _ => "bad-op"
    | ["do", ttl] =>
      match parseNat ttl with
      | some ttl => if ttl < 4294967296 then s!"ok {c38Bool (dnssecAllowed ttl)}" else "bad-op"
      | none => "bad-op"
    | _ => "bad-op"
  ((), out)

def main : IO Unit := runLoop c38Step ()
