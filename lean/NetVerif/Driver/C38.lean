import NetVerif.Driver.Util
import NetVerif.Model.Edns0
/-! Line-protocol driver for the EDNS(0) model (C38). State: the fields of the one ResourceHeader
the case works on (`hdr` sets them, every `edns` is applied to the header left by the previous op). -/
open NetVerif.Driver NetVerif.Model.Edns0

def c38Bool (b : Bool) : String := if b then "1" else "0"

def c38Step (st : Hdr) (line : String) : Hdr × String :=
    match tokens line with
    | ["hdr", typ, cls, ttl] =>
      match parseNat typ, parseNat cls, parseNat ttl with
      | some typ, some cls, some ttl =>
        if typ < 65536 ∧ cls < 65536 ∧ ttl < 4294967296 then ({ typ := typ, cls := cls, ttl := ttl }, "ok")
        else (st, "bad-op")
      | _, _, _ => (st, "bad-op")
    | ["edns", len, ext, d] =>
      match parseNat len, parseNat ext, parseNat d with
      | some len, some ext, some d =>
        if ext < 65536 ∧ d < 2 ∧ len < 9223372036854775808 then
          let h := setEDNS0 st len ext (d == 1)
          (h, s!"ok {h.typ} {h.cls} {h.ttl} {extendedRCode h.ttl (ext % 16)} {c38Bool (dnssecAllowed h.ttl)}")
        else (st, "bad-op")
      | _, _, _ => (st, "bad-op")
    | ["xr", ttl, r] =>
      match parseNat ttl, parseNat r with
      | some ttl, some r =>
        if ttl < 4294967296 ∧ r < 65536 then (st, s!"ok {extendedRCode ttl r}") else (st, "bad-op")
      | _, _ => (st, "bad-op")
    | ["do", ttl] =>
      match parseNat ttl with
      | some ttl => if ttl < 4294967296 then (st, s!"ok {c38Bool (dnssecAllowed ttl)}") else (st, "bad-op")
      | none => (st, "bad-op")
    | _ => (st, "bad-op")

def main : IO Unit := runLoop c38Step { typ := 0, cls := 0, ttl := 0 }
