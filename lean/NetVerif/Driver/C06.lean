import NetVerif.Driver.H2Common
/-! Line-protocol driver for C06 (Framer write → read round trip). Stateless:
each op is one `Framer.Write*` call on a fresh Framer followed by one
`ReadFrame` of what was written (for CONTINUATION, after an unfinished HEADERS
on the same stream so that `checkFrameOrder` admits it). -/
open NetVerif.Driver NetVerif.Driver.H2 NetVerif.Model.H2Frame

/-- after a successful write: show the bytes and what a fresh Framer reads back. -/
def c06Finish (w : Except WErr (List Nat)) (pre : List Nat := []) : String :=
  match w with
  | .error e => showWErr e
  | .ok bs =>
    let fr0 := newFramer
    let r0 := if pre.isEmpty then (⟨.error .eof, none, fr0, bs⟩ : ReadResult) else readFrame fr0 (pre ++ bs)
    let r := readFrame r0.fr r0.rest
    s!"ok {dig bs} | {showRead r.res} rest={r.rest.length}"

def c06Step (_ : Unit) (line : String) : Unit × String :=
  let out : String :=
    match tokens line with
    | ["data", sid, es, d, pad] =>
      match parseNat sid, parseBool es, parsePayload d,
            (if pad == "nil" then some none else (parsePayload pad).map some) with
      | some sid, some es, some d, some pad => c06Finish (writeData sid es d pad)
      | _, _, _, _ => "bad-op"
    | ["headers", sid, es, eh, padLen, dep, excl, weight, frag] =>
      match parseNat sid, parseBool es, parseBool eh, parseNat padLen, parseNat dep, parseBool excl,
            parseNat weight, parsePayload frag with
      | some sid, some es, some eh, some padLen, some dep, some excl, some weight, some frag =>
        c06Finish (writeHeaders sid frag es eh padLen { streamDep := dep, exclusive := excl, weight := weight })
      | _, _, _, _, _, _, _, _ => "bad-op"
    | ["priority", sid, dep, excl, weight] =>
      match parseNat sid, parseNat dep, parseBool excl, parseNat weight with
      | some sid, some dep, some excl, some weight =>
        c06Finish (writePriority sid { streamDep := dep, exclusive := excl, weight := weight })
      | _, _, _, _ => "bad-op"
    | ["rst", sid, code] =>
      match parseNat sid, parseNat code with
      | some sid, some code => c06Finish (writeRSTStream sid code)
      | _, _ => "bad-op"
    | ["settings", ss] =>
      match parseSettingsTok ss with
      | some ss => c06Finish (writeSettings ss)
      | none => "bad-op"
    | ["settingsack"] => c06Finish writeSettingsAck
    | ["ping", ack, d] =>
      match parseBool ack, parsePayload d with
      | some ack, some d => if d.length == 8 then c06Finish (writePing ack d) else "bad-op"
      | _, _ => "bad-op"
    | ["goaway", maxSid, code, dbg] =>
      match parseNat maxSid, parseNat code, parsePayload dbg with
      | some m, some c, some d => c06Finish (writeGoAway m c d)
      | _, _, _ => "bad-op"
    | ["winupdate", sid, incr] =>
      match parseNat sid, parseNat incr with
      | some sid, some incr => c06Finish (writeWindowUpdate sid incr)
      | _, _ => "bad-op"
    | ["continuation", sid, eh, frag] =>
      match parseNat sid, parseBool eh, parsePayload frag with
      | some sid, some eh, some frag =>
        match writeHeaders sid [] false false 0 {} with
        | .ok pre => c06Finish (writeContinuation sid eh frag) pre
        | .error _ => c06Finish (writeContinuation sid eh frag)
      | _, _, _ => "bad-op"
    | ["pushpromise", sid, pid, eh, padLen, frag] =>
      match parseNat sid, parseNat pid, parseBool eh, parseNat padLen, parsePayload frag with
      | some sid, some pid, some eh, some padLen, some frag =>
        c06Finish (writePushPromise sid pid frag eh padLen)
      | _, _, _, _, _ => "bad-op"
    | ["prioupdate", sid, p] =>
      match parseNat sid, parsePayload p with
      | some sid, some p => c06Finish (writePriorityUpdate sid p)
      | _, _ => "bad-op"
    | ["raw", t, fl, sid, p] =>
      match parseNat t, parseNat fl, parseNat sid, parsePayload p with
      | some t, some fl, some sid, some p => c06Finish (writeRawFrame t fl sid p)
      | _, _, _, _ => "bad-op"
    | _ => "bad-op"
  ((), out)

def main : IO Unit := runLoop c06Step ()
