import NetVerif.Driver.H2Common
/-! Line-protocol driver for C06 (Framer write → read round trip). A case is a sequence of
`Framer.Write*` calls on ONE writing Framer (`reset` starts a new one); the model threads the
Framer's write buffer through the calls (`runCall`). After every accepted call what was written is
read back by a fresh reading Framer (for CONTINUATION after an unfinished HEADERS on the same stream,
written through the same writing Framer, so that `checkFrameOrder` admits it). -/
open NetVerif.Driver NetVerif.Driver.H2 NetVerif.Model.H2Frame

/-- parse one op line into a call. -/
def parseCall : List String → Option Call
  | ["data", sid, es, d, pad] => do
    let sid ← parseNat sid
    let es ← parseBool es
    let d ← parsePayload d
    let pad ← (if pad == "nil" then some none else (parsePayload pad).map some)
    pure (.data sid es d pad)
  | ["headers", sid, es, eh, padLen, dep, excl, weight, frag] => do
    let sid ← parseNat sid
    let es ← parseBool es
    let eh ← parseBool eh
    let padLen ← parseNat padLen
    let dep ← parseNat dep
    let excl ← parseBool excl
    let weight ← parseNat weight
    let frag ← parsePayload frag
    pure (.headers sid frag es eh padLen { streamDep := dep, exclusive := excl, weight := weight })
  | ["priority", sid, dep, excl, weight] => do
    let sid ← parseNat sid
    let dep ← parseNat dep
    let excl ← parseBool excl
    let weight ← parseNat weight
    pure (.priority sid { streamDep := dep, exclusive := excl, weight := weight })
  | ["rst", sid, code] => do
    let sid ← parseNat sid
    let code ← parseNat code
    pure (.rstStream sid code)
  | ["settings", ss] => (parseSettingsTok ss).map .settings
  | ["settingsack"] => some .settingsAck
  | ["ping", ack, d] => do
    let ack ← parseBool ack
    let d ← parsePayload d
    if d.length == 8 then pure (.ping ack d) else none
  | ["goaway", m, c, dbg] => do
    let m ← parseNat m
    let c ← parseNat c
    let d ← parsePayload dbg
    pure (.goAway m c d)
  | ["winupdate", sid, incr] => do
    let sid ← parseNat sid
    let incr ← parseNat incr
    pure (.windowUpdate sid incr)
  | ["continuation", sid, eh, frag] => do
    let sid ← parseNat sid
    let eh ← parseBool eh
    let frag ← parsePayload frag
    pure (.continuation sid eh frag)
  | ["pushpromise", sid, pid, eh, padLen, frag] => do
    let sid ← parseNat sid
    let pid ← parseNat pid
    let eh ← parseBool eh
    let padLen ← parseNat padLen
    let frag ← parsePayload frag
    pure (.pushPromise sid pid frag eh padLen)
  | ["prioupdate", sid, p] => do
    let sid ← parseNat sid
    let p ← parsePayload p
    pure (.priorityUpdate sid p)
  | ["raw", t, fl, sid, p] => do
    let t ← parseNat t
    let fl ← parseNat fl
    let sid ← parseNat sid
    let p ← parsePayload p
    pure (.raw t fl sid p)
  | _ => none

/-- after a successful write: show the bytes and what the reading Framer `fr0` reads back; also the
reading Framer afterwards. -/
def c06Finish (fr0 : Framer) (w : Except WErr (List Nat)) (pre : List Nat) : String × Framer :=
  match w with
  | .error e => (showWErr e, fr0)
  | .ok bs =>
    let r0 := if pre.isEmpty then (⟨.error .eof, none, fr0, bs⟩ : ReadResult) else readFrame fr0 (pre ++ bs)
    let r := readFrame r0.fr r0.rest
    (s!"ok {dig bs} | {showRead r.res} rest={r.rest.length}", r.fr)

/-- one Write call on the writing Framer (buffer `wbuf`), read back by the reading Framer `fr`. -/
def c06Call (wbuf : List Nat) (fr : Framer) (toks : List String) : Option ((List Nat × Framer) × String) :=
  match parseCall toks with
  | none => none
  | some (.continuation sid eh frag) =>
    -- the preparatory HEADERS goes through the same writing Framer
    let p := runCall wbuf (.headers sid [] false false 0 {})
    let r := runCall p.2 (.continuation sid eh frag)
    let f := c06Finish fr r.1 (match p.1 with | .ok pre => pre | .error _ => [])
    some ((r.2, f.2), f.1)
  | some c =>
    let r := runCall wbuf c
    let f := c06Finish fr r.1 []
    some ((r.2, f.2), f.1)

/-- `rep n <op>`: the call n times, one reading Framer. Once an iteration leaves both Framers in
the state it found them and repeats the previous result, all further iterations are identical
(the model is a function of that state), so they are counted without being recomputed. -/
def c06Rep (n : Nat) (toks : List String) (wbuf : List Nat) : List Nat × String :=
  let rec go (fuel i : Nat) (wb : List Nat) (fr : Framer) (first : String) (same : Nat) (div : String) :
      List Nat × Nat × String × String :=
    match fuel with
    | 0 => (wb, same, div, first)
    | fuel + 1 =>
      match c06Call wb fr toks with
      | none => (wb, same, div, "bad-op")
      | some ((wb', fr'), r) =>
        let first' := if i == 0 then r else first
        let same' := if r == first' then same + 1 else same
        let div' := if r != first' && div == "-" then s!"{i}:[{r}]" else div
        if i > 0 && wb' == wb && fr' == fr && r == first' then
          -- fixpoint: the remaining `fuel` iterations give `r` again
          (wb', same' + fuel, div', first')
        else go fuel (i + 1) wb' fr' first' same' div'
  let (wb, same, div, first) := go n 0 wbuf newFramer "" 0 "-"
  if first == "bad-op" then (wbuf, "bad-op") else (wb, s!"rep n={n} same={same} div={div} | {first}")

/-- state: the writing Framer's `wbuf`. -/
def c06Step (wbuf : List Nat) (line : String) : List Nat × String :=
  match tokens line with
  | ["reset"] => ([], "ok")
  | "rep" :: n :: toks =>
    match parseNat n with
    | some n => if n ≥ 1 ∧ n ≤ 100000 ∧ toks.head? != some "rep" then c06Rep n toks wbuf else (wbuf, "bad-op")
    | none => (wbuf, "bad-op")
  | toks =>
    match c06Call wbuf newFramer toks with
    | none => (wbuf, "bad-op")
    | some ((wb, _), r) => (wb, r)

def main : IO Unit := runLoop c06Step []
