import NetVerif.Driver.H2Common
/-! Line-protocol driver for C06 (Framer write → read round trip). A case is a sequence of
`Framer.Write*` calls on ONE writing Framer (`reset` starts a new one); the model threads the
Framer's write buffer through the calls (`runCall`). After every accepted call what was written is
read back by a fresh reading Framer (for CONTINUATION after an unfinished HEADERS on the same stream,
written through the same writing Framer, so that `checkFrameOrder` admits it). -/
open NetVerif.Driver NetVerif.Driver.H2 NetVerif.Model.H2Frame

/-- parse one op line into a call. -/
def parseCall : List String → Option Call
  | ["data", sid, es, d, pad] => do
    let sid ← parseNat sid
    let es ← parseBool es
    let d ← parsePayload d
    let pad ← (if pad == "nil" then some none else (parsePayload pad).map some)
    pure (.data sid es d pad)
  | ["headers", sid, es, eh, padLen, dep, excl, weight, frag] => do
    let sid ← parseNat sid
    let es ← parseBool es
    let eh ← parseBool eh
    let padLen ← parseNat padLen
    let dep ← parseNat dep
    let excl ← parseBool excl
    let weight ← parseNat weight
    let frag ← parsePayload frag
    pure (.headers sid frag es eh padLen { streamDep := dep, exclusive := excl, weight := weight })
  | ["priority", sid, dep, excl, weight] => do
    let sid ← parseNat sid
    let dep ← parseNat dep
    let excl ← parseBool excl
    let weight ← parseNat weight
    pure (.priority sid { streamDep := dep, exclusive := excl, weight := weight })
  | ["rst", sid, code] => do
    let sid ← parseNat sid
    let code ← parseNat code
    pure (.rstStream sid code)
  | ["settings", ss] => (parseSettingsTok ss).map .settings
  | ["settingsack"] => some .settingsAck
  | ["ping", ack, d] => do
    let ack ← parseBool ack
    let d ← parsePayload d
    if d.length == 8 then pure (.ping ack d) else none
  | ["goaway", m, c, dbg] => do
    let m ← parseNat m
    let c ← parseNat c
    let d ← parsePayload dbg
    pure (.goAway m c d)
  | ["winupdate", sid, incr] => do
    let sid ← parseNat sid
    let incr ← parseNat incr
    pure (.windowUpdate sid incr)
  | ["continuation", sid, eh, frag] => do
    let sid ← parseNat sid
    let eh ← parseBool eh
    let frag ← parsePayload frag
    pure (.continuation sid eh frag)
  | ["pushpromise", sid, pid, eh, padLen, frag] => do
    let sid ← parseNat sid
    let pid ← parseNat pid
    let eh ← parseBool eh
    let padLen ← parseNat padLen
    let frag ← parsePayload frag
    pure (.pushPromise sid pid frag eh padLen)
  | ["prioupdate", sid, p] => do
    let sid ← parseNat sid
    let p ← parsePayload p
    pure (.priorityUpdate sid p)
  | ["raw", t, fl, sid, p] => do
    let t ← parseNat t
    let fl ← parseNat fl
    let sid ← parseNat sid
    let p ← parsePayload p
    pure (.raw t fl sid p)
  | _ => none

/-- after a successful write: show the bytes and what a fresh reading Framer reads back. -/
def c06Finish (w : Except WErr (List Nat)) (pre : List Nat) : String :=
  match w with
  | .error e => showWErr e
  | .ok bs =>
    let fr0 := newFramer
    let r0 := if pre.isEmpty then (⟨.error .eof, none, fr0, bs⟩ : ReadResult) else readFrame fr0 (pre ++ bs)
    let r := readFrame r0.fr r0.rest
    s!"ok {dig bs} | {showRead r.res} rest={r.rest.length}"

/-- state: the writing Framer's `wbuf`. -/
def c06Step (wbuf : List Nat) (line : String) : List Nat × String :=
  match tokens line with
  | ["reset"] => ([], "ok")
  | toks =>
    match parseCall toks with
    | none => (wbuf, "bad-op")
    | some (.continuation sid eh frag) =>
      -- the preparatory HEADERS goes through the same writing Framer
      let p := runCall wbuf (.headers sid [] false false 0 {})
      let r := runCall p.2 (.continuation sid eh frag)
      (r.2, c06Finish r.1 (match p.1 with | .ok pre => pre | .error _ => []))
    | some c =>
      let r := runCall wbuf c
      (r.2, c06Finish r.1 [])

def main : IO Unit := runLoop c06Step []
