import NetVerif.Driver.Util
import NetVerif.Model.LossState
/-! Line-protocol driver for the `lossState`/`ccReno` model (C26; also tie "ackrange" of C25). -/
open NetVerif.Driver NetVerif.Model.LossState

structure C26State where
  l : Loss
  now : Int := 0

def b01 (b : Bool) : Nat := if b then 1 else 0

def stChar : PState → Char
  | .sent => 'S' | .acked => 'A' | .lost => 'L' | .unsent => 'U'

def showOpt : Option Int → String
  | none => "-"
  | some t => toString t

def showSpace (i : Nat) (s : Space) : String :=
  s!"s{i}={s.nextNum},{s.maxAcked}," ++ (if s.pkts.isEmpty then "-" else String.ofList (s.pkts.map fun p => stChar p.state)) ++ " "

def showPc (i : Nat) (p : PC) : String := s!" pc{i}={showOpt p.start},{showOpt p.end_},{p.next}"

def showLoss (l : Loss) : String :=
  let c := l.cc
  showSpace 0 l.s0 ++ showSpace 1 l.s1 ++ showSpace 2 l.s2 ++
  s!"cwnd={c.cwnd} bif={c.bytesInFlight} ss={if c.ssthresh = maxInt then "max" else toString c.ssthresh} pend={c.pendingAcks} one={b01 c.sendOne} rec={b01 c.inRecovery} und={b01 c.underutilized} rst={showOpt c.recoveryStart} all={showOpt c.ackLastLoss}" ++
  showPc 0 c.pc0 ++ showPc 1 c.pc1 ++ showPc 2 c.pc2

def showCbs (cbs : List Callback) : String :=
  if cbs.isEmpty then "-" else
  ",".intercalate (cbs.map fun (sp, n, f) => s!"{sp}:{n}:" ++ (match f with | .acked => "acked" | .lost => "lost"))

def parseSpace (s : String) : Option Nat :=
  if s == "0" then some 0 else if s == "1" then some 1 else if s == "2" then some 2 else none

def parseBit (s : String) : Option Bool :=
  if s == "0" then some false else if s == "1" then some true else none

def parseDt (s : String) : Option Int :=
  match parseNat s with
  | some v => if v > 3600 * 1000000000 then none else some (v : Int)
  | none => none

def parseRange (s : String) : Option (Int × Int) :=
  match s.splitOn "-" with
  | [a, b] =>
    match parseNat a, parseNat b with
    | some a, some b => if a > b ∨ toString a ≠ a.repr ∨ s!"{a}-{b}" ≠ s then none else some ((a : Int), (b : Int))
    | _, _ => none
  | _ => none

def parseRanges (s : String) : Option (List (Int × Int)) := (s.splitOn ",").mapM parseRange

/-- `key=value` annotation lookup; value `-` is `none` for optional times. -/
def annVal (ann : List String) (key : String) : Option String :=
  (ann.filterMap fun t => if t.startsWith (key ++ "=") then some ((t.drop (key.length + 1)).toString) else none).head?

def annInt (ann : List String) (key : String) : Option Int := (annVal ann key).bind parseInt

def annOptInt (ann : List String) (key : String) : Option (Option Int) :=
  match annVal ann key with
  | none => none
  | some "-" => some none
  | some v => (parseInt v).map some

/-- Feed every range of an ACK frame (continuing after a violation, as `Conn.handleAckFrame` does). -/
def feedRanges (l : Loss) (sp : Nat) : List (Int × Int) → Nat → Loss × List Callback × List Nat
  | [], _ => (l, [], [])
  | (a, b) :: rest, i =>
    let (l1, cbs, viol) := l.receiveAckRange sp a b
    let (l2, cbs2, v2) := feedRanges l1 sp rest (i + 1)
    (l2, cbs ++ cbs2, (if viol then [i] else []) ++ v2)

def c26Step (st : Option C26State) (line : String) : Option C26State × String :=
  let parts := line.splitOn "|"
  let toks := tokens (parts.headD "")
  let ann := tokens (parts.getD 1 "")
  match toks, st with
  | ["reset", side, mds], _ =>
    match parseNat side, parseNat mds with
    | some side, some mds =>
      if side > 1 ∨ mds < 1 ∨ mds > 65536 then (st, "bad-op") else
      let l := Loss.init mds
      (some { l := l, now := 0 }, "ok " ++ showLoss l)
    | _, _ => (st, "bad-op")
  | _, none => (st, "bad-op")
  | ["send", sp, size, ae, inf, dt], some s =>
    match parseSpace sp, parseNat size, parseBit ae, parseBit inf, parseDt dt with
    | some sp, some size, some ae, some inf, some dt =>
      if size > 65536 then (st, "bad-op") else
      let now := s.now + dt
      let l := s.l.packetSent sp size ae inf now
      (some { l := l, now := now }, "ok " ++ showLoss l)
    | _, _, _, _, _ => (st, "bad-op")
  | ["skip", sp, dt], some s =>
    match parseSpace sp, parseDt dt with
    | some sp, some dt =>
      let now := s.now + dt
      let l := s.l.skipNumber sp now
      (some { l := l, now := now }, "ok " ++ showLoss l)
    | _, _ => (st, "bad-op")
  | ["ack", sp, dt, delay, rs], some s =>
    match parseSpace sp, parseDt dt, parseDt delay, parseRanges rs with
    | some sp, some dt, some _, some rs =>
      match annInt ann "ld", annOptInt ann "fst", annInt ann "pcd" with
      | some ld, some fst, some pcd =>
        let now := s.now + dt
        let (l1, cbs1, viol) := feedRanges s.l sp rs 0
        let (l2, cbs2) := l1.receiveAckEnd sp now ld fst pcd
        let res := if viol.isEmpty then "ok" else "err violation@" ++ ",".intercalate (viol.map toString)
        (some { l := l2, now := now }, s!"{res} cb={showCbs (cbs1 ++ cbs2)} {showLoss l2}")
      | _, _, _ => (st, "bad-annotation")
    | _, _, _, _ => (st, "bad-op")
  | ["advance", dt], some s =>
    match parseDt dt with
    | some dt =>
      match annInt ann "ld", annOptInt ann "fst" with
      | some ld, some fst =>
        let now := s.now + dt
        let (l, cbs) := s.l.advance now ld fst
        (some { l := l, now := now }, s!"ok cb={showCbs cbs} {showLoss l}")
      | _, _ => (st, "bad-annotation")
    | none => (st, "bad-op")
  | ["under", v], some s =>
    match parseBit v with
    | some v => let l := s.l.setUnderutilized v; (some { s with l := l }, "ok " ++ showLoss l)
    | none => (st, "bad-op")
  | ["discardpkts", sp], some s =>
    match parseSpace sp with
    | some sp =>
      let (l, cbs) := s.l.discardPackets sp
      (some { s with l := l }, s!"ok cb={showCbs cbs} {showLoss l}")
    | none => (st, "bad-op")
  | ["discardkeys", sp, dt], some s =>
    match parseSpace sp, parseDt dt with
    | some sp, some dt =>
      let l := s.l.discardKeys sp
      (some { l := l, now := s.now + dt }, "ok " ++ showLoss l)
    | _, _ => (st, "bad-op")
  | _, _ => (st, "bad-op")

def main : IO Unit := runLoop c26Step none
