import NetVerif.Driver.QuicStreamStep
/-! Driver for C19: state-machine ops go to the stream model (tie "sm"), `ev` lines to the
wire/API monitor with the C19 clauses (tie "net"). -/
open NetVerif.Driver

def main : IO Unit := runLoop (NetVerif.Driver.QuicStreamStep.stepBoth 19) NetVerif.Driver.QuicStreamStep.initBoth
