import NetVerif.Driver.Util
import NetVerif.Model.Socks5
/-! Line-protocol driver for the SOCKS5 client model (C54).
`dial <api w|c|p> <ctx> <chunk> <auth 0|1> <user> <pass> <addr> <destfact> <script>`
destfact: `e` (address rejected before any I/O) | `4:<ip4>:<port>` | `6:<ip16>:<port>` | `n:<name>:<port>`
`sdec <bytes>`: reference server decoder on a request; `reply <bytes>`: the reply parser alone.
-/
open NetVerif.Driver NetVerif.Model.Socks5

namespace NetVerif.Driver.C54

def parseDest (s : String) : Option (Option (Dest × Nat)) :=
  match s.splitOn ":" with
  | ["e"] => some none
  | ["4", b, p] => do let b ← parseBytes b; let p ← parseNat p; pure (some (.ip4 b, p))
  | ["6", b, p] => do let b ← parseBytes b; let p ← parseNat p; pure (some (.ip6 b, p))
  | ["n", b, p] => do let b ← parseBytes b; let p ← parseNat p; pure (some (.name b, p))
  | _ => none

def showAddr : Addr → String
  | .ip b p => s!"ip:{hexOfBytes b}:{p}"
  | .name b p => s!"name:{hexOfBytes b}:{p}"

def step (_ : Unit) (line : String) : Unit × String :=
  let out : String :=
    match tokens line with
    | ["dial", api, _ctx, _chunk, auth, user, pass, _addr, dest, script] =>
      match parseBytes user, parseBytes pass, parseDest dest, parseBytes script with
      | some user, some pass, some dest, some script =>
        if auth != "0" && auth != "1" then "bad-op"
        else if api != "w" && api != "c" && api != "p" then "bad-op"
        else
          match dest with
          | none => "err -"
          | some (d, port) =>
            let (w, r) := connect { auth := auth == "1", user, pass } d port script
            match r with
            | none => s!"err {hexOfBytes w}"
            | some a => if api == "p" then s!"ok {hexOfBytes w} conn" else s!"ok {hexOfBytes w} {showAddr a}"
      | _, _, _, _ => "bad-op"
    | ["reply", b] =>
      match parseBytes b with
      | some b => (match parseReply b with
        | some (a, rest) => s!"ok {showAddr a} {rest.length}"
        | none => "err")
      | none => "bad-op"
    | _ => "bad-op"
  ((), out)

end NetVerif.Driver.C54

def main : IO Unit := runLoop NetVerif.Driver.C54.step ()
