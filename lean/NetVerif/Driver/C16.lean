import NetVerif.Driver.Util
import NetVerif.Model.H2Server
/-!
Driver for C16: monitor over the observation lines recorded by harness/C16 (see rig_test.go).
Every line carries a white-box sample `q:<queuedControlFrames> h:<curHandlers> r:<running> alive|gone`;
the `end` line carries the outcome and the maxima. Output: `ok` | `reject <why>` | `bad-op`.
-/
open NetVerif.Driver NetVerif.Model.H2Server

namespace NetVerif.Driver.C16

structure St where
  started : Bool := false
  adv : Nat := 1

def splitArrow (ts : List String) : List String × List String :=
  (ts.takeWhile (· ≠ "=>"), (ts.dropWhile (· ≠ "=>")).drop 1)

def field (pfx : String) (tok : String) : Option Nat :=
  match tok.splitOn ":" with
  | [p, v] => if p == pfx then v.toNat? else none
  | _ => none

def parseSample : List String → Option Sample
  | [q, h, r, a] => do
    let q ← field "q" q
    let h ← field "h" h
    let r ← field "r" r
    let alive ← (if a == "alive" then some true else if a == "gone" then some false else none)
    pure ⟨q, h, r, alive⟩
  | _ => none

def parseOutcome (s : String) : Option Outcome :=
  if s == "served" then some .served else if s == "goaway" then some .goaway
  else if s == "closed" then some .closed else if s == "stuck" then some .stuck
  else if s == "panic" then some .panic else if s == "deadlock" then some .deadlock else none

def floodKinds : List String :=
  ["ping", "settings", "settingsack", "rst", "hdr", "cont", "wu", "wu0", "prio", "data0", "unknown"]

/-- syntactic validity of an action, as the harness checks it -/
def validAct (st : St) : List String → Bool
  | ["raw", b] => st.started && (parseBytes b).isSome
  | ["pre"] => st.started
  | ["set"] => st.started
  | ["req", sid] => st.started && (match sid.toNat? with | some n => n < 2147483648 | none => false)
  | ["flood", k, n] => st.started && floodKinds.contains k && (match n.toNat? with | some n => n ≤ 30000 | none => false)
  | ["block"] => st.started
  | ["unblock"] => st.started
  | ["sleep", ms] => st.started && (match ms.toNat? with | some n => n ≤ 60000 | none => false)
  | ["eof"] => st.started
  | _ => false

def sampleVerdict (adv : Nat) (obs : List String) : String :=
  match parseSample obs with
  | none => "reject unreadable-sample"
  | some x =>
    if x.ok adv then "ok"
    else if x.alive && x.queued > maxQueuedControlFrames then "reject control-queue"
    else "reject handlers"

def step (st : St) (line : String) : St × String :=
  let (act, obs) := splitArrow (tokens line)
  match act with
  | "conn" :: adv :: sched =>
    match adv.toNat? with
    | some a =>
      let schedOK := match sched with
        | [] => true
        | [x] => ["default", "rr", "p9218", "p7540", "rand"].contains x
        | _ => false
      if a < 1 || a > 1000 || !schedOK then (st, "bad-op")
      else ({ started := true, adv := a }, sampleVerdict a obs)
    | none => (st, "bad-op")
  | ["end"] =>
    if !st.started then (st, "bad-op") else
    match obs with
    | [o, q, h] =>
      match parseOutcome o, field "q" q, field "h" h with
      | some o, some q, some h =>
        let c : CaseObs := { adv := st.adv, samples := [], outcome := o, maxQueued := q, maxHandlers := h }
        ({ st with started := false }, if c.accept then "ok" else s!"reject outcome {repr o}")
      | _, _, _ => (st, "reject unreadable-outcome")
    | _ => (st, "reject unreadable-outcome")
  | _ =>
    if validAct st act then (st, sampleVerdict st.adv obs) else (st, "bad-op")

end NetVerif.Driver.C16

def main : IO Unit := NetVerif.Driver.runLoop NetVerif.Driver.C16.step {}
