import NetVerif.Driver.Util
import NetVerif.Model.StreamWire
/-! Monitor driver for the C21 "pair" tie (V-tie on a real client/server Conn pair): one
`StreamWire` monitor per (advertising side, stream type). -/
open NetVerif.Driver NetVerif.Model.StreamWire

/-- key = 2 * advertiser + (0 bidi | 1 uni) -/
abbrev PSt := List (Nat × St)

def key (side : Nat) (t : String) : Nat := 2 * side + (if t == "u" then 1 else 0)

def getM (m : PSt) (k : Nat) : Option St := (m.find? fun p => p.1 == k).map (·.2)
def setM (m : PSt) (k : Nat) (s : St) : PSt := (k, s) :: m.filter fun p => p.1 != k

def feedP (m : PSt) (k : Nat) (e : Ev) : PSt × Option String :=
  match getM m k with
  | none => (m, some "no-monitor")
  | some s => if check s e then (setM m k (next s e), none) else (m, some "violation")

def whyP : Ev → String
  | .accepted _ => "accepted-stream-at-or-beyond-advertised-limit"
  | .maxStreams _ => "max-streams-decreased-or-exceeds-closed-plus-configured"
  | .localOpen (some _) => "local-stream-opened-beyond-received-max-streams-or-out-of-sequence"
  | .localOpen none => "local-open-blocked-although-quota-available"
  | _ => "?"

def tokenEv (t : String) : Option (Option (Nat × Ev)) :=
  match t.splitOn ":" with
  | ["tm", s, ty, v] => do let s ← parseNat s; let v ← parseInt v; pure (some (key s ty, Ev.maxStreams v))
  | ["rm", s, ty, v] => do let s ← parseNat s; let v ← parseInt v; pure (some (key (1 - s) ty, Ev.peerMax v))
  | ["ok", s, ty, n] => do let s ← parseNat s; let n ← parseInt n; pure (some (key (1 - s) ty, Ev.localOpen (some n)))
  | ["blocked", s, ty] => do let s ← parseNat s; pure (some (key (1 - s) ty, Ev.localOpen none))
  | ["acc", s, ty, n] => do let s ← parseNat s; let n ← parseInt n; pure (some (key s ty, Ev.accepted n))
  | ["closed", s, ty, _] => do let s ← parseNat s; pure (some (key (1 - s) ty, Ev.closed))
  | ["-"] => some none
  | ["err"] => some none
  | _ => none

def feedTokens (m : PSt) : List String → PSt × Option String
  | [] => (m, none)
  | t :: ts =>
    if t.startsWith "x:" then (m, some "connection-closed-with-transport-error") else
    match tokenEv t with
    | none => (m, some "malformed-observation")
    | some none => feedTokens m ts
    | some (some (k, e)) =>
      match feedP m k e with
      | (m', none) => feedTokens m' ts
      | (m', some w) => (m', some (if w == "violation" then whyP e else w))

def c21pStep (ms : Option PSt) (line : String) : Option PSt × String :=
  match line.splitOn "=>" with
  | [op, obs] =>
    let o := tokens op
    let b := tokens obs
    if b == ["dead"] ∨ b == ["bad-op"] ∨ b == ["aborted"] ∨ b == ["timeout"] then (ms, "ok") else
    match o with
    | "reset" :: _ =>
      let tps := b.filterMap fun t => match t.splitOn ":" with
        | ["tp", s, x, y] => match parseNat s, parseInt x, parseInt y with | some s, some x, some y => some (s, x, y) | _, _, _ => none
        | _ => none
      let cfgs := b.filterMap fun t => match t.splitOn ":" with
        | ["cfg", s, x, y] => match parseNat s, parseInt x, parseInt y with | some s, some x, some y => some (s, x, y) | _, _, _ => none
        | _ => none
      if tps.length ≠ 2 ∨ cfgs.length ≠ 2 then (ms, "reject malformed-reset") else
      let mk (s : Nat) : Option (List (Nat × St)) :=
        match tps.find? (·.1 == s), cfgs.find? (·.1 == s) with
        | some (_, tb, tu), some (_, cb, cu) =>
          if initOk cb tb && initOk cu tu then
            some [(2 * s, { cfg := cb, adv := tb, grant := tb, lcount := 0, ccount := 0 }),
                  (2 * s + 1, { cfg := cu, adv := tu, grant := tu, lcount := 0, ccount := 0 })]
          else none
        | _, _ => none
      match mk 0, mk 1 with
      | some a, some c => (some (a ++ c), "ok")
      | _, _ => (ms, "reject initial-limit-exceeds-configuration")
    | _ =>
      match ms with
      | none => (ms, "reject event-before-reset")
      | some m =>
        let (m', r) := feedTokens m b
        (some m', match r with | none => "ok" | some w => "reject " ++ w)
  | _ => (ms, "reject malformed-line")

def main : IO Unit := runLoop c21pStep none
