import NetVerif.Driver.Util
import NetVerif.Model.XsrfToken
import NetVerif.Model.HmacSha1
/-! Line-protocol driver for the XSRF token model (C57), MAC = HMAC-SHA1/base64url. Stateless. -/
open NetVerif.Driver NetVerif.Model.Xsrf

def c57Mac := NetVerif.Model.HmacSha1.mac

def c57Int64 (i : Int) : Bool := decide (-9223372036854775808 ≤ i ∧ i ≤ 9223372036854775807)

def c57Bool (b : Bool) : String := if b then "1" else "0"

def c57Step (_ : Unit) (line : String) : Unit × String :=
  let out : String :=
    match tokens line with
    | ["gen", key, user, action, ns] =>
      match parseBytes key, parseBytes user, parseBytes action, parseInt ns with
      | some key, some user, some action, some ns =>
        if c57Int64 ns then
          match generateWith c57Mac key user action ns with
          | some t => s!"ok {hexOfBytes t}"
          | none => "panic"
        else "bad-op"
      | _, _, _, _ => "bad-op"
    | ["valid", tok, key, user, action, now, timeout] =>
      match parseBytes tok, parseBytes key, parseBytes user, parseBytes action, parseInt now, parseInt timeout with
      | some tok, some key, some user, some action, some now, some timeout =>
        if c57Int64 now ∧ c57Int64 timeout then
          match validWith c57Mac tok key user action now timeout with
          | some b => s!"ok {c57Bool b}"
          | none => "panic"
        else "bad-op"
      | _, _, _, _, _, _ => "bad-op"
    | ["gv", key, user, action, ns, key2, user2, action2, now, timeout] =>
      match parseBytes key, parseBytes user, parseBytes action, parseInt ns,
            parseBytes key2, parseBytes user2, parseBytes action2, parseInt now, parseInt timeout with
      | some key, some user, some action, some ns, some key2, some user2, some action2, some now, some timeout =>
        if c57Int64 ns ∧ c57Int64 now ∧ c57Int64 timeout then
          match generateWith c57Mac key user action ns with
          | none => "panic"
          | some t =>
            match validWith c57Mac t key2 user2 action2 now timeout with
            | some b => s!"ok {hexOfBytes t} {c57Bool b}"
            | none => "panic"
        else "bad-op"
      | _, _, _, _, _, _, _, _, _ => "bad-op"
    | _ => "bad-op"
  ((), out)

def main : IO Unit := runLoop c57Step ()
