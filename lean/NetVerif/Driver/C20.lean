import NetVerif.Driver.QuicStreamStep
import NetVerif.Model.QuicMonitor
/-! Driver for C20: `sm` lines go to the state-machine model, `ev` lines to the wire monitor. -/
open NetVerif.Driver

def main : IO Unit := runLoop NetVerif.Driver.QuicStreamStep.stepBoth NetVerif.Driver.QuicStreamStep.initBoth
