import NetVerif.Driver.Util
import NetVerif.Model.Qpack
import NetVerif.Model.QpackHuffman
/-! Line-protocol driver for the QPACK model (C33). Stateless: every op runs on a fresh stream. -/
open NetVerif.Driver NetVerif.Model.H3Stream NetVerif.Model.Qpack

namespace NetVerif.Driver.C33

def H : Huff := NetVerif.Model.QpackHuffman.huff

def errTag : Err → String
  | .eof => "eof"
  | .plain c => s!"h3:{c}"
  | .conn c => s!"conn:{c}"
  | .strm c => s!"strm:{c}"
  | .other => "other"

def bigAlloc (s : St) : Nat := if s.allocs.any (fun a => a.1 ≥ 1048576) then 1 else 0
def crashAlloc (s : St) : Bool := s.allocs.any (fun a => a.1 ≥ 8589934592)

def stateStr (s : St) : String :=
  if s.dead then s!"lim={s.lim} rem=- dead=1 big={bigAlloc s}"
  else s!"lim={s.lim} rem={s.data.length} dead=0 big={bigAlloc s}"

def outStr {α : Type} (o : Out α) (showA : α → String) : String :=
  match o with
  | .ok a s => if crashAlloc s then "crash" else s!"ok {showA a} {stateStr s}"
  | .err e s => if crashAlloc s then "crash" else s!"err {errTag e} {stateStr s}"
  | .panic => "panic"
  | .hang => "hang"

def mkSt (lim : Int) (data : List Nat) : St := { St.fresh data with lim := lim }

def fieldStr (f : Field) : String :=
  (if f.never then "N" else "M") ++ ":" ++ hexOfBytes f.name ++ ":" ++ hexOfBytes f.value

def parseFields : List String → Option (List Field)
  | [] => some []
  | t :: n :: v :: rest => do
    let never ← (if t == "N" then some true else if t == "M" then some false else none)
    let n ← parseBytes n
    let v ← parseBytes v
    let r ← parseFields rest
    pure (⟨never, n, v⟩ :: r)
  | _ => none

def optStr : Option Nat → String
  | some i => toString i
  | none => "-"

def step (_ : Unit) (line : String) : Unit × String :=
  let out : String :=
    match tokens line with
    | ["pint", first, p, v] =>
      (match parseNat first, parseNat p, parseNat v with
       | some first, some p, some v =>
         if 1 ≤ p ∧ p ≤ 8 ∧ first < 256 ∧ first % 2 ^ p = 0 ∧ v ≤ maxInt64 then
           s!"ok {hexOfBytes (appendPrefixedInt first p v)}"
         else "bad-op"
       | _, _, _ => "bad-op")
    | ["pstr", first, p, str] =>
      (match parseNat first, parseNat p, parseBytes str with
       | some first, some p, some str =>
         if 1 ≤ p ∧ p ≤ 7 ∧ first < 256 ∧ first % 2 ^ (p + 1) = 0 then
           s!"ok {hexOfBytes (appendPrefixedString H first p str)}"
         else "bad-op"
       | _, _, _ => "bad-op")
    | ["rpint", p, lim, data] =>
      (match parseNat p, parseInt lim, parseBytes data with
       | some p, some lim, some data =>
         if 1 ≤ p ∧ p ≤ 8 ∧ lim ≥ -1 then
           outStr (readPrefixedInt (mkSt lim data) p) (fun r => s!"{r.1} {r.2}")
         else "bad-op"
       | _, _, _ => "bad-op")
    | ["rpstr", p, lim, data] =>
      (match parseNat p, parseInt lim, parseBytes data with
       | some p, some lim, some data =>
         if 1 ≤ p ∧ p ≤ 7 ∧ lim ≥ 0 then
           outStr (readPrefixedString H (mkSt lim data) p) (fun r => s!"{r.1} {hexOfBytes r.2}")
         else "bad-op"
       | _, _, _ => "bad-op")
    | "enc" :: rest =>
      (match parseFields rest with
       | some fs => s!"ok {hexOfBytes (encode H staticTable fs)}"
       | none => "bad-op")
    | ["dec", lim, data] =>
      (match parseInt lim, parseBytes data with
       | some lim, some data =>
         if lim ≥ 0 then
           let r := decode H staticTable (mkSt lim data)
           let fs := " ".intercalate (r.fields.map fieldStr)
           let head := outStr r.final (fun _ => "-")
           if head == "crash" ∨ head == "panic" ∨ head == "hang" then head
           else s!"{head} n={r.fields.length} {fs}"
         else "bad-op"
       | _, _ => "bad-op")
    | ["table"] =>
      let ents := staticTable.map fun e => hexOfBytes e.1 ++ ":" ++ hexOfBytes e.2
      s!"ok {staticTable.length} {" ".intercalate ents}"
    | ["lookup", n, v] =>
      (match parseBytes n, parseBytes v with
       | some n, some v => s!"ok {optStr (lookupNameValue staticTable n v)} {optStr (lookupName staticTable n)}"
       | _, _ => "bad-op")
    | ["huffenc", s] =>
      (match parseBytes s with
       | some s => s!"ok {H.encLen s} {hexOfBytes (H.enc s)}"
       | none => "bad-op")
    | ["huffdec", s] =>
      (match parseBytes s with
       | some s => (match H.dec s with | some r => s!"ok {hexOfBytes r}" | none => "err")
       | none => "bad-op")
    | _ => "bad-op"
  ((), out)

end NetVerif.Driver.C33

def main : IO Unit := NetVerif.Driver.runLoop NetVerif.Driver.C33.step ()
