import NetVerif.Driver.Util
import NetVerif.Model.Pipe
import NetVerif.Gen.C30
/-! Line-protocol driver for the pipe model (C30). State: chunk size and pipe. -/
open NetVerif.Driver NetVerif.Model.Pipe

structure C30State where
  c : Nat
  p : Pipe

def c30Shape (p : Pipe) : String :=
  let h := match p.bufs with | [] => "-" | pb :: _ => toString pb.off
  s!"{p.start} {p.stop} {p.bufs.length} {h}"

def c30Step (s : C30State) (line : String) : C30State × String :=
  match tokens line with
  | ["reset", c] =>
    match parseNat c with
    | some c =>
      let c := if c = 0 then NetVerif.Gen.C30.pipebufSize else c
      (⟨c, empty⟩, s!"ok {c}")
    | none => (s, "bad-op")
  | ["w", off, b] =>
    match parseInt off, parseBytes b with
    | some off, some b =>
      let r := writeAt s.c s.p b off
      (⟨s.c, r.1⟩, if r.2 then "panic" else s!"ok {c30Shape r.1}")
    | _, _ => (s, "bad-op")
  | ["r", off, n] =>
    match parseInt off, parseInt n with
    | some off, some n =>
      match read s.p off n with
      | some cs =>
        let lens := if cs.isEmpty then "-" else ",".intercalate (cs.map (fun c => toString c.length))
        (s, s!"ok {hexOfBytes cs.flatten} {lens}")
      | none => (s, "panic")
    | _, _ => (s, "bad-op")
  | ["c", off, n] =>
    match parseInt off, parseNat n with
    | some off, some n =>
      match copy s.p off n with
      | some b => (s, s!"ok {hexOfBytes b}")
      | none => (s, "panic")
    | _, _ => (s, "bad-op")
  | ["p", n] =>
    match parseInt n with
    | some n =>
      match peek s.p n with
      | some b => (s, s!"ok {hexOfBytes b}")
      | none => (s, "panic")
    | none => (s, "bad-op")
  | ["a"] =>
    match availableLen s.p with
    | some n => (s, s!"ok {n}")
    | none => (s, "panic")
  | ["d", off] =>
    match parseInt off with
    | some off => let p := discardBefore s.p off; (⟨s.c, p⟩, s!"ok {c30Shape p}")
    | none => (s, "bad-op")
  | ["st"] => (s, s!"ok {c30Shape s.p}")
  | _ => (s, "bad-op")

def main : IO Unit := runLoop c30Step ⟨NetVerif.Gen.C30.pipebufSize, empty⟩
