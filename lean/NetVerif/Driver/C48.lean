import NetVerif.Driver.Util
import NetVerif.Driver.BpfText
import NetVerif.Model.Bpf
/-!
Line-protocol driver for the bpf Assemble/Disassemble model (C48). Stateless.
  asm <instr>          -> ok <op> <jt> <jf> <k> | err
  dis <op> <jt> <jf> <k> -> ok <instr>
  rt1 <instr>          -> err | ok same | ok diff     (Disassemble(Assemble i) == i ?, answered from `canonTyped`)
  rt2 <op> <jt> <jf> <k> -> ok raw | ok same | ok diff (Disassemble r passed through? else Assemble(Disassemble r) == r ?)
  asmprog <prog>       -> ok <n> <op jt jf k>… | err
-/
open NetVerif.Driver NetVerif.Driver.BpfText NetVerif.Model.Bpf

def c48Step (_ : Unit) (line : String) : Unit × String :=
  let out : String :=
    match tokens line with
    | ["asm", i] =>
      match parseInstr i with
      | some i => (match asm i with | some r => "ok " ++ showRaw r | none => "err")
      | none => "bad-op"
    | ["dis", o, t, f, k] =>
      match parseRaw o t f k with
      | some r => "ok " ++ showInstr (disasm r)
      | none => "bad-op"
    | ["rt1", i] =>
      match parseInstr i with
      | some i =>
        (match asm i with
         | some _ => if canonTyped i then "ok same" else "ok diff"
         | none => "err")
      | none => "bad-op"
    | ["rt2", o, t, f, k] =>
      match parseRaw o t f k with
      | some r =>
        -- answered from the decoder and `canonRaw` (the real code: pass-through iff not decoded or not canonical)
        if isRaw (disasmCore r) || !canonRaw r then "ok raw"
        else if asm (disasm r) == some r then "ok same" else "ok diff"
      | none => "bad-op"
    | ["asmprog", p] =>
      match parseProg p with
      | some p =>
        (match asmProg p with
         | some rs => s!"ok {rs.length} " ++ " ".intercalate (rs.map showRaw)
         | none => "err")
      | none => "bad-op"
    | _ => "bad-op"
  ((), out)

def main : IO Unit := runLoop c48Step ()
