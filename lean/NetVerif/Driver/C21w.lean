import NetVerif.Driver.Util
import NetVerif.Model.StreamWire
/-! Monitor driver for the C21 wire tie (V-tie): `ok` or `reject <why>` per recorded op line. -/
open NetVerif.Driver NetVerif.Model.StreamWire

structure MSt where
  b : St
  u : St

def MSt.get (m : MSt) (t : String) : St := if t == "u" then m.u else m.b
def MSt.set (m : MSt) (t : String) (s : St) : MSt := if t == "u" then { m with u := s } else { m with b := s }

/-- Apply one atomic event to the monitor of type `t`; `none` = rejected. -/
def feed (m : MSt) (t : String) (e : Ev) : Option MSt :=
  if check (m.get t) e then some (m.set t (next (m.get t) e)) else none

def whyEv : Ev → String
  | .peerOpen _ true => "stream-limit-error-for-a-stream-below-the-advertised-limit"
  | .peerOpen _ false => "stream-at-or-beyond-the-advertised-limit-not-refused"
  | .accepted _ => "accepted-stream-beyond-advertised-limit"
  | .maxStreams _ => "max-streams-decreased-or-exceeds-closed-plus-configured"
  | .localOpen (some _) => "local-stream-opened-beyond-peer-max-streams-or-out-of-sequence"
  | .localOpen none => "local-open-blocked-although-quota-available"
  | _ => "?"

/-- Observation tokens of a line → atomic events with their stream type, in order.
`lim` says whether the line saw STREAM_LIMIT_ERROR (x:4). -/
def obsEvents : List String → Option (List (String × Ev))
  | [] => some []
  | t :: ts =>
    match t.splitOn ":" with
    | ["m", ty, v] => do let v ← parseInt v; let r ← obsEvents ts; pure ((ty, Ev.maxStreams v) :: r)
    | ["acc", ty, n] => do let n ← parseInt n; let r ← obsEvents ts; pure ((ty, Ev.accepted n) :: r)
    | ["closed", ty, _] => do let r ← obsEvents ts; pure ((ty, Ev.closed) :: r)
    | ["lclosed", ty, _] => do let r ← obsEvents ts; pure ((ty, Ev.localClosed) :: r)
    | ["fin", _] => obsEvents ts
    | ["ok", n] => do let n ← parseInt n; let r ← obsEvents ts; pure (("?", Ev.localOpen (some n)) :: r)
    | ["blocked"] => do let r ← obsEvents ts; pure (("?", Ev.localOpen none) :: r)
    | ["x", _] => obsEvents ts
    | ["-"] => obsEvents ts
    | _ => none

def feedAll (m : MSt) : List (String × Ev) → MSt × Option String
  | [] => (m, none)
  | (t, e) :: rest =>
    match feed m t e with
    | some m' => feedAll m' rest
    | none => (m, some (whyEv e))

def c21wStep (ms : Option MSt) (line : String) : Option MSt × String :=
  match line.splitOn "=>" with
  | [op, obs] =>
    let o := tokens op
    let b := tokens obs
    if b == ["dead"] ∨ b == ["bad-op"] ∨ b == ["aborted"] ∨ b == ["timeout"] then (ms, "ok") else
    match o with
    | ["reset", _, _, _, gb, gu] =>
      let tp := b.filterMap fun t => match t.splitOn ":" with
        | ["tp", x, y] => match parseInt x, parseInt y with | some x, some y => some (x, y) | _, _ => none
        | _ => none
      let cfg := b.filterMap fun t => match t.splitOn ":" with
        | ["cfg", x, y] => match parseInt x, parseInt y with | some x, some y => some (x, y) | _, _ => none
        | _ => none
      match tp, cfg, parseInt gb, parseInt gu with
      | [(tb, tu)], [(cb, cu)], some gb, some gu =>
        if initOk cb tb && initOk cu tu then
          (some { b := { cfg := cb, adv := tb, grant := gb, lcount := 0, ccount := 0 },
                  u := { cfg := cu, adv := tu, grant := gu, lcount := 0, ccount := 0 } }, "ok")
        else (ms, "reject initial-limit-exceeds-configuration")
      | _, _, _, _ => (ms, "reject malformed-reset")
    | _ =>
      match ms with
      | none => (ms, "reject event-before-reset")
      | some m =>
        match obsEvents b with
        | none => (ms, "reject malformed-observation")
        | some evs =>
          let closes := b.filter fun t => t.startsWith "x:"
          let limitErr := closes.contains "x:4"
          let otherClose := closes.any fun t => t != "x:4"
          -- events carried by the op itself come first
          let (pre, ty) : List (String × Ev) × String :=
            match o with
            | ["popen", ty, n, _] => (match parseInt n with | some n => [(ty, Ev.peerOpen n limitErr)] | none => [], ty)
            | ["pframe", ty, n, _] => (match parseInt n with | some n => [(ty, Ev.peerOpen n limitErr)] | none => [], ty)
            | ["pmax", ty, v] => (match parseInt v with | some v => [(ty, Ev.peerMax v)] | none => [], ty)
            | ["nstream", ty] => ([], ty)
            | _ => ([], "b")
          let evs := evs.map fun (t, e) => (if t == "?" then ty else t, e)
          if otherClose ∨ (limitErr ∧ o.head? ≠ some "popen" ∧ o.head? ≠ some "pframe") then (ms, "reject unexpected-connection-close") else
          let (m', r) := feedAll m (pre ++ evs)
          (some m', match r with | none => "ok" | some w => "reject " ++ w)
  | _ => (ms, "reject malformed-line")

def main : IO Unit := runLoop c21wStep none
