import NetVerif.Driver.H2Common
import NetVerif.Model.H2Norm
/-! Line-protocol driver / monitor for C14 (HTTP/2 end-to-end fidelity).

Per case: `cfg`, then `req`/`resp` specs, then the recorded wire frames (`fr`), then `hreq i` /
`cres i` (print the model's receiver view of message i) and `end`.

* `fr` lines run the per-stream receive state machine of `Model/H2Msg.lean` (`step`) for the
  frame's direction and stream, check the frame size against the limit the receiver advertised,
  the contiguity of header blocks, and — when END_STREAM completes a message — compare the
  reassembled message with the model of the sender's normalisation (`clientNorm` / `serverNorm`).
  Output `ok` or `reject <why>`.
* the header block decoder is the field list the harness attached to the END_HEADERS frame
  (decoded by an independent Go `hpack.Decoder`); HPACK itself is C01–C05.
-/
open NetVerif.Driver NetVerif.Driver.H2 NetVerif.Model.H2Frame NetVerif.Model.H2Msg NetVerif.Model.H2Norm

namespace NetVerif.Driver.C14

structure RespSpec where
  r : Resp
  expl : Bool
deriving Inhabited

structure DirSt where
  /-- frame payload limit for this direction (what the receiving side advertised). -/
  limit : Nat := 16384
  /-- stream of the unfinished header block, if any. -/
  inBlock : Option Nat := none
  streams : List (Nat × StreamSt) := []
deriving Inhabited

structure St where
  gzip : Bool := false
  /-- oracle-only scenario (request sent before the server's SETTINGS are seen): no trace lines. -/
  early : Bool := false
  /-- advertised MAX_HEADER_LIST_SIZE of the server / of the client. -/
  slimit : Nat := 0
  climit : Nat := 0
  reqs : List Req := []
  resps : List RespSpec := []
  c : DirSt := {}
  s : DirSt := {}
deriving Inhabited

def kvOf (toks : List String) (key : String) : Option String :=
  toks.findSome? (fun t =>
    match t.splitOn "=" with
    | [k, v] => if k == key then some v else none
    | _ => none)

def parseKVTok (tok : String) : Option (Str × List Str) :=
  match tok.splitOn ":" with
  | [k, vs] => do
    let k ← parseBytes k
    let vv ← if vs == "" then some [] else (vs.splitOn ",").mapM parseBytes
    pure (k, vv)
  | _ => none

/-- the `<tag> <k:v,v>` groups of a spec line. -/
def groupsOf (tag : String) : List String → Option HMap
  | [] => some []
  | [_] => some []
  | t :: x :: rest =>
    if t == tag then do
      let kv ← parseKVTok x
      let more ← groupsOf tag rest
      pure (kv :: more)
    else groupsOf tag (x :: rest)

def parseIntList (s : String) : Option (List Int) :=
  if s == "-" then some [] else (s.splitOn ",").mapM (·.toInt?)

def parseReq (toks : List String) (gzip : Bool) : Option Req := do
  let m ← (kvOf toks "m") >>= parseBytes
  let sch ← kvOf toks "sch"
  let host ← (kvOf toks "host") >>= parseBytes
  let uhost ← (kvOf toks "uhost") >>= parseBytes
  let path ← (kvOf toks "path") >>= parseBytes
  let cl ← (kvOf toks "cl") >>= (·.toInt?)
  let nil ← (kvOf toks "nil") >>= parseBool
  let body ← (kvOf toks "body") >>= parsePayload
  let h ← groupsOf "H" toks
  let t ← groupsOf "T" toks
  pure { method := m, scheme := str sch, host := host, uhost := uhost, path := path, contentLength := cl,
         nilBody := nil, body := body, header := h, trailer := t, gzip := gzip }

def parseResp (toks : List String) : Option RespSpec := do
  let st ← (kvOf toks "st") >>= parseNat
  let mode ← (kvOf toks "mode") >>= parseNat
  let expl ← (kvOf toks "expl") >>= parseBool
  let body ← (kvOf toks "body") >>= parsePayload
  let w ← (kvOf toks "w") >>= parseIntList
  let h ← groupsOf "H" toks
  let td ← groupsOf "TD" toks
  let tu ← groupsOf "TU" toks
  pure { r := { status := st, header := h, declTrailers := td, undeclTrailers := tu, body := body,
                writes := w, flushFirst := mode == 1 }, expl := expl }

def parseFieldTok (tok : String) : Option Field :=
  match tok.splitOn ":" with
  | [k, v] => do
    let k ← parseBytes k
    let v ← parseBytes v
    pure ⟨k, v⟩
  | _ => none

/-- the optional ` F <name:value>…` tail: `none` = no field list on this line. -/
def parseFTail : List String → Option (Option (List Field))
  | [] => some none
  | "F" :: fs => (fs.mapM parseFieldTok).map some
  | _ => none

def lookupStream (d : DirSt) (sid : Nat) : StreamSt :=
  match d.streams.find? (fun e => e.1 == sid) with
  | some e => e.2
  | none => { sid := sid }

def setStream (d : DirSt) (sid : Nat) (st : StreamSt) : DirSt :=
  if d.streams.any (fun e => e.1 == sid) then
    { d with streams := d.streams.map (fun e => if e.1 == sid then (sid, st) else e) }
  else { d with streams := d.streams ++ [(sid, st)] }

def hasCaseCollision (h : HMap) : Bool :=
  let ks := h.map (fun e => lower e.1)
  ks.length != (dedup ks).length

/-- a completed request message against the model of the client's normalisation. -/
def checkReq (r : Req) (st : StreamSt) : Option String :=
  let exp := clientNorm r
  let act := st.msg
  let cf := if hasCaseCollision r.header then canonFieldsLoose else canonFields
  if cf act.headers != cf exp.headers then some "request-header-fields"
  else if act.body != exp.body then some "request-body"
  else if canonFieldsLoose act.trailers != canonFieldsLoose exp.trailers then some "request-trailers"
  else if st.hdrEnd != r.earlyEnd then some "request-end-stream-placement"
  else none

def Resp.earlyEnd (r : Resp) : Bool := r.doneAtHeader && r.trailerKeys.isEmpty && r.body.isEmpty

/-- a completed response message against the model of the server's normalisation. -/
def checkResp (r : Resp) (st : StreamSt) : Option String :=
  let exp := serverNorm r
  let act := st.msg
  if maskAuto exp.headers act.headers != exp.headers then some "response-header-fields"
  else if act.body != exp.body then some "response-body"
  else if act.trailers != exp.trailers then some "response-trailers"
  else if st.hdrEnd != Resp.earlyEnd r then some "response-end-stream-placement"
  else none

def onComplete (s : St) (isClient : Bool) (sid : Nat) (st : StreamSt) : String :=
  if sid % 2 != 1 then "reject even-stream"
  else
    let idx := (sid - 1) / 2
    if isClient then
      match s.reqs[idx]? with
      | some r => match checkReq r st with
        | none => "ok"
        | some why => "reject " ++ why
      | none => "reject unknown-stream"
    else
      match s.resps[idx]? with
      | some r => match checkResp r.r st with
        | none => "ok"
        | some why => "reject " ++ why
      | none => "reject unknown-stream"

/-- one stream frame (HEADERS / CONTINUATION / DATA). -/
def onStreamFrame (s : St) (isClient : Bool) (f : SFrame) (fields : Option (List Field)) : St × String :=
  let d := if isClient then s.c else s.s
  let put (d' : DirSt) : St := if isClient then { s with c := d' } else { s with s := d' }
  if f.len > d.limit then (s, "reject frame-too-large")
  -- the server never sends a header fragment above the spec minimum (`splitHeaderBlock`)
  else if !isClient && f.dataBytes.isEmpty && f.frag.length > serverHdrFragmentMax then
    (s, "reject server-header-fragment-too-large")
  else
    -- header blocks are contiguous on a connection
    let orderOK := match d.inBlock with
      | some b => f.isContinuation && f.sid == b
      | none => !f.isContinuation
    if !orderOK then (s, "reject header-block-interleaved")
    else
      let st := lookupStream d f.sid
      let dec : Unit → Bytes → Option (List Field × Unit) := fun _ _ => fields.map (fun fs => (fs, ()))
      match step dec () st f with
      | none => (s, "reject stream-state")
      | some (_, st') =>
        let inBlock' := match f with
          | .data _ _ _ => none
          | _ => if f.endHeaders then none else some f.sid
        let d' := { setStream d f.sid st' with inBlock := inBlock' }
        let s' := put d'
        if st'.phase == .done then (s', onComplete s isClient f.sid st') else (s', "ok")

/-- the response header list on stream `sid` exceeds what the client advertised. -/
def respOver (s : St) (sid : Nat) : Bool :=
  match s.s.streams.find? (fun e => e.1 == sid) with
  | some e => decide (headerListSize e.2.headers > s.climit)
  | none => false

def onFrame (s : St) (isClient : Bool) (typ flags sid : Nat) (payload : Bytes)
    (fields : Option (List Field)) : St × String :=
  if typ == 0 then
    if flags != 0 && flags != 1 then (s, "reject data-flags")
    else onStreamFrame s isClient (.data sid (flags == 1) payload) none
  else if typ == 1 then
    -- only END_STREAM (1) and END_HEADERS (4): no padding, no priority
    if flags != 0 && flags != 1 && flags != 4 && flags != 5 then (s, "reject headers-flags")
    else onStreamFrame s isClient (.headers sid (hasFlag flags 1) (hasFlag flags 4) payload) fields
  else if typ == 9 then
    if flags != 0 && flags != 4 then (s, "reject continuation-flags")
    else onStreamFrame s isClient (.continuation sid (hasFlag flags 4) payload) fields
  else if typ == 4 then
    if flags % 2 == 1 then (s, "ok")
    else
      -- SETTINGS_MAX_FRAME_SIZE (5) sent in this direction limits the frames of the other one
      match settingsValue 5 (settingsOf payload) with
      | some v =>
        if isClient then ({ s with s := { s.s with limit := v } }, "ok")
        else ({ s with c := { s.c with limit := v } }, "ok")
      | none => (s, "ok")
  else if typ == 8 || typ == 6 then (s, "ok")
  else if typ == 7 then
    -- graceful GOAWAY (NO_ERROR) only
    match payload with
    | _ :: _ :: _ :: _ :: 0 :: 0 :: 0 :: 0 :: _ => (s, "ok")
    | _ => (s, "reject goaway-error")
  else if typ == 3 then
    -- the Transport resets a stream whose response header list exceeds what it advertised
    if isClient && respOver s sid then (s, "ok")
    else (s, "reject rst-stream")
  else (s, "reject unexpected-frame-type")

def showHMap (h : HMap) (wildKeys : List Str) : String :=
  if h.isEmpty then "-" else
  " ".intercalate (h.sorted.map (fun e =>
    if wildKeys.contains e.1 then hexOfBytes e.1 ++ ":*"
    else hexOfBytes e.1 ++ ":" ++ ",".intercalate (e.2.map hexOfBytes)))

def showHReq (v : HReq) : String :=
  s!"ok m={hexOfBytes v.method} uri={hexOfBytes v.uri} host={hexOfBytes v.host} proto={hexOfBytes (str "HTTP/2.0")} cl={v.contentLength} H {showHMap v.header []} B {dig v.body} T {showHMap v.trailer []}"

def showHRes (v : HRes) (wildKeys : List Str) : String :=
  s!"ok st={v.status} cl={v.contentLength} unc=0 H {showHMap v.header wildKeys} B {dig v.body} T {showHMap v.trailer []}"

def completed (d : DirSt) (sid : Nat) : Option StreamSt :=
  match d.streams.find? (fun e => e.1 == sid) with
  | some e => if e.2.phase == .done then some e.2 else none
  | none => none

def started (d : DirSt) (sid : Nat) : Bool := d.streams.any (fun e => e.1 == sid)

def c14Step (s : St) (line : String) : St × String :=
  match tokens line with
  | "cfg" :: rest =>
    match (kvOf rest "gz") >>= parseBool, (kvOf rest "early") >>= parseBool with
    | some gz, some early =>
      let num (k : String) : Nat := ((kvOf rest k) >>= parseNat).getD 0
      ({ gzip := gz, early := early, slimit := serverHeaderListLimit (num "smh"),
         climit := clientHeaderListLimit (num "cmh") }, "ok")
    | _, _ => (s, "bad-op")
  | "req" :: rest =>
    match parseReq rest s.gzip, (kvOf rest "i") >>= parseNat with
    | some r, some i => if i == s.reqs.length then ({ s with reqs := s.reqs ++ [r] }, "ok") else (s, "bad-op")
    | _, _ => (s, "bad-op")
  | "resp" :: rest =>
    match parseResp rest, (kvOf rest "i") >>= parseNat with
    | some r, some i => if i == s.resps.length then ({ s with resps := s.resps ++ [r] }, "ok") else (s, "bad-op")
    | _, _ => (s, "bad-op")
  | "fr" :: dir :: typ :: flags :: sid :: payload :: tail =>
    match parseNat typ, parseNat flags, parseNat sid, parseBytes payload, parseFTail tail with
    | some typ, some flags, some sid, some payload, some fields =>
      if dir == "c" then onFrame s true typ flags sid payload fields
      else if dir == "s" then onFrame s false typ flags sid payload fields
      else (s, "bad-op")
    | _, _, _, _, _ => (s, "bad-op")
  | ["hreq", i] =>
    match parseNat i with
    | some i =>
      match completed s.c (2 * i + 1) with
      | some st => (s, showHReq (serverView st.msg st.hdrEnd))
      | none => (s, if started s.c (2 * i + 1) then "incomplete" else "none")
    | none => (s, "bad-op")
  | ["cres", i] =>
    match parseNat i with
    | some i =>
      -- a request above the server's limit is refused by the Transport (ErrRequestHeaderListSize);
      -- a response above the client's limit fails RoundTrip (errResponseHeaderListSize)
      if (match s.reqs[i]? with | some r => clientRefuses r s.slimit | none => false) then (s, "err roundtrip")
      else if respOver s (2 * i + 1) then (s, "err roundtrip")
      else
      match completed s.s (2 * i + 1), s.resps[i]? with
      | some st, some sp =>
        let hasKey (k : String) : Bool := sp.r.header.any (fun e => canonKey e.1 == str k)
        let wk := (if hasKey "Date" then [] else [str "Date"]) ++
                  (if hasKey "Content-Type" then [] else [str "Content-Type"])
        (s, showHRes (clientView st.msg st.hdrEnd) wk)
      | _, _ => (s, "none")
    | none => (s, "bad-op")
  | ["end"] => (s, "ok")
  | _ => (s, "bad-op")

end NetVerif.Driver.C14

def main : IO Unit := NetVerif.Driver.runLoop NetVerif.Driver.C14.c14Step {}
