import NetVerif.Driver.Util
import NetVerif.Model.H2Server
/-!
Driver for C15: trace monitor + exact accounting model over the lines recorded by
harness/C15 (see rig_test.go for the grammar).

Every trace line `<action> => <observations>` is
 * turned into the event sequence  client events ++ observed events ++ [quiesce]  and fed to the
   product monitor `Mon` (clauses A–E of the statement), and
 * replayed on the accounting model `Srv`: per segment (a segment ends with a white-box snapshot
   `wb:cur:queued:streams`) the predicted RST_STREAMs, handler starts, PING/SETTINGS acks, GOAWAYs
   and the three counters must equal the recorded ones. The exact comparison stops (`exact := false`)
   once the server has sent an error GOAWAY, or when frames other than PING/SETTINGS arrive while
   the client is not reading.
Output: `ok` | `reject <why>` | `bad-op`; `chk` lines: `ok 0|1`.
-/
open NetVerif.Driver NetVerif.Model.H2Server
open NetVerif.Model.H2Frame (Field)

namespace NetVerif.Driver.C15

structure St where
  started : Bool := false
  mon : Mon := {}
  srv : Srv := Srv.init 1
  exact : Bool := true
  blocked : Bool := false
  wblocked : Bool := false       -- a server write is stuck behind the blocked client
  ackPending : Nat := 0          -- needToSendSettingsAck (a counter) while the write is stuck
  heldNow : List Out := []       -- written into the server's buffer before the flush blocked
  heldQ : List Out := []         -- queued in the write scheduler behind the stuck write

def unhexTok (s : String) : Option (List Nat) :=
  if s == "." then some [] else bytesOfHexChars s.toList

def parseFields (s : String) : Option (List Field) :=
  if s == "-" then some [] else
  (s.splitOn ",").mapM (fun kv =>
    match kv.splitOn "=" with
    | [n, v] => do
      let n ← unhexTok n
      let v ← unhexTok v
      pure (⟨n, v⟩ : Field)
    | _ => none)

def parseB (s : String) : Option Bool :=
  if s == "1" then some true else if s == "0" then some false else none

def parseKind (s : String) : Option ReqClass :=
  if s == "ok" then some .ok else if s == "mw" then some .mw
  else if s == "mp" then some .mp else if s == "cs" then some .cs else none

def parseU32 (s : String) : Option Nat := do
  let n ← s.toNat?
  if n < 4294967296 then some n else none

def natOfBytes (bs : List Nat) : Nat := bs.foldl (fun a b => a * 256 + b) 0

def parseSettings (s : String) : Option (List (Nat × Nat)) :=
  if s == "-" then some [] else
  (s.splitOn ",").mapM (fun kv =>
    match kv.splitOn "=" with
    | [k, v] => do
      let k ← k.toNat?
      let v ← v.toNat?
      if k < 65536 ∧ v < 4294967296 then pure (k, v) else none
    | _ => none)

/-- a parsed client frame: the monitor event, the accounting input, the intent tag -/
structure CFrame where
  ev : Ev
  inp : In
  tagOK : Bool := true
  burstSafe : Bool := false
  isSettings : Bool := false

def trailerFields : List Field := [⟨[120, 45, 116, 114, 97, 105, 108, 101, 114], [116]⟩]   -- x-trailer: t

def parseFrame (tok : String) : Option CFrame :=
  match tok.splitOn ":" with
  | ["H", sid, es, kind, ncont, fields] => do
    let sid ← parseU32 sid
    let es ← parseB es
    let kind ← parseKind kind
    let nc ← ncont.toNat?
    if nc > 8 then none else
    let fs ← parseFields fields
    let cls := classify fs
    let hp := fs.any Field.isPseudo
    let head := pseudoValue sMethod fs == sHEAD
    pure { ev := .cHeaders sid es cls hp, inp := .headers sid es cls hp head (invalidBeforeLastFragment fs nc), tagOK := decide (cls = kind),
           burstSafe := kind == .ok || kind == .mw }
  | ["T", sid, es] => do
    let sid ← parseU32 sid
    let es := es == "1"
    let cls := classify trailerFields
    pure { ev := .cHeaders sid es cls false, inp := .headers sid es cls false false false }
  | ["D", sid, len, es] => do
    let sid ← parseU32 sid
    let n ← len.toNat?
    if n > 16384 then none else
    let es := es == "1"
    pure { ev := .cData sid es, inp := .data sid es }
  | ["R", sid] => do
    let sid ← parseU32 sid
    pure { ev := .cRst sid, inp := .rst sid, burstSafe := true }
  | ["P", d] => do
    let b ← bytesOfHexChars d.toList
    if b.length ≠ 8 then none else
    pure { ev := .cPing (natOfBytes b), inp := .ping (natOfBytes b), burstSafe := true }
  | ["PA", d] => do
    let b ← bytesOfHexChars d.toList
    if b.length ≠ 8 then none else
    pure { ev := .cPingAck, inp := .pingAck, burstSafe := true }
  | ["S", ps] => do
    let ps ← parseSettings ps
    let v := settingsVerdict ps
    pure { ev := .cSettings v, inp := .settings v, isSettings := true }
  | ["SA"] => some { ev := .cSettingsAck, inp := .settingsAck, isSettings := true }
  | ["W", sid, inc] => do
    let sid ← parseU32 sid
    let inc ← parseU32 inc
    pure { ev := .cWindowUpdate sid inc, inp := .windowUpdate sid inc }
  | ["PR", sid, dep] => do
    let sid ← parseU32 sid
    let dep ← parseU32 dep
    pure { ev := .cPriority sid dep, inp := .priority sid dep }
  | ["G"] => some { ev := .cGoaway, inp := .goaway }
  | _ => none

/-- an observation token: monitor event (if any), accounting input (handler exit), observed output -/
inductive ObsTok where
  | ev (e : Ev) (out : Option Out)
  | hexit (sid : Nat) (panicked : Bool)
  | wb (cur queued streams : Nat)
  | wbx
  | skip
  | ignore

def parseObs (tok : String) : ObsTok :=
  match tok.splitOn ":" with
  | ["hs", s] => match s.toNat? with | some s => .ev (.hStart s) (some (.start s)) | none => .ignore
  | ["hf", s] => match s.toNat? with | some s => .hexit s false | none => .ignore
  | ["hp", s] => match s.toNat? with | some s => .hexit s true | none => .ignore
  | ["set", m] => .ev (.sSettings m.toNat?) none
  | ["sa"] => .ev .sSettingsAck (some .settingsAck)
  | ["rh", s, es, _] => match s.toNat? with | some s => .ev (.sHeaders s (es == "1")) none | none => .ignore
  | ["rd", s, _, es] => match s.toNat? with | some s => .ev (.sData s (es == "1")) none | none => .ignore
  | ["rst", s, c] => match s.toNat?, c.toNat? with
    | some s, some c => .ev (.sRst s c) (some (.rst s c))
    | _, _ => .ignore
  | ["pa", d] => match bytesOfHexChars d.toList with
    | some b => .ev (.sPingAck (natOfBytes b)) (some (.pingAck (natOfBytes b)))
    | none => .ignore
  | ["ga", _, c] => match c.toNat? with | some c => .ev (.sGoaway c) (some (.goaway c)) | none => .ignore
  | ["closed"] => .ev .sClosed (some .closed)
  | ["wb", "x"] => .wbx
  | ["wb", a, b, c] => match a.toNat?, b.toNat?, c.toNat? with
    | some a, some b, some c => .wb a b c
    | _, _, _ => .ignore
  | ["skip"] => .skip
  | ["wu", _, _] => .ev .sOther none
  | _ => .ignore

def splitArrow (ts : List String) : List String × List String :=
  (ts.takeWhile (· ≠ "=>"), (ts.dropWhile (· ≠ "=>")).drop 1)

/-! comparison of predicted and observed outputs of a segment -/

def outKey : Out → Nat × Nat × Nat
  | .rst s c => (0, s, c)
  | .start s => (1, s, 0)
  | .goaway c => (2, c, 0)
  | .closed => (3, 0, 0)
  | .settingsAck => (4, 0, 0)
  | .pingAck d => (5, d, 0)

def keyLe (a b : Nat × Nat × Nat) : Bool :=
  a.1 < b.1 || (a.1 == b.1 && (a.2.1 < b.2.1 || (a.2.1 == b.2.1 && a.2.2 ≤ b.2.2)))

def insertSorted (k : Nat × Nat × Nat) : List (Nat × Nat × Nat) → List (Nat × Nat × Nat)
  | [] => [k]
  | x :: xs => if keyLe k x then k :: x :: xs else x :: insertSorted k xs

def sortKeys (ks : List (Nat × Nat × Nat)) : List (Nat × Nat × Nat) := ks.foldr insertSorted []

def showOut : Out → String
  | .rst s c => s!"rst:{s}:{c}"
  | .start s => s!"hs:{s}"
  | .goaway c => s!"ga:{c}"
  | .closed => "closed"
  | .settingsAck => "sa"
  | .pingAck d => s!"pa:{d}"

def showOuts (os : List Out) : String := "[" ++ ",".intercalate (os.map showOut) ++ "]"

def isPingAck : Out → Bool
  | .pingAck _ => true
  | _ => false

/-- same multiset of outputs, and the PING ACKs in the same order -/
def outsAgree (pred obs : List Out) : Bool :=
  sortKeys (pred.map outKey) == sortKeys (obs.map outKey) &&
    pred.filter isPingAck == obs.filter isPingAck

/-- `obs` is a sub-multiset of `pred` -/
def subOuts : List Out → List Out → Bool
  | _, [] => true
  | pred, o :: rest => pred.contains o && subOuts (pred.erase o) rest

def isGoaway : Out → Bool
  | .goaway _ => true
  | _ => false

/-- the accounting model under a non-reading client: outputs are withheld. -/
def applyIn (st : St) (i : In) : St × List Out :=
  if !st.blocked || st.srv.closed || st.srv.dead then
    -- (a closed / dying connection writes nothing, reading client or not)
    let (s', o) := st.srv.step i
    ({ st with srv := s' }, o)
  else
    match i with
    | .ping d =>
      if st.wblocked then ({ st with heldQ := st.heldQ ++ [.pingAck d] }, [])
      else ({ st with heldNow := st.heldNow ++ [.pingAck d], wblocked := true }, [])
    | .settings 0 =>
      if st.wblocked then ({ st with ackPending := st.ackPending + 1 }, [])
      else ({ st with heldNow := st.heldNow ++ [.settingsAck], wblocked := true }, [])
    | .pingAck => (st, [])
    | _ => ({ st with exact := false }, [])

def release (st : St) : St × List Out :=
  let o := st.heldNow ++ List.replicate st.ackPending Out.settingsAck ++ st.heldQ
  ({ st with blocked := false, wblocked := false, ackPending := 0, heldNow := [], heldQ := [] }, o)

structure Walk where
  st : St
  pred : List Out := []
  obs : List Out := []
  nextIns : List (List In) := []   -- inputs of the following segments
  skipSeen : Bool := false
  err : Option String := none

def Walk.applyIns (w : Walk) (ins : List In) : Walk :=
  ins.foldl (fun w i =>
    let (st', o) := applyIn w.st i
    { w with st := st', pred := w.pred ++ o }) w

def Walk.monEv (w : Walk) (e : Ev) : Walk :=
  if w.err.isSome then w else
  match w.st.mon.step e with
  | some m => { w with st := { w.st with mon := m } }
  | none => { w with err := some s!"reject {w.st.mon.why e}" }

def Walk.closeSegment (w : Walk) (wbv : Option (Nat × Nat × Nat)) : Walk :=
  let w :=
    if w.err.isSome || !w.st.exact then w
    else if w.st.srv.dead then
      -- the connection error of this segment: frames queued before it may or may not have been
      -- written (the GOAWAY overtakes whatever is still in the write scheduler)
      if w.pred.filter isGoaway == w.obs.filter isGoaway && subOuts w.pred w.obs then w
      else { w with err := some s!"reject accounting: predicted {showOuts w.pred} ⊇ observed {showOuts w.obs}" }
    else if !outsAgree w.pred w.obs then
      { w with err := some s!"reject accounting: predicted {showOuts w.pred} observed {showOuts w.obs}" }
    else match wbv with
      | some (a, b, c) =>
        let s := w.st.srv
        if s.closed then { w with err := some "reject accounting: counters read after predicted close" }
        else if (a, b, c) ≠ (s.sched.cur, s.sched.queue.length, s.streams.length) then
          { w with err := some s!"reject accounting: counters {a}:{b}:{c} predicted {s.sched.cur}:{s.sched.queue.length}:{s.streams.length}" }
        else w
      | none => w
  -- after an error GOAWAY the exact comparison ends (the connection is being torn down)
  let w := { w with pred := [], obs := [], st := { w.st with exact := w.st.exact && !w.st.srv.dead } }
  match w.nextIns with
  | [] => w
  | ins :: rest => ({ w with nextIns := rest }).applyIns ins

def Walk.obsTok (w : Walk) (tok : String) : Walk :=
  match parseObs tok with
  | .ev e out =>
    let w := w.monEv e
    match out with
    | some o => { w with obs := w.obs ++ [o] }
    | none => w
  | .hexit sid p =>
    let w := w.monEv (.hFinish sid)
    w.applyIns [.handlerExit sid p]
  | .wb a b c => w.closeSegment (some (a, b, c))
  | .wbx =>
    -- serve() has returned: the model must agree once it is exact
    let w := if w.err.isNone && w.st.exact && !w.st.srv.closed then
               { w with err := some "reject accounting: serve loop gone but the model says the connection is open" } else w
    w.closeSegment none
  | .skip => { w with skipSeen := true }
  | .ignore => w

def finishLine (w : Walk) : St × String :=
  let w := w.monEv .quiesce
  match w.err with
  | some e => (w.st, e)
  | none => (w.st, "ok")

def runLine (st : St) (cevs : List Ev) (ins : List (List In)) (obs : List String) : St × String :=
  let w : Walk := { st := st }
  let w := cevs.foldl Walk.monEv w
  let w := match ins with
    | [] => w
    | i :: rest => ({ w with nextIns := rest }).applyIns i
  let w := obs.foldl Walk.obsTok w
  finishLine w

def step (st : St) (line : String) : St × String :=
  let (act, obs) := splitArrow (tokens line)
  match act with
  | ["chk", fs] =>
    match parseFields fs with
    | some fs => (st, if connSpecific fs then "ok 0" else "ok 1")
    | none => (st, "bad-op")
  | ["reset", adv, ack] =>
    match adv.toNat?, parseB ack with
    | some adv, some ack =>
      if adv < 1 || adv > 1000 then (st, "bad-op") else
      let st : St := { started := true, srv := Srv.init adv }
      let seg1 : List In := [.settings 0, .windowUpdate 0 268435456]
      runLine st ([.cSettings 0, .cWindowUpdate 0 268435456] ++ (if ack then [Ev.cSettingsAck] else []))
        (if ack then [seg1, [.settingsAck]] else [seg1]) obs
    | _, _ => (st, "bad-op")
  | "c" :: toks =>
    if !st.started || toks.isEmpty then (st, "bad-op") else
    match toks.mapM parseFrame with
    | none => (st, "bad-op")
    | some frames =>
      if frames.length > 1 && (frames.any (fun f => !f.burstSafe)) then (st, "bad-op")
      else match frames.find? (fun f => !f.tagOK) with
        | some f => (st, s!"reject tag: the model classifies a request differently from the generator's intent")
        | none => runLine st (frames.map (·.ev)) [frames.map (·.inp)] obs
  | ["h", cmd, sid] =>
    if !st.started || sid.toNat?.isNone || !(["write", "flush", "fin", "panic"].contains cmd) then (st, "bad-op") else
    -- `skip` must be recorded exactly when the model has no running user handler for the stream
    let sidN := sid.toNat?.getD 0
    let skipObs := obs.contains "skip"
    let skipPred := st.blocked || !st.srv.running.contains sidN
    let ins : List In := if !skipPred && (cmd == "write" || cmd == "flush") then [.handlerWrite sidN] else []
    let (st', r) := runLine st [] [ins] obs
    if r == "ok" && st.exact && !st.srv.closed && skipObs ≠ skipPred then
      (st', s!"reject accounting: handler command skipped={skipObs}, model says running={!skipPred}")
    else (st', r)
  | ["sleep", ms] =>
    match ms.toNat? with
    | some ms => if !st.started || ms > 60000 then (st, "bad-op") else runLine st [] [[.sleep ms]] obs
    | none => (st, "bad-op")
  | ["block"] =>
    if !st.started then (st, "bad-op") else
    let (st', r) := runLine st [.blk] [[]] obs
    ({ st' with blocked := true }, r)
  | ["unblock"] =>
    if !st.started then (st, "bad-op") else
    let (st1, o) := release st
    -- the released frames are the predicted outputs of this line's segment
    let w : Walk := { st := st1, pred := o }
    let w := w.monEv .unblk
    let w := obs.foldl Walk.obsTok w
    finishLine w
  | ["end"] =>
    if !st.started then (st, "bad-op") else
    let (st1, o) := release st
    let w : Walk := { st := st1, pred := o }
    let w := w.monEv .unblk
    let w := obs.foldl Walk.obsTok w
    finishLine w
  | _ => (st, "bad-op")

end NetVerif.Driver.C15

def main : IO Unit := NetVerif.Driver.runLoop NetVerif.Driver.C15.step {}
