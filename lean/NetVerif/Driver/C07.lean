import NetVerif.Driver.H2Common
import NetVerif.Model.H2Meta
/-! Line-protocol driver for C07 (Framer.ReadFrame on arbitrary byte streams).
`reset <maxRead> <meta> <maxHeaderList> <stream>` installs a Framer over a byte stream;
`read [c=<closeErr> d=<e><a>:<name>.<value>,… …]` is one `ReadFrame` call; in
ReadMetaHeaders mode the `d=` tokens carry the abstract HPACK decoder outcome of each header
block fragment consumed by that call (see `FragDec` in the model) and `c=` that of `Close`. -/
open NetVerif.Driver NetVerif.Driver.H2 NetVerif.Model.H2Frame NetVerif.Model

structure C07State where
  fr : Framer := newFramer
  useMeta : Bool := false
  mhls : Nat := 0
  bs : List Nat := []
  /-- the Framer's `ReadMetaHeaders` decoder (`hpack.NewDecoder(4096, nil)`), decoded in Lean -/
  hdec : Hpack.Decoder := Hpack.Decoder.new 4096

def rawHex (s : String) : Option (List Nat) := bytesOfHexChars s.toList

def hexRaw (bs : List Nat) : String :=
  String.ofList (bs.foldr (fun b acc => hexDigit (b / 16 % 16) :: hexDigit (b % 16) :: acc) [])

def parseFieldTok (s : String) : Option Field :=
  match s.splitOn "." with
  | [n, v] => do
    let n ← rawHex n
    let v ← rawHex v
    pure { name := n, value := v }
  | _ => none

/-- `<e><a>:<fields>` -/
def parseDecTok (s : String) : Option FragDec :=
  match s.toList with
  | e :: a :: ':' :: rest =>
    let fs := String.ofList rest
    let fields := if fs.isEmpty then some [] else (fs.splitOn ",").mapM parseFieldTok
    match fields, parseBool (String.singleton e), parseBool (String.singleton a) with
    | some fields, some e, some a => some { fields := fields, errEnabled := e, errAlways := a }
    | _, _, _ => none
  | _ => none

def parseAux : List String → HpackOracle → Option HpackOracle
  | [], o => some { o with decs := o.decs.reverse }
  | t :: rest, o =>
    if t.startsWith "c=" then
      match parseBool (t.drop 2).toString with
      | some c => parseAux rest { o with closeErr := c }
      | none => none
    else if t.startsWith "d=" then
      match parseDecTok (t.drop 2).toString with
      | some d => parseAux rest { o with decs := d :: o.decs }
      | none => none
    else none

def showFields (fs : List Field) : String :=
  if fs.isEmpty then "-" else ",".intercalate (fs.map (fun f => hexRaw f.name ++ "." ++ hexRaw f.value))

def showMRead (r : Except RErr MFrame) : String :=
  match r with
  | .error e => showRErr e
  | .ok (.plain f) => "ok " ++ showFrame f
  | .ok (.metaHeaders h prio fields trunc) =>
    s!"ok META {showHeader h} {showPrio prio} trunc={showBool trunc} {showFields fields}"

def c07Step (st : C07State) (line : String) : C07State × String :=
  match tokens line with
  | ["reset", maxRead, um, mhls, stream] =>
    match parseNat maxRead, parseBool um, parseNat mhls, parsePayload stream with
    | some maxRead, some um, some mhls, some bs =>
      ({ fr := { maxReadSize := setMaxReadFrameSize maxRead }, useMeta := um, mhls := mhls, bs := bs,
         hdec := Hpack.Decoder.new 4096 }, "ok")
    | _, _, _, _ => (st, "bad-op")
  | "read" :: aux =>
    if st.useMeta then
      match parseAux aux {} with
      | some orc =>
        -- concrete: the header block bytes decoded by the HPACK model; abstract: the decoder outcome
        -- observed by the harness fed to `readMeta`. Both must give the implementation's result.
        let rc := H2Meta.readMetaH st.fr st.mhls st.hdec st.bs
        let ra := readMeta st.fr st.mhls orc st.bs
        let out := showMRead rc.res
        let outA := showMRead ra.res
        ({ st with fr := rc.fr, bs := rc.rest, hdec := rc.hdec },
         if out == outA && rc.rest.length == ra.rest.length then out
         else s!"models-disagree concrete=[{out}] abstract=[{outA}]")
      | none => (st, "bad-op")
    else if aux.isEmpty then
      let r := readFrame st.fr st.bs
      ({ st with fr := r.fr, bs := r.rest }, showRead r.res)
    else (st, "bad-op")
  | _ => (st, "bad-op")

def main : IO Unit := runLoop c07Step {}
