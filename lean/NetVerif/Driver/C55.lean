import NetVerif.Driver.Util
import NetVerif.Model.Httpguts
/-! Line-protocol driver for the httpguts model (C55). Stateless.
Ops:  name <bytes> | value <bytes> | host <bytes> | rune <int> | trim <bytes> |
      teq <bytes> <bytes> | contains <token> <v1> … <vn>            -/
open NetVerif.Driver NetVerif.Model.Httpguts

def c55Bool (b : Bool) : String := if b then "ok true" else "ok false"

def c55ParseAll : List String → Option (List (List Nat))
  | [] => some []
  | s :: rest => do
    let b ← parseBytes s
    let r ← c55ParseAll rest
    pure (b :: r)

def c55Step (_ : Unit) (line : String) : Unit × String :=
  let out : String :=
    match tokens line with
    | ["name", b] => (match parseBytes b with | some b => c55Bool (validHeaderFieldName b) | none => "bad-op")
    | ["value", b] => (match parseBytes b with | some b => c55Bool (validHeaderFieldValue b) | none => "bad-op")
    | ["host", b] => (match parseBytes b with | some b => c55Bool (validHostHeader b) | none => "bad-op")
    | ["rune", r] =>
      (match parseInt r with
       | some r => if -2147483648 ≤ r ∧ r ≤ 2147483647 then c55Bool (isTokenRune r) else "bad-op"
       | none => "bad-op")
    | ["trim", b] => (match parseBytes b with | some b => s!"ok {hexOfBytes (trimOWS b)}" | none => "bad-op")
    | ["teq", a, b] =>
      (match parseBytes a, parseBytes b with
       | some a, some b => c55Bool (tokenEqual a b)
       | _, _ => "bad-op")
    | "contains" :: tok :: vals =>
      (match parseBytes tok, c55ParseAll vals with
       | some tok, some vals => c55Bool (headerValuesContainsToken vals tok)
       | _, _ => "bad-op")
    | _ => "bad-op"
  ((), out)

def main : IO Unit := runLoop c55Step ()
