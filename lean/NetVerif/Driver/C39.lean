import NetVerif.Driver.Util
import NetVerif.Model.HtmlTok
import NetVerif.Model.HtmlTokExact
/-!
Monitor driver for C39 (V-tie). Events of one tokenizer run:
  run <maxBuf> <inputhex> <config…>      start of a run (config is the harness's business)
  tok <type> <rawlen> <rawhex> <cap>     one non-error token as returned by Next/Raw
  end <eof|maxbuf|other> <errRawHex> <tailhex>   the final ErrorToken
  panic                                  the implementation panicked / hung
Verdict per line: `ok` or `reject <why>`.
-/
open NetVerif.Driver NetVerif.Model.HtmlTok

/-- D-tie line: `tokenize <maxBuf> <inputhex> <cdata> <ctx|-> <seed> <chunkMax> <eof|custom> <nirt> <api>`
→ `ok <type>:<rawlen> … end <eof|maxbuf|other> <len(Raw()) of the ErrorToken>` -/
def exactTokenize (mb : Nat) (inp : List Nat) (cdata : Bool) (ctx : String) (errKind : String) : String :=
  let ctxBytes : List Nat := if ctx == "-" then [] else ctx.toUTF8.toList.map (·.toNat)
  let z0 := NetVerif.Model.HtmlTokExact.newTokenizer inp ctxBytes mb cdata (if errKind == "eof" then NetVerif.Model.HtmlTokExact.Err.eof else NetVerif.Model.HtmlTokExact.Err.other)
  let (toks, z) := NetVerif.Model.HtmlTokExact.tokenizeAll z0
  if z.fuelOut then "fuel" else
  let kind := match z.err with
    | .eof => "eof" | .exceeded => "maxbuf" | .other => "other" | .none => "none"
  "ok" ++ String.join (toks.map fun t => s!" {t.ty}:{t.stop - t.start}") ++ s!" end {kind} {z.rawEnd - z.rawStart}"

def c39Step (st : Option Mon) (line : String) : Option Mon × String :=
  match tokens line with
  | "run" :: mb :: inp :: _cfg =>
    match parseNat mb, parseBytes inp with
    | some mb, some inp => (some { maxBuf := mb, rest := inp }, "ok")
    | _, _ => (st, "bad-op")
  | ["tok", ty, n, raw, cap] =>
    match st, parseNat ty, parseNat n, parseBytes raw, parseNat cap with
    | some m, some ty, some n, some raw, some cap =>
      if n ≠ raw.length then (st, "reject rawlen-field") else
      match stepTok m { ty := ty, raw := raw, cap := cap } with
      | .ok m' => (some m', "ok")
      | .error e => (st, "reject " ++ e)
    | none, _, _, _, _ => (st, "reject no-run")
    | _, _, _, _, _ => (st, "bad-op")
  | ["end", k, er, tl] =>
    let kind : Option EndKind :=
      if k == "eof" then some .eof else if k == "maxbuf" then some .maxbuf
      else if k == "other" then some .other else none
    match st, kind, parseBytes er, parseBytes tl with
    | some m, some k, some er, some tl =>
      match stepEnd m k er tl with
      | .ok _ => (none, "ok")
      | .error e => (st, "reject " ++ e)
    | none, _, _, _ => (st, "reject no-run")
    | _, _, _, _ => (st, "bad-op")
  | ["panic"] => (st, "reject implementation-panicked-or-hung")
  | ["tokenize", mb, inp, cdata, ctx, _seed, _chunk, errKind, "0", "0"] =>
    match parseNat mb, parseBytes inp with
    | some mb, some inp =>
      if errKind == "eof" ∨ errKind == "custom" then (st, exactTokenize mb inp (cdata == "1") ctx errKind)
      else (st, "bad-op")
    | _, _ => (st, "bad-op")
  | _ => (st, "bad-op")

def main : IO Unit := runLoop c39Step none
