import NetVerif.Driver.Util
import NetVerif.Model.Flow
import NetVerif.Model.FlowMonitor
/-!
Line-protocol step function shared by the C10 and C11 drivers.
Two families of lines:
* arithmetic ops (`ainit`, `iadd`, `itake`, `itake2`, `oinit`, `oavail`, `otake`, `oadd`, `ocadd`):
  the model's result is printed and diffed with flow.go's (D-tie);
* trace lines `<action> [=> <observations>]` recorded from the server/transport rigs:
  the monitor prints `ok` or `reject <why>` (V-tie).
-/
namespace NetVerif.Driver.Flow
open NetVerif.Driver NetVerif.Model.Flow NetVerif.Model.FlowMonitor

structure Arith where
  i0 : Inflow := ⟨0, 0⟩
  i1 : Inflow := ⟨0, 0⟩
  sn : Int := 0        -- stream-level outflow counter
  cn : Int := 0        -- conn-level outflow counter
  linked : Bool := false

structure St where
  mon : Mon := Mon.init
  ar : Arith := {}

def parseObs (tok : String) : Obs :=
  match tok.splitOn ":" with
  | ["set", v] => match parseInt v with | some v => .set v | none => .other
  | ["wu", s, n] => match parseNat s, parseInt n with | some s, some n => .wu s n | _, _ => .other
  | ["rst", s, c] => match parseNat s, parseNat c with | some s, some c => .rst s c | _, _ => .other
  | ["goaway", c] => match parseNat c with | some c => .goaway c | none => .other
  | ["rd", s, n] => match parseNat s, parseInt n with | some s, some n => .rd s n | _, _ => .other
  | ["crst", s] => match parseNat s with | some s => .crst s | none => .other
  | ["closed"] => .closed
  | ["connerr", c] => match parseNat c with | some c => .connerr c | none => .other
  | ["busy"] => .skipped
  | ["nohandler"] => .skipped
  | _ => .other

def parseBool (s : String) : Option Bool := if s == "1" then some true else if s == "0" then some false else none

def parseAct : List String → Option Act
  | ["reset", c, s] => do pure (.reset (← parseInt c) (← parseInt s))
  | ["ereset", c, s] => do pure (.ereset (← parseInt c) (← parseInt s))
  | ["ack"] => some .ack
  | ["treset", c, s] => do pure (.treset (← parseInt c) (← parseInt s))
  | ["req", sid, kind] => do pure (.req (← parseNat sid) (← parseNat kind))
  | ["rhdr", sid, _, es] => do pure (.rhdr (← parseNat sid) (← parseBool es))
  | ["hdr", sid, cl, es] => do pure (.hdr (← parseNat sid) (← parseInt cl) (← parseBool es))
  | ["data", sid, len, pad, es] => do
      let len ← parseInt len
      let pad ← parseInt pad
      if len < 0 ∨ pad < -1 then none else
      pure (.data (← parseNat sid) len pad (← parseBool es))
  | ["read", sid, _] => do pure (.read (← parseNat sid))
  | ["bclose", sid] => do pure (.bclose (← parseNat sid))
  | ["hexit", sid] => do pure (.hexit (← parseNat sid))
  | ["crst", sid] => do pure (.crst (← parseNat sid))
  -- racing variants (a detached goroutine reads the body while the stream is torn down): the
  -- interleaving is the scheduler's; the monitor judges the same observations
  | ["hexitr", sid, _] => do pure (.hexit (← parseNat sid))
  | ["crstr", sid, _] => do pure (.crst (← parseNat sid))
  | ["shutdown", sid] => do pure (.shutdown (← parseNat sid))
  -- the peer stops / resumes reading (the endpoint's writer blocks, its frames queue up): no effect
  -- of its own on what the peer has sent or been told; queued frames show up on a later line
  | ["block"] => some (.read 0)
  | ["unblock"] => some (.read 0)
  | ["quiesce"] => some .quiesce
  | _ => none

def splitArrow (ts : List String) : List String × List String :=
  (ts.takeWhile (· ≠ "=>"), (ts.dropWhile (· ≠ "=>")).drop 1)

def showInflow (f : Inflow) : String := s!"{f.avail} {f.unsent}"
def b01 (b : Bool) : String := if b then "1" else "0"

def outflowOf (a : Arith) : Outflow := ⟨a.sn, if a.linked then some a.cn else none⟩

def arithStep (a : Arith) : List String → Option (Arith × String)
  | ["ainit", x, y] => do
      let x ← parseInt x
      let y ← parseInt y
      pure ({ a with i0 := Inflow.new x, i1 := Inflow.new y }, "ok")
  | ["iadd", k, n] => do
      let n ← parseInt n
      let k ← parseNat k
      let f := if k = 0 then a.i0 else a.i1
      match f.add n with
      | none => pure (a, "panic")
      | some (r, f') =>
        pure ((if k = 0 then { a with i0 := f' } else { a with i1 := f' }), s!"ok {r} {showInflow f'}")
  | ["itake", k, n] => do
      let n ← parseNat n
      let k ← parseNat k
      let f := if k = 0 then a.i0 else a.i1
      let r := f.take n
      pure ((if k = 0 then { a with i0 := r.2 } else { a with i1 := r.2 }), s!"ok {b01 r.1} {showInflow r.2}")
  | ["itake2", n] => do
      let n ← parseNat n
      let r := takeInflows a.i0 a.i1 n
      pure ({ a with i0 := r.2.1, i1 := r.2.2 }, s!"ok {b01 r.1} {r.2.1.avail} {r.2.2.avail}")
  | ["oinit", s, c, l] => do
      pure ({ a with sn := (← parseInt s), cn := (← parseInt c), linked := (← parseBool l) }, "ok")
  | ["oavail"] => some (a, s!"ok {(outflowOf a).available}")
  | ["otake", n] => do
      let n ← parseInt n
      match (outflowOf a).take n with
      | none => pure (a, "panic")
      | some g =>
        let cn := match g.conn with | some c => c | none => a.cn
        pure ({ a with sn := g.n, cn := cn }, s!"ok {g.n} {cn}")
  | ["oadd", n] => do
      let n ← parseInt n
      let r := (outflowOf a).add n
      pure ({ a with sn := r.2.n }, s!"ok {b01 r.1} {r.2.n} {a.cn}")
  | ["ocadd", n] => do
      let n ← parseInt n
      let r := (Outflow.mk a.cn none).add n
      pure ({ a with cn := r.2.n }, s!"ok {b01 r.1} {a.sn} {r.2.n}")
  | _ => none

def isArith (t : String) : Bool :=
  ["ainit", "iadd", "itake", "itake2", "oinit", "oavail", "otake", "oadd", "ocadd"].contains t

def step (s : St) (line : String) : St × String :=
  let ts := tokens line
  match ts with
  | [] => (s, "bad-op")
  | t :: _ =>
    if isArith t then
      match arithStep s.ar ts with
      | some (a, out) => ({ s with ar := a }, out)
      | none => (s, "bad-op")
    else
      let (at_, ot) := splitArrow ts
      match parseAct at_ with
      | none => (s, "bad-op")
      | some act =>
        match lineStep s.mon ⟨act, ot.map parseObs⟩ with
        | .ok m => ({ s with mon := m }, "ok")
        | .error e => ({ s with mon := { s.mon with dead := true } }, s!"reject {e}")

end NetVerif.Driver.Flow
