import NetVerif.Driver.Util
import NetVerif.Model.Hpack
/-! Line-protocol driver for the HPACK decoder model (C02 and C03). State: one decoder.

ops:  new <maxTable> | maxstr <n> | allowed <n> | setmax <n> | emit <0|1>
      write <hex> | close | blk <hex> <cuts>      (cuts: `-` or comma-separated increasing offsets)
      varint <n> <hex> | at <i>
result of write/close/blk:  (ok | err <Tag>) E <emits> T <size> <maxSize> <allowedMax> <entries> S <len saveBuf> <firstField>
-/
open NetVerif.Driver NetVerif.Model.Hpack

def errTag : PErr → String
  | .needMore => "NeedMore"
  | .invalidIndex => "InvalidIndex"
  | .huffman => "Huffman"
  | .strLen => "StringLength"
  | .strLenParanoia => "StringLength"
  | .tableUpdateTooLarge => "UpdateTooLarge"
  | .updateNotAtStart => "UpdateNotAtStart"
  | .varintOverflow => "VarintOverflow"
  | .invalidEncoding => "InvalidEncoding"
  | .truncated => "Truncated"
  | .internal => "Internal"

def hexRaw (bs : List Nat) : String :=
  String.ofList (bs.foldr (fun b acc => hexDigit (b / 16 % 16) :: hexDigit (b % 16) :: acc) [])

def showField (f : Field) : String :=
  s!"{hexRaw f.name}:{hexRaw f.value}:{if f.sensitive then 1 else 0}"

def showEmits (em : List Field) : String :=
  if em.isEmpty then "-" else ",".intercalate (em.map showField)

def showEntries (es : List Entry) : String :=
  if es.isEmpty then "-" else ",".intercalate (es.map fun e => s!"{hexRaw e.1}:{hexRaw e.2}")

def showState (d : Decoder) : String :=
  s!"T {d.dyn.size} {d.dyn.maxSize} {d.dyn.allowedMaxSize} {showEntries d.dyn.ents} S {d.saveBuf.length} {if d.firstField then 1 else 0}"

def showCall (r : CallRes) : String :=
  let head := match r.2.2 with
    | none => "ok"
    | some e => s!"err {errTag e}"
  s!"{head} E {showEmits r.2.1} {showState r.1}"

/-- Split `b` at the increasing offsets `cuts`. -/
def chunksAt (b : List Nat) (cuts : List Nat) : List (List Nat) :=
  let rec go (b : List Nat) (pos : Nat) : List Nat → List (List Nat)
    | [] => [b]
    | c :: cs => b.take (c - pos) :: go (b.drop (c - pos)) c cs
  go b 0 cuts

def parseCuts (s : String) : Option (List Nat) :=
  if s == "-" then some [] else (s.splitOn ",").mapM parseNat

def c02Step (st : Option Decoder) (line : String) : Option Decoder × String :=
  match tokens line, st with
  | ["new", n], _ =>
    match parseNat n with
    | some n => (some (Decoder.new n), "ok")
    | none => (st, "bad-op")
  | ["maxstr", n], some d =>
    match parseNat n with
    | some n => (some (d.setMaxStringLength n), "ok")
    | none => (st, "bad-op")
  | ["allowed", n], some d =>
    match parseNat n with
    | some n => (some (d.setAllowedMaxDynamicTableSize n), "ok")
    | none => (st, "bad-op")
  | ["setmax", n], some d =>
    match parseNat n with
    | some n => let d := d.setMaxDynamicTableSize n; (some d, s!"ok {showState d}")
    | none => (st, "bad-op")
  | ["emit", v], some d =>
    if v == "0" then (some (d.setEmitEnabled false), "ok")
    else if v == "1" then (some (d.setEmitEnabled true), "ok")
    else (st, "bad-op")
  | ["write", p], some d =>
    match parseBytes p with
    | some p => let r := d.write p; (some r.1, showCall r)
    | none => (st, "bad-op")
  | ["close"], some d =>
    let r := d.close
    (some r.1, showCall (r.1, [], r.2))
  | ["blk", b, cuts], some d =>
    match parseBytes b, parseCuts cuts with
    | some b, some cuts => let r := runWrites d (chunksAt b cuts); (some r.1, showCall r)
    | _, _ => (st, "bad-op")
  | ["varint", n, p], _ =>
    match parseNat n, parseBytes p with
    | some n, some p =>
      if n < 1 ∨ n > 8 then (st, "bad-op") else
      match readVarInt n p with
      | .ok (v, rest) => (st, s!"ok {v} {rest.length}")
      | .error e => (st, s!"err {errTag e}")
    | _, _ => (st, "bad-op")
  | ["at", i], some d =>
    match parseNat i with
    | some i =>
      match d.toDecCore.at i with
      | some e => (st, s!"ok {hexRaw e.1}:{hexRaw e.2}")
      | none => (st, "err InvalidIndex")
    | none => (st, "bad-op")
  | _, _ => (st, "bad-op")

def main : IO Unit := runLoop c02Step none
