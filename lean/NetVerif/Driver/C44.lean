import NetVerif.Driver.Util
import NetVerif.Model.FS
/-! Line-protocol driver for the two filesystem models (C44): `reset mem` runs `FS.Mem.step`
(memFS / memFile), `reset os` runs `FS.Os.step` (webdav.Dir over the native filesystem).

  reset mem|os                               → ok
  mkdir p:<path> | removeall p:<path>        → ok | err
  rename p:<a> p:<b>                         → ok | err
  stat p:<path> | fstat <slot>               → ok dir | ok file <size> | err
  open p:<path> <acc> <flags a c e s t | ->  → ok dir | ok file | err     (takes the next slot)
  write <slot> <hex>                         → ok <n> | err
  read <slot> <n>                            → ok <hex> | eof | err
  seek <slot> <off> <whence>                 → ok <pos> | err | skip      (directory handle: not run)
  readdir <slot> <count>                     → ok all <names> | ok <k> | eof | err | skip
                                               (skip: namespace changed since the handle's first Readdir)
  snap                                       → ok <snapshot>
Slots number the `open` ops of the case (failed opens leave an unusable slot: `bad-handle`).
-/
open NetVerif.Driver NetVerif.Model.FS

structure C44State where
  os : Bool := false
  st : State := {}
  slots : List (Option Nat) := []     -- open-op ordinal → model handle index
  stale : List Bool := []             -- per slot: namespace mutated since open
  listed : List Bool := []            -- per slot: a Readdir has been run

def c44Bytes (s : String) : List Nat := s.toUTF8.toList.map (·.toNat)

def c44Path (s : String) : Option Path :=
  if s.startsWith "p:" then some (clean (c44Bytes (s.drop 2).toString)) else none

def c44NameStr (n : Name) : String := String.ofList (n.map Char.ofNat)

def c44PathString (p : Path) : String := p.foldl (fun acc c => acc ++ "/" ++ c44NameStr c) ""

def c44PathKey (p : Path) : Name := p.foldr (fun c acc => 47 :: c ++ acc) []

def c44Insert (e : Path × Entry) : List (Path × Entry) → List (Path × Entry)
  | [] => [e]
  | m :: ms => if nameLt (c44PathKey m.1) (c44PathKey e.1) then m :: c44Insert e ms else e :: m :: ms

def c44Snapshot (t : Tree) : String :=
  if t.isEmpty then "-" else
  ",".intercalate ((t.foldr c44Insert []).map (fun e =>
    match e.2 with
    | .dir => c44PathString e.1 ++ "=d"
    | .file data => c44PathString e.1 ++ "=f:" ++ hexOfBytes data))

def c44Flags (acc : Nat) (s : String) : Option Mem.Flags :=
  if s == "-" then some ⟨acc, false, false, false, false, false⟩
  else if s.toList.all (fun c => c == 'a' || c == 'c' || c == 'e' || c == 's' || c == 't') then
    some ⟨acc, s.contains 'a', s.contains 'c', s.contains 'e', s.contains 's', s.contains 't'⟩
  else none

def c44Mutate (s : C44State) : C44State := { s with stale := s.stale.map (fun _ => true) }

def c44Run (s : C44State) (op : Op) : C44State × Res :=
  let r := if s.os then Os.step s.st op else Mem.step s.st op
  ({ s with st := r.1 }, r.2)

def c44Show (count : Int) (fresh : Bool) : Res → String
  | .ok => "ok"
  | .err => "err"
  | .badHandle => "bad-handle"
  | .opened _ isDir => if isDir then "ok dir" else "ok file"
  | .wrote n => s!"ok {n}"
  | .data bs => s!"ok {hexOfBytes bs}"
  | .eof => "eof"
  | .pos n => s!"ok {n}"
  | .listing names =>
    if fresh && count ≤ 0 then
      "ok all " ++ (if names.isEmpty then "-" else ",".intercalate ((sortNames names).map c44NameStr))
    else s!"ok {names.length}"
  | .info isDir size name =>
    let nm := match name with | some n => " " ++ c44NameStr n | none => ""
    (if isDir then "ok dir" else s!"ok file {size}") ++ nm

def c44Slot (s : C44State) (tok : String) : Option Nat :=
  match tok.toNat? with
  | none => none
  | some k => (s.slots.getD k none)

def c44Step (s : C44State) (line : String) : C44State × String :=
  match tokens line with
  | ["reset", m] =>
    if m == "mem" then ({}, "ok") else if m == "os" then ({ os := true }, "ok") else (s, "bad-op")
  | ["snap"] => (s, "ok " ++ c44Snapshot s.st.tree)
  | ["mkdir", p] =>
    match c44Path p with
    | none => (s, "bad-op")
    | some p => let r := c44Run (c44Mutate s) (.mkdir p); (r.1, c44Show 0 false r.2)
  | ["removeall", p] =>
    match c44Path p with
    | none => (s, "bad-op")
    | some p => let r := c44Run (c44Mutate s) (.removeAll p); (r.1, c44Show 0 false r.2)
  | ["rename", a, b] =>
    match c44Path a, c44Path b with
    | some a, some b => let r := c44Run (c44Mutate s) (.rename a b); (r.1, c44Show 0 false r.2)
    | _, _ => (s, "bad-op")
  | ["stat", p] =>
    match c44Path p with
    | none => (s, "bad-op")
    | some p => let r := c44Run s (.stat p); (r.1, c44Show 0 false r.2)
  | ["open", p, acc, fl] =>
    match c44Path p, acc.toNat? with
    | some p, some acc =>
      match c44Flags acc fl with
      | none => (s, "bad-op")
      | some f =>
        let s := c44Mutate s
        let r := c44Run s (.open p f)
        match r.2 with
        | .opened h _ => ({ r.1 with slots := s.slots ++ [some h], stale := s.stale ++ [false], listed := s.listed ++ [false] }, c44Show 0 false r.2)
        | _ => ({ r.1 with slots := s.slots ++ [none], stale := s.stale ++ [true], listed := s.listed ++ [false] }, c44Show 0 false r.2)
    | _, _ => (s, "bad-op")
  | ["fstat", k] =>
    if k.toNat?.isNone then (s, "bad-op") else
    match c44Slot s k with
    | none => (s, "bad-handle")
    | some h => let r := c44Run s (.fstat h); (r.1, c44Show 0 false r.2)
  | ["write", k, d] =>
    match k.toNat?, parseBytes d with
    | some _, some d =>
      match c44Slot s k with
      | none => (s, "bad-handle")
      | some h => let r := c44Run s (.write h d); (r.1, c44Show 0 false r.2)
    | _, _ => (s, "bad-op")
  | ["read", k, n] =>
    match k.toNat?, n.toNat? with
    | some _, some n =>
      match c44Slot s k with
      | none => (s, "bad-handle")
      | some h => let r := c44Run s (.read h n); (r.1, c44Show 0 false r.2)
    | _, _ => (s, "bad-op")
  | ["seek", k, off, wh] =>
    match k.toNat?, off.toInt?, wh.toNat? with
    | some _, some off, some wh =>
      match c44Slot s k with
      | none => (s, "bad-handle")
      | some h =>
        match s.st.handles[h]? with
        | some hd =>
          if hd.isDir then (s, "skip")
          else let r := c44Run s (.seek h off wh); (r.1, c44Show 0 false r.2)
        | none => (s, "bad-handle")
    | _, _, _ => (s, "bad-op")
  | ["readdir", k, c] =>
    match k.toNat?, c.toInt? with
    | some kk, some c =>
      match c44Slot s k with
      | none => (s, "bad-handle")
      | some h =>
        match s.st.handles[h]? with
        | some hd =>
          -- only a Readdir that continues an earlier one after the namespace changed is not run
          if hd.isDir && s.listed.getD kk true && s.stale.getD kk true then (s, "skip")
          else
            let first := !(s.listed.getD kk true)
            let r := c44Run s (.readdir h c)
            ({ r.1 with listed := r.1.listed.set kk true,
                        stale := if first then r.1.stale.set kk false else r.1.stale },
             c44Show c first r.2)
        | none => (s, "bad-handle")
    | _, _ => (s, "bad-op")
  | _ => (s, "bad-op")

def main : IO Unit := runLoop c44Step {}
