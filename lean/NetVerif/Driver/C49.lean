import NetVerif.Driver.Util
import NetVerif.Driver.BpfText
import NetVerif.Model.Bpf
import NetVerif.Model.BpfVM
/-!
Line-protocol driver for the bpf VM model (C49). Stateless.
  newvm <prog>        -> ok | err
  run <prog> <pkt>    -> rej | ok <n> | err | panic        (NewVM then VM.Run; typed model)
  runs <prog> <pkt>…  -> rej | ok <r1> <r2> …   (one NewVM, then Run on each packet in turn on the SAME VM; ri = n | err | panic)
  ref <prog> <pkt>    -> err-asm | ok <n> | invalid         (reference interpreter on Assemble(prog))
-/
open NetVerif.Driver NetVerif.Driver.BpfText NetVerif.Model.Bpf NetVerif.Model.BpfVM

def showTyped : Outcome → String
  | .ret v => s!"ok {v}"
  | .halt => "ok 0"
  | .fellOff => "ok 0"
  | .err => "err"
  | .panic => "panic"
  | .outOfFuel => "fuel"

def showSeq : Outcome → String
  | .ret v => s!"{v}"
  | .halt => "0"
  | .fellOff => "0"
  | .err => "err"
  | .panic => "panic"
  | .outOfFuel => "fuel"

def showRef : Outcome → String
  | .ret v => s!"ok {v}"
  | .halt => "ok 0"
  | .fellOff => "invalid"
  | .err => "invalid"
  | .panic => "invalid"
  | .outOfFuel => "fuel"

def c49Step (_ : Unit) (line : String) : Unit × String :=
  let out : String :=
    match tokens line with
    | ["newvm", p] =>
      match parseProg p with
      | some p => if newVM p then "ok" else "err"
      | none => "bad-op"
    | ["run", p, b] =>
      match parseProg p, parseBytes b with
      | some p, some pkt => if newVM p then showTyped (runTyped p pkt) else "rej"
      | _, _ => "bad-op"
    | "runs" :: p :: bs =>
      -- several Run calls on ONE VM value
      match parseProg p, bs.mapM parseBytes with
      | some p, some pkts =>
        if bs.isEmpty then "bad-op"
        else if newVM p then "ok " ++ " ".intercalate ((VM.runSeq ⟨p⟩ pkts).map showSeq) else "rej"
      | _, _ => "bad-op"
    | ["ref", p, b] =>
      match parseProg p, parseBytes b with
      | some p, some pkt =>
        (match asmProg p with
         | some rp => showRef (runRaw rp pkt)
         | none => "err-asm")
      | _, _ => "bad-op"
    | _ => "bad-op"
  ((), out)

def main : IO Unit := runLoop c49Step ()
