import NetVerif.Driver.Util
import NetVerif.Model.PerHost
/-! Line-protocol driver for the proxy.PerHost model (C53).
`reset` | `add <string> <fact>*` (fact: `C:<key>:<ip>:<ones>:<bits>` net.ParseCIDR ok, `P:<key>:<ip>` netip.ParseAddr ok)
| `addzone <s>` | `addhost <s>` | `addip <bytes>` | `addnet <ip> <ones> <bits>`
| `dial <mode> <addr> <splitOk> <host> <ip|n>`
-/
open NetVerif.Driver NetVerif.Model.NetIP NetVerif.Model.PerHost

namespace NetVerif.Driver.C53

structure Tables where
  cidr : List (List Nat × (List Nat × Nat × Nat)) := []
  addr : List (List Nat × List Nat) := []

def Tables.oracles (t : Tables) : Oracles :=
  { parseCIDR := fun k => t.cidr.lookup k, parseAddr := fun k => t.addr.lookup k }

def parseFact (t : Tables) (tok : String) : Option Tables :=
  match tok.splitOn ":" with
  | ["C", k, ip, ones, bits] => do
    let k ← parseBytes k; let ip ← parseBytes ip; let ones ← parseNat ones; let bits ← parseNat bits
    pure { t with cidr := t.cidr ++ [(k, (ip, ones, bits))] }
  | ["P", k, ip] => do
    let k ← parseBytes k; let ip ← parseBytes ip
    pure { t with addr := t.addr ++ [(k, ip)] }
  | _ => none

def parseFacts : List String → Tables → Option Tables
  | [], t => some t
  | x :: xs, t => match parseFact t x with
    | some t' => parseFacts xs t'
    | none => none

def showList (xs : List String) : String := if xs.isEmpty then "-" else ",".intercalate xs

def dump (p : State) : String :=
  let nets := p.networks.map (fun n => s!"{hexOfBytes n.1}/{n.2.1}/{n.2.2}")
  s!"ok nets={showList nets} ips={showList (p.ips.map hexOfBytes)} zones={showList (p.zones.map hexOfBytes)} hosts={showList (p.hosts.map hexOfBytes)}"

def step (p : State) (line : String) : State × String :=
  match tokens line with
  | ["reset"] => ({}, "ok")
  | "add" :: s :: facts =>
    match parseBytes s, parseFacts facts {} with
    | some s, some t => let p' := addFromString t.oracles p s; (p', dump p')
    | _, _ => (p, "bad-op")
  | ["addzone", s] =>
    match parseBytes s with
    | some s => let p' := p.add (.zone s); (p', dump p')
    | none => (p, "bad-op")
  | ["addhost", s] =>
    match parseBytes s with
    | some s => let p' := p.add (.host s); (p', dump p')
    | none => (p, "bad-op")
  | ["addip", s] =>
    match parseBytes s with
    | some s => let p' := p.add (.ip s); (p', dump p')
    | none => (p, "bad-op")
  | ["addnet", ip, ones, bits] =>
    match parseBytes ip, parseNat ones, parseNat bits with
    | some ip, some ones, some bits => let p' := p.add (.network ip ones bits); (p', dump p')
    | _, _, _ => (p, "bad-op")
  | ["dial", _mode, _addr, ok, host, ip] =>
    let ip? : Option (Option (List Nat)) := if ip == "n" then some none else (parseBytes ip).map some
    match parseBytes host, ip? with
    | some host, some ip =>
      if ok == "0" then (p, "err split")
      else if ok == "1" then
        (p, if dialerForRequest p host ip then "ok bypass" else "ok default")
      else (p, "bad-op")
    | _, _ => (p, "bad-op")
  | _ => (p, "bad-op")

end NetVerif.Driver.C53

def main : IO Unit := runLoop NetVerif.Driver.C53.step {}
