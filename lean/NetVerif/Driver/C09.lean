import NetVerif.Driver.SendWinStep
/-! Driver for C09: trace monitor for the client's outbound flow control (same monitor as C08). -/
open NetVerif.Driver NetVerif.Driver.SendWin

def main : IO Unit := runLoop step none
