import NetVerif.Driver.Util
import NetVerif.Model.H2Frame
/-! Token parsing / canonical printing shared by the C06 and C07 drivers. -/
namespace NetVerif.Driver.H2
open NetVerif.Driver NetVerif.Model.H2Frame

/-- generated pattern: byte i = (a + 13*i) % 251 -/
def patBytes (n a : Nat) : List Nat := (List.range n).map (fun i => (a + 13 * i) % 251)

/-- payload token: `-` | `x<hex>` | `z<n>` (n zero bytes) | `g<n>.<a>` (pattern). -/
def parsePayload (s : String) : Option (List Nat) :=
  match s.toList with
  | 'z' :: cs => (String.ofList cs).toNat?.map (fun n => List.replicate n 0)
  | 'g' :: cs =>
    match (String.ofList cs).splitOn "." with
    | [n, a] => do
      let n ← n.toNat?
      let a ← a.toNat?
      pure (patBytes n a)
    | _ => none
  | _ => parseBytes s

def parseBool (s : String) : Option Bool :=
  if s == "1" then some true else if s == "0" then some false else none

/-- digest of a byte string: hex up to 64 bytes, else length + rolling hash. -/
def hashBytes (bs : List Nat) : Nat := bs.foldl (fun h b => (h * 31 + b) % 4294967296) 7

def dig (bs : List Nat) : String :=
  if bs.length ≤ 64 then hexOfBytes bs else s!"L{bs.length}H{hashBytes bs}"

def showBool (b : Bool) : String := if b then "1" else "0"

def showHeader (h : FrameHeader) : String :=
  s!"t={h.type} f={h.flags} s={h.streamID} l={h.length}"

def showPrio (p : PriorityParam) : String :=
  s!"{p.streamDep} {showBool p.exclusive} {p.weight}"

def showSettings (ss : List (Nat × Nat)) : String :=
  if ss.isEmpty then "-" else ",".intercalate (ss.map (fun s => s!"{s.1}:{s.2}"))

def showFrame : Frame → String
  | .data h d => s!"DATA {showHeader h} {dig d}"
  | .headers h p frag => s!"HEADERS {showHeader h} {showPrio p} {dig frag}"
  | .priority h p => s!"PRIORITY {showHeader h} {showPrio p}"
  | .rstStream h c => s!"RST_STREAM {showHeader h} {c}"
  | .settings h ss => s!"SETTINGS {showHeader h} {showSettings ss}"
  | .pushPromise h pid frag => s!"PUSH_PROMISE {showHeader h} {pid} {dig frag}"
  | .ping h d => s!"PING {showHeader h} {dig d}"
  | .goAway h l c d => s!"GOAWAY {showHeader h} {l} {c} {dig d}"
  | .windowUpdate h i => s!"WINDOW_UPDATE {showHeader h} {i}"
  | .continuation h frag => s!"CONTINUATION {showHeader h} {dig frag}"
  | .priorityUpdate h pid p => s!"PRIORITY_UPDATE {showHeader h} {pid} {dig p}"
  | .unknown h p => s!"UNKNOWN {showHeader h} {dig p}"

def showRErr : RErr → String
  | .eof => "err eof"
  | .unexpectedEOF => "err ueof"
  | .frameTooLarge => "err toolarge"
  | .conn c => s!"err conn {c}"
  | .stream s c => s!"err stream {s} {c}"

def showRead (r : Except RErr Frame) : String :=
  match r with
  | .ok f => "ok " ++ showFrame f
  | .error e => showRErr e

def showWErr : WErr → String
  | .streamID => "werr StreamID"
  | .depStreamID => "werr DepStreamID"
  | .padLength => "werr PadLength"
  | .padBytes => "werr PadBytes"
  | .frameTooLarge => "werr FrameTooLarge"
  | .windowIncr => "werr WindowIncr"

def parseSettingsTok (s : String) : Option (List (Nat × Nat)) :=
  if s == "-" then some [] else
  (s.splitOn ",").mapM (fun kv =>
    match kv.splitOn ":" with
    | [k, v] => do
      let k ← k.toNat?
      let v ← v.toNat?
      pure (k, v)
    | _ => none)

end NetVerif.Driver.H2
