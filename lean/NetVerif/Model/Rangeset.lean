/-
Model of quic/rangeset.go (`rangeset[int64]`): an ordered list of half-open
ranges `[s, e)`.  Offsets are `Int`; the only arithmetic the Go code performs
on stored values is `end - 1` (max) and the running sum of `size`, both of
which are wrapped to int64 here exactly as Go does.  Every loop of the Go
code is mirrored by a structurally recursive function that carries the same
loop variables (`i`, `removefrom`, `removeto`, `j`).
-/
namespace NetVerif.Model.Rangeset

/-- `i64range`: `[s, e)`. -/
structure Rg where
  s : Int
  e : Int
deriving DecidableEq, Repr, Inhabited

abbrev RS := List Rg

/-- two's-complement wrap to int64. -/
def wrap64 (x : Int) : Int := (x + 9223372036854775808) % 18446744073709551616 - 9223372036854775808

/-- `removeranges(i, j)`: `copy(s[i:], s[j:]); s = s[:len(s)-(j-i)]` (callers guarantee i ≤ j ≤ len). -/
def removeranges (l : RS) (i j : Nat) : RS :=
  if i = j then l else l.take i ++ l.drop j

/-- `insertrange(i, start, end)`. -/
def insertrange (l : RS) (i : Nat) (st en : Int) : RS :=
  l.take i ++ ⟨st, en⟩ :: l.drop i

/-- The inner coalescing loop of `add`:
`for ; j < len(s) && r.end >= s[j].start; j++ { if e := s[j].end; e > r.end { r.end = e } }`.
Runs over the ranges after index i; returns the final `r.end` and how many ranges were absorbed (`j - (i+1)`). -/
def coalesce (e : Int) : List Rg → Int × Nat
  | [] => (e, 0)
  | r :: rest =>
    if e ≥ r.s then
      let p := coalesce (if r.e > e then r.e else e) rest
      (p.1, p.2 + 1)
    else (e, 0)

/-- The `for i := range *s` loop of `add` on the suffix starting at index i. -/
def addLoop (st en : Int) : List Rg → List Rg
  | [] => [⟨st, en⟩]                                  -- fell off the loop: append
  | r :: rest =>
    if r.s > en then ⟨st, en⟩ :: r :: rest             -- insertrange(i, start, end)
    else if st > r.e then r :: addLoop st en rest      -- continue
    else
      let s' := if st < r.s then st else r.s
      if en ≤ r.e then ⟨s', r.e⟩ :: rest
      else
        let p := coalesce en rest
        removeranges (⟨s', p.1⟩ :: rest) 1 (1 + p.2)  -- s.removeranges(i+1, j)

/-- `add(start, end)`. -/
def add (l : RS) (st en : Int) : RS :=
  if st ≥ en then l else addLoop st en l

/-- Result of the `sub` loop: mutated suffix, removefrom, removeto, and whether the
loop `return`ed from the split case (which skips the final `removeranges`). -/
structure SubRes where
  l : List Rg
  rf : Option Nat
  rt : Nat
  early : Bool

/-- The `for i := range *s` loop of `sub` on the suffix starting at index `i`,
with the current values of `removefrom` (`none` = -1) and `removeto`. -/
def subLoop (st en : Int) : List Rg → Nat → Option Nat → Nat → SubRes
  | [], _, rf, rt => ⟨[], rf, rt, false⟩
  | r :: rest, i, rf, rt =>
    if en < r.s then ⟨r :: rest, rf, rt, false⟩                      -- break
    else if r.e < st then                                            -- continue
      let q := subLoop st en rest (i + 1) rf rt
      ⟨r :: q.l, q.rf, q.rt, q.early⟩
    else if st ≤ r.s ∧ en ≥ r.e then                                 -- remove the entire range
      let q := subLoop st en rest (i + 1) (match rf with | none => some i | some f => some f) (i + 1)
      ⟨r :: q.l, q.rf, q.rt, q.early⟩
    else if st ≤ r.s then                                            -- remove a prefix
      let q := subLoop st en rest (i + 1) rf rt
      ⟨⟨en, r.e⟩ :: q.l, q.rf, q.rt, q.early⟩
    else if en ≥ r.e then                                            -- remove a suffix
      let q := subLoop st en rest (i + 1) rf rt
      ⟨⟨r.s, st⟩ :: q.l, q.rf, q.rt, q.early⟩
    else                                                             -- remove the middle; return
      ⟨⟨r.s, st⟩ :: ⟨en, r.e⟩ :: rest, rf, rt, true⟩

/-- `sub(start, end)` (with the `if start >= end { return }` guard of the repaired code). -/
def sub (l : RS) (st en : Int) : RS :=
  if st ≥ en then l else
  let q := subLoop st en l 0 none 0
  if q.early then q.l
  else match q.rf with
    | none => q.l
    | some f => removeranges q.l f q.rt

/-- `contains(v)`. -/
def contains : List Rg → Int → Bool
  | [], _ => false
  | r :: rest, v => if v ≥ r.e then contains rest v else if r.s ≤ v then true else false

/-- `rangeContaining(v)`. -/
def rangeContaining : List Rg → Int → Rg
  | [], _ => ⟨0, 0⟩
  | r :: rest, v => if v ≥ r.e then rangeContaining rest v else if r.s ≤ v then r else ⟨0, 0⟩

/-- `min()`. -/
def min (l : RS) : Int := match l with | [] => 0 | r :: _ => r.s

/-- `end()`. -/
def end_ (l : RS) : Int := match l.getLast? with | none => 0 | some r => r.e

/-- `max()`: `s[len(s)-1].end - 1` in int64 arithmetic. -/
def max (l : RS) : Int := match l.getLast? with | none => 0 | some r => wrap64 (r.e - 1)

/-- `numRanges()`. -/
def numRanges (l : RS) : Nat := l.length

/-- Exact sum of the range sizes. -/
def sizeZ : List Rg → Int
  | [] => 0
  | r :: rest => (r.e - r.s) + sizeZ rest

/-- `size()`: the int64 running sum (wrapping addition is associative mod 2^64). -/
def size (l : RS) : Int := wrap64 (sizeZ l)

/-- `isrange(start, end)`. -/
def isrange (l : RS) (st en : Int) : Bool :=
  match l with
  | [] => st == 0 && en == 0
  | [r] => r.s == st && r.e == en
  | _ => false

/-- Operations of a history. -/
inductive Op where
  | add (st en : Int)
  | sub (st en : Int)
deriving Repr

def applyOp (l : RS) : Op → RS
  | .add st en => add l st en
  | .sub st en => sub l st en

def run (ops : List Op) (l : RS) : RS := ops.foldl applyOp l

end NetVerif.Model.Rangeset
