/-
Model of internal/socks/client.go `Dialer.connect` (SOCKS5 client, RFC 1928) together with
`UsernamePassword.Authenticate` (RFC 1929) as wired by proxy.SOCKS5, run against a SCRIPTED
server: the server's bytes are a fixed list `script`, reads consume it with `io.ReadFull`
semantics (too few bytes left = error), writes are collected.  Bytes are `Nat` < 256.

Not modelled: `net.SplitHostPort`/`strconv.Atoi`/`net.ParseIP` of the target address (the
harness passes the destination classified as IPv4 / IPv6 / name bytes and the port number),
deadlines and context cancellation (the runs use contexts that never fire), transport errors on
Write.
-/
namespace NetVerif.Model.Socks5

/-- The destination as `connect` classifies it: `net.ParseIP(host)` + `To4` / `To16`, else FQDN. -/
inductive Dest where
  | ip4 (b : List Nat)
  | ip6 (b : List Nat)
  | name (b : List Nat)
  deriving Repr, DecidableEq

/-- `socks.Addr`: the bound address reported by the server. -/
inductive Addr where
  | ip (b : List Nat) (port : Nat)
  | name (b : List Nat) (port : Nat)
  deriving Repr, DecidableEq

/-- Dialer options as proxy.SOCKS5 sets them: no auth, or methods {0, 2} with a user/password. -/
structure Cfg where
  auth : Bool
  user : List Nat
  pass : List Nat
  deriving Repr

/-- `io.ReadFull(c, b[:n])` on the scripted stream: the bytes read and the rest, or an error. -/
def readFull (n : Nat) (s : List Nat) : Option (List Nat × List Nat) :=
  if s.length < n then none else some (s.take n, s.drop n)

/-- First client message: version, number of methods, methods. -/
def methodsMsg (cfg : Cfg) : List Nat :=
  if cfg.auth then [5, 2, 0, 2] else [5, 1, 0]

/-- RFC 1929 sub-negotiation request written by `UsernamePassword.Authenticate`. -/
def authMsg (cfg : Cfg) : List Nat :=
  [1, cfg.user.length % 256] ++ cfg.user ++ [cfg.pass.length % 256] ++ cfg.pass

/-- The address part of the request; `none` = "FQDN too long". -/
def encodeDest : Dest → Option (List Nat)
  | .ip4 b => some (1 :: b)
  | .ip6 b => some (4 :: b)
  | .name b => if b.length > 255 then none else some (3 :: b.length :: b)

/-- The CONNECT request: `VER=5 CMD=1 RSV=0 ATYP ADDR PORT`. -/
def connectReq (d : Dest) (port : Nat) : Option (List Nat) :=
  match encodeDest d with
  | some a => some ([5, 1, 0] ++ a ++ [port / 256 % 256, port % 256])
  | none => none

/-- Parsing of the server's reply to the request (`none` is an error return); also returns the
unread rest of the stream.  `io.ReadFull` of `k` bytes fails iff fewer than `k` bytes are left. -/
def parseReply : List Nat → Option (Addr × List Nat)
  | v :: rep :: rsv :: atyp :: s1 =>
    if v ≠ 5 then none              -- unexpected protocol version
    else if rep ≠ 0 then none       -- reply code ≠ succeeded
    else if rsv ≠ 0 then none       -- non-zero reserved field
    else if atyp = 1 then
      match readFull 4 s1 with
      | some (ip, p1 :: p2 :: s2) => some (.ip ip (p1 * 256 + p2), s2)
      | _ => none
    else if atyp = 4 then
      match readFull 16 s1 with
      | some (ip, p1 :: p2 :: s2) => some (.ip ip (p1 * 256 + p2), s2)
      | _ => none
    else if atyp = 3 then
      match s1 with
      | n :: s2 =>
        match readFull n s2 with
        | some (name, p1 :: p2 :: s3) => some (.name name (p1 * 256 + p2), s3)
        | _ => none
      | [] => none
    else none                       -- unknown address type
  | _ => none

/-- `UsernamePassword.Authenticate(ctx, rw, am)`: bytes written, and the rest of the stream or an error. -/
def authenticate (cfg : Cfg) (am : Nat) (s : List Nat) : List Nat × Option (List Nat) :=
  if am = 0 then ([], some s)
  else if am = 2 then
    if cfg.user.length = 0 ∨ cfg.user.length > 255 ∨ cfg.pass.length > 255 then ([], none)
    else
      match s with
      | v :: st :: s1 =>
        if v ≠ 1 then (authMsg cfg, none)
        else if st ≠ 0 then (authMsg cfg, none)
        else (authMsg cfg, some s1)
      | _ => (authMsg cfg, none)
  else ([], none)

/-- `Dialer.connect`: all bytes written to the server, and the bound address or an error. -/
def connect (cfg : Cfg) (d : Dest) (port : Nat) (script : List Nat) : List Nat × Option Addr :=
  let w1 := methodsMsg cfg
  match script with
  | v :: am :: s1 =>
    if v ≠ 5 then (w1, none)
    else if am = 255 then (w1, none)
    else
      let (w2, s2?) := if cfg.auth then authenticate cfg am s1 else ([], some s1)
      match s2? with
      | none => (w1 ++ w2, none)
      | some s2 =>
        match connectReq d port with
        | none => (w1 ++ w2, none)
        | some req =>
          match parseReply s2 with
          | none => (w1 ++ w2 ++ req, none)
          | some (a, _) => (w1 ++ w2 ++ req, some a)
  | _ => (w1, none)

end NetVerif.Model.Socks5
