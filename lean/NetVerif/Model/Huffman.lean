import NetVerif.Gen.Huffman
/-!
Model of `http2/hpack/huffman.go` over the regenerated tables `Gen.Huffman`.

* Bytes are `Nat` (< 256), bits are `Bool` (`true` = 1), most significant bit first.
* `symBits s` is the code word of symbol `s` (`huffmanCodeLen[s]` low bits of `huffmanCodes[s]`).
* `trie` is the binary decoding tree of the two tables (regenerated as a literal and proved to
  be the tree of the tables; the Go code builds the same tree with 256-ary nodes,
  `buildRootHuffmanNode`; the byte stride is an implementation detail that is tied by the
  differential run, the bit-level walk is what is proved about).
* `decodeMax maxLen v` models `huffmanDecode(buf, maxLen, v)` for an empty `buf`:
  state = (current tree node, bits consumed since the last symbol boundary, output so far),
  exactly the Go variables `n`, `sbits`, `buf`; at the end of input the pending bits must be
  fewer than 8 (`sbits > 7` check) and all ones (`cur&mask != mask` check).
* `appendHuffman s` models `AppendHuffmanString(nil, s)` with its 64-bit accumulator `x`
  (truncated with `% 2^64`), bit counter `n`, the 4-byte flush at `n ≥ 32` and the 0–4 trailing
  bytes; `encode s` is the bit-level specification (`Proofs.C04.appendHuffman_eq_encode`).
* `encodeLength s` models `HuffmanEncodeLength`.
-/
namespace NetVerif.Model.Huffman

/-- `l[i]`, 0 outside (plain structural recursion: cheap for the kernel). -/
def nth : List Nat → Nat → Nat
  | [], _ => 0
  | x :: _, 0 => x
  | _ :: xs, n + 1 => nth xs n

/-- `huffmanCodes[s]` (0 outside the table). -/
def codeOf (s : Nat) : Nat := nth Gen.Huffman.codes s
/-- `huffmanCodeLen[s]` (0 outside the table). -/
def lenOf (s : Nat) : Nat := nth Gen.Huffman.lens s

/-- The `k` low bits of `v`, most significant first. -/
def natToBits : Nat → Nat → List Bool
  | 0, _ => []
  | k + 1, v => (v / 2 ^ k % 2 == 1) :: natToBits k v

/-- Big-endian value of a bit list. -/
def bitsToNat : List Bool → Nat
  | [] => 0
  | b :: bs => (if b then 2 ^ bs.length else 0) + bitsToNat bs

/-- Code word of symbol `s`. -/
def symBits (s : Nat) : List Bool := natToBits (lenOf s) (codeOf s)

def bytesToBits (v : List Nat) : List Bool := v.flatMap (natToBits 8)

/-- Groups of 8 bits to bytes; an incomplete last group is dropped. -/
def packBits : List Bool → List Nat
  | b0 :: b1 :: b2 :: b3 :: b4 :: b5 :: b6 :: b7 :: rest =>
    bitsToNat [b0, b1, b2, b3, b4, b5, b6, b7] :: packBits rest
  | _ => []

/-! ### Decoding tree -/

abbrev Trie := Gen.Huffman.Trie

end NetVerif.Model.Huffman

namespace NetVerif.Gen.Huffman.Trie

def child : Trie → Bool → Trie
  | .node z o, b => if b then o else z
  | _, _ => .empty

def isNode : Trie → Bool
  | .node _ _ => true
  | _ => false

/-- Follow `bits` from `t` (no restart at leaves). -/
def walk : Trie → List Bool → Trie
  | t, [] => t
  | t, b :: bs => walk (t.child b) bs

end NetVerif.Gen.Huffman.Trie

namespace NetVerif.Model.Huffman

/-- The decoding tree of the 256 symbols: the tree literal regenerated together with the tables
(`Proofs.Lemmas.Huffman.walk_symBits` / `walk_leaf_unique` prove it is exactly the tree of
`huffmanCodes`/`huffmanCodeLen`). -/
def trie : Trie := Gen.Huffman.trieLit

/-! ### Decoder -/

inductive DecErr where
  | invalid   -- ErrInvalidHuffman
  | strLen    -- ErrStringLength
  deriving Repr, DecidableEq, Inhabited

/-- One pass over the bits. `cur` = Go's `n`; `pend` = the bits read since the last symbol
boundary, newest first (`pend.length` = Go's `sbits`); `acc` = output so far, newest first. -/
def decodeAux (root : Trie) (maxLen : Nat) : Trie → List Bool → List Nat → List Bool → Except DecErr (List Nat)
  | _, pend, acc, [] =>
    if pend.length > 7 then .error .invalid
    else if pend.all id then .ok acc.reverse
    else .error .invalid
  | cur, pend, acc, b :: bs =>
    match cur.child b with
    | .empty => .error .invalid
    | .leaf s =>
      if maxLen ≠ 0 ∧ acc.length = maxLen then .error .strLen
      else decodeAux root maxLen root [] (s :: acc) bs
    | .node z o => decodeAux root maxLen (.node z o) (b :: pend) acc bs

/-- `huffmanDecode(buf, maxLen, v)` on an empty `buf` (`maxLen = 0`: unlimited). -/
def decodeMax (maxLen : Nat) (v : List Nat) : Except DecErr (List Nat) :=
  decodeAux trie maxLen trie [] [] (bytesToBits v)

/-- `HuffmanDecode` / `HuffmanDecodeToString`. -/
def decode (v : List Nat) : Except DecErr (List Nat) := decodeMax 0 v

/-! ### Encoder -/

/-- Total number of code bits of `s`. -/
def bitLen (s : List Nat) : Nat := (s.map lenOf).sum

/-- `HuffmanEncodeLength`. -/
def encodeLength (s : List Nat) : Nat := (bitLen s + 7) / 8

def encodeBits (s : List Nat) : List Bool := s.flatMap symBits

def padLen (n : Nat) : Nat := (8 - n % 8) % 8

/-- Bit-level specification of the encoder: code words, then 0–7 one-bits up to a byte boundary. -/
def encode (s : List Nat) : List Nat :=
  packBits (encodeBits s ++ List.replicate (padLen (encodeBits s).length) true)

/-- `n` low-order bytes of `x`, big endian (`byte(x>>8*(n-1)) … byte(x)`). -/
def beBytes : Nat → Nat → List Nat
  | 0, _ => []
  | n + 1, x => (x / 2 ^ (8 * n) % 256) :: beBytes n x

/-- Accumulator state of `AppendHuffmanString`: `x` (uint64), `n`, and the bytes appended so far. -/
structure Acc where
  x : Nat
  n : Nat
  out : List Nat
  deriving Repr

/-- Loop body of `AppendHuffmanString` for one input byte `c`. -/
def accStep (a : Acc) (c : Nat) : Acc :=
  let n := a.n + lenOf c
  let x := ((a.x <<< (lenOf c % 64)) % 2 ^ 64) ||| codeOf c
  if n ≥ 32 then
    let n := n % 32
    let y := (x >>> n) % 2 ^ 32
    { x := x, n := n, out := a.out ++ beBytes 4 y }
  else { x := x, n := n, out := a.out }

/-- The padding and the trailing `switch n / 8` of `AppendHuffmanString`. -/
def accFinish (a : Acc) : List Nat :=
  let over := a.n % 8
  let (x, n) :=
    if over > 0 then
      let pad := 8 - over
      (((a.x <<< pad) % 2 ^ 64) ||| (Gen.Huffman.eosPadByte >>> over), a.n + pad)
    else (a.x, a.n)
  match n / 8 with
  | 0 => a.out
  | 1 => a.out ++ [x % 256]
  | 2 => let y := x % 2 ^ 16; a.out ++ [y >>> 8 % 256, y % 256]
  | 3 => let y := (x >>> 8) % 2 ^ 16; a.out ++ [y >>> 8 % 256, y % 256, x % 256]
  | _ => let y := x % 2 ^ 32; a.out ++ [y >>> 24 % 256, y >>> 16 % 256, y >>> 8 % 256, y % 256]

/-- `AppendHuffmanString(nil, s)`. -/
def appendHuffman (s : List Nat) : List Nat :=
  accFinish (s.foldl accStep { x := 0, n := 0, out := [] })

end NetVerif.Model.Huffman
