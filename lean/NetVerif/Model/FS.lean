/-
Model of the hierarchical filesystems behind golang.org/x/net/webdav
(`webdav/file.go`): `FS.Mem.*` is an exact model of `memFS` / `memFile`,
`FS.Os.*` is the POSIX subset that `webdav.Dir` (package `os` on Linux)
exhibits for the same operation set.

Representation.  A filesystem is a *tree of names* stored as the finite map
from cleaned paths (lists of components) to entries; the root `[]` is implicit
and always a directory.  Every operation below keeps the map prefix-closed
(a path is present only if all its proper prefixes are present directories), so
the map is exactly the set of root-to-node name paths of the pointer tree of
`memFSNode`s.  Components and file contents are byte lists (`Nat` < 256).
Not modelled: permission bits, modification times, dead properties.

Open files (`memFile` / `*os.File`) keep working after their node is unlinked or
renamed (node identity / inode semantics): a handle refers either to a live path
(re-targeted by `rename`) or to an orphan slot holding the unlinked contents.
-/
namespace NetVerif.Model.FS

abbrev Name := List Nat
abbrev Path := List Name

inductive Entry where
  | file (data : List Nat)
  | dir
  deriving DecidableEq, Repr

abbrev Tree := List (Path × Entry)

/-- Error classes (Go: `os.ErrNotExist`, `os.ErrExist`, `os.ErrInvalid`,
`os.ErrPermission`, ENOTDIR, ENOTEMPTY, EISDIR, EBADF). -/
inductive Err where
  | notExist | exist | invalid | permission | notDir | notEmpty | isDir | badf
  deriving DecidableEq, Repr

/-- `q` is `p` or lies below `p`. -/
def under (p q : Path) : Bool := p.isPrefixOf q

/-- Entries that are not at or below `p`. -/
def outside (p : Path) (t : Tree) : Tree := t.filter (fun e => !under p e.1)

/-- The subtree at `p` (entries at or below `p`, absolute paths kept). -/
def sub (t : Tree) (p : Path) : Tree := t.filter (fun e => under p e.1)

/-- Entry at `p`; the root is an implicit directory. -/
def get (t : Tree) (p : Path) : Option Entry :=
  if p = [] then some .dir else t.lookup p

/-- Move the entries below `a` to below `b`. -/
def rebase (a b : Path) (es : Tree) : Tree := es.map (fun e => (b ++ e.1.drop a.length, e.2))

/-- Replace (in place) or append the entry at `p`. -/
def setEntry (t : Tree) (p : Path) (e : Entry) : Tree :=
  if (t.lookup p).isSome then t.map (fun x => if x.1 = p then (p, e) else x) else t ++ [(p, e)]

/-! ### Name order (Readdir results are sorted by the harness; byte-wise order) -/

def nameLt : Name → Name → Bool
  | [], [] => false
  | [], _ :: _ => true
  | _ :: _, [] => false
  | a :: as, b :: bs => if a < b then true else if b < a then false else nameLt as bs

def insertName (n : Name) : List Name → List Name
  | [] => [n]
  | m :: ms => if nameLt m n then m :: insertName n ms else n :: m :: ms

def sortNames (ns : List Name) : List Name := ns.foldr insertName []

/-- Names of the children of directory `p`, sorted. -/
def kidsOf (t : Tree) (p : Path) : List Name :=
  sortNames (t.filterMap (fun e =>
    if e.1.length = p.length + 1 ∧ under p e.1 then e.1.getLast? else none))

/-! ### `path.Clean("/" + name)` as a component stack -/

/-- Split a byte string on `/` (47). -/
def splitSlash : List Nat → List Name
  | [] => [[]]
  | c :: cs =>
    if c = 47 then [] :: splitSlash cs
    else match splitSlash cs with
      | [] => [[c]]
      | s :: ss => (c :: s) :: ss

def cleanStep (stack : Path) (seg : Name) : Path :=
  if seg = [] ∨ seg = [46] then stack
  else if seg = [46, 46] then stack.dropLast
  else stack ++ [seg]

/-- `slashClean`: the cleaned, rooted component list of a raw path. -/
def clean (raw : List Nat) : Path := (splitSlash raw).foldl cleanStep []

/-! ### memFS -/
namespace Mem

/-- `memFS.walk` as used by `find`: every non-final component must name an
existing directory (`ErrNotExist` / `ErrInvalid` otherwise). -/
def walkFrom (t : Tree) (done : Path) : Path → Except Err Unit
  | [] => .ok ()
  | [_] => .ok ()
  | c :: c' :: cs =>
    match get t (done ++ [c]) with
    | none => .error .notExist
    | some (.file _) => .error .invalid
    | some .dir => walkFrom t (done ++ [c]) (c' :: cs)

def walk (t : Tree) (p : Path) : Except Err Unit := walkFrom t [] p

/-- `memFS.Mkdir`. -/
def mkdir (t : Tree) (p : Path) : Except Err Tree :=
  match walk t p with
  | .error e => .error e
  | .ok _ =>
    if p = [] then .error .invalid
    else if (get t p).isSome then .error .exist
    else .ok (t ++ [(p, .dir)])

/-- `memFS.RemoveAll`. -/
def removeAll (t : Tree) (p : Path) : Except Err Tree :=
  match walk t p with
  | .error e => .error e
  | .ok _ =>
    if p = [] then .error .invalid
    else .ok (outside p t)

/-- `memFS.Stat` (kind and contents; sizes are derived from the contents). -/
def stat (t : Tree) (p : Path) : Except Err Entry :=
  match walk t p with
  | .error e => .error e
  | .ok _ =>
    match get t p with
    | some e => .ok e
    | none => .error .notExist

/-- `memFS.Rename` on cleaned names. -/
def rename (t : Tree) (a b : Path) : Except Err Tree :=
  if a = b then .ok t
  else if under a b then .error .invalid
  else
    match walk t a with
    | .error e => .error e
    | .ok _ =>
      if a = [] then .error .invalid else
      match walk t b with
      | .error e => .error e
      | .ok _ =>
        if b = [] then .error .invalid else
        match get t a with
        | none => .error .notExist
        | some ea =>
          let blocked : Option Err :=
            match ea with
            | .file _ => none
            | .dir =>
              match get t b with
              | none => none
              | some (.file _) => some .notDir
              | some .dir => if (kidsOf t b).isEmpty then none else some .notEmpty
          match blocked with
          | some e => .error e
          | none => .ok (outside b (outside a t) ++ rebase a b (sub t a))

/-- Open flags: `acc` is `flag & 3` (0 `O_RDONLY`, 1 `O_WRONLY`, 2 `O_RDWR`). -/
structure Flags where
  acc : Nat
  append : Bool
  create : Bool
  excl : Bool
  sync : Bool
  trunc : Bool
  deriving DecidableEq, Repr

def Flags.wr (f : Flags) : Bool := f.acc != 0

def rdonly : Flags := ⟨0, false, false, false, false, false⟩
/-- `O_RDWR|O_CREATE|O_TRUNC`. -/
def rdwrCreateTrunc : Flags := ⟨2, false, true, false, false, true⟩

/-- What `memFS.OpenFile` captures in the returned `memFile`. -/
structure OpenInfo where
  path : Path
  isDir : Bool
  kids : List Name
  deriving DecidableEq, Repr

/-- `memFS.OpenFile`: the new tree and the opened node. -/
def openFile (t : Tree) (p : Path) (f : Flags) : Except Err (Tree × OpenInfo) :=
  match walk t p with
  | .error e => .error e
  | .ok _ =>
    if p = [] then
      if f.wr then .error .permission
      else .ok (t, ⟨[], true, kidsOf t []⟩)
    else if f.sync || f.append then .error .invalid
    else
      let n := get t p
      if f.create && f.excl && n.isSome then .error .exist
      else
        match n with
        | none =>
          if f.create then .ok (t ++ [(p, .file [])], ⟨p, false, []⟩)
          else .error .notExist
        | some .dir => .ok (t, ⟨p, true, kidsOf t p⟩)
        | some (.file _) =>
          if f.wr && f.trunc then .ok (setEntry t p (.file []), ⟨p, false, []⟩)
          else .ok (t, ⟨p, false, []⟩)

/-- `memFile.Write` of `p` at offset `pos` into contents `data`: overwrite, zero-fill
a hole (even for an empty `p`), append.  Returns the new contents and offset. -/
def writeAt (data : List Nat) (pos : Nat) (p : List Nat) : List Nat × Nat :=
  if pos < data.length then
    let n := min p.length (data.length - pos)
    (data.take pos ++ p.take n ++ data.drop (pos + n) ++ p.drop n, pos + p.length)
  else
    (data ++ List.replicate (pos - data.length) 0 ++ p, pos + p.length)

end Mem

end NetVerif.Model.FS
