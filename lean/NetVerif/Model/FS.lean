/-
Model of the hierarchical filesystems behind golang.org/x/net/webdav
(`webdav/file.go`): `FS.Mem.*` is an exact model of `memFS` / `memFile`,
`FS.Os.*` is the POSIX subset that `webdav.Dir` (package `os` on Linux)
exhibits for the same operation set.

Representation.  A filesystem is a *tree of names* stored as the finite map
from cleaned paths (lists of components) to entries; the root `[]` is implicit
and always a directory.  Every operation below keeps the map prefix-closed
(a path is present only if all its proper prefixes are present directories), so
the map is exactly the set of root-to-node name paths of the pointer tree of
`memFSNode`s.  Components and file contents are byte lists (`Nat` < 256).
Not modelled: permission bits, modification times, dead properties.

Open files (`memFile` / `*os.File`) keep working after their node is unlinked or
renamed (node identity / inode semantics): a handle refers either to a live path
(re-targeted by `rename`) or to an orphan slot holding the unlinked contents.
-/
namespace NetVerif.Model.FS

abbrev Name := List Nat
abbrev Path := List Name

inductive Entry where
  | file (data : List Nat)
  | dir
  deriving DecidableEq, Repr

abbrev Tree := List (Path × Entry)

/-- Error classes (Go: `os.ErrNotExist`, `os.ErrExist`, `os.ErrInvalid`,
`os.ErrPermission`, ENOTDIR, ENOTEMPTY, EISDIR, EBADF). -/
inductive Err where
  | notExist | exist | invalid | permission | notDir | notEmpty | isDir | badf
  deriving DecidableEq, Repr

/-- `q` is `p` or lies below `p`. -/
def under (p q : Path) : Bool := p.isPrefixOf q

/-- Entries that are not at or below `p`. -/
def outside (p : Path) (t : Tree) : Tree := t.filter (fun e => !under p e.1)

/-- The subtree at `p` (entries at or below `p`, absolute paths kept). -/
def sub (t : Tree) (p : Path) : Tree := t.filter (fun e => under p e.1)

/-- Entry at `p`; the root is an implicit directory. -/
def get (t : Tree) (p : Path) : Option Entry :=
  if p = [] then some .dir else t.lookup p

/-- Move the entries below `a` to below `b`. -/
def rebase (a b : Path) (es : Tree) : Tree := es.map (fun e => (b ++ e.1.drop a.length, e.2))

/-- Replace (in place) or append the entry at `p`. -/
def setEntry (t : Tree) (p : Path) (e : Entry) : Tree :=
  if (t.lookup p).isSome then t.map (fun x => if x.1 = p then (p, e) else x) else t ++ [(p, e)]

/-! ### Name order (Readdir results are sorted by the harness; byte-wise order) -/

def nameLt : Name → Name → Bool
  | [], [] => false
  | [], _ :: _ => true
  | _ :: _, [] => false
  | a :: as, b :: bs => if a < b then true else if b < a then false else nameLt as bs

def insertName (n : Name) : List Name → List Name
  | [] => [n]
  | m :: ms => if nameLt m n then m :: insertName n ms else n :: m :: ms

def sortNames (ns : List Name) : List Name := ns.foldr insertName []

/-- Names of the children of directory `p`, sorted. -/
def kidsOf (t : Tree) (p : Path) : List Name :=
  sortNames (t.filterMap (fun e =>
    if e.1.length = p.length + 1 ∧ under p e.1 then e.1.getLast? else none))

/-! ### `path.Clean("/" + name)` as a component stack -/

/-- Split a byte string on `/` (47). -/
def splitSlash : List Nat → List Name
  | [] => [[]]
  | c :: cs =>
    if c = 47 then [] :: splitSlash cs
    else match splitSlash cs with
      | [] => [[c]]
      | s :: ss => (c :: s) :: ss

def cleanStep (stack : Path) (seg : Name) : Path :=
  if seg = [] ∨ seg = [46] then stack
  else if seg = [46, 46] then stack.dropLast
  else stack ++ [seg]

/-- `slashClean`: the cleaned, rooted component list of a raw path. -/
def clean (raw : List Nat) : Path := (splitSlash raw).foldl cleanStep []

/-! ### memFS -/
namespace Mem

/-- `memFS.walk` as used by `find`: every non-final component must name an
existing directory (`ErrNotExist` / `ErrInvalid` otherwise). -/
def walkFrom (t : Tree) (done : Path) : Path → Except Err Unit
  | [] => .ok ()
  | [_] => .ok ()
  | c :: c' :: cs =>
    match get t (done ++ [c]) with
    | none => .error .notExist
    | some (.file _) => .error .invalid
    | some .dir => walkFrom t (done ++ [c]) (c' :: cs)

def walk (t : Tree) (p : Path) : Except Err Unit := walkFrom t [] p

/-- `memFS.Mkdir`. -/
def mkdir (t : Tree) (p : Path) : Except Err Tree :=
  match walk t p with
  | .error e => .error e
  | .ok _ =>
    if p = [] then .error .invalid
    else if (get t p).isSome then .error .exist
    else .ok (t ++ [(p, .dir)])

/-- `memFS.RemoveAll`. -/
def removeAll (t : Tree) (p : Path) : Except Err Tree :=
  match walk t p with
  | .error .notExist => .ok t        -- like os.RemoveAll: nothing to remove
  | .error e => .error e
  | .ok _ =>
    if p = [] then .error .invalid
    else .ok (outside p t)

/-- `memFS.Stat` (kind and contents; sizes are derived from the contents). -/
def stat (t : Tree) (p : Path) : Except Err Entry :=
  match walk t p with
  | .error e => .error e
  | .ok _ =>
    match get t p with
    | some e => .ok e
    | none => .error .notExist

/-- `memFS.Rename` on cleaned names. -/
def rename (t : Tree) (a b : Path) : Except Err Tree :=
  if a ≠ b ∧ under a b then .error .invalid
  else
    match walk t a with
    | .error e => .error e
    | .ok _ =>
      if a = [] then .error .invalid else
      match walk t b with
      | .error e => .error e
      | .ok _ =>
        if b = [] then .error .invalid else
        match get t a with
        | none => .error .notExist
        | some ea =>
          if a = b then .ok t else
          let blocked : Option Err :=
            match ea with
            | .file _ => none
            | .dir =>
              match get t b with
              | none => none
              | some (.file _) => some .notDir
              | some .dir => if (kidsOf t b).isEmpty then none else some .notEmpty
          match blocked with
          | some e => .error e
          | none => .ok (outside b (outside a t) ++ rebase a b (sub t a))

/-- Open flags: `acc` is `flag & 3` (0 `O_RDONLY`, 1 `O_WRONLY`, 2 `O_RDWR`). -/
structure Flags where
  acc : Nat
  append : Bool
  create : Bool
  excl : Bool
  sync : Bool
  trunc : Bool
  deriving DecidableEq, Repr

def Flags.wr (f : Flags) : Bool := f.acc != 0

def rdonly : Flags := ⟨0, false, false, false, false, false⟩
/-- `O_RDWR|O_CREATE|O_TRUNC`. -/
def rdwrCreateTrunc : Flags := ⟨2, false, true, false, false, true⟩

/-- What `memFS.OpenFile` captures in the returned `memFile`. -/
structure OpenInfo where
  path : Path
  isDir : Bool
  kids : List Name
  deriving DecidableEq, Repr

/-- `memFS.OpenFile`: the new tree and the opened node. -/
def openFile (t : Tree) (p : Path) (f : Flags) : Except Err (Tree × OpenInfo) :=
  match walk t p with
  | .error e => .error e
  | .ok _ =>
    if p = [] then
      if f.wr then .error .permission
      else .ok (t, ⟨[], true, kidsOf t []⟩)
    else
      let n := get t p
      if f.create && f.excl && n.isSome then .error .exist
      else
        match n with
        | none =>
          if f.create then .ok (t ++ [(p, .file [])], ⟨p, false, []⟩)
          else .error .notExist
        | some .dir => .ok (t, ⟨p, true, kidsOf t p⟩)
        | some (.file _) =>
          if f.wr && f.trunc then .ok (setEntry t p (.file []), ⟨p, false, []⟩)
          else .ok (t, ⟨p, false, []⟩)

/-- The body of `memFile.Write` for a non-empty `p` at offset `pos` into contents `data`: overwrite,
zero-fill a hole, append.  Returns the new contents and offset. -/
def writeAt (data : List Nat) (pos : Nat) (p : List Nat) : List Nat × Nat :=
  if pos < data.length then
    let n := min p.length (data.length - pos)
    (data.take pos ++ p.take n ++ data.drop (pos + n) ++ p.drop n, pos + p.length)
  else
    (data ++ List.replicate (pos - data.length) 0 ++ p, pos + p.length)

end Mem

/-! ### The native filesystem (Linux, through `webdav.Dir`): tree-level rules -/
namespace Os

/-- `os.Mkdir` below a `Dir`. -/
def mkdir (t : Tree) (p : Path) : Except Err Tree :=
  match Mem.walk t p with
  | .error .invalid => .error .notDir
  | .error e => .error e
  | .ok _ =>
    if (get t p).isSome then .error .exist       -- includes the root directory itself
    else .ok (t ++ [(p, .dir)])

/-- `Dir.RemoveAll`: the root is refused; a missing name (or missing parent) is not an error;
a name below a regular file is (ENOTDIR). -/
def removeAll (t : Tree) (p : Path) : Except Err Tree :=
  if p = [] then .error .invalid
  else match Mem.walk t p with
    | .error .notExist => .ok t
    | .error _ => .error .notDir
    | .ok _ => .ok (outside p t)

def stat (t : Tree) (p : Path) : Except Err Entry :=
  match Mem.walk t p with
  | .error .invalid => .error .notDir
  | .error e => .error e
  | .ok _ =>
    match get t p with
    | some e => .ok e
    | none => .error .notExist

/-- `Dir.Rename` = root checks + `os.Rename` (which refuses every existing directory as the new
name with EEXIST before calling rename(2)). -/
def rename (t : Tree) (a b : Path) : Except Err Tree :=
  if a = [] ∨ b = [] then .error .invalid
  else match Mem.walk t a with
    | .error _ => .error .notExist
    | .ok _ =>
      match get t a with
      | none => .error .notExist
      | some ea =>
        match Mem.walk t b with
        | .error _ => .error .notExist
        | .ok _ =>
          match get t b with
          | some .dir => .error .exist
          | some (.file _) =>
            (match ea with
             | .dir => .error .notDir
             | .file _ => if a = b then .ok t else .ok (outside b (outside a t) ++ rebase a b (sub t a)))
          | none =>
            if under a b then .error .invalid
            else .ok (outside b (outside a t) ++ rebase a b (sub t a))

/-- open(2) as reached through `Dir.OpenFile`. -/
def openFile (t : Tree) (p : Path) (f : Mem.Flags) : Except Err (Tree × Mem.OpenInfo) :=
  match Mem.walk t p with
  | .error _ => .error .notExist
  | .ok _ =>
    match get t p with
    | none =>
      if f.create then .ok (t ++ [(p, .file [])], ⟨p, false, []⟩) else .error .notExist
    | some .dir =>
      if f.create && f.excl then .error .exist
      else if f.create || f.trunc || f.wr then .error .isDir
      else .ok (t, ⟨p, true, kidsOf t p⟩)
    | some (.file _) =>
      if f.create && f.excl then .error .exist
      else if f.trunc then .ok (setEntry t p (.file []), ⟨p, false, []⟩)
      else .ok (t, ⟨p, false, []⟩)

end Os

/-! ## Open files and operation histories (shared state; `Mem.step` and `Os.step` differ in the rules) -/

inductive Target where
  | live (p : Path)
  | orphan (i : Nat)
  | gone                 -- a directory handle whose directory has been removed
  deriving DecidableEq, Repr

/-- An open file: `memFile` / `*os.File`. Directory handles carry the listing taken when
they were opened and never look at `target` again. -/
structure Handle where
  target : Target
  pos : Nat
  isDir : Bool
  kids : List Name
  acc : Nat
  app : Bool
  listed : Bool          -- a Readdir has been run on the handle
  deriving DecidableEq, Repr

structure State where
  tree : Tree := []
  orphans : List (List Nat) := []
  handles : List Handle := []
  deriving DecidableEq, Repr

inductive Op where
  | mkdir (p : Path)
  | open (p : Path) (f : Mem.Flags)
  | write (h : Nat) (data : List Nat)
  | read (h n : Nat)
  | seek (h : Nat) (off : Int) (whence : Nat)
  | readdir (h : Nat) (count : Int)
  | rename (a b : Path)
  | removeAll (p : Path)
  | stat (p : Path)
  | fstat (h : Nat)
  deriving DecidableEq, Repr

/-- Results, with error kinds collapsed (the property speaks of success or failure). -/
inductive Res where
  | ok | err | badHandle
  | opened (h : Nat) (isDir : Bool)
  | wrote (n : Nat)
  | data (bs : List Nat)
  | eof
  | pos (n : Nat)
  | listing (names : List Name)   -- Readdir: the returned batch
  | info (isDir : Bool) (size : Nat) (name : Option Name)   -- `name`: FileInfo.Name of a Stat by path
  deriving DecidableEq, Repr

def fileData (s : State) (h : Handle) : List Nat :=
  match h.target with
  | .live p => (match get s.tree p with | some (.file d) => d | _ => [])
  | .orphan i => s.orphans.getD i []
  | .gone => []

def setFileData (s : State) (h : Handle) (d : List Nat) : State :=
  match h.target with
  | .live p => { s with tree := setEntry s.tree p (.file d) }
  | .orphan i => { s with orphans := s.orphans.set i d }
  | .gone => s

def setPos (s : State) (i : Nat) (pos : Nat) : State :=
  { s with handles := s.handles.modify i (fun h => { h with pos := pos }) }

/-- Unlinked regular files stay reachable through the handles that have them open. -/
def orphanEntries (s : State) : Tree → State
  | [] => s
  | (q, .file d) :: es =>
    orphanEntries { s with
      orphans := s.orphans ++ [d],
      handles := s.handles.map (fun h =>
        if h.target = .live q then { h with target := .orphan s.orphans.length } else h) } es
  | (q, .dir) :: es =>
    orphanEntries { s with
      handles := s.handles.map (fun h =>
        if h.target = .live q then { h with target := .gone } else h) } es

def effRemove (s : State) (p : Path) : State :=
  { orphanEntries s (sub s.tree p) with tree := outside p s.tree }

def effRename (s : State) (a b : Path) (t2 : Tree) : State :=
  let s1 := orphanEntries s (outside a (sub s.tree b))
  { s1 with
    tree := t2,
    handles := s1.handles.map (fun h =>
      match h.target with
      | .live q => if under a q then { h with target := .live (b ++ q.drop a.length) } else h
      | _ => h) }

/-- The listing a directory handle works through, fixed by its first Readdir. -/
def primeHandle (s : State) (i : Nat) (ks : List Name) : State :=
  { s with handles := s.handles.modify i (fun h => { h with kids := ks, listed := true }) }

/-- What the directory behind handle `hd` contains now (`none`: it has been removed). -/
def liveKids (s : State) (hd : Handle) : Option (List Name) :=
  match hd.target with
  | .live p => some (kidsOf s.tree p)
  | _ => none

/-- The Readdir batch logic shared by `memFile.Readdir` and `os.File.Readdir` once the listing
`ks` is fixed: position `pos` in `ks`, `count` as in the Go API. -/
def readdirBatch (s : State) (h : Nat) (pos : Nat) (ks : List Name) (count : Int) : State × Res :=
  if pos ≥ ks.length then (s, if count > 0 then .eof else .listing [])
  else if count > 0 then
    let np := min (pos + count.toNat) ks.length
    (setPos s h np, .listing ((ks.drop pos).take (np - pos)))
  else (setPos s h ks.length, .listing (ks.drop pos))

def addHandle (s : State) (t : Tree) (info : Mem.OpenInfo) (f : Mem.Flags) : State × Res :=
  ({ s with tree := t, handles := s.handles ++ [⟨.live info.path, 0, info.isDir, info.kids, f.acc, f.append, false⟩] },
   .opened s.handles.length info.isDir)

/-- `Seek` arithmetic shared by `memFile.Seek` and lseek(2) on a regular file. -/
def seekPos (len pos : Nat) (off : Int) (whence : Nat) : Option Nat :=
  let npos : Int :=
    if whence = 0 then off
    else if whence = 1 then (pos : Int) + off
    else if whence = 2 then (len : Int) + off
    else -1
  -- a negative position is refused; so is one past 2^63-1 (Go's `int` addition wraps to a negative value)
  if npos < 0 ∨ npos ≥ 9223372036854775808 then none else some npos.toNat

/-- Success value with the error kind dropped. -/
def okOf {α : Type} : Except Err α → Option α
  | .ok a => some a
  | .error _ => none

/-- `FileInfo` of a Stat by (cleaned) path: the name is the last component, `/` for the root. -/
def statRes (p : Path) : Option Entry → Res
  | some (.file d) => .info false d.length (some (p.getLast?.getD [47]))
  | some .dir => .info true 0 (some (p.getLast?.getD [47]))
  | none => .err

/-- Largest allocation `make([]byte, n)` accepts on 64-bit Linux (`maxAlloc`, 2^48); beyond it
`memFile.Write` answers "file too large". -/
def memMaxAlloc : Nat := 281474976710656

/-- Offsets beyond this are refused by the native filesystem (ext4 with 4 KiB blocks: 16 TiB);
the exact limit is filesystem dependent and never approached by the generators. -/
def osMaxOffset : Nat := 17592186044416

/-- Steps that do not depend on the flavour once the handle is known to be usable. -/
def fstatRes (s : State) (hd : Handle) : Res :=
  if hd.isDir then .info true 0 none else .info false (fileData s hd).length none

namespace Mem

/-- One `memFS` / `memFile` call. -/
def step (s : State) : Op → State × Res
  | .mkdir p =>
    match okOf (Mem.mkdir s.tree p) with
    | some t => ({ s with tree := t }, .ok)
    | none => (s, .err)
  | .open p f =>
    match okOf (Mem.openFile s.tree p f) with
    | none => (s, .err)
    | some (t, info) => addHandle s t info f
  | .write h data =>
    match s.handles[h]? with
    | none => (s, .badHandle)
    | some hd =>
      if hd.isDir || hd.acc == 0 then (s, .err)        -- ErrInvalid / not opened for writing
      else if data = [] then (s, .wrote 0)             -- a zero-length Write changes nothing
      else if (if hd.app then (fileData s hd).length else hd.pos) > (fileData s hd).length ∧
              (if hd.app then (fileData s hd).length else hd.pos) + data.length > memMaxAlloc then
        (s, .err)                                      -- the hole cannot be allocated: "file too large"
      else
        let r := Mem.writeAt (fileData s hd) (if hd.app then (fileData s hd).length else hd.pos) data
        (setPos (setFileData s hd r.1) h r.2, .wrote data.length)
  | .read h n =>
    match s.handles[h]? with
    | none => (s, .badHandle)
    | some hd =>
      if n = 0 then (s, .data [])
      else if hd.isDir || hd.acc == 1 then (s, .err)   -- ErrInvalid / not opened for reading
      else
        let d := fileData s hd
        if hd.pos ≥ d.length then (s, .eof)
        else
          let chunk := (d.drop hd.pos).take n
          (setPos s h (hd.pos + chunk.length), .data chunk)
  | .seek h off whence =>
    match s.handles[h]? with
    | none => (s, .badHandle)
    | some hd =>
      match seekPos (if hd.isDir then 0 else (fileData s hd).length) hd.pos off whence with
      | none => (s, .err)
      | some np => (setPos s h np, .pos np)
  | .readdir h count =>
    match s.handles[h]? with
    | none => (s, .badHandle)
    | some hd =>
      if !hd.isDir then (s, .err)
      -- the listing is the snapshot taken by OpenFile, whatever happened since
      else readdirBatch (primeHandle s h hd.kids) h hd.pos hd.kids count
  | .rename a b =>
    match okOf (Mem.rename s.tree a b) with
    | none => (s, .err)
    | some t2 => if a = b then (s, .ok) else (effRename s a b t2, .ok)
  | .removeAll p =>
    match okOf (Mem.removeAll s.tree p) with
    | none => (s, .err)
    | some _ => (effRemove s p, .ok)
  | .stat p => (s, statRes p (okOf (Mem.stat s.tree p)))
  | .fstat h =>
    match s.handles[h]? with
    | none => (s, .badHandle)
    | some hd => (s, fstatRes s hd)

end Mem

namespace Os


/-- One `webdav.Dir` / `*os.File` call. -/
def step (s : State) : Op → State × Res
  | .mkdir p =>
    match okOf (Os.mkdir s.tree p) with
    | some t => ({ s with tree := t }, .ok)
    | none => (s, .err)
  | .open p f =>
    match okOf (Os.openFile s.tree p f) with
    | none => (s, .err)
    | some (t, info) => addHandle s t info f
  | .write h data =>
    match s.handles[h]? with
    | none => (s, .badHandle)
    | some hd =>
      if hd.isDir || hd.acc == 0 then (s, .err)        -- EBADF
      else if data = [] then (s, .wrote 0)             -- a zero-length write(2) does nothing
      else if (if hd.app then (fileData s hd).length else hd.pos) + data.length > osMaxOffset then
        (s, .err)                                      -- EFBIG
      else
        -- write(2) at the handle's offset, at the end for `O_APPEND`
        let r := Mem.writeAt (fileData s hd) (if hd.app then (fileData s hd).length else hd.pos) data
        (setPos (setFileData s hd r.1) h r.2, .wrote data.length)
  | .read h n =>
    match s.handles[h]? with
    | none => (s, .badHandle)
    | some hd =>
      if n = 0 then (s, .data [])       -- a zero-length Read returns at once
      else if hd.isDir || hd.acc == 1 then (s, .err)
      else
        let d := fileData s hd
        if hd.pos ≥ d.length then (s, .eof)
        else
          let chunk := (d.drop hd.pos).take n
          (setPos s h (hd.pos + chunk.length), .data chunk)
  | .seek h off whence =>
    match s.handles[h]? with
    | none => (s, .badHandle)
    | some hd =>
      if hd.isDir then (s, .err)     -- unspecified (filesystem dependent); never generated
      else match seekPos (fileData s hd).length hd.pos off whence with
        | none => (s, .err)
        | some np => if np > osMaxOffset then (s, .err) else (setPos s h np, .pos np)
  | .readdir h count =>
    match s.handles[h]? with
    | none => (s, .badHandle)
    | some hd =>
      if !hd.isDir then (s, .err)
      else
        -- the first Readdir reads the directory as it is now (getdents); later calls continue in
        -- that buffer.  A removed directory cannot be read (ENOENT).
        match (if hd.listed then some hd.kids else liveKids s hd) with
        | none => (s, .err)
        | some ks => readdirBatch (primeHandle s h ks) h hd.pos ks count
  | .rename a b =>
    match okOf (Os.rename s.tree a b) with
    | none => (s, .err)
    | some t2 => if a = b then (s, .ok) else (effRename s a b t2, .ok)
  | .removeAll p =>
    match okOf (Os.removeAll s.tree p) with
    | none => (s, .err)
    | some _ => (effRemove s p, .ok)
  | .stat p => (s, statRes p (okOf (Os.stat s.tree p)))
  | .fstat h =>
    match s.handles[h]? with
    | none => (s, .badHandle)
    | some hd => (s, fstatRes s hd)

end Os

def runWith (step : State → Op → State × Res) : State → List Op → State × List Res
  | s, [] => (s, [])
  | s, op :: ops =>
    let r := step s op
    let rest := runWith step r.1 ops
    (rest.1, r.2 :: rest.2)

end NetVerif.Model.FS
