/-
C39 — exact model of the classification and span logic of html.Tokenizer.Next
(html/token.go), function by function: readByte, skipWhiteSpace,
readRawOrRCDATA, readRawEndTag, readScript (all 16 script-data states),
readComment, readUntilCloseAngle, readMarkupDeclaration, readDoctype,
readCDATA, startTagIn, readStartTag, readTag, readTagName, readTagAttrKey,
readTagAttrVal, Next.

What is modelled exactly: the token type returned by every `Next`, the raw span
`[raw.start, raw.end)` of every token (as absolute offsets into the input),
`z.err` (nil / io.EOF / ErrBufferExceeded / other reader error), `z.rawTag`, the
data span where it feeds back into control flow, the attribute bookkeeping that
decides StartTag vs SelfClosingTag (duplicate-key filter, last value span),
`SetMaxBuf`, `AllowCDATA` (static), `NewTokenizerFragment`'s context tag.

What is NOT modelled: the buffer (`z.buf` is the whole input here; the buffer
machine is `Model/HtmlTok.lean` part B and chunk-independence is an oracle of
the harness), `Text/TagName/TagAttr/Token` (unescaping, NUL/newline
conversion), `NextIsNotRawText`, dynamic `AllowCDATA` toggling, io.ErrNoProgress.

Go loops become fuel recursion; `fuelOut` would be raised if a loop ever ran out
of fuel. `Proofs.C39.exact_fuel_never_out` proves that it never happens.
-/
namespace NetVerif.Model.HtmlTokExact

inductive Err | none | eof | exceeded | other
deriving DecidableEq, Repr, Inhabited

structure Z where
  inp : Array Nat
  finalErr : Err := .eof    -- what the reader reports after the last byte
  maxBuf : Nat := 0
  allowCDATA : Bool := false
  rawStart : Nat := 0
  rawEnd : Nat := 0
  dataStart : Nat := 0
  dataEnd : Nat := 0
  err : Err := .none
  rawTag : List Nat := []
  nAttr : Nat := 0               -- len(z.attr)
  lastValEnd : Nat := 0          -- z.attr[nAttr-1][1].end
  attrNames : List (List Nat) := []
  pkStart : Nat := 0
  pkEnd : Nat := 0
  pvStart : Nat := 0
  pvEnd : Nat := 0
  fuelOut : Bool := false
deriving Repr, Inhabited

def isWS (c : Nat) : Bool := c == 32 || c == 10 || c == 13 || c == 9 || c == 12
def isLetter (c : Nat) : Bool := (97 ≤ c && c ≤ 122) || (65 ≤ c && c ≤ 90)
def lowerByte (c : Nat) : Nat := if 65 ≤ c ∧ c ≤ 90 then c + 32 else c
/-- `' ', '\n', '\r', '\t', '\f', '/', '>'` -/
def isTagEnd (c : Nat) : Bool := isWS c || c == 47 || c == 62

/-- `readByte` over the whole input: the refill branch is transparent. -/
def readByte (z : Z) : Nat × Z :=
  if z.rawEnd ≥ z.inp.size then (0, { z with err := z.finalErr })
  else
    let x := z.inp.getD z.rawEnd 0
    let z := { z with rawEnd := z.rawEnd + 1 }
    if z.maxBuf > 0 ∧ z.rawEnd - z.rawStart ≥ z.maxBuf then (0, { z with err := .exceeded })
    else (x, z)

def unread (z : Z) (k : Nat := 1) : Z := { z with rawEnd := z.rawEnd - k }

def outOfFuel (z : Z) : Z := { z with fuelOut := true }

/-! ### skipWhiteSpace -/

def skipWSLoop : Nat → Z → Z
  | 0, z => outOfFuel z
  | f + 1, z =>
    let (c, z) := readByte z
    if z.err ≠ .none then z
    else if isWS c then skipWSLoop f z
    else unread z

def skipWhiteSpace (z : Z) : Z :=
  if z.err ≠ .none then z else skipWSLoop (z.inp.size + 2) z

/-! ### readRawEndTag -/

/-- The `for i := 0; i < len(z.rawTag); i++` loop: `none` = returned false
(error, or mismatch with the byte un-read), `some z` = all of rawTag matched. -/
def matchRawTag : List Nat → Z → Option Z × Z
  | [], z => (some z, z)
  | t :: ts, z =>
    let (c, z) := readByte z
    if z.err ≠ .none then (none, z)
    else if c ≠ t ∧ c ≠ t - 32 then (none, unread z)
    else matchRawTag ts z

def readRawEndTag (z : Z) : Bool × Z :=
  match matchRawTag z.rawTag z with
  | (none, z) => (false, z)
  | (some _, z) =>
    let (c, z) := readByte z
    if z.err ≠ .none then (false, z)
    else if isTagEnd c then (true, unread z (3 + z.rawTag.length))
    else (false, unread z)

/-! ### readScript -/

inductive SS
  | data | lt | endTagOpen | escStart | escStartDash | esc | escDash | escDashDash
  | escLt | escEndTagOpen | dblEscStart | dblEsc | dblEscDash | dblEscDashDash | dblEscLt | dblEscEnd
deriving DecidableEq, Repr

def scriptWord : List (Nat × Nat) :=
  [(115, 83), (99, 67), (114, 82), (105, 73), (112, 80), (116, 84)]  -- "script" / "SCRIPT"

/-- the `for i := 0; i < len("script"); i++` loop of scriptDataDoubleEscapeStart:
0 = error (return), 1 = mismatch (byte un-read, goto scriptDataEscaped), 2 = matched -/
def matchScript : List (Nat × Nat) → Z → Nat × Z
  | [], z => (2, z)
  | (lo, up) :: ws, z =>
    let (c, z) := readByte z
    if z.err ≠ .none then (0, z)
    else if c ≠ lo ∧ c ≠ up then (1, unread z)
    else matchScript ws z

def scriptLoop : Nat → SS → Z → Z
  | 0, _, z => outOfFuel z
  | f + 1, st, z =>
    match st with
    | .data =>
      let (c, z) := readByte z
      if z.err ≠ .none then z
      else if c == 60 then scriptLoop f .lt z else scriptLoop f .data z
    | .lt =>
      let (c, z) := readByte z
      if z.err ≠ .none then z
      else if c == 47 then scriptLoop f .endTagOpen z
      else if c == 33 then scriptLoop f .escStart z
      else scriptLoop f .data (unread z)
    | .endTagOpen =>
      let (ok, z) := readRawEndTag z
      if ok ∨ z.err ≠ .none then z else scriptLoop f .data z
    | .escStart =>
      let (c, z) := readByte z
      if z.err ≠ .none then z
      else if c == 45 then scriptLoop f .escStartDash z
      else scriptLoop f .data (unread z)
    | .escStartDash =>
      let (c, z) := readByte z
      if z.err ≠ .none then z
      else if c == 45 then scriptLoop f .escDashDash z
      else scriptLoop f .data (unread z)
    | .esc =>
      let (c, z) := readByte z
      if z.err ≠ .none then z
      else if c == 45 then scriptLoop f .escDash z
      else if c == 60 then scriptLoop f .escLt z
      else scriptLoop f .esc z
    | .escDash =>
      let (c, z) := readByte z
      if z.err ≠ .none then z
      else if c == 45 then scriptLoop f .escDashDash z
      else if c == 60 then scriptLoop f .escLt z
      else scriptLoop f .esc z
    | .escDashDash =>
      let (c, z) := readByte z
      if z.err ≠ .none then z
      else if c == 45 then scriptLoop f .escDashDash z
      else if c == 60 then scriptLoop f .escLt z
      else if c == 62 then scriptLoop f .data z
      else scriptLoop f .esc z
    | .escLt =>
      let (c, z) := readByte z
      if z.err ≠ .none then z
      else if c == 47 then scriptLoop f .escEndTagOpen z
      else if isLetter c then scriptLoop f .dblEscStart z
      else scriptLoop f .data (unread z)
    | .escEndTagOpen =>
      let (ok, z) := readRawEndTag z
      if ok ∨ z.err ≠ .none then z else scriptLoop f .esc z
    | .dblEscStart =>
      let z := unread z
      match matchScript scriptWord z with
      | (0, z) => z
      | (1, z) => scriptLoop f .esc z
      | (_, z) =>
        let (c, z) := readByte z
        if z.err ≠ .none then z
        else if isTagEnd c then scriptLoop f .dblEsc z
        else scriptLoop f .esc (unread z)
    | .dblEsc =>
      let (c, z) := readByte z
      if z.err ≠ .none then z
      else if c == 45 then scriptLoop f .dblEscDash z
      else if c == 60 then scriptLoop f .dblEscLt z
      else scriptLoop f .dblEsc z
    | .dblEscDash =>
      let (c, z) := readByte z
      if z.err ≠ .none then z
      else if c == 45 then scriptLoop f .dblEscDashDash z
      else if c == 60 then scriptLoop f .dblEscLt z
      else scriptLoop f .dblEsc z
    | .dblEscDashDash =>
      let (c, z) := readByte z
      if z.err ≠ .none then z
      else if c == 45 then scriptLoop f .dblEscDashDash z
      else if c == 60 then scriptLoop f .dblEscLt z
      else if c == 62 then scriptLoop f .data z
      else scriptLoop f .dblEsc z
    | .dblEscLt =>
      let (c, z) := readByte z
      if z.err ≠ .none then z
      else if c == 47 then scriptLoop f .dblEscEnd z
      else scriptLoop f .dblEsc (unread z)
    | .dblEscEnd =>
      let (ok, z) := readRawEndTag z
      if ok then scriptLoop f .esc { z with rawEnd := z.rawEnd + 9 }   -- z.raw.end += len("</script>")
      else if z.err ≠ .none then z
      else scriptLoop f .dblEsc z

/-- `readScript` (with its deferred `z.data.end = z.raw.end`). -/
def readScript (z : Z) : Z :=
  let z := scriptLoop (8 * (z.inp.size + 2)) .data z
  { z with dataEnd := z.rawEnd }

/-! ### readRawOrRCDATA -/

def rawLoop : Nat → Z → Z
  | 0, z => outOfFuel z
  | f + 1, z =>
    let (c, z) := readByte z
    if z.err ≠ .none then z
    else if c ≠ 60 then rawLoop f z
    else
      let (c, z) := readByte z
      if z.err ≠ .none then z
      else if c ≠ 47 then rawLoop f (unread z)
      else
        let (ok, z) := readRawEndTag z
        if ok ∨ z.err ≠ .none then z else rawLoop f z

def scriptTag : List Nat := [115, 99, 114, 105, 112, 116]
def plaintextTag : List Nat := [112, 108, 97, 105, 110, 116, 101, 120, 116]

def readRawOrRCDATA (z : Z) : Z :=
  if z.rawTag = scriptTag then
    let z := readScript z
    { z with rawTag := [] }
  else
    let z := rawLoop (2 * (z.inp.size + 2)) z
    { z with dataEnd := z.rawEnd, rawTag := [] }

/-! ### comments, doctype, CDATA -/

def commentLoop : Nat → Nat → Bool → Z → Z
  | 0, _, _, z => outOfFuel z
  | f + 1, dashCount, beginning, z =>
    let (c, z) := readByte z
    if z.err ≠ .none then z
    else if c == 45 then commentLoop f (dashCount + 1) beginning z
    else if c == 62 ∧ (dashCount ≥ 2 ∨ beginning) then z
    else if c == 33 ∧ dashCount ≥ 2 then
      let (c, z) := readByte z
      if z.err ≠ .none then z
      else if c == 62 then z
      else if c == 45 then commentLoop f 1 false z
      else commentLoop f 0 false z
    else commentLoop f 0 false z

/-- `readComment` (raw span / err only; the data span of a comment is not modelled). -/
def readComment (z : Z) : Z := commentLoop (z.inp.size + 2) 0 true z

def untilCloseAngleLoop : Nat → Z → Z
  | 0, z => outOfFuel z
  | f + 1, z =>
    let (c, z) := readByte z
    if z.err ≠ .none then z
    else if c == 62 then z
    else untilCloseAngleLoop f z

def readUntilCloseAngle (z : Z) : Z :=
  untilCloseAngleLoop (z.inp.size + 2) { z with dataStart := z.rawEnd }

def doctypeWord : List Nat := [68, 79, 67, 84, 89, 80, 69]       -- "DOCTYPE"
def cdataWord : List Nat := [91, 67, 68, 65, 84, 65, 91]         -- "[CDATA["

/-- The `for i := 0; i < len(s); i++` loops of readDoctype (`ci = true`: also
accept the lower-case letter) and readCDATA. `none` = returned false. -/
def matchWord (ci : Bool) : List Nat → Z → Option Unit × Z
  | [], z => (some (), z)
  | s :: ss, z =>
    let (c, z) := readByte z
    if z.err ≠ .none then
      if z.err = .eof then (none, { z with rawEnd := z.dataStart, err := .none })
      else (none, z)
    else if c ≠ s ∧ ¬ (ci ∧ c = s + 32) then (none, { z with rawEnd := z.dataStart })
    else matchWord ci ss z

def readDoctype (z : Z) : Bool × Z :=
  match matchWord true doctypeWord z with
  | (none, z) => (false, z)
  | (some _, z) =>
    let z := skipWhiteSpace z
    if z.err ≠ .none then (true, z)
    else (true, readUntilCloseAngle z)

def cdataLoop : Nat → Nat → Z → Z
  | 0, _, z => outOfFuel z
  | f + 1, brackets, z =>
    let (c, z) := readByte z
    if z.err ≠ .none then z
    else if c == 93 then cdataLoop f (brackets + 1) z
    else if c == 62 then (if brackets ≥ 2 then z else cdataLoop f 0 z)
    else cdataLoop f 0 z

def readCDATA (z : Z) : Bool × Z :=
  match matchWord false cdataWord z with
  | (none, z) => (false, z)
  | (some _, z) => (true, cdataLoop (z.inp.size + 2) 0 { z with dataStart := z.rawEnd })

/-- Token type codes (token.go): Error 0, Text 1, StartTag 2, EndTag 3, SelfClosing 4, Comment 5, Doctype 6. -/
def readMarkupDeclaration (z : Z) : Nat × Z :=
  let z := { z with dataStart := z.rawEnd }
  let (c0, z) := readByte z
  if z.err ≠ .none then (5, z) else
  let (c1, z) := readByte z
  if z.err ≠ .none then (5, z) else
  if c0 == 45 ∧ c1 == 45 then (5, readComment z) else
  let z := unread z 2
  match readDoctype z with
  | (true, z) => (6, z)
  | (false, z) =>
    -- a read error other than io.EOF cut the declaration short: bogus comment, no further readByte
    if z.err ≠ .none then (5, z) else
    if z.allowCDATA then
      match readCDATA z with
      | (true, z) => (1, z)
      | (false, z) => if z.err ≠ .none then (5, z) else (5, readUntilCloseAngle z)
    else (5, readUntilCloseAngle z)

/-! ### tags -/

def tagNameLoop : Nat → Z → Z
  | 0, z => outOfFuel z
  | f + 1, z =>
    let (c, z) := readByte z
    if z.err ≠ .none then { z with dataEnd := z.rawEnd }
    else if isWS c then { z with dataEnd := z.rawEnd - 1 }
    else if c == 47 ∨ c == 62 then
      let z := unread z
      { z with dataEnd := z.rawEnd }
    else tagNameLoop f z

def readTagName (z : Z) : Z :=
  tagNameLoop (z.inp.size + 2) { z with dataStart := z.rawEnd - 1 }

def attrKeyLoop : Nat → Z → Z
  | 0, z => outOfFuel z
  | f + 1, z =>
    let (c, z) := readByte z
    if z.err ≠ .none then { z with pkEnd := z.rawEnd }
    else if c == 61 ∧ z.pkStart + 1 = z.rawEnd then attrKeyLoop f z
    else if c == 61 ∨ isWS c ∨ c == 47 ∨ c == 62 then
      let z := unread z
      { z with pkEnd := z.rawEnd }
    else attrKeyLoop f z

def readTagAttrKey (z : Z) : Z :=
  attrKeyLoop (z.inp.size + 2) { z with pkStart := z.rawEnd }

def quotedValLoop : Nat → Nat → Z → Z
  | 0, _, z => outOfFuel z
  | f + 1, quote, z =>
    let (c, z) := readByte z
    if z.err ≠ .none then { z with pvEnd := z.rawEnd }
    else if c = quote then { z with pvEnd := z.rawEnd - 1 }
    else quotedValLoop f quote z

def unquotedValLoop : Nat → Z → Z
  | 0, z => outOfFuel z
  | f + 1, z =>
    let (c, z) := readByte z
    if z.err ≠ .none then { z with pvEnd := z.rawEnd }
    else if isWS c then { z with pvEnd := z.rawEnd - 1 }
    else if c == 62 then
      let z := unread z
      { z with pvEnd := z.rawEnd }
    else unquotedValLoop f z

def readTagAttrVal (z : Z) : Z :=
  let z := { z with pvStart := z.rawEnd, pvEnd := z.rawEnd }
  let z := skipWhiteSpace z
  if z.err ≠ .none then z else
  let (c, z) := readByte z
  if z.err ≠ .none then z else
  if c == 47 then z else
  if c ≠ 61 then unread z else
  let z := skipWhiteSpace z
  if z.err ≠ .none then z else
  let (quote, z) := readByte z
  if z.err ≠ .none then z else
  if quote == 62 then unread z
  else if quote == 39 ∨ quote == 34 then
    quotedValLoop (z.inp.size + 2) quote { z with pvStart := z.rawEnd }
  else
    unquotedValLoop (z.inp.size + 2) { z with pvStart := z.rawEnd - 1 }

def sliceOf (z : Z) (a b : Nat) : List Nat := (z.inp.extract a b).toList

def tagLoop : Nat → Bool → Z → Z
  | 0, _, z => outOfFuel z
  | f + 1, saveAttr, z =>
    let (c, z) := readByte z
    if z.err ≠ .none ∨ c == 62 then z else
    let z := unread z
    let z := readTagAttrKey z
    let z := readTagAttrVal z
    let key := (sliceOf z z.pkStart z.pkEnd).map lowerByte
    let z := if saveAttr ∧ z.pkStart ≠ z.pkEnd ∧ ¬ z.attrNames.contains key then
        { z with nAttr := z.nAttr + 1, lastValEnd := z.pvEnd, attrNames := key :: z.attrNames }
      else z
    let z := skipWhiteSpace z
    if z.err ≠ .none then z else tagLoop f saveAttr z

def readTag (saveAttr : Bool) (z : Z) : Z :=
  let z := { z with nAttr := 0, lastValEnd := 0, attrNames := [] }
  let z := readTagName z
  let z := skipWhiteSpace z
  if z.err ≠ .none then z else tagLoop (z.inp.size + 2) saveAttr z

/-- the tag names that switch the tokenizer to raw text -/
def rawTextNames : List (List Nat) :=
  [ [105, 102, 114, 97, 109, 101],                 -- iframe
    [110, 111, 101, 109, 98, 101, 100],            -- noembed
    [110, 111, 102, 114, 97, 109, 101, 115],       -- noframes
    [110, 111, 115, 99, 114, 105, 112, 116],       -- noscript
    [112, 108, 97, 105, 110, 116, 101, 120, 116],  -- plaintext
    [115, 99, 114, 105, 112, 116],                 -- script
    [115, 116, 121, 108, 101],                     -- style
    [116, 101, 120, 116, 97, 114, 101, 97],        -- textarea
    [116, 105, 116, 108, 101],                     -- title
    [120, 109, 112] ]                              -- xmp

def readStartTag (z : Z) : Nat × Z :=
  let z := readTag true z
  if z.err ≠ .none then (0, z) else
  let name := (sliceOf z z.dataStart z.dataEnd).map lowerByte
  let z := if rawTextNames.contains name then { z with rawTag := name } else z
  if z.inp.getD (z.rawEnd - 2) 0 == 47 ∧ (z.nAttr = 0 ∨ z.rawEnd - 2 ≠ z.lastValEnd - 1) then (4, z)
  else (2, z)

/-! ### Next -/

def plaintextLoop : Nat → Z → Z
  | 0, z => outOfFuel z
  | f + 1, z => if z.err ≠ .none then z else plaintextLoop f (readByte z).2

/-- after the scanning loop of `Next`: pending text, or the ErrorToken -/
def finishText (z : Z) : Nat × Z :=
  if z.rawStart < z.rawEnd then (1, { z with dataEnd := z.rawEnd }) else (0, z)

/-- `case EndTagToken:` of `Next` (the `</` has been consumed) -/
def endTagOpen (z : Z) : Nat × Z :=
  let (c, z) := readByte z
  if z.err ≠ .none then finishText z else
  if c == 62 then (5, z) else
  if isLetter c then
    let z := readTag false z
    if z.err ≠ .none then (0, z) else (3, z)
  else (5, readUntilCloseAngle (unread z))

/-- `StartTagToken` (2) / `EndTagToken` (3) / `CommentToken` (5) / 0 = the `<` is text -/
def tokenKind (c : Nat) : Nat :=
  if isLetter c then 2 else if c == 47 then 3 else if c == 33 ∨ c == 63 then 5 else 0

/-- the part of `Next` after a token opener `<c` was recognised -/
def dispatch (kind c : Nat) (z : Z) : Nat × Z :=
  if z.rawStart < z.rawEnd - 2 then (1, { z with rawEnd := z.rawEnd - 2, dataEnd := z.rawEnd - 2 }) else
  if kind = 2 then readStartTag z
  else if kind = 3 then endTagOpen z
  else if c == 33 then readMarkupDeclaration z
  else (5, readUntilCloseAngle (unread z))

def mainLoop : Nat → Z → Nat × Z
  | 0, z => (0, outOfFuel z)
  | f + 1, z =>
    let (c, z) := readByte z
    if z.err ≠ .none then finishText z else
    if c ≠ 60 then mainLoop f z else
    let (c, z) := readByte z
    if z.err ≠ .none then finishText z else
    if tokenKind c = 0 then mainLoop f (unread z) else dispatch (tokenKind c) c z

/-- the first three assignments of `Next` -/
def startToken (z : Z) : Z := { z with rawStart := z.rawEnd, dataStart := z.rawEnd, dataEnd := z.rawEnd }

/-- the `if z.rawTag != ""` block of `Next` (plaintext: read to the end; else readRawOrRCDATA) -/
def rawTextAttempt (z : Z) : Z :=
  if z.rawTag = plaintextTag then
    let z := plaintextLoop (z.inp.size + 2) z
    { z with dataEnd := z.rawEnd }
  else readRawOrRCDATA z

/-- `Tokenizer.Next`: returns the token type. -/
def next (z : Z) : Nat × Z :=
  let z := startToken z
  if z.err ≠ .none then (0, z) else
  if z.rawTag ≠ [] then
    let z := rawTextAttempt z
    if z.dataEnd > z.dataStart then (1, z) else mainLoop (z.inp.size + 2) z
  else mainLoop (z.inp.size + 2) z

/-- `NewTokenizerFragment(r, contextTag)` + `SetMaxBuf` + `AllowCDATA`. -/
def newTokenizer (inp : List Nat) (ctx : List Nat) (maxBuf : Nat) (cdata : Bool) (finalErr : Err) : Z :=
  let s := ctx.map lowerByte
  let rawTag : List Nat :=
    if s = [116, 105, 116, 108, 101] ∨ s = [116, 101, 120, 116, 97, 114, 101, 97] then s
    else if s = [115, 116, 121, 108, 101] ∨ s = [120, 109, 112] ∨ s = [105, 102, 114, 97, 109, 101] ∨
            s = [110, 111, 101, 109, 98, 101, 100] ∨ s = [110, 111, 102, 114, 97, 109, 101, 115] ∨
            s = scriptTag ∨ s = [110, 111, 115, 99, 114, 105, 112, 116] ∨ s = plaintextTag then plaintextTag
    else []
  { inp := inp.toArray, finalErr := finalErr, maxBuf := maxBuf, allowCDATA := cdata, rawTag := rawTag }

/-- One observed token: type, raw span. -/
structure TokSpan where
  ty : Nat
  start : Nat
  stop : Nat
deriving Repr, DecidableEq

/-- Call `Next` until the ErrorToken. Result: the tokens and the final state
(whose raw span is the ErrorToken's `Raw()`). -/
def runLoop : Nat → Z → List TokSpan → List TokSpan × Z
  | 0, z, acc => (acc.reverse, outOfFuel z)
  | f + 1, z, acc =>
    let (ty, z) := next z
    if ty = 0 then (acc.reverse, z) else runLoop f z ({ ty := ty, start := z.rawStart, stop := z.rawEnd } :: acc)

def tokenizeAll (z : Z) : List TokSpan × Z := runLoop (z.inp.size + 2) z []

end NetVerif.Model.HtmlTokExact
