/-
C41 — model of html/node.go: the link fields of `Node`
(`Parent, FirstChild, LastChild, PrevSibling, NextSibling`) and the three
mutators `InsertBefore`, `AppendChild`, `RemoveChild`, statement by statement,
including their panics and including what happens when arguments alias.

Nodes are `Nat` ids, `nil` is `none`.  The store is a record of five functions
(one per field), so a Go assignment `x.F = v` is `upd s.F x v`.  Every read in
the Go code is a read from the current store, in the Go statement order.
-/
namespace NetVerif.Model.HtmlNode

abbrev Ptr := Option Nat

/-- `f[i := v]` -/
def upd (f : Nat → Ptr) (i : Nat) (v : Ptr) : Nat → Ptr := fun j => if j = i then v else f j

structure Store where
  parent : Nat → Ptr
  first : Nat → Ptr
  last : Nat → Ptr
  prev : Nat → Ptr
  next : Nat → Ptr

def Store.empty : Store :=
  { parent := fun _ => none, first := fun _ => none, last := fun _ => none,
    prev := fun _ => none, next := fun _ => none }

/-- `n.InsertBefore(newChild, oldChild)`; `none` = the Go panic
"html: InsertBefore called for an attached child Node".
Each Go statement touches one field, so the result is given field by field;
every read is from the state the Go statement sees. -/
def insertBefore (s : Store) (n c : Nat) (old : Ptr) : Option Store :=
  if s.parent c ≠ none ∨ s.prev c ≠ none ∨ s.next c ≠ none then none else
  -- var prev, next *Node; if oldChild != nil { prev, next = oldChild.PrevSibling, oldChild } else { prev = n.LastChild }
  let prev : Ptr := match old with | some o => s.prev o | none => s.last n
  -- if prev != nil { prev.NextSibling = newChild } else { n.FirstChild = newChild }
  let next1 := match prev with | some p => upd s.next p (some c) | none => s.next
  let first1 := match prev with | some _ => s.first | none => upd s.first n (some c)
  -- if next != nil { next.PrevSibling = newChild } else { n.LastChild = newChild }
  let prev2 := match old with | some x => upd s.prev x (some c) | none => s.prev
  let last2 := match old with | some _ => s.last | none => upd s.last n (some c)
  -- newChild.Parent = n; newChild.PrevSibling = prev; newChild.NextSibling = next
  some { parent := upd s.parent c (some n), first := first1, last := last2,
         prev := upd prev2 c prev, next := upd next1 c old }

/-- `n.AppendChild(c)`; `none` = the Go panic
"html: AppendChild called for an attached child Node". -/
def appendChild (s : Store) (n c : Nat) : Option Store :=
  if s.parent c ≠ none ∨ s.prev c ≠ none ∨ s.next c ≠ none then none else
  -- last := n.LastChild; if last != nil { last.NextSibling = c } else { n.FirstChild = c }
  let last : Ptr := s.last n
  let next1 := match last with | some l => upd s.next l (some c) | none => s.next
  let first1 := match last with | some _ => s.first | none => upd s.first n (some c)
  -- n.LastChild = c; c.Parent = n; c.PrevSibling = last
  some { parent := upd s.parent c (some n), first := first1, last := upd s.last n (some c),
         prev := upd s.prev c last, next := next1 }

/-- `n.RemoveChild(c)`; `none` = the Go panic
"html: RemoveChild called for a non-child Node". -/
def removeChild (s : Store) (n c : Nat) : Option Store :=
  if s.parent c ≠ some n then none else
  -- if n.FirstChild == c { n.FirstChild = c.NextSibling }
  let first1 := if s.first n = some c then upd s.first n (s.next c) else s.first
  -- if c.NextSibling != nil { c.NextSibling.PrevSibling = c.PrevSibling }
  let prev2 := match s.next c with | some x => upd s.prev x (s.prev c) | none => s.prev
  -- if n.LastChild == c { n.LastChild = c.PrevSibling }        (reads the PrevSibling field as updated above)
  let last3 := if s.last n = some c then upd s.last n (prev2 c) else s.last
  -- if c.PrevSibling != nil { c.PrevSibling.NextSibling = c.NextSibling }
  let next4 := match prev2 c with | some p => upd s.next p (s.next c) | none => s.next
  -- c.Parent = nil; c.PrevSibling = nil; c.NextSibling = nil
  some { parent := upd s.parent c none, first := first1, last := last3,
         prev := upd prev2 c none, next := upd next4 c none }

/-! ## Well-formedness -/

/-- Link consistency at one node (decidable). -/
def localOK (s : Store) (x : Nat) : Bool :=
  (match s.first x with
   | some c => s.parent c == some x && s.prev c == none && s.last x != none
   | none => s.last x == none) &&
  (match s.last x with
   | some c => s.parent c == some x && s.next c == none
   | none => true) &&
  (match s.next x with
   | some d => s.prev d == some x && s.parent d == s.parent x && s.parent x != none
   | none => match s.parent x with
     | some p => s.last p == some x
     | none => true) &&
  (match s.prev x with
   | some d => s.next d == some x && s.parent d == s.parent x && s.parent x != none
   | none => match s.parent x with
     | some p => s.first p == some x
     | none => true)

/-- Follow `f` for `k` steps. -/
def iter (f : Nat → Ptr) : Nat → Nat → Ptr
  | 0, x => some x
  | k + 1, x => match f x with
    | none => none
    | some y => iter f k y

/-- The `f`-chain from `x` ends (reaches nil) within `fuel` steps. -/
def chainEnds (f : Nat → Ptr) : Nat → Nat → Bool
  | 0, _ => false
  | k + 1, x => match f x with
    | none => true
    | some y => chainEnds f k y

/-- Raw per-node record as serialised by the harness: node type and five links. -/
structure Rec where
  ty : Nat
  parent : Ptr
  first : Ptr
  last : Ptr
  prev : Ptr
  next : Ptr
deriving Repr, Inhabited

def Rec.nil : Rec := { ty := 0, parent := none, first := none, last := none, prev := none, next := none }

/-- Store described by a list of records (node id = index). Ids beyond the list are
unlinked. -/
def ofList (l : List Rec) : Store :=
  let a := l.toArray   -- O(1) lookups in the compiled monitor
  { parent := fun i => (a.getD i Rec.nil).parent,
    first := fun i => (a.getD i Rec.nil).first,
    last := fun i => (a.getD i Rec.nil).last,
    prev := fun i => (a.getD i Rec.nil).prev,
    next := fun i => (a.getD i Rec.nil).next }

/-- Node types the parser may return (node.go): Text=1, Document=2, Element=3,
Comment=4, Doctype=5. Never ErrorNode(0), RawNode(6), scopeMarkerNode(7). -/
def validType (t : Nat) : Bool := 1 ≤ t && t ≤ 5

/-- Only Document and Element nodes have children; a Document has no parent. -/
def shapeOK (r : Rec) : Bool :=
  validType r.ty &&
  (if r.ty == 2 || r.ty == 3 then true else r.first == none && r.last == none) &&
  (if r.ty == 2 then r.parent == none else true)

/-- The decision procedure run on every returned tree. -/
def wfTree (l : List Rec) : Bool :=
  let s := ofList l
  let n := l.length
  (List.range n).all (fun x => localOK s x) &&
  (List.range n).all (fun x => chainEnds s.parent n x) &&
  (List.range n).all (fun x => chainEnds s.next n x) &&
  (List.range n).all (fun x => chainEnds s.prev n x) &&
  l.all shapeOK

/-- Why a tree is rejected (for the monitor's verdict line). -/
def wfTreeWhy (l : List Rec) : String :=
  let s := ofList l
  let n := l.length
  match (List.range n).find? (fun x => !localOK s x) with
  | some x => s!"links-inconsistent-at-node-{x}"
  | none =>
  match (List.range n).find? (fun x => !chainEnds s.parent n x) with
  | some x => s!"parent-cycle-through-node-{x}"
  | none =>
  match (List.range n).find? (fun x => !(chainEnds s.next n x && chainEnds s.prev n x)) with
  | some x => s!"sibling-cycle-through-node-{x}"
  | none =>
  match (List.range n).find? (fun x => !shapeOK (l.getD x Rec.nil)) with
  | some x => s!"bad-node-type-or-shape-at-node-{x}"
  | none => "ok"

end NetVerif.Model.HtmlNode
