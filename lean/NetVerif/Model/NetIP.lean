/-
Byte-level model of the parts of Go's `net.IP` / `net.IPNet` / `net.CIDRMask` that the proxy
selection code (http/httpproxy, proxy.PerHost) calls on ALREADY PARSED addresses:
`IP.To4`, `IP.Equal`, `IP.IsLoopback`, `CIDRMask`, `IPNet.Contains` (with
`networkNumberAndMask`).  An IP is a `List Nat` of 4 or 16 bytes (each < 256), exactly like
Go's `net.IP` byte slice; a nil slice is `[]`.  Parsing of textual addresses is NOT modelled
(the harness passes the parsed bytes).
Also small byte-string helpers shared by the C52/C53 models (ASCII lower-casing, TrimSpace on
ASCII white space, comma split, suffix test).
-/
namespace NetVerif.Model.NetIP

/-- `v4InV6Prefix` of package net. -/
def v4InV6Prefix : List Nat := [0, 0, 0, 0, 0, 0, 0, 0, 0, 0, 255, 255]

/-- `IP.To4`: `none` models the nil result. -/
def to4 (ip : List Nat) : Option (List Nat) :=
  if ip.length = 4 then some ip
  else if ip.length = 16 ∧ ip.take 12 = v4InV6Prefix then some (ip.drop 12)
  else none

/-- `IP.Equal`. -/
def ipEqual (ip x : List Nat) : Bool :=
  if ip.length = x.length then ip == x
  else if ip.length = 4 ∧ x.length = 16 then x.take 12 == v4InV6Prefix && ip == x.drop 12
  else if ip.length = 16 ∧ x.length = 4 then ip.take 12 == v4InV6Prefix && ip.drop 12 == x
  else false

/-- `net.IPv6loopback`. -/
def ipv6Loopback : List Nat := [0, 0, 0, 0, 0, 0, 0, 0, 0, 0, 0, 0, 0, 0, 0, 1]

/-- `IP.IsLoopback`. -/
def isLoopback (ip : List Nat) : Bool :=
  match to4 ip with
  | some ip4 => ip4.head? == some 127
  | none => ipEqual ip ipv6Loopback

/-- `CIDRMask(ones, 8*l)`: the loop of net.CIDRMask (`^byte(0xff >> n)` is `255 - 255 / 2^n`). -/
def maskBytes : Nat → Nat → List Nat
  | 0, _ => []
  | l + 1, n =>
    if n ≥ 8 then 255 :: maskBytes l (n - 8)
    else (255 - 255 / 2 ^ n) :: maskBytes l 0

/-- `nn[i]&m[i] == ip[i]&m[i]` for all i (the three slices have equal length at the call). -/
def maskedEq : List Nat → List Nat → List Nat → Bool
  | n :: ns, m :: ms, i :: is => (n &&& m) == (i &&& m) && maskedEq ns ms is
  | _, _, _ => true

/-- `networkNumberAndMask`: `([], [])` models `(nil, nil)`. The mask is given as bytes. -/
def networkNumberAndMask (nip mask : List Nat) : List Nat × List Nat :=
  let ip? : Option (List Nat) :=
    match to4 nip with
    | some x => some x
    | none => if nip.length = 16 then some nip else none
  match ip? with
  | none => ([], [])
  | some ip =>
    if mask.length = 4 then
      if ip.length ≠ 4 then ([], []) else (ip, mask)
    else if mask.length = 16 then
      if ip.length = 4 then (ip, mask.drop 12) else (ip, mask)
    else ([], [])

/-- `(&IPNet{IP: nip, Mask: CIDRMask(ones, bits)}).Contains(ip)`. -/
def contains (nip : List Nat) (ones bits : Nat) (ip : List Nat) : Bool :=
  let (nn, m) := networkNumberAndMask nip (maskBytes (bits / 8) ones)
  let ip' := match to4 ip with | some x => x | none => ip
  if ip'.length ≠ nn.length then false else maskedEq nn m ip'

/-! ### byte-string helpers -/

def lowerByte (c : Nat) : Nat := if 65 ≤ c ∧ c ≤ 90 then c + 32 else c

/-- `strings.ToLower` on ASCII bytes (bytes ≥ 128 are left alone: Unicode case mapping is not modelled). -/
def toLower (s : List Nat) : List Nat := s.map lowerByte

/-- ASCII white space of `strings.TrimSpace`: `\t \n \v \f \r` and space. -/
def isSpace (c : Nat) : Bool := (9 ≤ c && c ≤ 13) || c == 32

def trimLeft (s : List Nat) : List Nat := s.dropWhile isSpace
def trimRight (s : List Nat) : List Nat := (s.reverse.dropWhile isSpace).reverse

/-- `strings.TrimSpace` (ASCII white space only; U+0085, U+00A0, … are not modelled). -/
def trimSpace (s : List Nat) : List Nat := trimRight (trimLeft s)

/-- `strings.Split(s, ",")`. -/
def splitComma : List Nat → List (List Nat)
  | [] => [[]]
  | c :: cs =>
    if c = 44 then [] :: splitComma cs
    else match splitComma cs with
      | [] => [[c]]
      | h :: t => (c :: h) :: t

/-- `strings.HasSuffix(s, suf)`. -/
def hasSuffix (s suf : List Nat) : Bool := suf.isSuffixOf s

/-- `strings.HasPrefix(s, pre)`. -/
def hasPrefix (s pre : List Nat) : Bool := pre.isPrefixOf s

/-- `strings.TrimSuffix(s, ".")`. -/
def trimSuffixDot (s : List Nat) : List Nat :=
  if hasSuffix s [46] then s.take (s.length - 1) else s

def isASCII (s : List Nat) : Bool := s.all (· < 128)

end NetVerif.Model.NetIP
