/-
Wire/API trace monitor for two QUIC endpoints talking over a faulty network
(tie "net" of C19 / C20 / C32).  The Go harness records, in real (single-threaded,
synthetic-clock) order, what each endpoint's qlog hook saw being sent (`tx`) and
received (`rx`), and what the two applications did (`write`, `read`, `eof`, ...).

The monitor's state is the history itself; every event is checked by a predicate
`okEv prop hist e` that is written directly in terms of folds over the history
(largest limit received so far, highest offset sent so far, bytes written so far...).
`prop` selects the property whose clauses are enforced (19, 20 or 32).
Sides: 0 = client, 1 = server; `peer s = 1 - s`.
-/
import NetVerif.Model.Rangeset

namespace NetVerif.Model.QuicMonitor
open NetVerif.Model

inductive Ev where
  | init (s : Nat) (connRead streamRead : Int)      -- limits endpoint s grants in its transport parameters
  | txStream (s : Nat) (id off len : Int) (fin : Bool)
  | txMaxData (s : Nat) (v : Int)
  | txMaxSD (s : Nat) (id v : Int)
  | txReset (s : Nat) (id final : Int)
  | txClose (s : Nat) (code : Int)
  | rxStream (s : Nat) (id off len : Int) (fin : Bool)
  | rxMaxData (s : Nat) (v : Int)
  | rxMaxSD (s : Nat) (id v : Int)
  | rxReset (s : Nat) (id final : Int)
  | write (s : Nat) (id : Int) (b : List Nat)       -- bytes accepted by Write on s
  | wclose (s : Nat) (id : Int)                     -- CloseWrite / Close called on s
  | closeread (s : Nat) (id : Int)
  | read (s : Nat) (id : Int) (b : List Nat)        -- bytes returned by Read on s
  | eof (s : Nat) (id : Int)
  | readerr (s : Nat) (id : Int)
  | closeok (s : Nat) (id : Int)                    -- Stream.Close returned nil on s
  | fin                                             -- the harness claims the network has quiesced
deriving Repr, DecidableEq

def peer (s : Nat) : Nat := 1 - s

def imax (a b : Int) : Int := if a ≥ b then a else b

/-! ### folds over a history (all of them insensitive to the order except `written`/`readLen`,
which concatenate in chronological order) -/

/-- connection limit that `s` was granted: the peer's transport parameter and every MAX_DATA `s` received. -/
def connLimit (h : List Ev) (s : Nat) : Int :=
  h.foldl (fun m e => match e with
    | .init s' c _ => if s' = peer s then imax m c else m
    | .rxMaxData s' v => if s' = s then imax m v else m
    | _ => m) 0

/-- stream limit that `s` was granted for stream `id`. -/
def streamLimit (h : List Ev) (s : Nat) (id : Int) : Int :=
  h.foldl (fun m e => match e with
    | .init s' _ w => if s' = peer s then imax m w else m
    | .rxMaxSD s' id' v => if s' = s ∧ id' = id then imax m v else m
    | _ => m) 0

/-- highest offset `s` has put into a STREAM frame of `id`. -/
def highSent (h : List Ev) (s : Nat) (id : Int) : Int :=
  h.foldl (fun m e => match e with
    | .txStream s' id' off len _ => if s' = s ∧ id' = id then imax m (off + len) else m
    | _ => m) 0

/-- stream ids on which `s` has sent STREAM frames (with repetitions removed). -/
def sentIds (h : List Ev) (s : Nat) : List Int :=
  h.foldl (fun l e => match e with
    | .txStream s' id _ _ _ => if s' = s ∧ !l.contains id then id :: l else l
    | _ => l) []

/-- Σ over streams of the highest offset sent by `s`. -/
def totalSent (h : List Ev) (s : Nat) : Int :=
  (sentIds h s).foldl (fun t id => t + highSent h s id) 0

/-- the connection limit `s` has advertised (its transport parameter and its MAX_DATA frames). -/
def advConn (h : List Ev) (s : Nat) : Int :=
  h.foldl (fun m e => match e with
    | .init s' c _ => if s' = s then imax m c else m
    | .txMaxData s' v => if s' = s then imax m v else m
    | _ => m) 0

def advStream (h : List Ev) (s : Nat) (id : Int) : Int :=
  h.foldl (fun m e => match e with
    | .init s' _ w => if s' = s then imax m w else m
    | .txMaxSD s' id' v => if s' = s ∧ id' = id then imax m v else m
    | _ => m) 0

def hasTxReset (h : List Ev) (s : Nat) (id : Int) : Bool :=
  h.any fun e => match e with | .txReset s' id' _ => s' = s ∧ id' = id | _ => false

def txResetFinals (h : List Ev) (s : Nat) (id : Int) : List Int :=
  h.filterMap fun e => match e with | .txReset s' id' f => if s' = s ∧ id' = id then some f else none | _ => none

def hasRxReset (h : List Ev) (s : Nat) (id : Int) : Bool :=
  h.any fun e => match e with | .rxReset s' id' _ => s' = s ∧ id' = id | _ => false

def wclosed (h : List Ev) (s : Nat) (id : Int) : Bool :=
  h.any fun e => match e with | .wclose s' id' => s' = s ∧ id' = id | _ => false

def didCloseRead (h : List Ev) (s : Nat) (id : Int) : Bool :=
  h.any fun e => match e with | .closeread s' id' => s' = s ∧ id' = id | _ => false

def eofSeen (h : List Ev) (s : Nat) (id : Int) : Bool :=
  h.any fun e => match e with | .eof s' id' => s' = s ∧ id' = id | _ => false

/-- the byte sequence W written so far by `s` on `id`, in order. -/
def written (h : List Ev) (s : Nat) (id : Int) : List Nat :=
  h.foldr (fun e acc => match e with
    | .write s' id' b => if s' = s ∧ id' = id then b ++ acc else acc
    | _ => acc) []

/-- the bytes returned so far by reads of `s` on `id`, in order. -/
def readBytes (h : List Ev) (s : Nat) (id : Int) : List Nat :=
  h.foldr (fun e acc => match e with
    | .read s' id' b => if s' = s ∧ id' = id then b ++ acc else acc
    | _ => acc) []

/-- the set of offsets of `id` that `s` has received in STREAM frames. -/
def rxSet (h : List Ev) (s : Nat) (id : Int) : Rangeset.RS :=
  h.foldl (fun r e => match e with
    | .rxStream s' id' off len _ => if s' = s ∧ id' = id then Rangeset.add r off (off + len) else r
    | _ => r) []

def rxFin (h : List Ev) (s : Nat) (id : Int) : Bool :=
  h.any fun e => match e with | .rxStream s' id' _ _ f => s' = s ∧ id' = id ∧ f | _ => false

/-- streams on which `s` called CloseWrite/Close. -/
def closedIds (h : List Ev) (s : Nat) : List Int :=
  h.filterMap fun e => match e with | .wclose s' id => if s' = s then some id else none | _ => none

/-- What must hold when the network has quiesced: every cleanly closed stream that was neither
reset nor read-closed has been delivered completely, followed by EOF. -/
def deliveredAll (h : List Ev) (s : Nat) : Bool :=
  (closedIds h s).all fun id =>
    hasTxReset h s id || didCloseRead h (peer s) id ||
      (readBytes h (peer s) id == written h s id && eofSeen h (peer s) id)

/-- the clause checked for event `e` after history `h`. -/
def okEv (prop : Nat) (h : List Ev) (e : Ev) : Bool :=
  match e with
  | .txStream s id off len fin =>
    decide (0 ≤ off ∧ 0 ≤ len) &&
    (if prop = 20 then
       decide (off + len ≤ streamLimit h s id) && decide (totalSent (h ++ [e]) s ≤ connLimit h s)
     else if prop = 32 then !hasTxReset h s id
     else if prop = 19 then
       decide (off + len ≤ (written h s id).length) &&
         (!fin || (wclosed h s id && decide (off + len = (written h s id).length)))
     else true)
  | .txMaxData s v => if prop = 20 then decide (v ≥ advConn h s) else true
  | .txMaxSD s id v => if prop = 20 then decide (v ≥ advStream h s id) else true
  | .txReset s id final =>
    if prop = 32 then decide (final = highSent h s id) && (txResetFinals h s id).all (· == final) else true
  | .read s id b =>
    if prop = 19 then
      ((written h (peer s) id).drop (readBytes h s id).length).take b.length == b
    else true
  | .eof s id =>
    if prop = 19 then wclosed h (peer s) id && decide ((readBytes h s id).length = (written h (peer s) id).length)
    else if prop = 32 then !hasRxReset h s id
    else true
  | .closeok s id =>
    if prop = 19 then
      wclosed h s id && rxFin h (peer s) id &&
        (decide ((written h s id).length = 0) || Rangeset.isrange (rxSet h (peer s) id) 0 (written h s id).length)
    else true
  | .fin => if prop = 19 then deliveredAll h 0 && deliveredAll h 1 else true
  | _ => true

/-- run the monitor: `none` = rejected (with the index of the offending event). -/
def run (prop : Nat) : List Ev → List Ev → Option (List Ev)
  | h, [] => some h
  | h, e :: rest => if okEv prop h e then run prop (h ++ [e]) rest else none

def accepts (prop : Nat) (tr : List Ev) : Bool := (run prop [] tr).isSome

end NetVerif.Model.QuicMonitor
