import NetVerif.Model.Qpack
import NetVerif.Model.QpackHuffTable
/-
Executable Huffman codec over the extracted HPACK code table, used to
instantiate the `Huff` parameter of the QPACK model in the C33 driver
(bit-level reading of hpack.HuffmanEncodeLength / AppendHuffmanString /
huffmanDecode: greedy prefix decoding; the final partial symbol must be at most
7 bits long and consist of 1-bits only).  No theorem depends on this file.
-/
namespace NetVerif.Model.QpackHuff
open NetVerif.Model.QpackHuffTable

def codeOf (sym : Nat) : Nat × Nat := (huffmanCodes.getD sym 0, huffmanCodeLen.getD sym 0)

/-- `len` bits of `code`, most significant first. -/
def bitsOfCode (code len : Nat) : List Bool :=
  (List.range len).map fun i => code / 2 ^ (len - 1 - i) % 2 = 1

def encBits (s : List Nat) : List Bool :=
  s.flatMap fun b => bitsOfCode (codeOf b).1 (codeOf b).2

def encLen (s : List Nat) : Nat := (s.foldl (fun a b => a + (codeOf b).2) 0 + 7) / 8

/-- Pack bits into bytes, padding the last byte with 1-bits. -/
def packBits : Nat → List Bool → List Nat
  | 0, _ => []
  | fuel + 1, bits =>
    if bits.isEmpty then [] else
    let chunk := bits.take 8
    let padded := chunk ++ List.replicate (8 - chunk.length) true
    padded.foldl (fun a b => 2 * a + (if b then 1 else 0)) 0 :: packBits fuel (bits.drop 8)

def enc (s : List Nat) : List Nat := let bits := encBits s; packBits (bits.length + 1) bits

/-- For each code length 0..30 the (code, symbol) pairs of that length. -/
def byLen : Array (List (Nat × Nat)) :=
  (Array.range 31).map fun l =>
    ((List.range 256).filter fun sym => (codeOf sym).2 = l).map fun sym => ((codeOf sym).1, sym)

def lookupCode (l v : Nat) : Option Nat :=
  match (byLen.getD l []).find? (fun p => p.1 = v) with
  | some p => some p.2
  | none => none

/-- Greedily match one symbol at the head of `bits`. -/
def matchSym : Nat → List Bool → Nat → Nat → Option (Nat × List Bool)
  | 0, _, _, _ => none
  | _ + 1, [], _, _ => none
  | f + 1, b :: rest, l, v =>
    let v' := 2 * v + (if b then 1 else 0)
    match lookupCode (l + 1) v' with
    | some sym => some (sym, rest)
    | none => matchSym f rest (l + 1) v'

def decBits : Nat → List Bool → List Nat → Option (List Nat)
  | 0, _, _ => none
  | fuel + 1, bits, acc =>
    match matchSym 30 bits 0 0 with
    | some (sym, rest) => decBits fuel rest (acc ++ [sym])
    | none => if bits.length ≤ 7 ∧ bits.all id then some acc else none

def bitsOfBytes (bs : List Nat) : List Bool := bs.flatMap fun b => bitsOfCode b 8

def dec (bs : List Nat) : Option (List Nat) :=
  let bits := bitsOfBytes bs
  decBits (bits.length + 1) bits []

def huff : NetVerif.Model.Qpack.Huff := { encLen := encLen, enc := enc, dec := dec }

end NetVerif.Model.QpackHuff
