import NetVerif.Model.ChanSem
/-!
# LimitListener (C58) on the ChanSem semantics

`netutil/listen.go`: a semaphore channel `sem` of capacity `n`, a `done` channel that is
only ever closed, two `sync.Once` (modelled as fresh / running / done — a concurrent `Do`
blocks until the running one finishes, as the sync package specifies).
Core Lean only.
-/
namespace NetVerif.Model.LimitListener
open NetVerif.Model.ChanSem

inductive LCh where
  | sem
  | done
deriving DecidableEq, Repr

inductive LRes where
  | tt
  | ff
deriving DecidableEq, Repr

/-- Statements of `Accept`, `Close`, `limitListenerConn.Close` (flat; each constructor is one
exact source shape that the extractor recognises). -/
inductive LStmt where
  | ifNotAcquireDrain   -- `if !l.acquire() { for { c, err := l.Listener.Accept(); if err != nil { return nil, err }; c.Close() } }`
  | innerAccept         -- `c, err := l.Listener.Accept()`
  | ifErrReleaseRet     -- `if err != nil { l.release(); return nil, err }`
  | retConn             -- `return &limitListenerConn{Conn: c, release: l.release}, nil`
  | innerClose          -- `err := l.Listener.Close()` / `err := l.Conn.Close()`
  | onceCloseDone       -- `l.closeOnce.Do(func() { close(l.done) })`
  | onceRelease         -- `l.releaseOnce.Do(l.release)`
  | retErr              -- `return err`
deriving DecidableEq, Repr

/-- What the extractor reads from `listen.go`. -/
structure ListenSrc where
  /-- `sem: make(chan struct{}, n)` with `n` the parameter of `LimitListener` -/
  semCapIsParam : Bool
  /-- capacity of `done` (`make(chan struct{})` = 0) -/
  doneCap : Nat
  acquire : Method LCh LRes
  release : Method LCh LRes
  accept : List LStmt
  close : List LStmt
  connClose : List LStmt
deriving DecidableEq, Repr

/-- `netutil/listen.go` as a DSL term. -/
def listen : ListenSrc where
  semCapIsParam := true
  doneCap := 0
  acquire := [⟨none, [(.recv .done, .ret .ff), (.send .sem, .ret .tt)], none⟩]
  release := [⟨none, [(.recv .sem, .fall)], none⟩]
  accept := [.ifNotAcquireDrain, .innerAccept, .ifErrReleaseRet, .retConn]
  close := [.innerClose, .onceCloseDone, .retErr]
  connClose := [.innerClose, .onceRelease, .retErr]

end NetVerif.Model.LimitListener
