import NetVerif.Model.ChanSem
/-!
# LimitListener (C58) on the ChanSem semantics

`netutil/listen.go`: a semaphore channel `sem` of capacity `n`, a `done` channel that is
only ever closed, two `sync.Once` (modelled as fresh / running / done — a concurrent `Do`
blocks until the running one finishes, as the sync package specifies).
Core Lean only.
-/
namespace NetVerif.Model.LimitListener
open NetVerif.Model.ChanSem

inductive LCh where
  | sem
  | done
deriving DecidableEq, Repr

inductive LRes where
  | tt
  | ff
deriving DecidableEq, Repr

/-- Statements of `Accept`, `Close`, `limitListenerConn.Close` (flat; each constructor is one
exact source shape that the extractor recognises). -/
inductive LStmt where
  | ifNotAcquireDrain   -- `if !l.acquire() { for { c, err := l.Listener.Accept(); if err != nil { return nil, err }; c.Close() } }`
  | innerAccept         -- `c, err := l.Listener.Accept()`
  | ifErrReleaseRet     -- `if err != nil { l.release(); return nil, err }`
  | retConn             -- `return &limitListenerConn{Conn: c, release: l.release}, nil`
  | innerClose          -- `err := l.Listener.Close()` / `err := l.Conn.Close()`
  | onceCloseDone       -- `l.closeOnce.Do(func() { close(l.done) })`
  | onceRelease         -- `l.releaseOnce.Do(l.release)`
  | retErr              -- `return err`
deriving DecidableEq, Repr

/-- What the extractor reads from `listen.go`. -/
structure ListenSrc where
  /-- `sem: make(chan struct{}, n)` with `n` the parameter of `LimitListener` -/
  semCapIsParam : Bool
  /-- capacity of `done` (`make(chan struct{})` = 0) -/
  doneCap : Nat
  acquire : Method LCh LRes
  release : Method LCh LRes
  accept : List LStmt
  close : List LStmt
  connClose : List LStmt
deriving DecidableEq, Repr

/-- `netutil/listen.go` as a DSL term. -/
def listen : ListenSrc where
  semCapIsParam := true
  doneCap := 0
  acquire := [⟨none, [(.recv .done, .ret .ff), (.send .sem, .ret .tt)], none⟩]
  release := [⟨none, [(.recv .sem, .fall)], none⟩]
  accept := [.ifNotAcquireDrain, .innerAccept, .ifErrReleaseRet, .retConn]
  close := [.innerClose, .onceCloseDone, .retErr]
  connClose := [.innerClose, .onceRelease, .retErr]

/-! ## Semantics

Every statement is one atomic step: `acquire` and `release` are a single select / receive
each (executed with the generic `Sel.step`), `sync.Once.Do(f)` with a one-operation `f` is
atomic with respect to other `Do` calls (the guarantee of the sync package).  The wrapped
listener is the environment: its `Accept` nondeterministically fails or hands out a fresh
connection; after its `Close` it only fails (assumption on the wrapped listener). -/

structure LConn where
  /-- handed to the caller by `Accept` (an accepted connection) -/
  returned : Bool := false
  /-- `limitListenerConn.Close` reached `l.Conn.Close()` at least once -/
  closeCalled : Bool := false
  /-- `releaseOnce` has fired -/
  released : Bool := false
  /-- ghost: how many semaphore releases were performed for this connection -/
  releases : Nat := 0
deriving DecidableEq, Repr

inductive LMeth where
  | accept
  | close
  | connClose (k : Nat)
deriving DecidableEq, Repr

inductive LResult where
  | err
  | conn (k : Nat)
  | closed           -- result of Close / Conn.Close
deriving DecidableEq, Repr

structure LG where
  cont : List LStmt := []
  meth : LMeth := .close
  /-- inside the `for` loop entered when `acquire` returned false -/
  draining : Bool := false
  /-- the last call of the wrapped listener returned an error -/
  err : Bool := false
  /-- a connection was just accepted from the wrapped listener (`c`) -/
  conn : Bool := false
  /-- ghost: owns a semaphore token that is not yet attached to a returned connection -/
  slot : Bool := false
  /-- ghost: this call was invoked after some `Close()` had returned -/
  afterClose : Bool := false
  result : Option LResult := none
deriving DecidableEq, Repr

structure LConfig where
  n : Nat
  σ : Store LCh
  closeOnceDone : Bool
  innerClosed : Bool
  conns : List LConn
  /-- ghost: some `Close()` call has returned -/
  closeReturned : Bool
  gs : List LG

inductive LAct where
  | call (m : LMeth)
  /-- execute the head statement; `choice` picks the select arm / the environment's answer
  (0 = the wrapped listener fails, 1 = it hands out a connection) -/
  | stmt (choice : Nat)
deriving DecidableEq, Repr

def ListenSrc.body (S : ListenSrc) : LMeth → List LStmt
  | .accept => S.accept
  | .close => S.close
  | .connClose _ => S.connClose

/-- A method that is a single select / channel operation, run atomically. -/
def runSingle (m : Method LCh LRes) (σ : Store LCh) (p : Pick) :
    Option (Store LCh × Option (Arm LCh) × Out LRes) :=
  match m with
  | [s] => s.step σ false p
  | _ => none

def finish (g : LG) (r : LResult) : LG :=
  { g with cont := [], draining := false, result := some r }

/-- One step of goroutine `g` (index irrelevant) in configuration `c`. -/
def LG.step (S : ListenSrc) (c : LConfig) (g : LG) : LAct → Option (LConfig × LG)
  | .call m =>
    if g.cont.isEmpty then
      match m with
      | .connClose k =>
        -- a client can only close a connection that Accept has returned
        match c.conns[k]? with
        | some cn => if cn.returned then
            some (c, { g with cont := S.body m, meth := m, draining := false, err := false,
                              conn := false, afterClose := c.closeReturned, result := none })
          else none
        | none => none
      | _ => some (c, { g with cont := S.body m, meth := m, draining := false, err := false,
                               conn := false, afterClose := c.closeReturned, result := none })
    else none
  | .stmt ch =>
    match g.cont with
    | [] => none
    | .ifNotAcquireDrain :: rest =>
      if g.draining then
        -- for { c, err := l.Listener.Accept(); if err != nil { return nil, err }; c.Close() }
        if ch = 0 then some (c, finish g .err)
        else if c.innerClosed then none      -- a closed wrapped listener only fails
        else some (c, g)                     -- spurious connection: closed at once, loop
      else
        match runSingle S.acquire c.σ (.arm ch) with
        | some (σ', _, .ret .tt) => some ({ c with σ := σ' }, { g with cont := rest, slot := true })
        | some (σ', _, .ret .ff) => some ({ c with σ := σ' }, { g with draining := true })
        | _ => none
    | .innerAccept :: rest =>
      if ch = 0 then some (c, { g with cont := rest, err := true, conn := false })
      else if c.innerClosed then none
      else some (c, { g with cont := rest, err := false, conn := true })
    | .ifErrReleaseRet :: rest =>
      if g.err then
        match runSingle S.release c.σ (.arm 0) with
        | some (σ', _, .fall) => some ({ c with σ := σ' }, finish { g with slot := false } .err)
        | _ => none
      else some (c, { g with cont := rest })
    | .retConn :: _ =>
      -- the new limitListenerConn gets the next index; it carries the semaphore token
      if g.conn then
        some ({ c with conns := c.conns ++ [{ returned := true }] },
              finish { g with slot := false } (.conn c.conns.length))
      else none
    | .innerClose :: rest =>
      match g.meth with
      | .close => some ({ c with innerClosed := true }, { g with cont := rest })
      | .connClose k =>
        match c.conns[k]? with
        | some cn => some ({ c with conns := c.conns.set k { cn with closeCalled := true } },
                           { g with cont := rest })
        | none => none
      | .accept => none
    | .onceCloseDone :: rest =>
      if c.closeOnceDone then some (c, { g with cont := rest })
      else some ({ c with closeOnceDone := true,
                          σ := upd c.σ .done { c.σ .done with closed := true } },
                 { g with cont := rest })
    | .onceRelease :: rest =>
      match g.meth with
      | .connClose k =>
        match c.conns[k]? with
        | some cn =>
          if cn.released then some (c, { g with cont := rest })
          else
            match runSingle S.release c.σ (.arm 0) with
            | some (σ', _, .fall) =>
              some ({ c with σ := σ',
                             conns := c.conns.set k { cn with released := true, releases := cn.releases + 1 } },
                    { g with cont := rest })
            | _ => none
        | none => none
      | _ => none
    | .retErr :: _ =>
      match g.meth with
      | .close => some ({ c with closeReturned := true }, finish g .closed)
      | _ => some (c, finish g .closed)

def LConfig.step (S : ListenSrc) (c : LConfig) (i : Nat) (a : LAct) : Option LConfig :=
  match c.gs[i]? with
  | none => none
  | some g =>
    match g.step S c a with
    | none => none
    | some (c', g') => some { c' with gs := c.gs.set i g' }

/-- `LimitListener(l, n)` with `m` goroutines that may call Accept / Close / Conn.Close. -/
def LConfig.init (S : ListenSrc) (n m : Nat) : LConfig :=
  { n := n,
    σ := fun ch => match ch with
      | .sem => ⟨n, 0, false⟩
      | .done => ⟨S.doneCap, 0, false⟩,
    closeOnceDone := false, innerClosed := false, conns := [], closeReturned := false,
    gs := List.replicate m {} }

inductive LReachable (S : ListenSrc) : LConfig → Prop where
  | init (n m : Nat) : LReachable S (LConfig.init S n m)
  | step {c c' : LConfig} {i : Nat} {a : LAct} :
      LReachable S c → c.step S i a = some c' → LReachable S c'

def cnt {α : Type} (f : α → Bool) (l : List α) : Nat := (l.map (fun x => if f x then 1 else 0)).sum

/-- accepted connections that have not been closed -/
def openConns (c : LConfig) : Nat := cnt (fun cn => cn.returned && !cn.closeCalled) c.conns

end NetVerif.Model.LimitListener
