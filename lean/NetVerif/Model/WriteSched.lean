/-
Executable model of golang.org/x/net/http2 write scheduling (C12, C13):
`FrameWriteRequest.Consume`, `writeQueue` (two-stage queue), and the
round-robin, RFC 9218 and random write schedulers as exact state machines.
(The RFC 7540 priority tree lives in `Model/WriteSched7540.lean`.)

Modelling conventions
* A `FrameWriteRequest` is a `Frame`.  `data` carries the stream id, an identity
  tag of the pushed frame, the offset/length of the byte range `p` inside the
  pushed payload, `endStream`, and `last` (= `done != nil`: only the final piece
  of a split DATA frame keeps the caller's `done` channel).  `hdr` is any
  non-DATA frame with `stream != nil` (HEADERS, ...), `ctl` a frame with
  `stream == nil` that is no StreamError (SETTINGS, PING, ...), `rst` a
  `StreamError` write (RST_STREAM; `stream == nil`), `empty` the zero value
  `FrameWriteRequest{}`.
* Flow control (`stream.flow`, the shared conn-level `outflow`,
  `serverConn.maxFrameSize`) is the environment `Env`.
* In the three schedulers of this file every `*writeQueue` is owned by exactly
  one stream at a time and `writeQueuePool.put` clears it, so queues are values
  (`WQ`) stored per stream id (`qs`); the circular linked lists are lists of
  stream ids starting at the head pointer.
Core Lean only.
-/
namespace NetVerif.Model.WriteSched

inductive Frame where
  | data (sid tag off len : Nat) (fin last : Bool)
  | hdr (sid tag : Nat)
  | ctl (tag : Nat)
  | rst (sid tag : Nat)
  | empty
  deriving DecidableEq, Repr, Inhabited

/-- `wr.isControl()`, i.e. `wr.stream == nil`. -/
def Frame.isControl : Frame → Bool
  | .data .. => false
  | .hdr .. => false
  | _ => true

/-- `wr.StreamID()`. -/
def Frame.streamID : Frame → Nat
  | .data sid .. => sid
  | .hdr sid _ => sid
  | .rst sid _ => sid
  | _ => 0

/-- `wr.DataSize()`. -/
def Frame.dataSize : Frame → Nat
  | .data _ _ _ len _ _ => len
  | _ => 0

/-- Flow-control environment: per-stream send windows (`stream.flow.n`), the
connection window (`sc.flow.n`) and `sc.maxFrameSize`. -/
structure Env where
  maxFrame : Int
  connWin : Int
  win : Nat → Int

def maxInt32 : Int := 2147483647

/-- `outflow.available` of a stream. -/
def Env.avail (e : Env) (sid : Nat) : Int := min (e.win sid) e.connWin

/-- `outflow.take`. -/
def Env.take (e : Env) (sid : Nat) (n : Int) : Env :=
  { e with connWin := e.connWin - n, win := fun s => if s = sid then e.win s - n else e.win s }

/-- Result of `Consume`: 0, 1 or 2 frames. -/
inductive CR where
  | none
  | whole (f : Frame)
  | split (consumed rest : Frame)
  deriving DecidableEq, Repr

/-- `allowed` in `FrameWriteRequest.Consume`. -/
def Env.allowed (e : Env) (sid : Nat) (n : Int) : Int := min (min (e.avail sid) n) e.maxFrame

/-- `FrameWriteRequest.Consume(n)`. -/
def Frame.consume (e : Env) (n : Int) : Frame → Env × CR
  | .data sid tag off len fin last =>
    if len = 0 then (e, .whole (.data sid tag off len fin last)) else
    let a := e.allowed sid n
    if a ≤ 0 then (e, .none)
    else if (len : Int) > a then
      (e.take sid a, .split (.data sid tag off a.toNat false false)
                            (.data sid tag (off + a.toNat) (len - a.toNat) fin last))
    else (e.take sid len, .whole (.data sid tag off len fin last))
  | f => (e, .whole f)

/-- `writeQueue`: `curr` is `currQueue[currPos:]`, `next` is `nextQueue`. -/
structure WQ where
  curr : List Frame := []
  next : List Frame := []
  deriving DecidableEq, Repr

def WQ.toList (q : WQ) : List Frame := q.curr ++ q.next

def WQ.isEmpty (q : WQ) : Bool := q.curr.isEmpty && q.next.isEmpty

def WQ.push (q : WQ) (f : Frame) : WQ := { q with next := q.next ++ [f] }

/-- `shift`; `none` is the panic "invalid use of queue". -/
def WQ.shift (q : WQ) : Option (Frame × WQ) :=
  match q.curr with
  | f :: c => some (f, { q with curr := c })
  | [] =>
    match q.next with
    | f :: n => some (f, { curr := n, next := [] })
    | [] => none

def WQ.peek (q : WQ) : Option Frame :=
  match q.curr with
  | f :: _ => some f
  | [] => q.next.head?

/-- `*q.peek() = f`. -/
def WQ.setHead (q : WQ) (f : Frame) : WQ :=
  match q.curr with
  | _ :: c => { q with curr := f :: c }
  | [] =>
    match q.next with
    | _ :: n => { q with next := f :: n }
    | [] => q

/-- `writeQueue.consume(n)`. -/
def WQ.consume (e : Env) (q : WQ) (n : Int) : Env × WQ × Option Frame :=
  match q.peek with
  | none => (e, q, none)
  | some f =>
    match f.consume e n with
    | (_, .none) => (e, q, none)
    | (e', .whole g) =>
      match q.shift with
      | some (_, q') => (e', q', some g)
      | none => (e, q, none)
    | (e', .split c r) => (e', q.setHead r, some c)

/-- Would `q.consume(math.MaxInt32)` return ok? -/
def sendable (e : Env) (q : WQ) : Bool := (q.consume e maxInt32).2.2.isSome

def upd {α : Type} (f : Nat → α) (k : Nat) (v : α) : Nat → α := fun x => if x = k then v else f x

/-- First element satisfying `p`, with the elements before and after it. -/
def splitFirst (p : Nat → Bool) : List Nat → Option (List Nat × Nat × List Nat)
  | [] => none
  | x :: xs =>
    if p x then some ([], x, xs)
    else match splitFirst p xs with
      | some (a, y, b) => some (x :: a, y, b)
      | none => none

/-- Result of a scheduler call. -/
inductive Res where
  | ok                  -- call returned (no value)
  | panic               -- the Go code panics (contract violation)
  | frame (f : Frame)   -- Pop returned (f, true)
  | none                -- Pop returned (_, false)
  | reject              -- random scheduler: the reported choice is not a legal one
  deriving DecidableEq, Repr

/-! ## Round-robin scheduler -/

structure RR where
  control : WQ := {}
  qs : Nat → WQ := fun _ => {}
  /-- circular list of open streams, starting at `head` -/
  ring : List Nat := []

def RR.openStream (s : RR) (id : Nat) : RR × Res :=
  if id ∈ s.ring then (s, .panic)
  else ({ s with qs := upd s.qs id {}, ring := s.ring ++ [id] }, .ok)

def RR.closeStream (s : RR) (id : Nat) : RR × Res :=
  if id ∈ s.ring then ({ s with qs := upd s.qs id {}, ring := s.ring.erase id }, .ok)
  else (s, .ok)

def RR.push (s : RR) (f : Frame) : RR × Res :=
  if f.isControl then ({ s with control := s.control.push f }, .ok)
  else if f.streamID ∈ s.ring then
    ({ s with qs := upd s.qs f.streamID ((s.qs f.streamID).push f) }, .ok)
  else if f.dataSize > 0 then (s, .panic)
  else ({ s with control := s.control.push f }, .ok)

def RR.pop (e : Env) (s : RR) : Env × RR × Res :=
  match s.control.shift with
  | some (f, c) => (e, { s with control := c }, .frame f)
  | none =>
    match splitFirst (fun id => sendable e (s.qs id)) s.ring with
    | none => (e, s, .none)
    | some (pre, id, post) =>
      match (s.qs id).consume e maxInt32 with
      | (e', q', some f) => (e', { s with qs := upd s.qs id q', ring := post ++ pre ++ [id] }, .frame f)
      | (_, _, none) => (e, s, .none)

/-! ## RFC 9218 scheduler.  A priority class is `c = 2*urgency + incremental` (`c < 16`). -/

structure P9218 where
  control : WQ := {}
  qs : Nat → WQ := fun _ => {}
  /-- `heads[u][i]` rings, indexed by class, each starting at its head -/
  ring : Nat → List Nat := fun _ => []
  /-- `streams[id].priority` of the open streams (`none`: `location == nil`) -/
  prio : Nat → Option Nat := fun _ => none
  /-- `prioritizeIncremental[u]`: try the incremental class first the next time urgency level `u` is served -/
  pref : Nat → Bool := fun _ => true
  bufId : Nat := 0            -- priorityUpdateBuf.streamID
  bufClass : Nat := 0         -- priorityUpdateBuf.priority

def P9218.openStream (s : P9218) (id c : Nat) : P9218 × Res :=
  match s.prio id with
  | some _ => (s, .panic)
  | none =>
    let c' := if id = s.bufId then s.bufClass else c
    let b := if id = s.bufId then 0 else s.bufId
    ({ s with bufId := b, qs := upd s.qs id {}, prio := upd s.prio id (some c'),
              ring := upd s.ring c' (s.ring c' ++ [id]) }, .ok)

def P9218.closeStream (s : P9218) (id : Nat) : P9218 × Res :=
  match s.prio id with
  | none => (s, .ok)
  | some c =>
    ({ s with qs := upd s.qs id {}, prio := upd s.prio id none,
              ring := upd s.ring c ((s.ring c).erase id) }, .ok)

def P9218.adjustStream (s : P9218) (id c : Nat) : P9218 × Res :=
  match s.prio id with
  | none => ({ s with bufId := id, bufClass := c }, .ok)
  | some c0 =>
    let r1 := upd s.ring c0 ((s.ring c0).erase id)
    ({ s with ring := upd r1 c (r1 c ++ [id]), prio := upd s.prio id (some c) }, .ok)

def P9218.push (s : P9218) (f : Frame) : P9218 × Res :=
  if f.isControl then ({ s with control := s.control.push f }, .ok)
  else if (s.prio f.streamID).isSome then
    ({ s with qs := upd s.qs f.streamID ((s.qs f.streamID).push f) }, .ok)
  else if f.dataSize > 0 then (s, .panic)
  else ({ s with control := s.control.push f }, .ok)

/-- Order in which `Pop` visits the classes, given `prioritizeIncremental` per urgency level. -/
def classOrder (pref : Nat → Bool) : List Nat :=
  (List.range 8).flatMap fun u => if pref u then [2 * u + 1, 2 * u] else [2 * u, 2 * u + 1]

/-- First class of `cs` holding a sendable stream, with the split of its ring. -/
def firstClass (e : Env) (qs : Nat → WQ) (ring : Nat → List Nat) :
    List Nat → Option (Nat × List Nat × Nat × List Nat)
  | [] => none
  | c :: cs =>
    match splitFirst (fun id => sendable e (qs id)) (ring c) with
    | some (pre, id, post) => some (c, pre, id, post)
    | none => firstClass e qs ring cs

def P9218.pop (e : Env) (s : P9218) : Env × P9218 × Res :=
  match s.control.shift with
  | some (f, c) => (e, { s with control := c }, .frame f)
  | none =>
    match firstClass e s.qs s.ring (classOrder s.pref) with
    | none => (e, s, .none)
    | some (c, pre, id, post) =>
      match (s.qs id).consume e maxInt32 with
      | (e', q', some f) =>
        let r := if c % 2 = 1 then post ++ pre ++ [id] else id :: (post ++ pre)
        -- `ws.prioritizeIncremental[u] = i == 0`: next time this level is served, the other class goes first
        (e', { s with pref := upd s.pref (c / 2) (c % 2 == 0), qs := upd s.qs id q', ring := upd s.ring c r }, .frame f)
      | (_, _, none) => (e, s, .none)

/-! ## Random scheduler.  Go iterates over a map; the caller reports which stream was served
(`hint`) and the model checks that the report is a legal outcome. -/

structure Rand where
  zero : WQ := {}
  qs : Nat → WQ := fun _ => {}
  /-- keys of the `sq` map -/
  sq : List Nat := []

def Rand.closeStream (s : Rand) (id : Nat) : Rand × Res :=
  if id ∈ s.sq then ({ s with qs := upd s.qs id {}, sq := s.sq.erase id }, .ok) else (s, .ok)

def Rand.push (s : Rand) (f : Frame) : Rand × Res :=
  if f.isControl then ({ s with zero := s.zero.push f }, .ok)
  else
    let id := f.streamID
    if id ∈ s.sq then ({ s with qs := upd s.qs id ((s.qs id).push f) }, .ok)
    else ({ s with qs := upd s.qs id (WQ.push {} f), sq := id :: s.sq }, .ok)

def Rand.pop (e : Env) (s : Rand) (hint : Option Nat) : Env × Rand × Res :=
  match s.zero.shift with
  | some (f, c) => (e, { s with zero := c }, .frame f)
  | none =>
    match hint with
    | none => if s.sq.any (fun id => sendable e (s.qs id)) then (e, s, .reject) else (e, s, .none)
    | some id =>
      if id ∈ s.sq then
        match (s.qs id).consume e maxInt32 with
        | (e', q', some f) =>
          if q'.isEmpty then (e', { s with qs := upd s.qs id {}, sq := s.sq.erase id }, .frame f)
          else (e', { s with qs := upd s.qs id q' }, .frame f)
        | (_, _, none) => (e, s, .reject)
      else (e, s, .reject)

/-! ## The schedulers behind one interface (what the driver runs and the theorems speak about) -/

/-- One call of the `WriteScheduler` interface, or a change of the flow-control environment.
`c = 2*urgency + incremental` is the RFC 9218 priority class carried by `OpenStreamOptions` /
`PriorityParam`; `dep/excl/weight` are the RFC 7540 fields. -/
inductive Op where
  | openS (id pusher c : Nat)
  | closeS (id : Nat)
  | adjust (id dep : Nat) (excl : Bool) (weight c : Nat)
  | push (f : Frame)
  | pop (hint : Option Nat)
  | win (id : Nat) (d : Int)
  | maxframe (n : Int)
  deriving Repr

inductive Sched where
  | rr (s : RR)
  | p9 (s : P9218)
  | rnd (s : Rand)

def Sched.step (e : Env) : Sched → Op → Env × Sched × Res
  | s, .win id d =>
    if id = 0 then ({ e with connWin := e.connWin + d }, s, .ok)
    else ({ e with win := upd e.win id (e.win id + d) }, s, .ok)
  | s, .maxframe n => ({ e with maxFrame := n }, s, .ok)
  | .rr s, .openS id _ _ => let (s', r) := s.openStream id; (e, .rr s', r)
  | .rr s, .closeS id => let (s', r) := s.closeStream id; (e, .rr s', r)
  | .rr s, .adjust .. => (e, .rr s, .ok)
  | .rr s, .push f => let (s', r) := s.push f; (e, .rr s', r)
  | .rr s, .pop _ => let (e', s', r) := s.pop e; (e', .rr s', r)
  | .p9 s, .openS id _ c => let (s', r) := s.openStream id c; (e, .p9 s', r)
  | .p9 s, .closeS id => let (s', r) := s.closeStream id; (e, .p9 s', r)
  | .p9 s, .adjust id _ _ _ c => let (s', r) := s.adjustStream id c; (e, .p9 s', r)
  | .p9 s, .push f => let (s', r) := s.push f; (e, .p9 s', r)
  | .p9 s, .pop _ => let (e', s', r) := s.pop e; (e', .p9 s', r)
  | .rnd s, .openS .. => (e, .rnd s, .ok)
  | .rnd s, .closeS id => let (s', r) := s.closeStream id; (e, .rnd s', r)
  | .rnd s, .adjust .. => (e, .rnd s, .ok)
  | .rnd s, .push f => let (s', r) := s.push f; (e, .rnd s', r)
  | .rnd s, .pop h => let (e', s', r) := s.pop e h; (e', .rnd s', r)

/-- Run a history; returns the final state and the result of every call. -/
def Sched.run (e : Env) (s : Sched) : List Op → Env × Sched × List Res
  | [] => (e, s, [])
  | op :: ops =>
    let (e1, s1, r) := s.step e op
    let (e2, s2, rs) := Sched.run e1 s1 ops
    (e2, s2, r :: rs)

end NetVerif.Model.WriteSched
