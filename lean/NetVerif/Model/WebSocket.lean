/-
Model of websocket/hybi.go + websocket.go (Codec.Receive): hybi frame header
encode/decode, payload masking, the frame handler (mask enforcement, ping/pong,
close, continuation), and the MaxPayloadBytes drain logic.

Bytes are `Nat` < 256 in `List Nat`. A connection's inbound byte stream is a
list; reading past its end is the Go `io.EOF` / `io.ErrUnexpectedEOF`.
-/
namespace NetVerif.Model.WebSocket

/-! ## Frame header -/

structure Header where
  fin : Bool
  rsv : Nat            -- RSV1..3 as a 3-bit number (RSV1 = 4, RSV2 = 2, RSV3 = 1)
  op : Nat             -- 4-bit opcode
  len : Nat            -- payload length
  mask : Option (List Nat)   -- masking key (4 bytes) or none
  deriving Repr, DecidableEq

def opContinuation : Nat := 0
def opText : Nat := 1
def opBinary : Nat := 2
def opClose : Nat := 8
def opPing : Nat := 9
def opPong : Nat := 10
def maxControlPayload : Nat := 125

/-- `msg[i] ^ key[(pos+i) % 4]`. `key` is used cyclically starting at `pos`. -/
def maskBytes (key : List Nat) (pos : Nat) : List Nat → List Nat
  | [] => []
  | b :: bs => (b ^^^ key.getD (pos % 4) 0) :: maskBytes key (pos + 1) bs

/-- Big-endian rendering of `v` in `n` bytes (`byte((length >> j) & 0xff)`). -/
def beBytes : Nat → Nat → List Nat
  | 0, _ => []
  | n + 1, v => (v / 256 ^ n % 256) :: beBytes n v

/-- The length field of `hybiFrameWriter.Write`: second-byte low bits and extension bytes. -/
def lenField (n : Nat) : Nat × List Nat :=
  if n ≤ 125 then (n, [])
  else if n < 65536 then (126, beBytes 2 n)
  else (127, beBytes 8 n)

/-- `hybiFrameWriter.Write(msg)`: the bytes put on the wire, or `none` for `ErrBadMaskingKey`
(a non-nil masking key whose length is not 4). `op` is ORed into the first byte, so the
model requires `op < 16` and `rsv < 8` to be exact. -/
def writeFrame (fin : Bool) (rsv op : Nat) (mask : Option (List Nat)) (msg : List Nat) :
    Option (List Nat) :=
  let b0 := (if fin then 128 else 0) + rsv * 16 + op
  let (l7, ext) := lenField msg.length
  match mask with
  | none => some (b0 :: l7 :: ext ++ msg)
  | some key =>
    if key.length ≠ 4 then none
    else some (b0 :: (128 + l7) :: ext ++ key ++ maskBytes key 0 msg)

/-- Read `n` bytes off the stream; `none` if it ends first. -/
def takeExact (n : Nat) (s : List Nat) : Option (List Nat × List Nat) :=
  if s.length < n then none else some (s.take n, s.drop n)

/-- Fold big-endian bytes into `acc` (`Length = Length*256 + b`). -/
def beFold (acc : Nat) : List Nat → Nat
  | [] => acc
  | b :: bs => beFold (acc * 256 + b) bs

/-- Number of extended-length bytes announced by the 7-bit length. -/
def extLen (l7 : Nat) : Nat := if l7 ≤ 125 then 0 else if l7 = 126 then 2 else 8

/-- Payload length from the 7-bit length and the extension bytes
(`Length = Length*256 + b`, MSB of the first byte cleared in the 64-bit form). -/
def decodeLen (l7 : Nat) (ext : List Nat) : Nat :=
  if l7 ≤ 125 then l7
  else if l7 = 126 then beFold 0 ext
  else match ext with
    | e0 :: es => beFold (e0 % 128) es
    | [] => 0

/-- `hybiFrameReaderFactory.NewFrameReader`: parse a frame header; returns the header,
its encoded size and the rest of the stream. `none` = read error (stream ended). -/
def readHeader (s : List Nat) : Option (Header × Nat × List Nat) :=
  match s with
  | b0 :: b1 :: r =>
    let fin := b0 / 128 % 2 = 1
    let rsv := b0 / 16 % 8
    let op := b0 % 16
    let masked := b1 / 128 % 2 = 1
    let l7 := b1 % 128
    match takeExact (extLen l7) r with
    | none => none
    | some (ext, r1) =>
      let len := decodeLen l7 ext
      if masked then
        match takeExact 4 r1 with
        | none => none
        | some (key, r2) =>
          some ({ fin := fin, rsv := rsv, op := op, len := len, mask := some key }, 2 + extLen l7 + 4, r2)
      else
        some ({ fin := fin, rsv := rsv, op := op, len := len, mask := none }, 2 + extLen l7, r1)
  | _ => none

/-- Unmask with the frame's key (identity when unmasked), starting at key position `pos`. -/
def unmask (h : Header) (pos : Nat) (bs : List Nat) : List Nat :=
  match h.mask with
  | none => bs
  | some key => maskBytes key pos bs

/-- Read a whole frame: header, then `io.ReadAll` of the length-limited payload reader
(a stream that ends early yields a short payload and no error, as `io.LimitReader` +
`io.ReadAll` do). -/
def readFrame (s : List Nat) : Option (Header × List Nat × List Nat) :=
  match readHeader s with
  | none => none
  | some (h, _, r) => some (h, unmask h 0 (r.take h.len), r.drop h.len)

/-! ## Connection-level receive (`Codec.Receive` with `hybiFrameHandler.HandleFrame`) -/

inductive RecvResult where
  | msg (payloadType : Nat) (data : List Nat)
  | tooLarge
  | eof        -- `io.EOF`: close frame, mask violation, or stream ended at a frame boundary
  | err        -- any other read error (stream ended inside a header)
  deriving Repr, DecidableEq

structure Conn where
  isServer : Bool
  maxPayload : Nat          -- effective limit (DefaultMaxPayloadBytes when configured as 0)
  input : List Nat          -- unread inbound bytes
  pending : Nat             -- bytes of an oversized frame still to be drained (`ws.frameReader`)
  hasPending : Bool
  payloadType : Nat         -- `hybiFrameHandler.payloadType`
  written : List (Nat × List Nat × Bool) -- frames written by the handler: (opcode, payload, masked), oldest first
  deriving Repr

def defaultMaxPayloadBytes : Nat := 33554432

def newConn (isServer : Bool) (maxPayload : Nat) (input : List Nat) : Conn :=
  { isServer := isServer, maxPayload := if maxPayload = 0 then defaultMaxPayloadBytes else maxPayload,
    input := input, pending := 0, hasPending := false, payloadType := 0, written := [] }

/-- Frames the handler itself writes (`WritePong`, `WriteClose`) use the connection's own role:
a client conn (no request) masks them with a fresh random key, a server conn never masks.
They are recorded structurally; their wire form is `writeFrame true 0 op key? msg`. -/
def handlerWrite (c : Conn) (op : Nat) (msg : List Nat) : Conn :=
  { c with written := c.written ++ [(op, msg, !c.isServer)] }

/-- One `Codec.Receive` call. `fuel` bounds the `goto again` loop (each iteration consumes at
least two bytes, so `input.length + 1` always suffices — see `Proofs.C59`). -/
def receiveLoop : Nat → Conn → RecvResult × Conn
  | 0, c => (.err, c)
  | fuel + 1, c =>
    match readHeader c.input with
    | none =>
      -- `bufio.Reader.ReadByte` error: EOF at a frame boundary, else UnexpectedEOF-like error.
      -- Go returns io.EOF from ReadByte in both cases (the header is read byte by byte).
      (.eof, { c with input := [] })
    | some (h, _, r) =>
      let c := { c with input := r }
      -- mask enforcement
      if c.isServer ∧ h.mask = none then
        (.eof, handlerWrite c opClose [3, 234])      -- 1002 big-endian
      else if ¬ c.isServer ∧ h.mask ≠ none then
        (.eof, handlerWrite c opClose [3, 234])
      else if h.op = opContinuation ∨ h.op = opText ∨ h.op = opBinary ∨
              ¬ (h.op = opClose ∨ h.op = opPing ∨ h.op = opPong) then
        -- data frame (continuation takes the remembered type; unknown opcodes pass through)
        let ptype := if h.op = opContinuation then c.payloadType else h.op
        let c := if h.op = opText ∨ h.op = opBinary then { c with payloadType := h.op } else c
        if h.len > c.maxPayload then
          (.tooLarge, { c with pending := h.len, hasPending := true })
        else
          (.msg ptype (unmask h 0 (c.input.take h.len)), { c with input := c.input.drop h.len })
      else if h.op = opClose then
        (.eof, c)
      else
        -- ping / pong: read up to 125 payload bytes, discard the rest of the frame
        let payload := unmask h 0 (c.input.take h.len)
        let c := { c with input := c.input.drop h.len }
        let c := if h.op = opPing then handlerWrite c opPong (payload.take maxControlPayload) else c
        receiveLoop fuel c

/-- `Codec.Receive`: first drain a pending oversized frame, then loop. -/
def receive (c : Conn) : RecvResult × Conn :=
  let c := if c.hasPending then
      { c with input := c.input.drop c.pending, pending := 0, hasPending := false }
    else c
  receiveLoop (c.input.length + 1) c

/-- `n` consecutive `Receive` calls (stops early after `eof`/`err`). -/
def receiveN : Nat → Conn → List RecvResult × Conn
  | 0, c => ([], c)
  | n + 1, c =>
    match receive c with
    | (.eof, c') => ([.eof], c')
    | (.err, c') => ([.err], c')
    | (r, c') => let (rs, c'') := receiveN n c'; (r :: rs, c'')

end NetVerif.Model.WebSocket
