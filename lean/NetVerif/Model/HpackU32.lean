import NetVerif.Model.Hpack
/-!
`dynamicTable` with Go's `uint32` arithmetic (`size`, `maxSize`, `HeaderField.Size()` are `uint32`):
`add`/`evict`/`setMaxSize` exactly as coded, every addition and subtraction reduced modulo 2^32.
`Proofs.C02.add32_eq` etc. show they coincide with the unbounded-`Nat` operations of `Model.Hpack`
whenever `size + Size(entry) < 2^32` (in particular when `maxSize + Size(entry) < 2^32`), which is the
precise content of the modelling assumption "sizes as Nat".
-/
namespace NetVerif.Model.Hpack

def u32 (n : Nat) : Nat := n % 2 ^ 32

/-- `HeaderField.Size()`: `uint32(len(Name) + len(Value) + 32)`. -/
def entrySize32 (e : Entry) : Nat := u32 (e.1.length + e.2.length + 32)

/-- The loop of `evict` (oldest first) with `dt.size -= ents[n].Size()` in `uint32`. -/
def evictLoop32 (maxSize : Nat) : List Entry → Nat → List Entry × Nat
  | [], size => ([], size)
  | e :: rest, size =>
    if size > maxSize then evictLoop32 maxSize rest (u32 (size + 2 ^ 32 - entrySize32 e)) else (e :: rest, size)

def DynTable.evict32 (dt : DynTable) : DynTable :=
  let r := evictLoop32 dt.maxSize dt.ents.reverse dt.size
  { dt with ents := r.1.reverse, size := r.2 }

def DynTable.setMaxSize32 (dt : DynTable) (v : Nat) : DynTable := { dt with maxSize := v }.evict32

/-- `dt.size += f.Size()` in `uint32`, then `evict`. -/
def DynTable.add32 (dt : DynTable) (e : Entry) : DynTable :=
  { dt with ents := e :: dt.ents, size := u32 (dt.size + entrySize32 e) }.evict32

end NetVerif.Model.Hpack
