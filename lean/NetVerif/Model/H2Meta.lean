import NetVerif.Model.H2Frame
import NetVerif.Model.Hpack
/-!
`Framer.ReadFrame` with `ReadMetaHeaders` composed with the real HPACK decoder model
(`Model/Hpack.lean`, imported read-only): `readMetaFrame` over the actual header-block bytes.

`Model.H2Frame.readMeta` abstracts one `hdec.Write(frag)` by a `FragDec`; here the fragment bytes
are decoded. The only new ingredient is the interplay the abstract model quantifies away: the emit
callback of `readMetaFrame` calls `hdec.SetEmitEnabled(false)` *during* `Write`, which changes how
the decoder treats the following representations (`wantStr`, `callEmit`). `writeLoopCb` is
`Hpack.writeLoop` (same `parseRepr`, `afterRepr`, paranoia bound, progress guard) with the callback
state threaded through and `emitEnabled` updated after every emitted field.
-/
namespace NetVerif.Model.H2Meta
open NetVerif.Model.H2Frame
open NetVerif.Model

/-- `hpack.HeaderField` as seen by the callback (the `Sensitive` bit plays no role). -/
def toField (f : Hpack.Field) : Field := { name := f.name, value := f.value }

/-- The `for len(d.buf) > 0` loop of `Decoder.Write` with `readMetaFrame`'s emit callback. -/
def writeLoopCb : Nat → Hpack.DecCore → List Nat → MetaState → Hpack.DecCore × MetaState × Hpack.LoopEnd
  | 0, d, _, st => (d, st, .err .internal)
  | fuel + 1, d, buf, st =>
    if buf = [] then (d, st, .saved [])
    else match Hpack.parseRepr d buf with
      | .needMore =>
        if d.maxStrLen ≠ 0 ∧ buf.length > Hpack.paranoiaBound d.maxStrLen then (d, st, .err .strLenParanoia)
        else (d, st, .saved buf)
      | .err e d' => (Hpack.afterRepr buf d', st, .err e)
      | .ok d' rest e =>
        if rest.length < buf.length then
          let st' := match e with
            | some f => metaEmit st (toField f)
            | none => st
          writeLoopCb fuel { Hpack.afterRepr buf d' with emitEnabled := st'.enabled } rest st'
        else (d', st, .err .internal)

/-- `hdec.Write(frag)` inside `readMetaFrame`: new decoder, new callback state, error? -/
def hdecWrite (d : Hpack.Decoder) (st : MetaState) (p : List Nat) : Hpack.Decoder × MetaState × Bool :=
  if p = [] then (d, st, false)
  else
    match writeLoopCb ((d.saveBuf ++ p).length + 1) d.toDecCore (d.saveBuf ++ p) st with
    | (c, st', .saved l) => ({ toDecCore := c, saveBuf := l }, st', false)
    | (c, st', .err _) => ({ toDecCore := c, saveBuf := [] }, st', true)

/-- what the loop of `readMetaFrame` leaves at `break`. `frags` are the fragments written. -/
structure LoopOut where
  st : MetaState
  hdec : Hpack.Decoder
  frags : List (List Nat)

/-- The `for` loop of `readMetaFrame` (cf. `H2Frame.metaLoop`), decoding the fragments. The decoder
is returned in every case (the Framer's decoder lives on after errors). -/
def metaLoopH : Nat → Framer → Hpack.Decoder → MetaState → List Nat → Bool → List Nat → List (List Nat) →
    Except RErr LoopOut × Hpack.Decoder × Framer × List Nat
  | 0, fr, d, _, _, _, bs, _ => (.error .eof, d, fr, bs)
  | fuel + 1, fr, d, st, frag, ended, bs, done =>
    if frag.length > 2 * st.remainSize then (.error (.conn errCodeProtocol), d, fr, bs)
    else if st.invalid then (.error (.conn errCodeProtocol), d, fr, bs)
    else
      match hdecWrite d st frag with
      | (d', st', werr) =>
        if werr then (.error (.conn errCodeCompression), d', fr, bs)
        else if ended then (.ok ⟨st', d', done ++ [frag]⟩, d', fr, bs)
        else
          match (readFrame fr bs).res with
          | .error e => (.error e, d', (readFrame fr bs).fr, (readFrame fr bs).rest)
          | .ok (.continuation h frag') =>
            metaLoopH fuel (readFrame fr bs).fr d' st' frag' (hasFlag h.flags flagEndHeaders)
              (readFrame fr bs).rest (done ++ [frag])
          | .ok _ => (.error .eof, d', (readFrame fr bs).fr, (readFrame fr bs).rest)

structure MetaReadResultH where
  res : Except RErr MFrame
  fr : Framer
  rest : List Nat
  hdec : Hpack.Decoder

/-- the decoder as `readMetaFrame` configures it before the loop. -/
def prepDecoder (hdec : Hpack.Decoder) (mhls : Nat) : Hpack.Decoder :=
  (hdec.setEmitEnabled true).setMaxStringLength (maxHeaderListSize mhls)

/-- `Framer.ReadFrame` with `ReadMetaHeaders = hdec`, `MaxHeaderListSize = mhls`. -/
def readMetaH (fr : Framer) (mhls : Nat) (hdec : Hpack.Decoder) (bs : List Nat) : MetaReadResultH :=
  match (readFrame fr bs).res with
  | .error e => ⟨.error e, (readFrame fr bs).fr, (readFrame fr bs).rest, hdec⟩
  | .ok (.headers h prio frag) =>
    match metaLoopH ((readFrame fr bs).rest.length + 1) (readFrame fr bs).fr (prepDecoder hdec mhls)
            { remainSize := maxHeaderListSize mhls } frag (hasFlag h.flags flagEndHeaders)
            (readFrame fr bs).rest [] with
    | (.error e, d, fr', rest') => ⟨.error e, fr', rest', d⟩
    | (.ok out, _, fr', rest') =>
      match out.hdec.close with
      | (d, some _) => ⟨.error (.conn errCodeCompression), fr', rest', d⟩
      | (d, none) =>
        if out.st.invalid then ⟨.error (.stream h.streamID errCodeProtocol), fr', rest', d⟩
        else if !checkPseudos out.st.fields then ⟨.error (.stream h.streamID errCodeProtocol), fr', rest', d⟩
        else ⟨.ok (.metaHeaders h prio out.st.fields out.st.truncated), fr', rest', d⟩
  | .ok f => ⟨.ok (.plain f), (readFrame fr bs).fr, (readFrame fr bs).rest, hdec⟩

end NetVerif.Model.H2Meta
