import NetVerif.Model.VarintQuic
/-!
Model of quic/retry.go (`retryState.additionalData`, `makeToken`, `validateToken`) and of
quic/stateless_reset.go (`tokenForConnID`).

The AEAD (XChaCha20-Poly1305 in Go) and HMAC-SHA256 are PARAMETERS; theorems name their
hypotheses.  `toy` is a concrete AEAD instance which the harness also plugs into the real
`retryState`, so the decision logic of `validateToken` is tied byte for byte.
Time: `now` is nanoseconds since the Unix epoch (`Int`); the token carries whole seconds as a
big-endian uint64 reinterpreted as int64; `now.Sub(when)` saturates at ±2^63 ns like Go's.
(Go's `time.Unix(sec, 0)` itself wraps for |sec| within 2^36 of 2^63; the tie stays away
from that corner.)
-/
namespace NetVerif.Model.QuicRetryToken
open NetVerif.Model.VarintQuic

/-- `additionalData(srcConnID, addr)`: `none` = panic (connection ID over 255 bytes). `addr` are
the bytes of `addr.Addr().AsSlice()` (4 or 16; the IPv6 zone is not part of them). -/
def additionalData (srcConnID addr : List Nat) (port : Nat) : Option (List Nat) :=
  match appendUint8Bytes srcConnID with
  | some x => some (x ++ (addr ++ [port / 256 % 256, port % 256]))
  | none => none

structure AEAD where
  aeadSeal : List Nat → List Nat → List Nat → List Nat            -- nonce, plaintext, additional data
  aeadOpen : List Nat → List Nat → List Nat → Option (List Nat) -- nonce, ciphertext, additional data

def nonceSize : Nat := 24
def maxConnIDLen : Nat := 20
def validityNs : Int := 5000000000

def u64be (v : Nat) : List Nat :=
  [v / 72057594037927936 % 256, v / 281474976710656 % 256, v / 1099511627776 % 256, v / 4294967296 % 256,
   v / 16777216 % 256, v / 65536 % 256, v / 256 % 256, v % 256]

def beNat : List Nat → Nat
  | [] => 0
  | b :: rest => b * 256 ^ rest.length + beNat rest

/-- `makeToken` for a given 24-byte nonce (Go draws it from crypto/rand): token and the new
destination connection ID. `nowUnix` is `uint64(now.Unix())`. -/
def makeToken (a : AEAD) (nonce : List Nat) (nowUnix : Nat) (srcConnID origDst addr : List Nat) (port : Nat) :
    Option (List Nat × List Nat) :=
  match additionalData srcConnID addr port with
  | some ad => some (nonce.drop maxConnIDLen ++ a.aeadSeal nonce (u64be nowUnix ++ origDst) ad, nonce.take maxConnIDLen)
  | none => none

def int64OfU64 (u : Nat) : Int := if u < 9223372036854775808 then (u : Int) else (u : Int) - 18446744073709551616

/-- `now.Sub(when)` in nanoseconds, saturating. -/
def satSub (nowNs whenNs : Int) : Int :=
  let d := nowNs - whenNs
  if d > 9223372036854775807 then 9223372036854775807
  else if d < -9223372036854775808 then -9223372036854775808 else d

inductive VR where
  | panic
  | reject
  | accept (origDst : List Nat)
  deriving Repr, DecidableEq

/-- `validateToken(now, token, srcConnID, dstConnID, addr)`. -/
def validateToken (a : AEAD) (nowNs : Int) (token srcConnID dstConnID addr : List Nat) (port : Nat) : VR :=
  if token.length < nonceSize - maxConnIDLen then VR.reject
  else if (dstConnID ++ token.take 4).length ≠ nonceSize then VR.reject
  else
    match additionalData srcConnID addr port with
    | none => VR.panic
    | some ad =>
      match a.aeadOpen (dstConnID ++ token.take 4) (token.drop 4) ad with
      | none => VR.reject
      | some pt =>
        if pt.length < 8 then VR.reject
        else if satSub nowNs (int64OfU64 (beNat (pt.take 8)) * 1000000000) > validityNs ∨
                satSub nowNs (int64OfU64 (beNat (pt.take 8)) * 1000000000) < -validityNs then VR.reject
        else VR.accept (pt.drop 8)

/-! ### toy AEAD (same definition in harness/C31) -/

def wsum : List Nat → Nat → Nat
  | [], _ => 0
  | b :: rest, k => b * k + wsum rest (k + 1)

def toyTag (nonce p ad : List Nat) : List Nat :=
  let s := wsum ad 1 + wsum p 7 + wsum nonce 3
  (List.range 16).map (fun j => (s / 2 ^ j + j) % 256)

def toySeal (nonce p ad : List Nat) : List Nat :=
  p.map (· ^^^ nonce.getD 23 0) ++ toyTag nonce p ad

def toyOpen (nonce ct ad : List Nat) : Option (List Nat) :=
  if ct.length < 16 then none
  else
    let p := (ct.take (ct.length - 16)).map (· ^^^ nonce.getD 23 0)
    if ct.drop (ct.length - 16) = toyTag nonce p ad then some p else none

def toy : AEAD := { aeadSeal := toySeal, aeadOpen := toyOpen }

/-! ### stateless reset -/

/-- `tokenForConnID`: the first 16 bytes of HMAC(key, cid); `hmac` is uninterpreted. -/
def resetToken (hmac : List Nat → List Nat → List Nat) (key cid : List Nat) : List Nat :=
  (hmac key cid).take 16

end NetVerif.Model.QuicRetryToken
