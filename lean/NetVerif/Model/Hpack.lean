import NetVerif.Model.Huffman
import NetVerif.Gen.HpackStatic
/-!
# Model of the HPACK decoder (`http2/hpack/hpack.go`) — shared by C02, C03 (and C01/C05 later)

Conventions
* bytes are `Nat` (< 256) in `List Nat`; strings are byte lists;
* the dynamic table is a **newest-first** list of `(name, value)` entries, so HPACK dynamic index
  `k ≥ 1` is `ents[k-1]` (Go stores oldest-first and indexes `ents[len-k]`);
* all sizes are unbounded `Nat`s. Go uses `uint32` for `dynamicTable.size/maxSize` and
  `HeaderField.Size()`; they agree as long as no table/entry size reaches 2^32 (inputs < 4 GiB);
* `readVarInt` accumulates in `Nat`; `Proofs.C02.readVarInt_lt` shows the value stays below 2^64,
  so Go's `uint64` never wraps;
* errors are the enum `PErr`; `needMore` is Go's internal sentinel `errNeedMore`.

API (everything a client module needs)
* `Entry`, `Field`, `Field.size`, `DynTable` (`add`, `setMaxSize`, `evict`), `staticTable`
* `DecCore` (everything but the saved bytes) and `Decoder` (`DecCore` + `saveBuf`), `Decoder.new`
* `DecCore.at`  — `Decoder.at` (index lookup, static then dynamic)
* `readVarInt n`, `readString maxStrLen`, `decodeString` — as `Parser`s over the remaining buffer
* `parseAction`/`applyAction`/`parseRepr` — one header field representation
  (`parseHeaderFieldRepr`: buffer-dependent part, then state-dependent part, same order of checks)
* `Decoder.write`, `Decoder.close`, setters — the public methods
* `runWrites` — a sequence of `Write`s (stopping at the first error) followed by `Close`
-/
namespace NetVerif.Model.Hpack
open NetVerif

abbrev Bytes := List Nat

/-- A table entry: (name, value). -/
abbrev Entry := Bytes × Bytes

/-- `HeaderField`. -/
structure Field where
  name : Bytes
  value : Bytes
  sensitive : Bool := false
  deriving DecidableEq, Repr, Inhabited

/-- `HeaderField.Size()` (RFC 7541 §4.1), on an entry. -/
def entrySize (e : Entry) : Nat := e.1.length + e.2.length + 32

def Field.size (f : Field) : Nat := f.name.length + f.value.length + 32

/-- `staticTable.ents` (regenerated). -/
def staticTable : List Entry := Gen.HpackStatic.entries

/-! ## Dynamic table -/

/-- `dynamicTable`; `ents` newest first. -/
structure DynTable where
  ents : List Entry := []
  size : Nat := 0
  maxSize : Nat
  allowedMaxSize : Nat
  deriving DecidableEq, Repr, Inhabited

/-- The loop of `dynamicTable.evict` over the entries **oldest first**. -/
def evictLoop (maxSize : Nat) : List Entry → Nat → List Entry × Nat
  | [], size => ([], size)
  | e :: rest, size =>
    if size > maxSize then evictLoop maxSize rest (size - entrySize e) else (e :: rest, size)

/-- `dynamicTable.evict`. -/
def DynTable.evict (dt : DynTable) : DynTable :=
  let r := evictLoop dt.maxSize dt.ents.reverse dt.size
  { dt with ents := r.1.reverse, size := r.2 }

/-- `dynamicTable.setMaxSize`. -/
def DynTable.setMaxSize (dt : DynTable) (v : Nat) : DynTable := { dt with maxSize := v }.evict

/-- `dynamicTable.add`. -/
def DynTable.add (dt : DynTable) (e : Entry) : DynTable :=
  { dt with ents := e :: dt.ents, size := dt.size + entrySize e }.evict

/-! ## Decoder state -/

inductive PErr where
  | needMore              -- errNeedMore (internal)
  | invalidIndex          -- DecodingError{InvalidIndexError}
  | huffman               -- ErrInvalidHuffman
  | strLen                -- ErrStringLength from readString / huffmanDecode / callEmit
  | strLenParanoia        -- ErrStringLength from the saveBuf bound in Write
  | tableUpdateTooLarge   -- DecodingError "dynamic table size update too large"
  | updateNotAtStart      -- DecodingError "dynamic table size update MUST occur at the beginning…"
  | varintOverflow        -- errVarintOverflow
  | invalidEncoding       -- DecodingError "invalid encoding" (unreachable for bytes)
  | truncated             -- DecodingError "truncated headers" (Close)
  | internal              -- never produced (`Proofs.C02.write_no_internal`): fuel/progress guard
  deriving DecidableEq, Repr, Inhabited

/-- `Decoder` without `saveBuf` (what one representation can read and change). -/
structure DecCore where
  dyn : DynTable
  maxStrLen : Nat := 0       -- 0 = unlimited
  emitEnabled : Bool := true
  firstField : Bool := true
  deriving DecidableEq, Repr, Inhabited

/-- `Decoder`. -/
structure Decoder extends DecCore where
  saveBuf : Bytes := []
  deriving DecidableEq, Repr, Inhabited

/-- `NewDecoder(maxDynamicTableSize, emit)`. -/
def Decoder.new (maxDynamicTableSize : Nat) : Decoder :=
  { dyn := { maxSize := maxDynamicTableSize, allowedMaxSize := maxDynamicTableSize } }

def Decoder.setMaxStringLength (d : Decoder) (n : Nat) : Decoder := { d with maxStrLen := n }
def Decoder.setEmitEnabled (d : Decoder) (v : Bool) : Decoder := { d with emitEnabled := v }
def Decoder.setMaxDynamicTableSize (d : Decoder) (v : Nat) : Decoder := { d with dyn := d.dyn.setMaxSize v }
def Decoder.setAllowedMaxDynamicTableSize (d : Decoder) (v : Nat) : Decoder :=
  { d with dyn := { d.dyn with allowedMaxSize := v } }

/-- `Decoder.at`: 1-based index into static ++ dynamic. -/
def DecCore.at (d : DecCore) (i : Nat) : Option Entry :=
  if i = 0 then none
  else if i ≤ staticTable.length then staticTable[i - 1]?
  else if i > d.dyn.ents.length + staticTable.length then none
  else d.dyn.ents[i - staticTable.length - 1]?

/-! ## Parsers over the unparsed buffer -/

/-- A parser returns a value and the remaining buffer, or an error (`needMore` = truncated). -/
abbrev Parser (α : Type) := Bytes → Except PErr (α × Bytes)

def Parser.pure {α : Type} (a : α) : Parser α := fun buf => .ok (a, buf)
def Parser.fail {α : Type} (e : PErr) : Parser α := fun _ => .error e
def Parser.bind {α β : Type} (p : Parser α) (f : α → Parser β) : Parser β := fun buf =>
  match p buf with
  | .error e => .error e
  | .ok (a, rest) => f a rest

/-- Continuation bytes of `readVarInt` (`i` so far, shift `m`). -/
def readVarIntLoop : Bytes → Nat → Nat → Except PErr (Nat × Bytes)
  | [], _, _ => .error .needMore
  | b :: p, i, m =>
    let i := i + (b % 128) * 2 ^ m
    if b < 128 then .ok (i, p)
    else if m + 7 ≥ 63 then .error .varintOverflow
    else readVarIntLoop p i (m + 7)

/-- `readVarInt(n, p)` for `1 ≤ n ≤ 8`. -/
def readVarInt (n : Nat) : Parser Nat
  | [] => .error .needMore
  | b :: p =>
    let i := if n < 8 then b % 2 ^ n else b
    if i < 2 ^ n - 1 then .ok (i, p) else readVarIntLoop p i 0

/-- `undecodedString`. -/
structure UString where
  isHuff : Bool
  b : Bytes
  deriving DecidableEq, Repr, Inhabited

/-- `Decoder.readString`. -/
def readString (maxStrLen : Nat) : Parser UString
  | [] => .error .needMore
  | b0 :: p =>
    match readVarInt 7 (b0 :: p) with
    | .error e => .error e
    | .ok (strLen, p) =>
      if maxStrLen ≠ 0 ∧ strLen > maxStrLen then .error .strLen
      else if p.length < strLen then .error .needMore
      else .ok ({ isHuff := b0 ≥ 128, b := p.take strLen }, p.drop strLen)

/-- `Decoder.decodeString`. -/
def decodeString (maxStrLen : Nat) (u : UString) : Except PErr Bytes :=
  if !u.isHuff then .ok u.b
  else match Huffman.decodeMax maxStrLen u.b with
    | .ok s => .ok s
    | .error .invalid => .error .huffman
    | .error .strLen => .error .strLen

/-! ## One header field representation -/

/-- `indexType`. -/
inductive IndexType where
  | indexedTrue | indexedFalse | indexedNever
  deriving DecidableEq, Repr, Inhabited

def IndexType.indexed (it : IndexType) : Bool := it == .indexedTrue
def IndexType.sensitive (it : IndexType) : Bool := it == .indexedNever

/-- What the bytes of one representation say (before strings are decoded and the state changes). -/
inductive Action where
  | indexed (e : Entry)
  | literal (it : IndexType) (tableName : Option Bytes) (uName : UString) (uValue : UString)
  | sizeUpdate (size : Nat)
  deriving DecidableEq, Repr, Inhabited

/-- Buffer-reading part of `parseFieldLiteral`. -/
def parseLiteral (d : DecCore) (n : Nat) (it : IndexType) : Parser Action :=
  (readVarInt n).bind fun nameIdx =>
    if nameIdx > 0 then
      match d.at nameIdx with
      | none => Parser.fail .invalidIndex
      | some e => (readString d.maxStrLen).bind fun uv =>
          Parser.pure (.literal it (some e.1) { isHuff := false, b := [] } uv)
    else
      (readString d.maxStrLen).bind fun un =>
        (readString d.maxStrLen).bind fun uv =>
          Parser.pure (.literal it none un uv)

/-- Buffer-reading part of `parseHeaderFieldRepr` (with the checks that precede/interleave the reads). -/
def parseAction (d : DecCore) : Parser Action
  | [] => .error .needMore   -- not reached: Write only parses a non-empty buffer
  | b :: p =>
    if b ≥ 128 then
      ((readVarInt 7).bind fun idx =>
        match d.at idx with
        | none => Parser.fail .invalidIndex
        | some e => Parser.pure (.indexed e)) (b :: p)
    else if b / 64 = 1 then parseLiteral d 6 .indexedTrue (b :: p)
    else if b / 16 = 0 then parseLiteral d 4 .indexedFalse (b :: p)
    else if b / 16 = 1 then parseLiteral d 4 .indexedNever (b :: p)
    else if b / 32 = 1 then
      if !d.firstField ∧ d.dyn.size > 0 then .error .updateNotAtStart
      else ((readVarInt 5).bind fun size =>
        if size > d.dyn.allowedMaxSize then Parser.fail .tableUpdateTooLarge
        else Parser.pure (.sizeUpdate size)) (b :: p)
    else .error .invalidEncoding

/-- `Decoder.callEmit`: `none` = emit disabled. -/
def callEmit (d : DecCore) (hf : Field) : Except PErr (Option Field) :=
  if d.maxStrLen ≠ 0 ∧ (hf.name.length > d.maxStrLen ∨ hf.value.length > d.maxStrLen) then .error .strLen
  else .ok (if d.emitEnabled then some hf else none)

/-- Result of the state-dependent part: on error the (possibly already changed) state is kept. -/
inductive ApplyRes where
  | err (e : PErr) (d : DecCore)
  | ok (d : DecCore) (emit : Option Field)
  deriving Repr, Inhabited

def finishEmit (d : DecCore) (hf : Field) : ApplyRes :=
  match callEmit d hf with
  | .error e => .err e d
  | .ok em => .ok d em

/-- State-dependent part of `parseFieldIndexed` / `parseFieldLiteral` / `parseDynamicTableSizeUpdate`. -/
def applyAction (d : DecCore) : Action → ApplyRes
  | .indexed e => finishEmit d { name := e.1, value := e.2 }
  | .sizeUpdate size => .ok { d with dyn := d.dyn.setMaxSize size } none
  | .literal it tableName un uv =>
    let wantStr := d.emitEnabled || it.indexed
    let nameR : Except PErr Bytes :=
      match tableName with
      | some n => .ok n
      | none => if wantStr then decodeString d.maxStrLen un else .ok []
    match nameR with
    | .error e => .err e d
    | .ok name =>
      let valueR : Except PErr Bytes := if wantStr then decodeString d.maxStrLen uv else .ok []
      match valueR with
      | .error e => .err e d
      | .ok value =>
        let d' := if it.indexed then { d with dyn := d.dyn.add (name, value) } else d
        finishEmit d' { name := name, value := value, sensitive := it.sensitive }

/-- Result of `parseHeaderFieldRepr`. -/
inductive PRes where
  | needMore
  | err (e : PErr) (d : DecCore)
  | ok (d : DecCore) (rest : Bytes) (emit : Option Field)
  deriving Repr, Inhabited

/-- `Decoder.parseHeaderFieldRepr` on buffer `buf`. -/
def parseRepr (d : DecCore) (buf : Bytes) : PRes :=
  match parseAction d buf with
  | .error .needMore => .needMore
  | .error e => .err e d
  | .ok (a, rest) =>
    match applyAction d a with
    | .err e d' => .err e d'
    | .ok d' em => .ok d' rest em

/-! ## Write / Close -/

/-- How the loop of `Write` ended. -/
inductive LoopEnd where
  | saved (leftover : Bytes)   -- buffer exhausted (`[]`) or `errNeedMore`: bytes kept in saveBuf
  | err (e : PErr)
  deriving DecidableEq, Repr, Inhabited

/-- `2*(maxStrLen+varIntOverhead)`: the "extra paranoia" bound on the bytes kept between Writes. -/
def paranoiaBound (maxStrLen : Nat) : Nat := 2 * (maxStrLen + Gen.HpackStatic.varIntOverhead)

def optToList {α : Type} : Option α → List α
  | none => []
  | some a => [a]

/-- `d.buf[0]&224 == 32` in `Decoder.Write`: the representation about to be parsed is a dynamic
table size update (first byte `001xxxxx`; same test as in `parseAction`). -/
def isSizeUpdate : Bytes → Bool
  | [] => false
  | b :: _ => b / 32 == 1

/-- `if !isSizeUpdate { d.firstField = false }`: a table size update does not end the beginning of
the header block (RFC 7541 §4.2 allows several there); any other representation does. -/
def afterRepr (buf : Bytes) (d : DecCore) : DecCore :=
  if isSizeUpdate buf then d else { d with firstField := false }

/-- The `for len(d.buf) > 0` loop of `Decoder.Write`. `paranoia = true` is the code as it is;
`false` drops the saveBuf bound (used to state what the bound breaks). `fuel` bounds the number of
iterations (`buf.length + 1` suffices: `Proofs.C02.writeLoop_fuel`). -/
def writeLoop (paranoia : Bool) : Nat → DecCore → Bytes → List Field → DecCore × List Field × LoopEnd
  | 0, d, _, em => (d, em, .err .internal)
  | fuel + 1, d, buf, em =>
    if buf = [] then (d, em, .saved [])
    else match parseRepr d buf with
      | .needMore =>
        if paranoia ∧ d.maxStrLen ≠ 0 ∧ buf.length > paranoiaBound d.maxStrLen then (d, em, .err .strLenParanoia)
        else (d, em, .saved buf)
      | .err e d' => (afterRepr buf d', em, .err e)
      | .ok d' rest e =>
        if rest.length < buf.length then
          writeLoop paranoia fuel (afterRepr buf d') rest (em ++ optToList e)
        else (d', em, .err .internal)

/-- Result of a public call: new state, fields emitted by the call, error if any. -/
abbrev CallRes := Decoder × List Field × Option PErr

def finishWrite (r : DecCore × List Field × LoopEnd) : CallRes :=
  match r.2.2 with
  | .saved l => ({ toDecCore := r.1, saveBuf := l }, r.2.1, none)
  | .err e => ({ toDecCore := r.1, saveBuf := [] }, r.2.1, some e)

/-- `Decoder.Write(p)` (generalised over the paranoia switch). -/
def Decoder.writeG (paranoia : Bool) (d : Decoder) (p : Bytes) : CallRes :=
  if p = [] then (d, [], none)
  else
    let buf := d.saveBuf ++ p
    finishWrite (writeLoop paranoia (buf.length + 1) d.toDecCore buf [])

/-- `Decoder.Write(p)`. -/
def Decoder.write (d : Decoder) (p : Bytes) : CallRes := d.writeG true p

/-- `Decoder.Close()`. -/
def Decoder.close (d : Decoder) : Decoder × Option PErr :=
  if d.saveBuf ≠ [] then ({ d with saveBuf := [] }, some .truncated)
  else ({ d with firstField := true }, none)

/-- Consecutive `Write`s, stopping at the first error. -/
def runChunks (paranoia : Bool) : Decoder → List Bytes → CallRes
  | d, [] => (d, [], none)
  | d, c :: cs =>
    match d.writeG paranoia c with
    | (d1, em1, some e) => (d1, em1, some e)
    | (d1, em1, none) =>
      match runChunks paranoia d1 cs with
      | (d2, em2, r) => (d2, em1 ++ em2, r)

/-- One header block fed as `chunks`, then `Close` (skipped after a `Write` error, as callers do). -/
def runWritesG (paranoia : Bool) (d : Decoder) (chunks : List Bytes) : CallRes :=
  match runChunks paranoia d chunks with
  | (d1, em, some e) => (d1, em, some e)
  | (d1, em, none) => let r := d1.close; (r.1, em, r.2)

def runWrites (d : Decoder) (chunks : List Bytes) : CallRes := runWritesG true d chunks

end NetVerif.Model.Hpack
