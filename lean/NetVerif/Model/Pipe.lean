/-
Model of quic/pipe.go: a window [start, end) of stream bytes kept in a linked
list of fixed-size chunks (`pipebuf`, `len(b) = c` for every chunk; c = 4096 in
the source, extracted into Gen/C30.lean).  The chain head → … → tail is a
`List Buf`; `head = bufs.head?`, `tail = bufs.getLast?`.
Bytes are `Nat`s.  A fresh chunk is zero-filled (the harness gives the code a
fresh `sync.Pool`, so `newPipebuf` always runs `New`); the theorems only speak
about offsets that were written, so they do not depend on the fill.
Go run-time panics (slice bounds, the explicit "invalid read range") are the
result `none` / the `panicked` flag; `writeAt` keeps the state it had reached.
-/
namespace NetVerif.Model.Pipe

structure Buf where
  off : Int
  b : List Nat
deriving Repr, DecidableEq

/-- `pb.end()`. -/
def Buf.stop (pb : Buf) : Int := pb.off + pb.b.length

structure Pipe where
  start : Int
  stop : Int          -- `p.end`
  bufs : List Buf
deriving Repr, DecidableEq

def empty : Pipe := ⟨0, 0, []⟩

/-- `newPipebuf()` with `off` set by the caller. -/
def newBuf (c : Nat) (off : Int) : Buf := ⟨off, List.replicate c 0⟩

/-- `n := copy(dst[k:], src)` for `k ≤ len dst`: the new `dst` and `n`. -/
def copyInto (dst : List Nat) (k : Nat) (src : List Nat) : List Nat × Nat :=
  let n := min (dst.length - k) src.length
  (dst.take k ++ src.take n ++ dst.drop (k + n), n)

/-- The part of the `writeAt` loop that runs after the last existing chunk:
every iteration allocates the next chunk at `nextOff` (`pb.next = newPipebuf()`).
`fuel` bounds the number of chunks; `writeAt` passes enough. -/
def extend (c : Nat) : Nat → Int → List Nat → Int → List Buf
  | 0, _, _, _ => []
  | fuel + 1, nextOff, b, off =>
    let pboff := off - nextOff
    if pboff < (c : Int) then
      let r := copyInto (List.replicate c 0) pboff.toNat b
      if r.2 = b.length then [⟨nextOff, r.1⟩]
      else ⟨nextOff, r.1⟩ :: extend c fuel (nextOff + c) (b.drop r.2) (off + r.2)
    else newBuf c nextOff :: extend c fuel (nextOff + c) b off

/-- The `writeAt` loop over the existing chunks starting at `pb`.
`none` = slice-bounds panic (`pboff < 0`). -/
def writeBufs (c : Nat) : List Buf → List Nat → Int → Option (List Buf)
  | [], _, _ => some []          -- not reachable: `pb` is never nil
  | pb :: rest, b, off =>
    let pboff := off - pb.off
    if pboff < (pb.b.length : Int) then
      if pboff < 0 then none
      else
        let r := copyInto pb.b pboff.toNat b
        if r.2 = b.length then some (⟨pb.off, r.1⟩ :: rest)
        else
          let b' := b.drop r.2
          let off' := off + r.2
          match rest with
          | [] => some (⟨pb.off, r.1⟩ ::
                    extend c ((off' - pb.stop).toNat + b'.length + 1) pb.stop b' off')
          | _ :: _ => (writeBufs c rest b' off').map (⟨pb.off, r.1⟩ :: ·)
    else
      match rest with
      | [] => some (pb :: extend c ((off - pb.stop).toNat + b.length + 1) pb.stop b off)
      | _ :: _ => (writeBufs c rest b off).map (pb :: ·)

/-- The rest of `writeAt` once `b`/`off` are trimmed and the head exists:
`pb := p.head; if off >= p.tail.off { pb = p.tail }; for { … }`. -/
def writeLoop (c : Nat) (start stop' : Int) (bufs0 : List Buf) (b1 : List Nat) (off1 : Int) : Pipe × Bool :=
  match bufs0.getLast? with
  | none => (⟨start, stop', bufs0⟩, false)   -- not reachable
  | some tail =>
    if off1 ≥ tail.off then
      match writeBufs c [tail] b1 off1 with
      | none => (⟨start, stop', bufs0⟩, true)
      | some l => (⟨start, stop', bufs0.dropLast ++ l⟩, false)
    else
      match writeBufs c bufs0 b1 off1 with
      | none => (⟨start, stop', bufs0⟩, true)
      | some l => (⟨start, stop', l⟩, false)

/-- `writeAt(b, off)`; the flag reports a panic (state as left by the Go code). -/
def writeAt (c : Nat) (p : Pipe) (b : List Nat) (off : Int) : Pipe × Bool :=
  let e := off + b.length
  if e ≤ p.stop ∧ e ≤ p.start then (p, false)
  else
    let stop' := if e > p.stop then e else p.stop
    let b1 := if off < p.start then b.drop (p.start - off).toNat else b
    let off1 := if off < p.start then p.start else off
    let bufs0 := if p.bufs.isEmpty then [newBuf c p.start] else p.bufs
    writeLoop c p.start stop' bufs0 b1 off1

/-- The loop of `read`: the slices handed to `f`, or `none` on a panic. -/
def readBufs : List Buf → Int → Int → Option (List (List Nat))
  | [], _, n => if n > 0 then none else some []
  | pb :: rest, off, n =>
    if n > 0 then
      if off ≥ pb.stop then readBufs rest off n
      else if off < pb.off then none               -- pb.b[off-pb.off:] with a negative index
      else
        let b := pb.b.drop (off - pb.off).toNat
        let b := if (b.length : Int) > n then b.take n.toNat else b
        (readBufs rest (off + b.length) (n - b.length)).map (b :: ·)
    else some []

/-- `read(off, n, f)` with an `f` that never fails. -/
def read (p : Pipe) (off n : Int) : Option (List (List Nat)) :=
  if off < p.start then none else readBufs p.bufs off n

/-- `copy(off, b)` with `len(b) = n`: the final contents of `b`. -/
def copy (p : Pipe) (off : Int) (n : Nat) : Option (List Nat) :=
  (read p off n).map List.flatten

/-- `peek(n)`. -/
def peek (p : Pipe) (n : Int) : Option (List Nat) :=
  match p.bufs with
  | [] => some []
  | pb :: _ =>
    let k := p.start - pb.off
    if k < 0 ∨ k > pb.b.length then none
    else
      let b := pb.b.drop k.toNat
      if n < 0 then none
      else some (b.take (min b.length n.toNat))

/-- `len(availableBuffer())`. -/
def availableLen (p : Pipe) : Option Nat :=
  match p.bufs.getLast? with
  | none => some 0
  | some t =>
    let k := p.stop - t.off
    if k < 0 ∨ k > t.b.length then none else some (t.b.length - k.toNat)

/-- The head-popping loop of `discardBefore`. -/
def dropBufs : List Buf → Int → List Buf
  | [], _ => []
  | pb :: rest, off => if pb.stop ≤ off then dropBufs rest off else pb :: rest

/-- `discardBefore(off)`. -/
def discardBefore (p : Pipe) (off : Int) : Pipe :=
  ⟨off, if p.stop > off then p.stop else off, dropBufs p.bufs off⟩

end NetVerif.Model.Pipe
