/-
Model of golang.org/x/net/icmp (message.go, echo.go, dstunreach.go,
timeexceeded.go, paramprob.go, packettoobig.go, messagebody.go, multipart.go,
extension.go, mpls.go, interface.go) and of ipv4/header.go (Linux field order).

Bytes are `Nat` < 256 in `List Nat`. Go `int` fields are `Int`; the narrowing
conversions `byte(x)`, `uint16(x)`, `uint32(x)` are `x % 2^k` (Euclidean, so
negative values wrap as in Go). `checksum` is modelled with its `uint32`
accumulator (additions reduced mod 2^32, with the end-around carry the code applies) and its two folds.
Not modelled: slice aliasing (`RawBody.Marshal` returns the caller's slice),
IPv4-mapped addresses in `InterfaceInfo`, non-Linux field orders of `ipv4.Header`, control messages.
-/
namespace NetVerif.Model.Icmp

/-! ### constants (tied to the Go source by Gen/C60) -/

def protocolICMP : Nat := 1
def protocolIPv6ICMP : Nat := 58
def v4EchoReply : Nat := 0
def v4DstUnreach : Nat := 3
def v4Echo : Nat := 8
def v4TimeExceeded : Nat := 11
def v4ParamProb : Nat := 12
def v4ExtEchoRequest : Nat := 42
def v4ExtEchoReply : Nat := 43
def v6DstUnreach : Nat := 1
def v6PacketTooBig : Nat := 2
def v6TimeExceeded : Nat := 3
def v6ParamProb : Nat := 4
def v6EchoRequest : Nat := 128
def v6EchoReply : Nat := 129
def v6ExtEchoRequest : Nat := 160
def v6ExtEchoReply : Nat := 161
def extensionVersion : Nat := 2
def classMPLSLabelStack : Nat := 1
def typeIncomingMPLSLabelStack : Nat := 1
def classInterfaceInfo : Nat := 2
def classInterfaceIdent : Nat := 3
def typeInterfaceByName : Int := 1
def typeInterfaceByIndex : Int := 2
def typeInterfaceByAddress : Int := 3
def addrFamilyIPv4 : Nat := 1
def addrFamilyIPv6 : Nat := 2
def attrMTU : Nat := 1
def attrName : Nat := 2
def attrIPAddr : Nat := 4
def attrIfIndex : Nat := 8

/-! ### byte helpers -/

def u8 (x : Int) : Nat := (x % 256).toNat
def be16 (x : Int) : List Nat := [(x / 256 % 256).toNat, (x % 256).toNat]
def be32 (x : Int) : List Nat :=
  [(x / 16777216 % 256).toNat, (x / 65536 % 256).toNat, (x / 256 % 256).toNat, (x % 256).toNat]
def rd16 (b : List Nat) : Nat := b.getD 0 0 * 256 + b.getD 1 0
def rd32 (b : List Nat) : Nat :=
  b.getD 0 0 * 16777216 + b.getD 1 0 * 65536 + b.getD 2 0 * 256 + b.getD 3 0
def zeros (n : Nat) : List Nat := List.replicate n 0

/-- `copy(b[off:], src)`: overwrite, truncated at the end of `b`. -/
def copyAt (b : List Nat) (off : Nat) (src : List Nat) : List Nat :=
  b.take off ++ (src.take (b.length - off)) ++ b.drop (off + (src.take (b.length - off)).length)

/-! ### checksum -/

/-- `s += w; if s < w { s++ }` on `uint32`: addition with end-around carry. -/
def addCarry (s w : Nat) : Nat :=
  let t := (s + w) % 4294967296
  if t < w then (t + 1) % 4294967296 else t

/-- The loop of `checksum`: little-endian 16-bit words added into a `uint32` with end-around carry. -/
def sumWords : Nat → List Nat → Nat
  | s, a :: b :: rest => sumWords (addCarry s (b * 256 + a)) rest
  | s, [a] => addCarry s a
  | s, [] => s

/-- `s = s>>16 + s&0xffff; s = s + s>>16; uint16(s)`. -/
def fold16 (s : Nat) : Nat :=
  let s1 := (s / 65536 + s % 65536) % 4294967296
  let s2 := (s1 + s1 / 65536) % 4294967296
  s2 % 65536

/-- `checksum(b)` = `^uint16(fold)`. -/
def checksum (b : List Nat) : Nat := 65535 - fold16 (sumWords 0 b)

/-- `b[i] ^= byte(s); b[i+1] ^= byte(s>>8)`. -/
def xorCsumAt (b : List Nat) (i : Nat) (s : Nat) : List Nat :=
  (b.modify i (fun x => x ^^^ (s % 256))).modify (i + 1) (fun x => x ^^^ (s / 256 % 256))

/-! ### extensions -/

structure MplsLabel where
  label : Int
  tc : Int
  s : Bool
  ttl : Int
deriving Repr, DecidableEq

structure Iface where
  index : Int
  name : List Nat
  mtu : Int
deriving Repr, DecidableEq

structure IPAddr where
  ip : List Nat      -- 0, 4 or 16 bytes
  zone : List Nat
deriving Repr, DecidableEq

inductive Ext where
  | mpls (cls typ : Int) (labels : List MplsLabel)
  | info (cls typ : Int) (iface : Option Iface) (addr : Option IPAddr)
  | ident (cls typ : Int) (name : List Nat) (index afi : Int) (addr : List Nat)
  | raw (data : List Nat)
deriving Repr, DecidableEq

def roundUp4 (n : Nat) : Nat := (n + 3) / 4 * 4

def nameLen (name : List Nat) : Nat :=
  if name.length > 63 then 64 else roundUp4 (1 + name.length)

/-- `To4() != nil` for a 4-byte or 16-byte address. -/
def isV4 (ip : List Nat) : Bool :=
  ip.length == 4 || (ip.length == 16 && ip.take 10 == zeros 10 && ip.getD 10 0 == 255 && ip.getD 11 0 == 255)

/-- `InterfaceInfo.attrsAndLen`. -/
def infoAttrsLen (proto : Nat) (iface : Option Iface) (addr : Option IPAddr) : Nat × Nat :=
  let (a1, l1) : Nat × Nat :=
    match iface with
    | some i =>
      if i.index > 0 then
        let (a, l) := (8, 8)
        let (a, l) := if i.name.length > 0 then (a + 2, l + nameLen i.name) else (a, l)
        if i.mtu > 0 then (a + 1, l + 4) else (a, l)
      else (0, 4)
    | none => (0, 4)
  match addr with
  | some ad =>
    if proto = protocolICMP then
      (if isV4 ad.ip then (a1 + 4, l1 + 8) else (a1, l1))
    else if proto = protocolIPv6ICMP then
      (if ad.ip.length == 16 && !isV4 ad.ip then (a1 + 4, l1 + 20) else (a1, l1))
    else (a1, l1)
  | none => (a1, l1)

def identLen (typ : Int) (name addr : List Nat) : Nat :=
  if typ = typeInterfaceByName then 4 + roundUp4 (min name.length 255)
  else if typ = typeInterfaceByIndex then 8
  else if typ = typeInterfaceByAddress then 8 + roundUp4 addr.length
  else 4

/-- `Extension.Len`. -/
def Ext.len (proto : Nat) : Ext → Nat
  | .mpls _ _ labels => 4 + 4 * labels.length
  | .info _ _ iface addr => (infoAttrsLen proto iface addr).2
  | .ident _ typ name _ _ addr => identLen typ name addr
  | .raw data => data.length

def mplsLabelBytes (l : MplsLabel) : List Nat :=
  [u8 (l.label / 4096), u8 (l.label / 16),
   (l.label % 16).toNat * 16 + (l.tc % 8).toNat * 2 + (if l.s then 1 else 0), u8 l.ttl]

def last4 (ip : List Nat) : List Nat := if ip.length == 16 then ip.drop 12 else ip

/-- Bytes an extension object writes at its offset (exactly `Ext.len` bytes on the modelled
domain: names of at most 63 bytes). -/
def Ext.bytes (proto : Nat) : Ext → List Nat
  | .mpls _ _ labels =>
    be16 (4 + 4 * labels.length : Nat) ++ [classMPLSLabelStack, typeIncomingMPLSLabelStack] ++
      labels.flatMap mplsLabelBytes
  | .info _ typ iface addr =>
    let (attrs, l) := infoAttrsLen proto iface addr
    let i := iface.getD ⟨0, [], 0⟩
    let a := addr.getD ⟨[], []⟩
    be16 (l : Nat) ++ [classInterfaceInfo, u8 typ] ++
      (if attrs / 8 % 2 = 1 then be32 i.index else []) ++
      (if attrs / 4 % 2 = 1 then
        (if proto = protocolICMP then be16 (addrFamilyIPv4 : Nat) ++ [0, 0] ++ last4 a.ip
         else be16 (addrFamilyIPv6 : Nat) ++ [0, 0] ++ a.ip) else []) ++
      (if attrs / 2 % 2 = 1 then
        nameLen i.name :: (i.name.take (nameLen i.name - 1) ++ zeros (nameLen i.name - 1 - i.name.length)) else []) ++
      (if attrs % 2 = 1 then be32 i.mtu else [])
  | .ident _ typ name index afi addr =>
    let l := identLen typ name addr
    be16 (l : Nat) ++ [classInterfaceIdent, u8 typ] ++
      (if typ = typeInterfaceByName then
        let nm := name.take (l - 4)
        nm ++ zeros (l - 4 - nm.length)
      else if typ = typeInterfaceByIndex then be32 index
      else if typ = typeInterfaceByAddress then
        be16 afi ++ [addr.length % 256, 0] ++ addr ++ zeros (l - 8 - addr.length)
      else [])
  | .raw data => data

def isExtEchoRequest (proto typ : Nat) : Bool :=
  (proto == protocolICMP && typ == v4ExtEchoRequest) || (proto == protocolIPv6ICMP && typ == v6ExtEchoRequest)

/-- `validExtensions`. -/
def validExtensions (proto typ : Nat) (exts : List Ext) : Bool :=
  if (proto == protocolICMP && (typ == v4DstUnreach || typ == v4TimeExceeded || typ == v4ParamProb)) ||
     (proto == protocolIPv6ICMP && (typ == v6DstUnreach || typ == v6TimeExceeded)) then
    exts.all (fun e => match e with | .mpls .. => true | .info .. => true | .raw .. => true | _ => false)
  else if isExtEchoRequest proto typ then
    let ok := exts.all (fun e => match e with | .ident .. => true | .raw .. => true | _ => false)
    let n := (exts.filter (fun e => match e with | .ident .. => true | _ => false)).length
    ok && !(n == 1 && exts.length > 1)
  else false

/-! ### multipart bodies (RFC 4884) -/

/-- `multipartMessageOrigDatagramLen`. -/
def origDatagramLen (proto : Nat) (n : Nat) : Nat :=
  if proto = protocolICMP then (if n < 128 then 128 else (n + 3) / 4 * 4)
  else if proto = protocolIPv6ICMP then (if n < 128 then 128 else (n + 7) / 8 * 8)
  else n

/-- `multipartMessageBodyDataLen`: (bodyLen, dataLen). -/
def multipartLens (proto : Nat) (withOrig : Bool) (data : List Nat) (exts : List Ext) : Nat × Nat :=
  let extLen := (exts.map (Ext.len proto)).sum
  let rawExt := exts.any (fun e => match e with | .raw _ => true | _ => false)
  let dataLen := if extLen > 0 && withOrig then origDatagramLen proto data.length else data.length
  (4 + (if extLen > 0 || rawExt then 4 else 0) + dataLen + extLen, dataLen)

def writeExts (proto : Nat) : List Nat → Nat → List Ext → List Nat
  | b, _, [] => b
  | b, off, e :: rest => writeExts proto (copyAt b off (e.bytes proto)) (off + e.len proto) rest

/-- `marshalMultipartMessageBody`. -/
def marshalMultipart (proto : Nat) (withOrig : Bool) (data : List Nat) (exts : List Ext) : List Nat :=
  let (bodyLen, dataLen) := multipartLens proto withOrig data exts
  let b := copyAt (zeros bodyLen) 4 data
  if exts.length > 0 then
    let b := b.set (4 + dataLen) (extensionVersion * 16)
    let b := writeExts proto b (4 + dataLen + 4) exts
    let s := checksum (b.drop (4 + dataLen))
    let b := xorCsumAt b (4 + dataLen + 2) s
    if withOrig then
      if proto = protocolICMP then b.set 1 (dataLen / 4 % 256)
      else if proto = protocolIPv6ICMP then b.set 0 (dataLen / 8 % 256)
      else b
    else b
  else b

/-- The range check of `marshalMultipartMessageBody`: with extensions and an original datagram, the
length attribute (32-bit words for ICMPv4, 64-bit words for ICMPv6) must fit one octet. -/
def lengthAttrOK (proto : Nat) (data : List Nat) (exts : List Ext) : Bool :=
  if exts.length > 0 then
    let dataLen := (multipartLens proto true data exts).2
    if proto = protocolICMP then decide (dataLen / 4 ≤ 255)
    else if proto = protocolIPv6ICMP then decide (dataLen / 8 ≤ 255)
    else true
  else true

/-- `validExtensionHeader` (callers guarantee at least 4 bytes). -/
def validExtensionHeader (b : List Nat) : Bool :=
  let v := b.getD 0 0 / 16
  let s := rd16 (b.drop 2)
  let s := if s != 0 then checksum b else s
  !(v != extensionVersion || s != 0)

def trimNul (s : List Nat) : List Nat :=
  ((s.dropWhile (· == 0)).reverse.dropWhile (· == 0)).reverse

def parseMPLS (b : List Nat) : Ext :=
  let rec labels : Nat → List Nat → List MplsLabel
    | 0, _ => []
    | fuel + 1, b =>
      if b.length ≥ 4 then
        let b0 := b.getD 0 0; let b1 := b.getD 1 0; let b2 := b.getD 2 0; let b3 := b.getD 3 0
        { label := (b0 * 4096 + b1 * 16 + b2 / 16 : Nat), tc := (b2 / 2 % 8 : Nat),
          s := b2 % 2 == 1, ttl := (b3 : Nat) } :: labels fuel (b.drop 4)
      else []
  .mpls (b.getD 2 0 : Nat) (b.getD 3 0 : Nat) (labels b.length (b.drop 4))

/-- `parseInterfaceInfo`; `none` = error. -/
def parseInfo (b : List Nat) : Option Ext :=
  let typ := b.getD 3 0
  let cls := b.getD 2 0
  let hasIf := typ % 2 = 1 || typ / 2 % 2 = 1 || typ / 8 % 2 = 1
  let hasAddr := typ / 4 % 2 = 1
  let b := b.drop 4
  -- IfIndex
  let r1 : Option (Int × List Nat) :=
    if b.length > 0 ∧ typ / 8 % 2 = 1 then
      (if b.length < 4 then none else some ((rd32 b : Nat), b.drop 4))
    else some (0, b)
  match r1 with
  | none => none
  | some (index, b) =>
  -- IPAddr
  let r2 : Option (List Nat × List Nat) :=
    if b.length > 0 ∧ typ / 4 % 2 = 1 then
      (if b.length < 4 then none else
        let afi := rd16 b
        let b := b.drop 4
        if afi = addrFamilyIPv4 then (if b.length < 4 then none else some (b.take 4, b.drop 4))
        else if afi = addrFamilyIPv6 then (if b.length < 16 then none else some (b.take 16, b.drop 16))
        else some ([], b))
    else some ([], b)
  match r2 with
  | none => none
  | some (ip, b) =>
  -- Name
  let r3 : Option (List Nat × List Nat) :=
    if b.length > 0 ∧ typ / 2 % 2 = 1 then
      (if 4 > b.length ∨ b.length < b.getD 0 0 then none else
        let l := b.getD 0 0
        if l % 4 ≠ 0 ∨ 4 > l ∨ l > 64 then none
        else some (trimNul ((b.take l).drop 1), b.drop l))
    else some ([], b)
  match r3 with
  | none => none
  | some (name, b) =>
  -- MTU
  let r4 : Option Int :=
    if b.length > 0 ∧ typ % 2 = 1 then
      (if b.length < 4 then none else some (rd32 b : Nat))
    else some 0
  match r4 with
  | none => none
  | some mtu =>
    let zone := if hasIf && name ≠ [] && hasAddr && ip.length == 16 && !isV4 ip then name else []
    some (.info (cls : Nat) (typ : Nat)
      (if hasIf then some ⟨index, name, mtu⟩ else none)
      (if hasAddr then some ⟨ip, zone⟩ else none))

/-- `parseInterfaceIdent`; `none` = error. -/
def parseIdent (b : List Nat) : Option Ext :=
  let cls : Int := (b.getD 2 0 : Nat)
  let typ : Int := (b.getD 3 0 : Nat)
  let rest := b.drop 4
  if typ = typeInterfaceByName then some (.ident cls typ (trimNul rest) 0 0 [])
  else if typ = typeInterfaceByIndex then
    (if rest.length < 4 then none else some (.ident cls typ [] (rd32 rest : Nat) 0 []))
  else if typ = typeInterfaceByAddress then
    (if rest.length < 4 then none else
      let l := rest.getD 2 0
      if (rest.drop 4).length < l then none
      else some (.ident cls typ [] 0 (rd16 rest : Nat) ((rest.drop 4).take l)))
  else some (.ident cls typ [] 0 0 [])

/-- The object loop of `parseExtensions`; `none` = error from a typed object parser. -/
def parseObjects : Nat → List Nat → Option (List Ext)
  | 0, _ => some []
  | fuel + 1, b =>
    if b.length ≥ 4 then
      let ol := rd16 b
      if 4 > ol ∨ ol > b.length then some []
      else
        let obj := b.take ol
        let cls := b.getD 2 0
        let e : Option Ext :=
          if cls = classMPLSLabelStack then some (parseMPLS obj)
          else if cls = classInterfaceInfo then
            -- the info parser uses b[2] as class of the object itself
            parseInfo obj
          else if cls = classInterfaceIdent then parseIdent obj
          else some (.raw obj)
        match e with
        | none => none
        | some e =>
          match parseObjects fuel (b.drop ol) with
          | none => none
          | some es => some (e :: es)
    else some []

/-- `parseExtensions`: `none` = any error; otherwise extensions and adjusted length. -/
def parseExtensions (proto typ : Nat) (b : List Nat) (l : Nat) : Option (List Ext × Nat) :=
  let l' : Option Nat :=
    if isExtEchoRequest proto typ then
      (if b.length < 8 || !validExtensionHeader b then none else some 0)
    else
      let l := if 128 > l ∨ l + 8 > b.length then 128 else l
      if l + 8 > b.length then none
      else if !validExtensionHeader (b.drop l) then
        (if l = 128 then none
         else if !validExtensionHeader (b.drop 128) then none else some 128)
      else some l
  match l' with
  | none => none
  | some l =>
    match parseObjects b.length (b.drop (l + 4)) with
    | none => none
    | some es => some (es, l)

/-- `parseMultipartMessageBody` (`b.length ≥ 4`): data and extensions. -/
def parseMultipart (proto typ : Nat) (b : List Nat) : List Nat × List Ext :=
  let l := if proto = protocolICMP then 4 * b.getD 1 0
           else if proto = protocolIPv6ICMP then 8 * b.getD 0 0 else 0
  if b.length = 4 then ([], [])
  else
    match parseExtensions proto typ (b.drop 4) l with
    | none => (b.drop 4, [])
    | some (es, l) => ((b.drop 4).take l, es)

/-! ### message bodies -/

inductive Body where
  | echo (id seq : Int) (data : List Nat)
  | extEchoReq (id seq : Int) (loc : Bool) (exts : List Ext)
  | extEchoReply (id seq state : Int) (active v4 v6 : Bool)
  | dstUnreach (data : List Nat) (exts : List Ext)
  | timeExceeded (data : List Nat) (exts : List Ext)
  | paramProb (pointer : Int) (data : List Nat) (exts : List Ext)
  | packetTooBig (mtu : Int) (data : List Nat)
  | raw (data : List Nat)
  | noBody
deriving Repr, DecidableEq

/-- `MessageBody.Len`. -/
def Body.len (proto : Nat) : Body → Nat
  | .echo _ _ data => 4 + data.length
  | .extEchoReq _ _ _ exts => (multipartLens proto false [] exts).1
  | .extEchoReply .. => 4
  | .dstUnreach data exts => (multipartLens proto true data exts).1
  | .timeExceeded data exts => (multipartLens proto true data exts).1
  | .paramProb _ data exts => (multipartLens proto true data exts).1
  | .packetTooBig _ data => 4 + data.length
  | .raw data => data.length
  | .noBody => 0

def setBytes (b : List Nat) (off : Nat) (src : List Nat) : List Nat := copyAt b off src

/-- `MessageBody.Marshal`; `none` = error (`errInvalidExtension`, `errInvalidBody`). -/
def Body.marshal (proto : Nat) : Body → Option (List Nat)
  | .echo id seq data => some (be16 id ++ be16 seq ++ data)
  | .extEchoReq id seq loc exts =>
    let typ := if proto = protocolICMP then v4ExtEchoRequest else v6ExtEchoRequest
    if !validExtensions proto typ exts then none else
    let b := marshalMultipart proto false [] exts
    let b := setBytes b 0 (be16 id)
    let b := b.set 2 (u8 seq)
    some (if loc then b.modify 3 (· ||| 1) else b)
  | .extEchoReply id seq state active v4 v6 =>
    some (be16 id ++ [u8 seq, (state % 8).toNat * 32 + (if active then 4 else 0) + (if v4 then 2 else 0) +
      (if v6 then 1 else 0)])
  | .dstUnreach data exts =>
    let typ := if proto = protocolICMP then v4DstUnreach else v6DstUnreach
    if !validExtensions proto typ exts then none
    else if !lengthAttrOK proto data exts then none else some (marshalMultipart proto true data exts)
  | .timeExceeded data exts =>
    let typ := if proto = protocolICMP then v4TimeExceeded else v6TimeExceeded
    if !validExtensions proto typ exts then none
    else if !lengthAttrOK proto data exts then none else some (marshalMultipart proto true data exts)
  | .paramProb pointer data exts =>
    if proto = protocolICMP then
      (if !validExtensions proto v4ParamProb exts then none
       else if !lengthAttrOK proto data exts then none
       else some ((marshalMultipart proto true data exts).set 0 (u8 pointer)))
    else if exts.length > 0 then none
    else
      some (copyAt (copyAt (zeros (multipartLens proto true data exts).1) 0 (be32 pointer)) 4 data)
  | .packetTooBig mtu data => some (be32 mtu ++ data)
  | .raw data => some data
  | .noBody => some []

structure Msg where
  proto : Nat
  typ : Nat
  code : Int
  cksum : Nat
  body : Body
deriving Repr, DecidableEq

/-- `Message.Marshal(psh)`: `none` = error. `psh = none` is a nil pseudo-header; ICMPv4 callers
pass nil. The ICMPv6 pseudo-header must have at least 36 bytes (Go would panic otherwise). -/
def Msg.marshal (m : Msg) (psh : Option (List Nat)) : Option (List Nat) :=
  let hdr := [m.typ % 256, u8 m.code, 0, 0]
  let pre : List Nat := if m.proto = protocolIPv6ICMP then psh.getD [] else []
  let mb : Option (List Nat) :=
    if m.body ≠ Body.noBody ∧ m.body.len m.proto ≠ 0 then m.body.marshal m.proto else some []
  match mb with
  | none => none
  | some mb =>
    let b := pre ++ hdr ++ mb
    if m.proto = protocolIPv6ICMP then
      match psh with
      | none => some b
      | some p =>
        let b := copyAt b 32 (be32 ((b.length - p.length : Nat) : Int))
        let s := checksum b
        some ((xorCsumAt b (p.length + 2) s).drop p.length)
    else
      let s := checksum b
      some (xorCsumAt b 2 s)

/-- The body parsers of `parseFns` (`raw` = no entry: `parseRawBody`). -/
inductive PK where
  | echo | xreq | xrep | du | te | pp | ptb | raw
deriving Repr, DecidableEq

/-- The dispatch table `parseFns` (typed keys: the protocol distinguishes `ipv4.ICMPType` from
`ipv6.ICMPType`). Tied to the Go map literal by Gen/C60. -/
def parserKind (proto typ : Nat) : PK :=
  if proto = protocolICMP then
    if typ = v4DstUnreach then .du
    else if typ = v4TimeExceeded then .te
    else if typ = v4ParamProb then .pp
    else if typ = v4Echo ∨ typ = v4EchoReply then .echo
    else if typ = v4ExtEchoRequest then .xreq
    else if typ = v4ExtEchoReply then .xrep
    else .raw
  else if proto = protocolIPv6ICMP then
    if typ = v6DstUnreach then .du
    else if typ = v6PacketTooBig then .ptb
    else if typ = v6TimeExceeded then .te
    else if typ = v6ParamProb then .pp
    else if typ = v6EchoRequest ∨ typ = v6EchoReply then .echo
    else if typ = v6ExtEchoRequest then .xreq
    else if typ = v6ExtEchoReply then .xrep
    else .raw
  else .raw

/-- The body parser selected by `ParseMessage`; `none` = error (`errMessageTooShort`). -/
def parseBody (proto typ : Nat) (rest : List Nat) : Option Body :=
  match parserKind proto typ with
  | .echo =>
    if rest.length < 4 then none
    else some (.echo (rd16 rest : Nat) (rd16 (rest.drop 2) : Nat) (rest.drop 4))
  | .xreq =>
    if rest.length < 4 then none
    else some (.extEchoReq (rd16 rest : Nat) (rest.getD 2 0 : Nat) (rest.getD 3 0 % 2 == 1)
                (parseMultipart proto typ rest).2)
  | .xrep =>
    if rest.length < 4 then none
    else
      let f := rest.getD 3 0
      some (.extEchoReply (rd16 rest : Nat) (rest.getD 2 0 : Nat) (f / 32 : Nat)
              (f / 4 % 2 == 1) (f / 2 % 2 == 1) (f % 2 == 1))
  | .du =>
    if rest.length < 4 then none
    else let (d, es) := parseMultipart proto typ rest; some (.dstUnreach d es)
  | .te =>
    if rest.length < 4 then none
    else let (d, es) := parseMultipart proto typ rest; some (.timeExceeded d es)
  | .pp =>
    if rest.length < 4 then none
    else if proto = protocolIPv6ICMP then some (.paramProb (rd32 rest : Nat) (rest.drop 4) [])
    else let (d, es) := parseMultipart proto typ rest; some (.paramProb (rest.getD 0 0 : Nat) d es)
  | .ptb =>
    if rest.length < 4 then none else some (.packetTooBig (rd32 rest : Nat) (rest.drop 4))
  | .raw => some (.raw rest)

/-- `ParseMessage`; `none` = error. -/
def parseMessage (proto : Nat) (b : List Nat) : Option Msg :=
  if b.length < 4 then none
  else if proto ≠ protocolICMP ∧ proto ≠ protocolIPv6ICMP then none
  else
    match parseBody proto (b.getD 0 0) (b.drop 4) with
    | none => none
    | some body =>
      some { proto := proto, typ := b.getD 0 0, code := (b.getD 1 0 : Nat), cksum := rd16 (b.drop 2), body := body }

/-! ### ipv4.Header (Linux: big-endian TotalLen and FragOff) -/

structure Header where
  version : Int
  len : Int
  tos : Int
  totalLen : Int
  id : Int
  flags : Int
  fragOff : Int
  ttl : Int
  protocol : Int
  cksum : Int
  src : List Nat       -- 0 (nil), 4 or 16 bytes
  dst : List Nat
  options : List Nat
deriving Repr, DecidableEq

def headerLen : Nat := 20

inductive HErr where
  | tooShort | missingAddress | extTooShort | invalidOptions
deriving Repr, DecidableEq

/-- `Header.Marshal`. -/
def Header.marshal (h : Header) : Except HErr (List Nat) :=
  if h.len < headerLen then .error .tooShort else
  let hdrlen := headerLen + h.options.length
  if h.options.length % 4 ≠ 0 ∨ hdrlen > 60 then .error .invalidOptions else
  let ff : Int := (h.fragOff % 8192) + h.flags * 8192
  if !isV4 h.dst then .error .missingAddress else
  .ok ([4 * 16 + hdrlen / 4 % 16, u8 h.tos] ++ be16 h.totalLen ++ be16 h.id ++ be16 ff ++
       [u8 h.ttl, u8 h.protocol] ++ be16 h.cksum ++
       (if isV4 h.src then last4 h.src else zeros 4) ++ last4 h.dst ++ h.options)

/-- `Header.Parse` / `ParseHeader` on a fresh header (`b` non-nil). -/
def parseHeader (b : List Nat) : Except HErr Header :=
  if b.length < headerLen then .error .tooShort else
  let hdrlen := b.getD 0 0 % 16 * 4
  if b.length < hdrlen then .error .extTooShort else
  let fo := rd16 (b.drop 6)
  .ok { version := (b.getD 0 0 / 16 : Nat), len := (hdrlen : Nat), tos := (b.getD 1 0 : Nat),
        totalLen := (rd16 (b.drop 2) : Nat), id := (rd16 (b.drop 4) : Nat),
        flags := (fo / 8192 : Nat), fragOff := (fo % 8192 : Nat), ttl := (b.getD 8 0 : Nat),
        protocol := (b.getD 9 0 : Nat), cksum := (rd16 (b.drop 10) : Nat),
        src := (b.drop 12).take 4, dst := (b.drop 16).take 4,
        options := if hdrlen > headerLen then (b.drop headerLen).take (hdrlen - headerLen) else [] }

end NetVerif.Model.Icmp
