/-!
# HTTP/2 client connection: stream-slot accounting, GOAWAY classification, trace monitors (C17, C18)

Mechanism model of `http2/transport.go` (`ClientConn`):
`currentRequestCountLocked`, `isUsableLocked`, `idleStateLocked`, `reserveNewRequest`,
`awaitOpenSlotForStreamLocked` (its decision, one loop iteration), `addStreamLocked`,
`forgetStreamID`, the pending-reset accounting of `cleanupWriteRequest` / `processPing`,
`processSettingsNoWrite` (MAX_CONCURRENT_STREAMS part), `setGoAway`, and of
`transport_common.go`: `canRetryError`, `shouldRetryRequest`.

Trace level: `Ev` are the events recorded by harness/C17/rig_test.go from the real Transport;
`WConn.upd` is the wire-level meaning of an event for one connection (RFC 9113 stream states,
the limit announced by the last SETTINGS, requests the pool assigned to the connection);
`Mon` runs the wire state and the mechanism model in lock-step and checks each event.
Core Lean only.
-/
namespace NetVerif.Model.H2Client

def initialMaxConcurrentStreams : Nat := 100
def defaultMaxConcurrentStreams : Nat := 1000
def maxInt32 : Nat := 2147483647

/-! ## Mechanism model -/

structure CC where
  /-- keys of `cc.streams` -/
  streams : List Nat := []
  reserved : Nat := 0
  pendingResets : Nat := 0
  maxConc : Nat := initialMaxConcurrentStreams
  nextID : Nat := 1
  strict : Bool := false
  seenSettings : Bool := false
  goAway : Bool := false
  /-- merged error code of `cc.goAway` (first non-zero code wins) -/
  goAwayCode : Nat := 0
  goAwayLast : Nat := 0
  closed : Bool := false
  closing : Bool := false
  doNotReuse : Bool := false
  singleUse : Bool := false
  closedOnIdle : Bool := false
  /-- `tooIdleLocked()` (environment: wall time) -/
  tooIdle : Bool := false
  pendingRequests : Nat := 0
  readBefore : Nat := 0
  rstBlocked : Bool := false
deriving Repr, DecidableEq

/-- `currentRequestCountLocked` -/
def CC.count (c : CC) : Nat := c.streams.length + c.reserved + c.pendingResets

/-- `isUsableLocked` -/
def CC.isUsable (c : CC) : Bool :=
  !c.goAway && !c.closed && !c.closing && !c.doNotReuse &&
    decide (c.nextID + 2 * c.pendingRequests < maxInt32) && !c.tooIdle

/-- `idleStateLocked().canTakeNewRequest` -/
def CC.idleCanTake (c : CC) : Bool :=
  if c.singleUse && decide (c.nextID > 1) then false
  else
    let maxConcurrentOkay := if c.strict then true else decide (c.count < c.maxConc)
    if c.nextID == 1 && c.reserved == 0 && c.closed && !c.closedOnIdle then true
    else maxConcurrentOkay && c.isUsable

/-- `reserveNewRequest` -/
def CC.reserve (c : CC) : Bool × CC :=
  if c.idleCanTake then (true, { c with reserved := c.reserved + 1 }) else (false, c)

/-- `decrStreamReservationsLocked` -/
def CC.decrReservation (c : CC) : CC := { c with reserved := c.reserved - 1 }

inductive Await where
  | notEstablished
  | unusable
  | go
  | wait
deriving Repr, DecidableEq

/-- One evaluation of the loop body of `awaitOpenSlotForStreamLocked`. Reservations are not
counted: the request has given its own back and the others belong to requests queued behind it
on `reqHeaderMu` (before the repair they were counted and a queue could stall, see
corpus/C17/strict_stall.ops). -/
def CC.await (c : CC) : Await :=
  if c.closed && c.nextID == 1 && c.reserved == 0 then .notEstablished
  else if c.closed || !c.idleCanTake then .unusable
  else if c.streams.length + c.pendingResets < c.maxConc then .go
  else .wait

/-- `addStreamLocked` -/
def CC.addStream (c : CC) : CC :=
  { c with streams := c.nextID :: c.streams, nextID := c.nextID + 2 }

/-- `closeOnIdle` of `cleanupWriteRequest` / `forgetStreamID` (`disableKeepAlives()` is an
environment constant; false in the rig). -/
def CC.closeOnIdle (c : CC) : Bool := c.singleUse || c.doNotReuse || c.goAway

/-- `cleanupWriteRequest`, branch "cancelling an in-flight request" (error is not a StreamError,
HEADERS were sent): returns the new state and whether a PING is bundled with the RST_STREAM. -/
def CC.noteCancelReset (c : CC) (id : Nat) : CC × Bool :=
  if !c.closeOnIdle && !(decide (c.readBefore > id)) && !c.rstBlocked then
    ({ c with pendingResets := c.pendingResets + 1 }, c.pendingResets == 0)
  else (c, false)

/-- `forgetStreamID` -/
def CC.forget (c : CC) (id : Nat) : CC :=
  let s := c.streams.erase id
  { c with streams := s,
           closed := c.closed || (c.closeOnIdle && c.reserved == 0 && s.isEmpty) }

/-- `processPing` (ack) -/
def CC.pingAck (c : CC) : CC :=
  if c.pendingResets > 0 then { c with pendingResets := 0, rstBlocked := true } else c

/-- `streamByID` side effects (every HEADERS / DATA / RST_STREAM / WINDOW_UPDATE read) -/
def CC.frameRead (c : CC) (headerOrData : Bool) : CC :=
  { c with readBefore := c.nextID, rstBlocked := if headerOrData then false else c.rstBlocked }

/-- `processSettingsNoWrite`, MAX_CONCURRENT_STREAMS part (`m = none`: setting absent). -/
def CC.settings (c : CC) (m : Option Nat) : CC :=
  match m with
  | some v => { c with maxConc := v, seenSettings := true }
  | none =>
    if c.seenSettings then c
    else { c with maxConc := defaultMaxConcurrentStreams, seenSettings := true }

/-! ## GOAWAY (C18) -/

inductive AbortKind where
  /-- `streamID <= last`: left alone -/
  | keep
  /-- stream 1 and a non-NO error code: aborted with a non-retryable error -/
  | failFirst
  /-- aborted with `errClientConnGotGoAway` -/
  | retryable
deriving Repr, DecidableEq

/-- The per-stream decision of the loop in `setGoAway` (`code` is the merged code). -/
def classify (last code id : Nat) : AbortKind :=
  if id ≤ last then .keep
  else if id = 1 ∧ code ≠ 0 then .failFirst
  else .retryable

/-- The code merge of `setGoAway`: an earlier non-NO code is kept. -/
def mergeCode (c : CC) (code : Nat) : Nat :=
  if c.goAway && c.goAwayCode != 0 then c.goAwayCode else code

/-- `setGoAway`: new state and the verdict for every stream of `cc.streams`. -/
def CC.setGoAway (c : CC) (last code : Nat) : CC × List (Nat × AbortKind) :=
  let mc := mergeCode c code
  ({ c with goAway := true, goAwayCode := mc, goAwayLast := last },
   c.streams.map (fun id => (id, classify last mc id)))

inductive ErrK where
  | gotGoAway
  | unusable
  | refusedStream
  | other
deriving Repr, DecidableEq

/-- `canRetryError` -/
def canRetryError : ErrK → Bool
  | .gotGoAway => true
  | .unusable => true
  | .refusedStream => true
  | .other => false

inductive BodyK where
  /-- `req.Body == nil || req.Body == http.NoBody` -/
  | none
  /-- body without `GetBody` -/
  | once
  /-- body with `GetBody` -/
  | replayable
deriving Repr, DecidableEq

/-- `shouldRetryRequest` returns a request (true) or an error (false); `GetBody` itself is
assumed to succeed. -/
def shouldRetry (b : BodyK) (e : ErrK) : Bool :=
  if !canRetryError e then false
  else match b with
    | .none => true
    | .replayable => true
    | .once => e == .unusable

/-! ## Trace events -/

inductive DoneK where
  | status
  | canceled
  | rst
  | goAwayConn
  | goAwayFirst
  | noReplay
  | gotGoAway
  | connErr
  | other
deriving Repr, DecidableEq

inductive Ev where
  | req (r : Nat) (b : BodyK)
  | cancel (r : Nat)
  | pick (r c : Nat) (fresh : Bool)
  | hdr (c id r : Nat) (es : Bool)
  | cend (c id : Nat)
  | crst (c id code : Nat)
  | ping (c : Nat)
  | sresp (c id : Nat) (es : Bool)
  | sdata (c id : Nat)
  | srst (c id code : Nat)
  | setMax (c : Nat) (m : Option Nat)
  | pingAck (c : Nat)
  | goaway (c last code : Nat)
  | sclose (c : Nat)
  | done (r : Nat) (k : DoneK)
  | body (r : Nat) (k : DoneK)
  | snap (c n : Nat) (res : Option Nat) (pr mx nx : Nat)
  | eol
  | other
deriving Repr, DecidableEq

/-! ## Wire-level state of one connection -/

structure WConn where
  lastID : Nat := 0
  /-- streams that are open or half-closed on the wire -/
  opn : List Nat := []
  cEnd : List Nat := []
  sEnd : List Nat := []
  /-- streams the server has reset -/
  sRst : List Nat := []
  limit : Nat := initialMaxConcurrentStreams
  greeted : Bool := false
  /-- requests the pool assigned to this connection whose HEADERS are not yet on the wire -/
  pend : List Nat := []
  goneAway : Bool := false
deriving Repr, DecidableEq

def WConn.upd (w : WConn) (c : Nat) : Ev → WConn
  | .pick r c' _ => if c' = c then { w with pend := w.pend ++ [r] } else w
  | .cancel r => { w with pend := w.pend.erase r }
  | .hdr c' id r es =>
    if c' = c then
      { w with lastID := id, opn := id :: w.opn, pend := w.pend.erase r,
               cEnd := if es then id :: w.cEnd else w.cEnd }
    else w
  | .cend c' id =>
    if c' = c then
      { w with cEnd := id :: w.cEnd, opn := if id ∈ w.sEnd then w.opn.erase id else w.opn }
    else w
  | .crst c' id _ => if c' = c then { w with opn := w.opn.erase id } else w
  | .srst c' id _ => if c' = c then { w with opn := w.opn.erase id, sRst := id :: w.sRst } else w
  | .sresp c' id es =>
    if c' = c ∧ es then
      { w with sEnd := id :: w.sEnd, opn := if id ∈ w.cEnd then w.opn.erase id else w.opn }
    else w
  | .sdata c' id =>
    if c' = c then
      { w with sEnd := id :: w.sEnd, opn := if id ∈ w.cEnd then w.opn.erase id else w.opn }
    else w
  | .setMax c' m =>
    if c' = c then
      { w with greeted := true,
               limit := match m with
                 | some v => v
                 | none => if w.greeted then w.limit else defaultMaxConcurrentStreams }
    else w
  | .goaway c' _ _ => if c' = c then { w with goneAway := true } else w
  | .sclose c' => if c' = c then { w with opn := [] } else w
  | _ => w

/-- Wire state of connection `c` after the trace `tr` (the specification-level reading). -/
def wireState (c : Nat) (tr : List Ev) : WConn := tr.foldl (fun w e => w.upd c e) {}

/-- What C17 / C18 demand of one event in the wire state `ws` (state before the event). -/
def wireCheck (strict : Bool) (ws : Nat → WConn) : Ev → Bool
  | .hdr c id _ _ =>
    decide (id % 2 = 1) && decide ((ws c).lastID < id) &&
      (!strict || decide ((ws c).opn.length + 1 ≤ (ws c).limit)) &&
      !(ws c).goneAway
  | .pick _ c _ =>
    (strict || decide ((ws c).opn.length + (ws c).pend.length < (ws c).limit)) &&
      !(ws c).goneAway
  | _ => true

/-! ## Lock-step monitor (C17) -/

structure Mon where
  strict : Bool := false
  w : Nat → WConn := fun _ => {}
  cc : Nat → CC := fun _ => {}
  /-- requests reserved on the connection and not yet let through, in arrival order; the head
  holds `reqHeaderMu` (it has given up its reservation and sits in `awaitOpenSlotForStreamLocked`) -/
  q : Nat → List Nat := fun _ => []
  wantPing : Option Nat := none
  /-- connections on which `cc.cond.Broadcast()` ran in the current step (a stream was forgotten
  or a PING ack cleared pending resets): the head waiter has re-evaluated its condition -/
  woke : List Nat := []

def setAt {α : Type} (f : Nat → α) (c : Nat) (v : α) : Nat → α := fun k => if k = c then v else f k

def Mon.init (strict : Bool) : Mon :=
  { strict := strict, cc := fun _ => { strict := strict } }

/-- The next head of the queue takes `reqHeaderMu`: `decrStreamReservationsLocked`. -/
def enterHead (cc : CC) (q : List Nat) : CC := if q.isEmpty then cc else cc.decrReservation

/-- Lock-step part of one event: `none` = the mechanism model cannot do what the trace shows. -/
def Mon.mech (m : Mon) : Ev → Except String Mon
  | .pick r c _ =>
    let cc := m.cc c
    match cc.reserve with
    | (false, _) => .error s!"pick: model of conn {c} cannot take a new request"
    | (true, cc') =>
      let q := m.q c
      -- reqHeaderMu is free iff nobody is queued
      let cc'' := if q.isEmpty then cc'.decrReservation else cc'
      .ok { m with cc := setAt m.cc c cc'', q := setAt m.q c (q ++ [r]) }
  | .cancel r =>
    -- a queued request gives its reservation back in cleanupWriteRequest (cs.ID == 0), also when
    -- it had already consumed it in writeRequest; if it held reqHeaderMu the next one enters
    .ok { m with
      cc := fun c =>
        let q := m.q c
        if r ∈ q then
          let cc1 := (m.cc c).decrReservation
          let q' := q.erase r
          if q.head? = some r then enterHead cc1 q' else cc1
        else m.cc c,
      q := fun c => (m.q c).erase r }
  | .hdr c id r _ =>
    let cc := m.cc c
    let q := m.q c
    if !(r ∈ q) then .error s!"hdr: request {r} was not assigned to conn {c}"
    else if cc.await != .go then .error s!"hdr: model of conn {c} does not open a stream (count {cc.count} limit {cc.maxConc})"
    else if cc.nextID != id then .error s!"hdr: stream id {id}, model expects {cc.nextID}"
    else
      let q' := q.erase r
      .ok { m with cc := setAt m.cc c (enterHead cc.addStream q'), q := setAt m.q c q' }
  | .cend c id =>
    let cc := m.cc c
    -- the stream leaves cc.streams once both directions have ended
    if id ∈ (m.w c).sEnd then .ok { m with cc := setAt m.cc c (cc.forget id), woke := c :: m.woke } else .ok m
  | .crst c id code =>
    let cc := m.cc c
    if !(id ∈ cc.streams) then
      -- A stream the peer has ended / reset while the request body was still open:
      -- `writeRequest` selects between `peerClosed`, `abort`, `ctx.Done` (several ready), so an
      -- RST_STREAM(NO_ERROR) — or (CANCEL) when the context is done as well — may follow the
      -- server's reset. Frames of the stream were read, so no reset is left pending.
      if id < cc.nextID ∧ (id ∈ (m.w c).sEnd ∨ id ∈ (m.w c).sRst) then .ok m
      else .error s!"crst: stream {id} is not in the model of conn {c}"
    else if code = 8 then
      let (cc', ping) := cc.noteCancelReset id
      .ok { m with cc := setAt m.cc c (cc'.forget id), wantPing := if ping then some c else m.wantPing,
                   woke := c :: m.woke }
    else .ok { m with cc := setAt m.cc c (cc.forget id), woke := c :: m.woke }
  | .ping c =>
    if m.wantPing = some c then .ok { m with wantPing := none }
    else .error s!"ping: model of conn {c} sends no PING here"
  | .sresp c id es =>
    let cc := (m.cc c).frameRead true
    let gone := es && id ∈ cc.streams && id ∈ (m.w c).cEnd
    let cc := if gone then cc.forget id else cc
    .ok { m with cc := setAt m.cc c cc, woke := if gone then c :: m.woke else m.woke }
  | .sdata c id =>
    let cc := (m.cc c).frameRead true
    let gone := id ∈ cc.streams && id ∈ (m.w c).cEnd
    let cc := if gone then cc.forget id else cc
    .ok { m with cc := setAt m.cc c cc, woke := if gone then c :: m.woke else m.woke }
  | .srst c id _ =>
    let cc := (m.cc c).frameRead false
    let gone := id ∈ cc.streams
    let cc := if gone then cc.forget id else cc
    .ok { m with cc := setAt m.cc c cc, woke := if gone then c :: m.woke else m.woke }
  | .setMax c v => .ok { m with cc := setAt m.cc c ((m.cc c).settings v) }
  | .pingAck c =>
    .ok { m with cc := setAt m.cc c (m.cc c).pingAck,
                 woke := if (m.cc c).pendingResets > 0 then c :: m.woke else m.woke }
  | .snap c n res pr mx nx =>
    let cc := m.cc c
    if cc.streams.length != n then .error s!"snapshot conn {c}: {n} streams, model {cc.streams.length}"
    else if (match res with | some v => cc.reserved != v | none => false) then
      .error s!"snapshot conn {c}: reserved differs, model {cc.reserved}"
    else if cc.pendingResets != pr then .error s!"snapshot conn {c}: {pr} pending resets, model {cc.pendingResets}"
    else if cc.maxConc != mx then .error s!"snapshot conn {c}: limit {mx}, model {cc.maxConc}"
    else if cc.nextID != nx then .error s!"snapshot conn {c}: next id {nx}, model {cc.nextID}"
    else .ok m
  | .eol =>
    match m.wantPing with
    | some c => .error s!"model of conn {c} bundles a PING with the RST_STREAM; none was seen"
    | none =>
      -- progress at quiescence: a head waiter that was woken in this step and whose condition
      -- holds in the model must have been let through
      match m.woke.find? (fun c => !(m.q c).isEmpty && (m.cc c).await == .go) with
      | some c => .error s!"conn {c}: a request still waits although streams+pending resets {(m.cc c).streams.length + (m.cc c).pendingResets} < limit {(m.cc c).maxConc}"
      | none => .ok { m with woke := [] }
  | _ => .ok m

/-- One event: property check on the wire state, lock-step check, then both updates. -/
def Mon.ev (m : Mon) (e : Ev) : Except String Mon :=
  if !wireCheck m.strict m.w e then .error "property"
  else
    match m.mech e with
    | .error s => .error s
    | .ok m' => .ok { m' with strict := m.strict, w := fun c => (m.w c).upd c e }

def Mon.run (m : Mon) : List Ev → Except String Mon
  | [] => .ok m
  | e :: es =>
    match m.ev e with
    | .error s => .error s
    | .ok m' => m'.run es

/-- The whole-trace verdict used by the soundness theorems. -/
def accepts (strict : Bool) (tr : List Ev) : Bool :=
  match (Mon.init strict).run tr with
  | .ok _ => true
  | .error _ => false


/-! ## GOAWAY trace monitor (C18) -/

structure RSt where
  body : BodyK := .none
  /-- connections that carried HEADERS of this request, newest first -/
  conns : List Nat := []
  /-- pool selections so far -/
  picks : Nat := 0
  /-- selections the request is entitled to: the first one, one per retryable abort of a
  replayable request, one per connection that went away while the request was queued on it -/
  credits : Nat := 1
  /-- RoundTrip has returned -/
  returned : Bool := false
  canceled : Bool := false
deriving Repr, DecidableEq

/-- What a GOAWAY / connection close obliges the client to do before the step is over. -/
inductive Owe where
  /-- the client abandons the stream (RST_STREAM) -/
  | rst (c id : Nat)
  /-- the request is handed to the pool again -/
  | retry (r : Nat)
  /-- RoundTrip of the request returns this error -/
  | fail (r : Nat) (k : DoneK)
deriving Repr, DecidableEq

structure S18 where
  strict : Bool := false
  w : Nat → WConn := fun _ => {}
  /-- per connection: (stream id, request) -/
  owner : Nat → List (Nat × Nat) := fun _ => []
  /-- merged GOAWAY code per connection -/
  gaCode : Nat → Nat := fun _ => 0
  rs : Nat → RSt := fun _ => {}
  owe : List Owe := []
  /-- (conn, stream): streams a GOAWAY of the current step left alone -/
  keep : List (Nat × Nat) := []

def ownerOf (l : List (Nat × Nat)) (id : Nat) : Option Nat :=
  match l.find? (fun p => p.1 == id) with
  | some p => some p.2
  | none => none

/-- The merged code `setGoAway` will store (wire-level reading: an earlier non-NO code wins). -/
def S18.merged (s : S18) (c code : Nat) : Nat :=
  if (s.w c).goneAway && s.gaCode c != 0 then s.gaCode c else code

/-- Obligations created by GOAWAY(last, code) on `c` for one in-flight stream. -/
def goAwayOwes (s : S18) (c last mc id : Nat) : List Owe :=
  match classify last mc id with
  | .keep => []
  | k =>
    .rst c id ::
    (match ownerOf (s.owner c) id with
     | none => []
     | some r =>
       let q := s.rs r
       if q.returned || q.canceled then []
       else if k = .failFirst then [.fail r .goAwayFirst]
       else if shouldRetry q.body .gotGoAway then [.retry r]
       else [.fail r .noReplay])

/-- Obligations created by the server closing `c` for one in-flight stream. -/
def closeOwes (s : S18) (c id : Nat) : List Owe :=
  if id ∈ (s.w c).sEnd then []
  else
    match ownerOf (s.owner c) id with
    | none => []
    | some r =>
      let q := s.rs r
      if q.returned || q.canceled then []
      else [.fail r (if (s.w c).goneAway then .goAwayConn else .connErr)]

def S18.oweUpd (s : S18) : Ev → List Owe
  | .goaway c last code =>
    s.owe ++ ((s.w c).opn.map (goAwayOwes s c last (s.merged c code))).flatten
  | .sclose c => s.owe ++ ((s.w c).opn.map (closeOwes s c)).flatten
  | .crst c id _ => s.owe.erase (.rst c id)
  | .pick r _ _ => s.owe.erase (.retry r)
  | .done r k => s.owe.erase (.fail r k)
  | _ => s.owe

def bump (rs : Nat → RSt) (l : List Nat) : Nat → RSt :=
  fun r =>
    let q := rs r
    if r ∈ l then { q with credits := q.credits + l.count r } else q

/-- requests granted one more pool selection by a GOAWAY -/
def goAwayGrants (s : S18) (c last mc : Nat) : List Nat :=
  ((s.w c).opn.map (goAwayOwes s c last mc)).flatten.filterMap
    (fun o => match o with | .retry r => some r | _ => none)

def S18.upd (s : S18) (e : Ev) : S18 :=
  { strict := s.strict
    w := fun c => (s.w c).upd c e
    owner := match e with
      | .hdr c id r _ => setAt s.owner c ((id, r) :: s.owner c)
      | _ => s.owner
    gaCode := match e with
      | .goaway c _ code => setAt s.gaCode c (s.merged c code)
      | _ => s.gaCode
    -- (kept inside the structure literal so that each update is computed once, not per lookup)
    rs := match e with
      | .req r b => setAt s.rs r { s.rs r with body := b }
      | .cancel r => setAt s.rs r { s.rs r with canceled := true }
      | .pick r _ _ => setAt s.rs r { s.rs r with picks := (s.rs r).picks + 1 }
      | .hdr c _ r _ => setAt s.rs r { s.rs r with conns := c :: (s.rs r).conns }
      | .done r _ => setAt s.rs r { s.rs r with returned := true }
      | .goaway c last code =>
        bump s.rs (goAwayGrants s c last (s.merged c code) ++ (s.w c).pend)
      | .sclose c => bump s.rs (s.w c).pend
      | _ => s.rs
    owe := s.oweUpd e
    keep := match e with
      | .goaway c last code =>
        s.keep ++ ((s.w c).opn.filter (fun id => classify last (s.merged c code) id == .keep)).map (fun id => (c, id))
      | .eol => []
      | _ => s.keep }

def errKind : DoneK → Bool
  | .goAwayConn => true
  | .goAwayFirst => true
  | .noReplay => true
  | .gotGoAway => true
  | .connErr => true
  | _ => false

/-- What C18 demands of one event in state `s` (state before the event). -/
def check18 (s : S18) : Ev → Bool
  | .hdr c id r es =>
    wireCheck s.strict s.w (.hdr c id r es) && !((s.rs r).conns.contains c)
  | .pick r c f =>
    wireCheck s.strict s.w (.pick r c f) && decide ((s.rs r).picks < (s.rs r).credits)
  | .crst c id _ => !(s.keep.contains (c, id))
  | .done r k => !errKind k || s.owe.contains (.fail r k)
  | .eol => s.owe.isEmpty
  | _ => true

def specState18 (strict : Bool) (tr : List Ev) : S18 := tr.foldl S18.upd { strict := strict }

def why18 (s : S18) : Ev → String
  | .hdr c id r _ => s!"HEADERS for request {r} (stream {id}) on conn {c}: conn after GOAWAY / reused for this request / ids / limit"
  | .pick r c _ => s!"pool selection of conn {c} for request {r}: picks {(s.rs r).picks} credits {(s.rs r).credits} goneAway {(s.w c).goneAway}"
  | .crst c id _ => s!"client reset stream {id} on conn {c} although GOAWAY covered it"
  | .done r _ => s!"RoundTrip of request {r} returned an error that no GOAWAY / close explains"
  | .eol => s!"{s.owe.length} obligations open at the end of the step, first: {repr s.owe.head?}"
  | _ => "?"

def run18 (s : S18) : List Ev → Except String S18
  | [] => .ok s
  | e :: es => if check18 s e then run18 (s.upd e) es else .error (why18 s e)

def accepts18 (strict : Bool) (tr : List Ev) : Bool :=
  match run18 { strict := strict } tr with
  | .ok _ => true
  | .error _ => false

end NetVerif.Model.H2Client
