/-
C39 — html.Tokenizer (html/token.go): the *cursor discipline* and the
*buffer machine*.

Part A (cursor discipline).  A tokenizer run is a list of raw spans
`(rawStart, rawEnd)` into the input.  `Tokenizer.Next` starts every token with
`z.raw.start = z.raw.end` and `Raw()` returns `z.buf[z.raw.start:z.raw.end]`.
`Chained`/`slice` state that discipline over absolute offsets; the monitor
(`stepTok`, `stepEnd`) is what the V-tie runs on every recorded token.

Part B (buffer machine).  `readByte`'s arithmetic: the buffer-growth rule
(`2*d > c → cap := 2*c`), the compaction `raw := (0, d)`, the increment and the
`maxBuf` test, as a small transition system over the counters
`cap / raw.start / raw.end / len(buf)`.

The tokenizer's classification logic is modelled separately in
`Model/HtmlTokExact.lean`.
-/
namespace NetVerif.Model.HtmlTok

/-! ## Part A: spans and the monitor -/

/-- `inp[a:b]` -/
def slice (inp : List Nat) (a b : Nat) : List Nat := (inp.drop a).take (b - a)

/-- Each span starts where the previous one ended (`z.raw.start = z.raw.end` at
the top of `Next`) and is not reversed. -/
def Chained : Nat → List (Nat × Nat) → Prop
  | _, [] => True
  | c, (a, b) :: rest => a = c ∧ a ≤ b ∧ Chained b rest

/-- Where the cursor is after the run. -/
def finalCursor : Nat → List (Nat × Nat) → Nat
  | c, [] => c
  | _, (_, b) :: rest => finalCursor b rest

/-- The raw byte strings of a run. -/
def raws (inp : List Nat) (spans : List (Nat × Nat)) : List (List Nat) :=
  spans.map (fun s => slice inp s.1 s.2)

/-- Token type codes as in token.go (`ErrorToken = 0 … DoctypeToken = 6`). -/
def ttError : Nat := 0
def ttText : Nat := 1
def ttStartTag : Nat := 2
def ttEndTag : Nat := 3
def ttSelfClosing : Nat := 4
def ttComment : Nat := 5
def ttDoctype : Nat := 6

/-- An observed token: type code, raw bytes, and `cap(z.buf)` after the call. -/
structure Tok where
  ty : Nat
  raw : List Nat
  cap : Nat
deriving Repr

/-- `stripPrefix p l = some r ↔ l = p ++ r`. -/
def stripPrefix : List Nat → List Nat → Option (List Nat)
  | [], l => some l
  | _ :: _, [] => none
  | a :: p, b :: l => if a = b then stripPrefix p l else none

def isLetter (c : Nat) : Bool := (97 ≤ c && c ≤ 122) || (65 ≤ c && c ≤ 90)

/-- The documented exception: what an `ErrorToken` may carry as `Raw()` is
either nothing or a tag that was still open when the input ended:
`<` letter … or `</` letter … -/
def openTagLike (r : List Nat) : Bool :=
  match r with
  | 60 :: c :: rest => isLetter c || (c == 47 && (match rest with | d :: _ => isLetter d | [] => false))
  | _ => false

/-- Upper bound on `len(Raw())` under `SetMaxBuf mb` (mb > 0). -/
def rawBound (mb : Nat) (_t : Tok) : Nat := mb

/-- Upper bound on `cap(z.buf)` under `SetMaxBuf mb` (mb > 0). -/
def capBound (mb : Nat) : Nat := max 4096 (4 * mb)

/-- Monitor state: the configured limit and the not-yet-covered input. -/
structure Mon where
  maxBuf : Nat
  rest : List Nat
deriving Repr

/-- One non-error token. -/
def stepTok (m : Mon) (t : Tok) : Except String Mon :=
  if t.ty = ttError ∨ t.ty > ttDoctype then .error "bad-token-type" else
  if t.raw = [] then .error "empty-raw" else
  match stripPrefix t.raw m.rest with
  | none => .error "raw-is-not-next-input-slice"
  | some rest' =>
    if m.maxBuf > 0 ∧ t.raw.length > rawBound m.maxBuf t then .error "raw-exceeds-maxbuf" else
    if m.maxBuf > 0 ∧ t.cap > capBound m.maxBuf then .error "cap-exceeds-bound" else
    .ok { m with rest := rest' }

def stepToks (m : Mon) : List Tok → Except String Mon
  | [] => .ok m
  | t :: ts => match stepTok m t with
    | .error e => .error e
    | .ok m' => stepToks m' ts

/-- How the run ended: `Err()` of the final ErrorToken. -/
inductive EndKind | eof | maxbuf | other
deriving DecidableEq, Repr

/-- The final ErrorToken: its `Raw()` (`errRaw`) and what is left behind it
(`Buffered()` plus what the reader still holds). At EOF nothing may be left. -/
def stepEnd (m : Mon) (k : EndKind) (errRaw tail : List Nat) : Except String Unit :=
  if m.rest ≠ errRaw ++ tail then .error "input-not-covered" else
  if errRaw ≠ [] ∧ openTagLike errRaw = false then .error "error-raw-not-an-open-tag" else
  if k = .eof ∧ tail ≠ [] then .error "eof-with-unread-input" else
  if k = .maxbuf ∧ m.maxBuf = 0 then .error "maxbuf-error-without-limit" else
  if m.maxBuf > 0 ∧ errRaw.length > m.maxBuf then .error "error-raw-exceeds-maxbuf" else
  .ok ()

/-- A whole recorded run. -/
def checkRun (mb : Nat) (inp : List Nat) (toks : List Tok) (k : EndKind) (errRaw tail : List Nat) : Bool :=
  match stepToks { maxBuf := mb, rest := inp } toks with
  | .error _ => false
  | .ok m => match stepEnd m k errRaw tail with
    | .error _ => false
    | .ok _ => true

/-! ## Part B: the buffer machine of `readByte` -/

def initCap : Nat := 4096

/-- `2*d > c` -/
def growCond (c d : Nat) : Bool := decide (2 * d > c)
/-- `make([]byte, d, 2*c)` -/
def growCap (c : Nat) : Nat := 2 * c
/-- `z.maxBuf > 0 && z.raw.end-z.raw.start >= z.maxBuf` (evaluated after `z.raw.end++`) -/
def exceededCond (maxBuf rawStart rawEnd : Nat) : Bool :=
  decide (maxBuf > 0 ∧ rawEnd - rawStart ≥ maxBuf)

/-- Counters of the tokenizer's buffer. `exceeded` is `z.err == ErrBufferExceeded`;
`readByte` (ops `refill`, `advance`) is only called with `z.err == nil` — its
documented precondition, which `maxBuf_statement_holds` (Proofs/C39) establishes
for the exact model of `Next`. -/
structure Buf where
  cap : Nat
  start : Nat
  stop : Nat
  len : Nat
  exceeded : Bool
deriving Repr, DecidableEq

def Buf.init : Buf := { cap := initCap, start := 0, stop := 0, len := 0, exceeded := false }

inductive BufOp
  | refill (n : Nat)   -- buffer exhausted; compaction/growth; the reader delivers n ≥ 1 bytes
  | advance            -- `x := z.buf[z.raw.end]; z.raw.end++; maxBuf test`
  | unread (k : Nat)   -- `z.raw.end -= k` (re-consume)
  | newToken           -- `z.raw.start = z.raw.end` at the top of Next
deriving Repr

/-- Capacity after the compaction/growth step of `readByte`. -/
def capAfter (b : Buf) : Nat :=
  if growCond b.cap (b.stop - b.start) then growCap b.cap else b.cap

/-- Is the op enabled (no pending error for reads, no out-of-range index, reader contract). -/
def BufOp.enabled (b : Buf) : BufOp → Bool
  | .refill n => !b.exceeded && decide (b.stop ≥ b.len ∧ 1 ≤ n ∧ (b.stop - b.start) + n ≤ capAfter b)
  | .advance => !b.exceeded && decide (b.stop < b.len)
  | .unread k => decide (b.start + k ≤ b.stop)
  | .newToken => true

def Buf.step (mb : Nat) (b : Buf) : BufOp → Buf
  | .refill n =>
    let d := b.stop - b.start
    { b with cap := capAfter b, start := 0, stop := d, len := d + n }
  | .advance =>
    { b with stop := b.stop + 1, exceeded := exceededCond mb b.start (b.stop + 1) }
  | .unread k => { b with stop := b.stop - k }
  | .newToken => { b with start := b.stop }

/-- Run a list of ops; `none` when an op is not enabled. -/
def Buf.run (mb : Nat) (b : Buf) : List BufOp → Option Buf
  | [] => some b
  | op :: ops => if op.enabled b then Buf.run mb (b.step mb op) ops else none

end NetVerif.Model.HtmlTok
