import NetVerif.Model.Flow
import NetVerif.Model.WriteSched
/-!
C08 / C09: outbound flow control of an HTTP/2 endpoint (server: `serverConn`,
client: `ClientConn`) against the windows advertised by its peer.

Three layers, all executable and core-Lean only:

* `Ledger` — the *specification*: per connection and per open stream the credit the peer has
  granted (initial window, SETTINGS_INITIAL_WINDOW_SIZE deltas, WINDOW_UPDATEs) and the DATA
  payload sent, kept as two separate never-decreasing/never-mixed accumulators, plus the
  current SETTINGS_MAX_FRAME_SIZE. `TraceOK` says that every DATA frame of a wire trace keeps
  `sent ≤ credit` on its stream and on the connection at the moment it is sent, fits the frame
  size limit and is on an open stream.
* `Mon` — the *monitor* run by the driver on recorded wire traces (peer's view of the windows,
  unbounded `Int`; windows may go negative through SETTINGS).
* `Send` — the *mechanism model* of the Go code: `outflow` counters (int32, `Flow.Outflow`
  add/take/available with the conn link), `FrameWriteRequest.Consume`, `processSetting`
  (`MAX_FRAME_SIZE`, `processSettingInitialWindowSize`), `processWindowUpdate`, `newStream`,
  and for the client `awaitFlowControl`, `processSettingsNoWrite`, `processWindowUpdate`.
  Every step returns the wire events it produces.

A wire trace is a `List Ev` in wire order as seen by the peer: the peer's own frames
(`settings`, `wu`, `sopen`/`sclose` where the peer opens/resets) interleaved with the
endpoint's frames (`data`, `sclose` for RST_STREAM / END_STREAM on HEADERS, `stop`).
-/
namespace NetVerif.Model.SendWin
open NetVerif.Model.Flow

-- `maxWindow` (2^31-1) is `Flow.maxWindow`.
/-- RFC 9113 §6.5.2 bounds of SETTINGS_MAX_FRAME_SIZE (`Setting.Valid`). -/
def minMaxFrame : Int := 16384
def maxMaxFrame : Int := 16777215
/-- `initialMaxFrameSize`. -/
def initialMaxFrame : Int := 16384
/-- `initialWindowSize`. -/
def initialWindow : Int := 65535

/-! ### small association tables keyed by stream id (lookup = first match) -/

abbrev Tbl := List (Nat × Int)

def tget : Tbl → Nat → Option Int
  | [], _ => none
  | (k, v) :: t, sid => if k = sid then some v else tget t sid

/-- replace the value of `sid` (no-op when absent) -/
def tset : Tbl → Nat → Int → Tbl
  | [], _, _ => []
  | (k, v) :: t, sid, x => if k = sid then (k, x) :: t else (k, v) :: tset t sid x

/-- remove every entry of `sid` -/
def tdel : Tbl → Nat → Tbl
  | [], _ => []
  | (k, v) :: t, sid => if k = sid then tdel t sid else (k, v) :: tdel t sid

/-- add `d` to every value -/
def taddAll : Tbl → Int → Tbl
  | [], _ => []
  | (k, v) :: t, d => (k, v + d) :: taddAll t d

/-! ### wire events -/

inductive Ev where
  /-- peer SETTINGS (not an ack); MAX_FRAME_SIZE (if present) precedes INITIAL_WINDOW_SIZE -/
  | settings (mfs iw : Option Int)
  /-- peer WINDOW_UPDATE (`sid = 0`: connection) -/
  | wu (sid : Nat) (inc : Int)
  /-- a stream is opened (server: peer HEADERS; client: the endpoint's request HEADERS) -/
  | sopen (sid : Nat)
  /-- a stream ends without DATA: RST_STREAM in either direction, END_STREAM on HEADERS -/
  | sclose (sid : Nat)
  /-- DATA frame written by the endpoint under test -/
  | data (sid len : Nat) (fin : Bool)
  /-- the endpoint ended the connection (GOAWAY with an error code, close) -/
  | stop
  deriving DecidableEq, Repr

def validMfs (v : Int) : Bool := decide (minMaxFrame ≤ v ∧ v ≤ maxMaxFrame)
def validIw (v : Int) : Bool := decide (0 ≤ v ∧ v ≤ maxWindow)

/-! ### specification ledger -/

structure Ledger where
  connCredit : Int := initialWindow
  connSent : Int := 0
  initWin : Int := initialWindow
  maxFrame : Int := initialMaxFrame
  credit : Tbl := []     -- open streams: credit granted so far
  sent : Tbl := []       -- open streams: DATA payload sent so far
  dead : Bool := false   -- peer violated the protocol / connection ended: no further credit
  deriving Repr

def Ledger.init : Ledger := {}

/-- effect of the peer's SETTINGS on the ledger -/
def Ledger.settings (L : Ledger) (mfs iw : Option Int) : Ledger :=
  let r : Option Ledger :=
    match mfs with
    | none => some L
    | some v => if validMfs v then some { L with maxFrame := v } else none
  match r with
  | none => { L with dead := true }
  | some L1 =>
    match iw with
    | none => L1
    | some v =>
      if validIw v then { L1 with initWin := v, credit := taddAll L1.credit (v - L1.initWin) }
      else { L1 with dead := true }

def Ledger.step (L : Ledger) : Ev → Ledger
  | .settings mfs iw => if L.dead then L else L.settings mfs iw
  | .wu sid inc =>
    if L.dead ∨ inc < 0 then L
    else if sid = 0 then { L with connCredit := L.connCredit + inc }
    else match tget L.credit sid with
      | some c => { L with credit := tset L.credit sid (c + inc) }
      | none => L
  | .sopen sid =>
    if L.dead then L else { L with credit := (sid, L.initWin) :: L.credit, sent := (sid, 0) :: L.sent }
  | .sclose sid => { L with credit := tdel L.credit sid, sent := tdel L.sent sid }
  | .data sid len fin =>
    let L1 := { L with connSent := L.connSent + len }
    if fin then { L1 with credit := tdel L.credit sid, sent := tdel L.sent sid }
    else match tget L.sent sid with
      | some s => { L1 with sent := tset L.sent sid (s + len) }
      | none => L1
  | .stop => { L with dead := true }

/-- What the property demands of one event in ledger state `L`. -/
def Ledger.Sat (L : Ledger) : Ev → Prop
  | .data sid len _ =>
    (len : Int) ≤ L.maxFrame ∧
    ∃ c s, tget L.credit sid = some c ∧ tget L.sent sid = some s ∧
      (0 < len → s + len ≤ c ∧ L.connSent + len ≤ L.connCredit)
  | .sopen sid => L.dead = false → tget L.credit sid = none
  | _ => True

/-- The property on a whole trace: every event is admissible when it happens. -/
def TraceOK (L : Ledger) : List Ev → Prop
  | [] => True
  | e :: t => L.Sat e ∧ TraceOK (L.step e) t

/-! ### monitor (peer's view) -/

structure Mon where
  connWin : Int := initialWindow
  initWin : Int := initialWindow
  maxFrame : Int := initialMaxFrame
  win : Tbl := []
  dead : Bool := false
  deriving Repr

def Mon.init : Mon := {}

def Mon.settings (m : Mon) (mfs iw : Option Int) : Mon :=
  let r : Option Mon :=
    match mfs with
    | none => some m
    | some v => if validMfs v then some { m with maxFrame := v } else none
  match r with
  | none => { m with dead := true }
  | some m1 =>
    match iw with
    | none => m1
    | some v =>
      if validIw v then { m1 with initWin := v, win := taddAll m1.win (v - m1.initWin) }
      else { m1 with dead := true }

def Mon.step (m : Mon) : Ev → Except String Mon
  | .settings mfs iw => .ok (if m.dead then m else m.settings mfs iw)
  | .wu sid inc =>
    if m.dead ∨ inc < 0 then .ok m
    else if sid = 0 then .ok { m with connWin := m.connWin + inc }
    else match tget m.win sid with
      | some w => .ok { m with win := tset m.win sid (w + inc) }
      | none => .ok m
  | .sopen sid =>
    if m.dead then .ok m
    else match tget m.win sid with
      | some _ => .error s!"stream {sid} opened twice"
      | none => .ok { m with win := (sid, m.initWin) :: m.win }
  | .sclose sid => .ok { m with win := tdel m.win sid }
  | .data sid len fin =>
    match tget m.win sid with
    | none => .error s!"DATA on stream {sid} which is not open"
    | some w =>
      if (len : Int) > m.maxFrame then .error s!"DATA of {len} bytes on stream {sid} exceeds SETTINGS_MAX_FRAME_SIZE {m.maxFrame}"
      else if 0 < len ∧ (len : Int) > w then .error s!"DATA of {len} bytes on stream {sid} exceeds the stream window {w}"
      else if 0 < len ∧ (len : Int) > m.connWin then .error s!"DATA of {len} bytes on stream {sid} exceeds the connection window {m.connWin}"
      else
        let m1 := { m with connWin := m.connWin - len }
        .ok (if fin then { m1 with win := tdel m.win sid } else { m1 with win := tset m.win sid (w - len) })
  | .stop => .ok { m with dead := true }

def Mon.run (m : Mon) : List Ev → Except String Mon
  | [] => .ok m
  | e :: t => match m.step e with
    | .ok m' => m'.run t
    | .error x => .error x

/-! ### mechanism model -/

/-- The endpoint's own send-side state. `wins` are the `flow.n` of the streams in
`sc.streams` / `cc.streams`, each linked to the connection-level `conn`. -/
structure Send where
  conn : Int := initialWindow        -- sc.flow.n / cc.flow.n (after the constructor's add(initialWindowSize))
  initWin : Int := initialWindow     -- sc.initialStreamSendWindowSize / cc.initialWindowSize
  maxFrame : Int := initialMaxFrame  -- sc.maxFrameSize / cc.maxFrameSize
  wins : Tbl := []
  dead : Bool := false               -- connection error raised: nothing more is written
  deriving Repr

def Send.init : Send := {}

/-- the stream's `outflow` value -/
def Send.flow (s : Send) (w : Int) : Outflow := ⟨w, some s.conn⟩

/-- `stream.flow.available()` (0 for an unknown stream) -/
def Send.available (s : Send) (sid : Nat) : Int :=
  match tget s.wins sid with
  | some w => (s.flow w).available
  | none => 0

/-- `flow.take(n)` on an open stream, written back into the state; `none` = Go panic. -/
def Send.take (s : Send) (sid : Nat) (w n : Int) : Option Send :=
  match (s.flow w).take n with
  | none => none
  | some g => some { s with conn := g.conn.getD s.conn, wins := tset s.wins sid g.n }

/-- Outcome of `FrameWriteRequest.Consume(limit)` on a queued DATA frame of `len` payload bytes:
the size of the piece to write now (`none`: nothing can be written; the frame stays queued). -/
def Send.consume (s : Send) (sid len : Nat) (limit : Int) : Option (Nat × Send) :=
  match tget s.wins sid with
  | none => none
  | some w =>
    if len = 0 then some (0, s) else
    let a0 := (s.flow w).available
    let a1 := if limit < a0 then limit else a0
    let allowed := if s.maxFrame < a1 then s.maxFrame else a1
    if allowed ≤ 0 then none
    else if (len : Int) > allowed then (s.take sid w allowed).map (fun s' => (allowed.toNat, s'))
    else (s.take sid w len).map (fun s' => (len, s'))

/-- `clientStream.awaitFlowControl(maxBytes)` once the wait is over (`none`: keeps waiting). -/
def Send.await (s : Send) (sid : Nat) (maxBytes : Nat) : Option (Nat × Send) :=
  match tget s.wins sid with
  | none => none
  | some w =>
    let a := (s.flow w).available
    if a > 0 then
      let t1 := if a > maxBytes then (maxBytes : Int) else a
      let t2 := if t1 > s.maxFrame then s.maxFrame else t1
      (s.take sid w t2).map (fun s' => (t2.toNat, s'))
    else none

/-- `add(growth)` on every stream: new table and whether every add succeeded.
(`strict = true`: server — a failed add aborts the loop with a connection error, the windows are
never used again; `strict = false`: client — the result of `cs.flow.add(delta)` is ignored.) -/
def addEach (conn : Int) : Tbl → Int → Tbl × Bool
  | [], _ => ([], true)
  | (k, v) :: t, d =>
    let r := (Outflow.mk v (some conn)).add d
    let (t', ok) := addEach conn t d
    ((k, r.2.n) :: t', r.1 && ok)

inductive Role where
  | server | client
  deriving DecidableEq, Repr

/-- Actions on the mechanism: the peer's frames, and the endpoint's own attempts to send. -/
inductive Act where
  | settings (mfs iw : Option Int)
  | wu (sid : Nat) (inc : Int)
  | sopen (sid : Nat)
  /-- the stream goes away without DATA (reset by either side, handler/body done via HEADERS) -/
  | sclose (sid : Nat)
  /-- server: the scheduler calls `Consume(limit)` on a queued DATA frame with `len` payload bytes;
      client: `writeRequestBody` has `len` bytes (`len = 0`: the final empty END_STREAM frame) -/
  | send (sid len : Nat) (fin : Bool) (limit : Int)
  deriving Repr

/-- `processSetting` for MAX_FRAME_SIZE then INITIAL_WINDOW_SIZE. Returns the reaction events. -/
def Send.settings (r : Role) (s : Send) (mfs iw : Option Int) : Send × List Ev :=
  let s1 : Option Send :=
    match mfs with
    | none => some s
    | some v => if validMfs v then some { s with maxFrame := v } else none
  match s1 with
  | none => ({ s with dead := true }, [.stop])
  | some s1 =>
    match iw with
    | none => (s1, [])
    | some v =>
      if validIw v then
        let growth := v - s1.initWin
        let (t, ok) := addEach s1.conn s1.wins growth
        match r with
        | .server =>
          if ok then ({ s1 with initWin := v, wins := t }, [])
          else ({ s1 with initWin := v, wins := t, dead := true }, [.stop])
        | .client => ({ s1 with initWin := v, wins := t }, [])
      else ({ s1 with dead := true }, [.stop])

/-- `processWindowUpdate` (the zero-increment errors come from the frame parser). -/
def Send.windowUpdate (s : Send) (sid : Nat) (inc : Int) : Send × List Ev :=
  if sid = 0 then
    if inc = 0 then ({ s with dead := true }, [.stop])
    else
      let r := (Outflow.mk s.conn none).add inc
      if r.1 then ({ s with conn := r.2.n }, []) else ({ s with dead := true }, [.stop])
  else
    if inc = 0 then ({ s with wins := tdel s.wins sid }, [.sclose sid])
    else match tget s.wins sid with
      | none => (s, [])
      | some w =>
        let r := (s.flow w).add inc
        if r.1 then ({ s with wins := tset s.wins sid r.2.n }, [])
        else ({ s with wins := tdel s.wins sid }, [.sclose sid])

/-- One action: new state and the wire events in order (the peer's frame first, then the
endpoint's reaction). After a connection error nothing is written any more. -/
def Send.step (r : Role) (s : Send) : Act → Send × List Ev
  | .settings mfs iw =>
    if s.dead then (s, [.settings mfs iw])
    else let (s', evs) := s.settings r mfs iw; (s', .settings mfs iw :: evs)
  | .wu sid inc =>
    if s.dead ∨ inc < 0 ∨ inc > maxWindow then (s, [.wu sid inc])   -- the increment is a 31-bit field
    else let (s', evs) := s.windowUpdate sid inc; (s', .wu sid inc :: evs)
  | .sopen sid =>
    if s.dead then (s, [.sopen sid])
    else match tget s.wins sid with
      | some _ => (s, [])           -- not a new stream: no HEADERS-opening event
      | none =>
        -- newStream: st.flow.conn = &sc.flow; st.flow.add(initial)
        let r := (Outflow.mk 0 (some s.conn)).add s.initWin
        ({ s with wins := (sid, r.2.n) :: s.wins }, [.sopen sid])
  | .sclose sid => ({ s with wins := tdel s.wins sid }, [.sclose sid])
  | .send sid len fin limit =>
    if s.dead then (s, [])
    else match r with
      | .server =>
        match s.consume sid len limit with
        | none => (s, [])
        | some (n, s') =>
          let whole := decide (n = len)
          let f := fin && whole
          (if f then { s' with wins := tdel s'.wins sid } else s', [.data sid n f])
      | .client =>
        if len = 0 then
          match tget s.wins sid with
          | none => (s, [])
          | some _ => (if fin then { s with wins := tdel s.wins sid } else s, [.data sid 0 fin])
        else match s.await sid len with
          | none => (s, [])
          | some (n, s') =>
            let f := fin && decide (n = len)
            (if f then { s' with wins := tdel s'.wins sid } else s', [.data sid n f])

def Send.run (r : Role) (s : Send) : List Act → Send × List Ev
  | [] => (s, [])
  | a :: t =>
    let (s1, e1) := s.step r a
    let (s2, e2) := s1.run r t
    (s2, e1 ++ e2)

/-! ### link to the write-scheduler model (C12) -/

/-- The flow-control environment the scheduler model sees. -/
def Send.toEnv (s : Send) : NetVerif.Model.WriteSched.Env :=
  { maxFrame := s.maxFrame, connWin := s.conn, win := fun sid => (tget s.wins sid).getD 0 }

end NetVerif.Model.SendWin
