import NetVerif.Model.H2Frame
/-!
Model of the HTTP/2 server connection logic of `http2/server.go` (C15, C16). Core Lean only.

1. `classify`        — decision logic that keeps a request away from the user handler:
                       `Framer.readMetaFrame` validity (re-using the C07 model of the emit
                       callback and `checkPseudos`), the pseudo-header rules of
                       `serverConn.newWriterAndRequest` + `httpcommon.NewServerRequest`, and
                       `checkValidHTTP2RequestHeaders`.
2. `settingsVerdict` — `Setting.Valid` + the `processSettings` size / duplicate rule.
3. `Sched`           — exact mechanism model of `scheduleHandler` / `handlerDone`
                       (`curHandlers`, `unstartedHandlers`, `advMaxStreams`).
4. `Srv`             — the serve loop's stream / handler accounting driven by client frames and
                       handler completions (`processHeaders`, `processResetStream`, `processData`,
                       `processSettings`, `processPing`, `closeStream`, graceful / error GOAWAY).
5. trace monitors    — `MonA` … `MonE`: the clauses of the C15 statement over recorded events.
6. `CtlQ`            — control-frame queue accounting (`queuedControlFrames`, C16).

Strings are byte lists (`List Nat`).
-/
namespace NetVerif.Model.H2Server
open NetVerif.Model.H2Frame (Field metaEmit MetaState checkPseudos)

/-! ### constants (compared with the regenerated `Gen.C15` in Proofs/C15) -/

def maxQueuedControlFrames : Nat := 10000
def defaultMaxStreams : Nat := 250
/-- `len(sc.unstartedHandlers) > int(4*sc.advMaxStreams)` -/
def unstartedFactor : Nat := 4
/-- `goAwayTimeout` as patched by the package's tests (export_common_test.go `GoAwayTimeout`), ms. -/
def goAwayTimeoutTestMs : Nat := 25

/-- lower-cased `connHeaders` of server.go -/
def connHeadersLower : List (List Nat) :=
  [[99, 111, 110, 110, 101, 99, 116, 105, 111, 110],                                       -- connection
   [107, 101, 101, 112, 45, 97, 108, 105, 118, 101],                                       -- keep-alive
   [112, 114, 111, 120, 121, 45, 99, 111, 110, 110, 101, 99, 116, 105, 111, 110],          -- proxy-connection
   [116, 114, 97, 110, 115, 102, 101, 114, 45, 101, 110, 99, 111, 100, 105, 110, 103],     -- transfer-encoding
   [117, 112, 103, 114, 97, 100, 101]]                                                     -- upgrade

def sTe : List Nat := [116, 101]                                   -- te
def sTrailers : List Nat := [116, 114, 97, 105, 108, 101, 114, 115] -- trailers
def sHost : List Nat := [104, 111, 115, 116]                       -- host
def sMethod : List Nat := [109, 101, 116, 104, 111, 100]           -- method
def sScheme : List Nat := [115, 99, 104, 101, 109, 101]            -- scheme
def sAuthority : List Nat := [97, 117, 116, 104, 111, 114, 105, 116, 121] -- authority
def sPath : List Nat := [112, 97, 116, 104]                        -- path
def sProtocol : List Nat := [112, 114, 111, 116, 111, 99, 111, 108] -- protocol
def sCONNECT : List Nat := [67, 79, 78, 78, 69, 67, 84]            -- CONNECT
def sHttp : List Nat := [104, 116, 116, 112]                       -- http
def sHttps : List Nat := [104, 116, 116, 112, 115]                 -- https
def sHEAD : List Nat := [72, 69, 65, 68]                           -- HEAD

/-! ### 1. request classification -/

inductive ReqClass where
  | ok    -- reaches the user handler
  | mw    -- malformed on the wire: stream error from Framer.readMetaFrame
  | mp    -- malformed pseudo-header set: stream error from newWriterAndRequest
  | cs    -- connection-specific fields: checkValidHTTP2RequestHeaders fails (400 handler)
deriving DecidableEq, Repr, Inhabited

/-- `readMetaFrame` with an unlimited header list: `invalid != nil` or `checkPseudos` fails. -/
def wireInvalid (fs : List Field) : Bool :=
  let st := fs.foldl metaEmit { remainSize := 1099511627776 }
  st.invalid || !checkPseudos st.fields

/-- index of the first field at which the emit callback of `readMetaFrame` sets `invalid`. -/
def firstInvalidFrom : List Field → MetaState → Nat → Option Nat
  | [], _, _ => none
  | f :: rest, st, i =>
    let st' := metaEmit st f
    if st'.invalid then some i else firstInvalidFrom rest st' (i + 1)

def firstInvalid (fs : List Field) : Option Nat :=
  firstInvalidFrom fs { remainSize := 1099511627776 } 0

/-- The block is sent as HEADERS + `ncont` CONTINUATION frames, fragment `i` carrying the fields
`[i*n/(ncont+1), (i+1)*n/(ncont+1))`. `readMetaFrame` turns an invalid field into a CONNECTION
error when another fragment follows the one that completed it ("close the connection after any
CONTINUATION frame following an invalid header"). -/
def invalidBeforeLastFragment (fs : List Field) (ncont : Nat) : Bool :=
  match firstInvalid fs with
  | some i => decide (i < ncont * fs.length / (ncont + 1))
  | none => false

/-- `MetaHeadersFrame.PseudoValue(pseudo)`. -/
def pseudoValue (p : List Nat) : List Field → List Nat
  | [] => []
  | f :: rest =>
    if !f.isPseudo then [] else if f.name.drop 1 == p then f.value else pseudoValue p rest

/-- `MetaHeadersFrame.RegularFields()`. -/
def regularFields (fs : List Field) : List Field := fs.dropWhile Field.isPseudo

/-- `header.Get("Host")` on the header map built from the (lower-case) regular fields. -/
def hostHeader (fs : List Field) : List Nat :=
  match (regularFields fs).find? (fun f => f.name == sHost) with
  | some f => f.value
  | none => []

/-- the pseudo-header checks of `newWriterAndRequest` (extended CONNECT disabled, the default)
followed by `NewServerRequest`'s `userinfo_in_authority` / `bad_path` checks.
`url.ParseRequestURI` is not modelled (the generated paths are accepted by it). -/
def pseudoInvalid (fs : List Field) : Bool :=
  let method := pseudoValue sMethod fs
  let scheme := pseudoValue sScheme fs
  let authority := pseudoValue sAuthority fs
  let path := pseudoValue sPath fs
  let protocol := pseudoValue sProtocol fs
  if protocol != [] then true
  else if method == sCONNECT then
    -- rp.Protocol == "" here
    (path != [] || scheme != [] || authority == [])
  else if method == [] || path == [] || (scheme != sHttps && scheme != sHttp) then true
  else
    let auth := if authority == [] then hostHeader fs else authority
    if auth.contains 64 then true                             -- '@', scheme is http or https here
    else !(path.head? == some 47 || path == [42])             -- '/' or "*"

/-- `len(te) > 0 && (len(te) > 1 || (te[0] != "trailers" && te[0] != ""))` is false. -/
def teOK : List (List Nat) → Bool
  | [] => true
  | [v] => v == sTrailers || v == []
  | _ => false

/-- `checkValidHTTP2RequestHeaders(req.Header) != nil`. -/
def connSpecific (fs : List Field) : Bool :=
  let regs := regularFields fs
  regs.any (fun f => connHeadersLower.contains f.name) ||
    !teOK ((regs.filter (fun f => f.name == sTe)).map (·.value))

def sContentLength : List Nat :=
  [99, 111, 110, 116, 101, 110, 116, 45, 108, 101, 110, 103, 116, 104]   -- content-length

def isDigits (v : List Nat) : Bool := !v.isEmpty && v.all (fun b => decide (48 ≤ b) && decide (b ≤ 57))

/-- the values of the request's content-length fields, in order -/
def clValues (fs : List Field) : List (List Nat) :=
  ((regularFields fs).filter (fun f => f.name == sContentLength)).map (·.value)

/-- RFC 9113 8.1.1 / RFC 9110 8.6: the content-length of a request is malformed when a value is not
a number, when values differ, or when it is non-zero although the request ends with its HEADERS
frame (no DATA can follow). `newWriterAndRequest` does NOT test any of this: it reads the first
value only, only when the body is open, and maps an unparsable value to 0 (`classify` is unaffected;
see Proofs/C15 `malformed_full_false`). -/
def clBad (fs : List Field) (endStream : Bool) : Bool :=
  let vs := clValues fs
  vs.any (fun v => !isDigits v) ||
    (match vs with | [] => false | v :: rest => rest.any (fun w => w != v)) ||
    (endStream && vs.any (fun v => v.any (fun b => b != 48)))

def classify (fs : List Field) : ReqClass :=
  if wireInvalid fs then .mw
  else if pseudoInvalid fs then .mp
  else if connSpecific fs then .cs
  else .ok

/-! ### 2. SETTINGS validity -/

/-- `Setting.Valid()` plus `processSetting`'s NO_RFC7540_PRIORITIES rule: 0 = valid, else the
connection error code. -/
def settingVerdict (id val : Nat) : Nat :=
  if id = 2 then (if val = 0 ∨ val = 1 then 0 else 1)
  else if id = 4 then (if val > 2147483647 then 3 else 0)
  else if id = 5 then (if val < 16384 ∨ val > 16777215 then 1 else 0)
  else if id = 8 then (if val = 0 ∨ val = 1 then 0 else 1)
  else if id = 9 then (if val > 1 then 1 else 0)
  else 0

def hasDupIds : List (Nat × Nat) → Bool
  | [] => false
  | p :: rest => rest.any (fun q => q.1 == p.1) || hasDupIds rest

/-- verdict of a whole non-ACK SETTINGS frame: `parseSettingsFrame`, then `processSettings`. -/
def settingsVerdict (ps : List (Nat × Nat)) : Nat :=
  -- parseSettingsFrame: the first SETTINGS_INITIAL_WINDOW_SIZE value is range-checked by the framer
  if (match ps.find? (fun p => p.1 == 4) with | some p => decide (p.2 > 2147483647) | none => false) then 3
  else if ps.length > 100 ∨ hasDupIds ps then 1
  else match ps.find? (fun p => settingVerdict p.1 p.2 != 0) with
    | some p => settingVerdict p.1 p.2
    | none => 0

/-! ### 3. scheduleHandler / handlerDone -/

inductive HKind where
  | user      -- sc.handler.ServeHTTP
  | internal  -- new400Handler / handleHeaderListTooLong
deriving DecidableEq, Repr, Inhabited

structure QEntry where
  sid : Nat
  kind : HKind
deriving DecidableEq, Repr, Inhabited

/-- The scheduler state of `serverConn`. `live` abstracts `sc.streams[id] != nil`. -/
structure Sched where
  adv : Nat                    -- advMaxStreams
  cur : Nat := 0               -- curHandlers
  queue : List QEntry := []    -- unstartedHandlers
deriving Repr, DecidableEq

inductive SchedResult where
  | started               -- `go sc.runHandler`
  | queued
  | tooMany               -- ConnectionError(ErrCodeEnhanceYourCalm)
deriving DecidableEq, Repr

/-- `serverConn.scheduleHandler`. -/
def Sched.schedule (s : Sched) (e : QEntry) : Sched × SchedResult :=
  if s.cur < s.adv then ({ s with cur := s.cur + 1 }, .started)
  else if s.queue.length > unstartedFactor * s.adv then (s, .tooMany)
  else ({ s with queue := s.queue ++ [e] }, .queued)

/-- The `for` loop of `serverConn.handlerDone` over the remaining queue: returns the new
`curHandlers`, the entries started and the entries left (`sc.unstartedHandlers[i:]`). -/
def doneLoop (adv : Nat) (live : Nat → Bool) : Nat → List QEntry → Nat × List QEntry × List QEntry
  | cur, [] => (cur, [], [])
  | cur, e :: rest =>
    if !live e.sid then doneLoop adv live cur rest
    else if cur ≥ adv then (cur, [], e :: rest)
    else
      let (c, st, left) := doneLoop adv live (cur + 1) rest
      (c, e :: st, left)

/-- `serverConn.handlerDone` (requires `cur > 0`: a handler goroutine has just finished). -/
def Sched.done (s : Sched) (live : Nat → Bool) : Sched × List QEntry :=
  let (c, st, left) := doneLoop s.adv live (s.cur - 1) s.queue
  ({ s with cur := c, queue := left }, st)

/-! ### 4. the serve loop's stream and handler accounting -/

structure Strm where
  sid : Nat
  remoteClosed : Bool        -- stateHalfClosedRemote
  head : Bool := false       -- the request method is HEAD: the response HEADERS carry END_STREAM
deriving DecidableEq, Repr, Inhabited

/-- What the server is predicted to put on the wire / start, per step. -/
inductive Out where
  | rst (sid code : Nat)
  | goaway (code : Nat)
  | start (sid : Nat)          -- user handler goroutine started
  | pingAck (d : Nat)
  | settingsAck
  | closed                     -- the server closed the connection
deriving DecidableEq, Repr, Inhabited

structure Srv where
  sched : Sched
  unacked : Nat := 1                 -- sc.unackedSettings (the server's initial SETTINGS)
  maxSid : Nat := 0                  -- sc.maxClientStreamID
  streams : List Strm := []          -- sc.streams
  running : List Nat := []           -- user handlers running
  dead : Bool := false               -- goAwayCode != NO_ERROR: frames are ignored from now on
  graceful : Bool := false           -- GOAWAY(NO_ERROR) sent
  shutdownIn : Option Nat := none    -- sc.shutdownTimer, remaining fake ms
  closed : Bool := false             -- serve() returned
deriving Repr, DecidableEq

def Srv.init (adv : Nat) : Srv := { sched := { adv := adv } }

def Srv.hasStream (s : Srv) (sid : Nat) : Bool := s.streams.any (fun t => t.sid == sid)
def Srv.findStream (s : Srv) (sid : Nat) : Option Strm := s.streams.find? (fun t => t.sid == sid)
/-- `closeStream`: `delete(sc.streams, id)`, `curClientStreams--`. -/
def Srv.closeStream (s : Srv) (sid : Nat) : Srv :=
  { s with streams := s.streams.filter (fun t => t.sid != sid) }

/-- a connection error: GOAWAY(code), or — when a graceful GOAWAY was already sent — only
`goAwayCode` changes and nothing is written (`serverConn.goAway`). -/
def Srv.connError (s : Srv) (code : Nat) : Srv × List Out :=
  ({ s with dead := true }, if s.graceful then [] else [.goaway code])

/-- the stream-id part of `serverConn.state`: is `sid` idle? (no server push in this model) -/
def Srv.isIdle (s : Srv) (sid : Nat) : Bool :=
  if sid % 2 == 1 then decide (sid > s.maxSid) else true

/-- what an internal (400) handler leaves on the wire besides its response: after END_STREAM on a
stream the client has not ended, `wroteFrame` sends RST_STREAM(NO_ERROR). -/
def Srv.internalOuts (s : Srv) (sid : Nat) : List Out :=
  match s.findStream sid with
  | some st => if st.remoteClosed then [] else [.rst sid 0]
  | none => []

/-- run the handlers taken from the queue: user handlers start (event), internal handlers run to
completion at once (response written, stream closed) which frees their slot again.
`fuel` bounds the chain (each round consumes a queue entry). -/
def Srv.drain : Nat → Srv → Srv × List Out
  | 0, s => (s, [])
  | fuel + 1, s =>
    match s.sched.queue with
    | [] => (s, [])
    | e :: rest =>
      if !s.hasStream e.sid then Srv.drain fuel { s with sched := { s.sched with queue := rest } }
      else if s.sched.cur ≥ s.sched.adv then (s, [])
      else match e.kind with
        | .user =>
          let (s', o) := Srv.drain fuel
            { s with sched := { s.sched with queue := rest, cur := s.sched.cur + 1 }, running := s.running ++ [e.sid] }
          (s', .start e.sid :: o)
        | .internal =>
          let (s', o) := Srv.drain fuel ({ s with sched := { s.sched with queue := rest } }.closeStream e.sid)
          (s', s.internalOuts e.sid ++ o)

/-- `handlerDone` after a handler goroutine has returned. -/
def Srv.handlerDone (s : Srv) : Srv × List Out :=
  Srv.drain (s.sched.queue.length + 1) { s with sched := { s.sched with cur := s.sched.cur - 1 } }

/-- `scheduleHandler` for an accepted request. -/
def Srv.schedule (s : Srv) (sid : Nat) (k : HKind) : Srv × List Out :=
  match s.sched.schedule ⟨sid, k⟩ with
  | (sc, .started) =>
    match k with
    | .user => ({ s with sched := sc, running := s.running ++ [sid] }, [.start sid])
    | .internal =>
      -- the 400 handler writes its response, the stream closes, the goroutine returns
      let (s', o) := Srv.handlerDone ({ s with sched := sc }.closeStream sid)
      (s', s.internalOuts sid ++ o)
  | (sc, .queued) => ({ s with sched := sc }, [])
  | (_, .tooMany) => s.connError 11

/-- `processHeaders` (and the framer's stream error for a malformed block). -/
def Srv.onHeaders (s : Srv) (sid : Nat) (es : Bool) (cls : ReqClass) (hasPseudo : Bool) (head : Bool := false) (early : Bool := false) : Srv × List Out :=
  if cls = .mw ∧ early then s.connError 1
  else if cls = .mw then
    -- StreamError from ReadFrame: resetStream; an existing stream is closed once the RST is written
    (s.closeStream sid, [.rst sid 1])
  else if s.graceful ∧ sid > s.maxSid then (s, [])
  else if sid % 2 ≠ 1 then s.connError 1
  else match s.findStream sid with
    | some st =>
      if st.remoteClosed then (s.closeStream sid, [.rst sid 5])
      else if !es ∨ hasPseudo then (s.closeStream sid, [.rst sid 1])
      else ({ s with streams := s.streams.map (fun t => if t.sid == sid then { t with remoteClosed := true } else t) }, [])
    | none =>
      if sid ≤ s.maxSid then s.connError 1
      else
        let s1 : Srv := { s with maxSid := sid }
        if s1.streams.length + 1 > s1.sched.adv then
          (s1, [.rst sid (if s1.unacked = 0 then 1 else 7)])
        else if cls = .mp then (s1, [.rst sid 1])   -- newStream, error from newWriterAndRequest, RST closes it
        else
          let s2 : Srv := { s1 with streams := s1.streams ++ [(⟨sid, es, head⟩ : Strm)] }
          s2.schedule sid (if cls = ReqClass.ok then HKind.user else HKind.internal)

def Srv.onRst (s : Srv) (sid : Nat) : Srv × List Out :=
  if sid = 0 then s.connError 1
  else if s.graceful ∧ sid > s.maxSid then (s, [])
  else if s.isIdle sid then s.connError 1
  else (s.closeStream sid, [])

def Srv.onData (s : Srv) (sid : Nat) (es : Bool) : Srv × List Out :=
  if s.graceful ∧ sid > s.maxSid then (s, [])
  else if sid = 0 ∨ s.isIdle sid then s.connError 1
  else match s.findStream sid with
    | none => (s, [.rst sid 5])
    | some st =>
      if st.remoteClosed then (s.closeStream sid, [.rst sid 5])
      else if es then
        ({ s with streams := s.streams.map (fun t => if t.sid == sid then { t with remoteClosed := true } else t) }, [])
      else (s, [])

def Srv.onWindowUpdate (s : Srv) (sid inc : Nat) : Srv × List Out :=
  if sid = 0 then (if inc = 0 then s.connError 1 else (s, []))
  else if inc = 0 then (s.closeStream sid, [.rst sid 1])
  else if s.graceful ∧ sid > s.maxSid then (s, [])
  else if s.isIdle sid then s.connError 1
  else (s, [])

def Srv.onPriority (s : Srv) (sid dep : Nat) : Srv × List Out :=
  if sid = 0 then s.connError 1
  else if s.graceful ∧ sid > s.maxSid then (s, [])
  else if sid = dep then (s.closeStream sid, [.rst sid 1])
  else (s, [])

/-- a user handler returned (`panicked`: with http.ErrAbortHandler). -/
def Srv.onHandlerExit (s : Srv) (sid : Nat) (panicked : Bool) : Srv × List Out :=
  if !s.running.contains sid then (s, []) else   -- only a running handler can return
  let s : Srv := { s with running := s.running.erase sid }
  match s.findStream sid with
  | none => s.handlerDone
  | some st =>
    let o : List Out :=
      if panicked then [.rst sid 2] else if st.remoteClosed then [] else [.rst sid 0]
    let (s', o') := (s.closeStream sid).handlerDone
    (s', o ++ o')

/-- a user handler wrote / flushed: for a HEAD request the response HEADERS end the stream
(`isHeadResp`), which closes it (after RST_STREAM(NO_ERROR) if the client has not ended it). -/
def Srv.onHandlerWrite (s : Srv) (sid : Nat) : Srv × List Out :=
  match s.findStream sid with
  | some st => if st.head then (s.closeStream sid, if st.remoteClosed then [] else [.rst sid 0]) else (s, [])
  | none => (s, [])

/-- client-side events the accounting reacts to -/
inductive In where
  | headers (sid : Nat) (es : Bool) (cls : ReqClass) (hasPseudo : Bool) (head : Bool) (early : Bool)
  | handlerWrite (sid : Nat)
  | data (sid : Nat) (es : Bool)
  | rst (sid : Nat)
  | ping (d : Nat)
  | pingAck
  | settings (verdict : Nat)
  | settingsAck
  | windowUpdate (sid inc : Nat)
  | priority (sid dep : Nat)
  | goaway
  | handlerExit (sid : Nat) (panicked : Bool)
  | sleep (ms : Nat)
deriving DecidableEq, Repr, Inhabited

/-- arm `shutdownTimer` (end of a serve-loop iteration). -/
def Srv.armTimer (s : Srv) : Srv :=
  if (s.dead ∨ (s.graceful ∧ s.streams = [])) ∧ s.shutdownIn = none then
    { s with shutdownIn := some goAwayTimeoutTestMs } else s

def Srv.stepCore (s : Srv) : In → Srv × List Out
  | .headers sid es cls hp hd early => if s.dead then (s, []) else s.onHeaders sid es cls hp hd early
  | .handlerWrite sid => s.onHandlerWrite sid
  | .data sid es => if s.dead then (s, []) else s.onData sid es
  | .rst sid => if s.dead then (s, []) else s.onRst sid
  | .ping d => if s.dead then (s, []) else (s, [.pingAck d])
  | .pingAck => (s, [])
  | .settings v =>
    if s.dead then (s, []) else if v = 0 then (s, [.settingsAck]) else s.connError v
  | .settingsAck =>
    if s.dead then (s, []) else if s.unacked = 0 then s.connError 1 else ({ s with unacked := s.unacked - 1 }, [])
  | .windowUpdate sid inc => if s.dead then (s, []) else s.onWindowUpdate sid inc
  | .priority sid dep => if s.dead then (s, []) else s.onPriority sid dep
  | .goaway =>
    if s.dead then (s, []) else if s.graceful then (s, []) else ({ s with graceful := true }, [.goaway 0])
  | .handlerExit sid p => s.onHandlerExit sid p
  | .sleep ms =>
    match s.shutdownIn with
    | some r => if ms ≥ r then ({ s with closed := true, streams := [] }, [.closed]) else ({ s with shutdownIn := some (r - ms) }, [])
    | none => (s, [])

def Srv.step (s : Srv) (i : In) : Srv × List Out :=
  if s.closed then (s, []) else
  let (s', o) := s.stepCore i
  (s'.armTimer, o)

/-! ### 5. trace monitors -/

inductive Ev where
  -- client → server
  | cHeaders (sid : Nat) (es : Bool) (cls : ReqClass) (hasPseudo : Bool)
  | cData (sid : Nat) (es : Bool)
  | cRst (sid : Nat)
  | cPing (d : Nat)
  | cPingAck
  | cSettings (verdict : Nat)
  | cSettingsAck
  | cWindowUpdate (sid inc : Nat)
  | cPriority (sid dep : Nat)
  | cGoaway
  -- server → client
  | sSettings (mcs : Option Nat)
  | sSettingsAck
  | sHeaders (sid : Nat) (es : Bool)
  | sData (sid : Nat) (es : Bool)
  | sRst (sid code : Nat)
  | sPingAck (d : Nat)
  | sGoaway (code : Nat)
  | sClosed
  | sOther
  -- handlers
  | hStart (sid : Nat)
  | hFinish (sid : Nat)
  -- harness
  | blk | unblk
  | quiesce           -- the bubble is quiescent: everything the server was going to do has happened
deriving DecidableEq, Repr, Inhabited

/-- A: no HEADERS / DATA from the server on a stream after it sent END_STREAM or RST_STREAM for
it or received RST_STREAM for it. State: the streams closed in one of these ways. -/
def Ev.closes : Ev → Nat → Bool
  | .sHeaders s true, sid => s == sid
  | .sData s true, sid => s == sid
  | .sRst s _, sid => s == sid
  | .cRst s, sid => s == sid
  | _, _ => false

def Ev.srvStreamFrame : Ev → Nat → Bool
  | .sHeaders s _, sid => s == sid
  | .sData s _, sid => s == sid
  | _, _ => false

def stepA (closed : List Nat) : Ev → Option (List Nat)
  | .sHeaders sid es => if closed.contains sid then none else some (if es then sid :: closed else closed)
  | .sData sid es => if closed.contains sid then none else some (if es then sid :: closed else closed)
  | .sRst sid _ => some (sid :: closed)
  | .cRst sid => some (sid :: closed)
  | _ => some closed

/-- B: running handlers never exceed the advertised SETTINGS_MAX_CONCURRENT_STREAMS. -/
structure MonB where
  running : Nat := 0
  adv : Nat := 0
deriving Repr, DecidableEq

def stepB (m : MonB) : Ev → Option MonB
  | .sSettings (some n) => some { m with adv := n }
  | .hStart _ => if m.running < m.adv then some { m with running := m.running + 1 } else none
  | .hFinish _ => if m.running = 0 then none else some { m with running := m.running - 1 }
  | _ => some m

/-- liveness obligations are only checked while the server has neither sent GOAWAY nor closed,
and while the client is reading. -/
structure Live where
  quiet : Bool := false    -- a GOAWAY was sent or the connection closed
  blocked : Bool := false
deriving Repr, DecidableEq

def Live.step (l : Live) : Ev → Live
  | .sGoaway _ => { l with quiet := true }
  | .sClosed => { l with quiet := true }
  | .blk => { l with blocked := true }
  | .unblk => { l with blocked := false }
  | _ => l

def Live.due (l : Live) : Bool := !l.quiet && !l.blocked

/-- C: every non-ACK PING is answered exactly once with the same data. -/
structure MonC where
  live : Live := {}
  outstanding : List Nat := []
deriving Repr, DecidableEq

def stepC (m : MonC) (e : Ev) : Option MonC :=
  let m := { m with live := m.live.step e }
  match e with
  | .cPing d => some { m with outstanding := m.outstanding ++ [d] }
  | .sPingAck d => if m.outstanding.contains d then some { m with outstanding := m.outstanding.erase d } else none
  | .quiesce => if m.live.due && !m.outstanding.isEmpty then none else some m
  | _ => some m

/-- D: every SETTINGS frame is acknowledged: an ACK always answers a not yet acknowledged SETTINGS
frame, and at a live quiescent point there are as many ACKs as valid SETTINGS frames
(`needToSendSettingsAck` is a counter). -/
structure MonD where
  live : Live := {}
  nset : Nat := 0
  nack : Nat := 0
deriving Repr, DecidableEq

def stepD (m : MonD) (e : Ev) : Option MonD :=
  let m := { m with live := m.live.step e }
  match e with
  | .cSettings 0 => some { m with nset := m.nset + 1 }
  | .sSettingsAck => if m.nack + 1 > m.nset then none else some { m with nack := m.nack + 1 }
  | .quiesce => if m.live.due && m.nack != m.nset then none else some m
  | _ => some m

/-- E: requests with malformed / connection-specific fields never reach the handler; malformed
ones are reset by the next quiescent point; connection-specific ones are answered by the
server itself (400) or reset — eventually (`final`). -/
structure MonE where
  live : Live := {}
  seen : List Nat := []        -- streams on which a request HEADERS was seen
  noHandler : List Nat := []   -- … whose request is not `.ok`
  started : List Nat := []
  due : List Nat := []         -- malformed requests still to be reset
deriving Repr, DecidableEq

def stepE (m : MonE) (e : Ev) : Option MonE :=
  let m := { m with live := m.live.step e }
  match e with
  | .cHeaders sid _ cls _ =>
    if m.seen.contains sid then some m
    else
      let m := { m with seen := sid :: m.seen }
      match cls with
      | .ok => some m
      | .cs => some { m with noHandler := sid :: m.noHandler }
      | _ => some { m with noHandler := sid :: m.noHandler,
                           due := if m.live.quiet then m.due else sid :: m.due }
  | .hStart sid =>
    if m.noHandler.contains sid || !m.seen.contains sid || m.started.contains sid then none
    else some { m with started := sid :: m.started }
  | .sRst sid code => some (if code = 1 ∨ code = 7 then { m with due := m.due.filter (· != sid) } else m)
  | .sGoaway _ => some { m with due := [] }
  | .sClosed => some { m with due := [] }
  | .quiesce => if m.live.due && !m.due.isEmpty then none else some m
  | _ => some m

/-- the product monitor -/
structure Mon where
  a : List Nat := []
  b : MonB := {}
  c : MonC := {}
  d : MonD := {}
  e : MonE := {}
deriving Repr, DecidableEq

def Mon.step (m : Mon) (ev : Ev) : Option Mon := do
  let a ← stepA m.a ev
  let b ← stepB m.b ev
  let c ← stepC m.c ev
  let d ← stepD m.d ev
  let e ← stepE m.e ev
  pure ⟨a, b, c, d, e⟩

def Mon.run : Mon → List Ev → Option Mon
  | m, [] => some m
  | m, ev :: rest => match m.step ev with
    | none => none
    | some m' => Mon.run m' rest

/-- which component rejects (for the driver's message) -/
def Mon.why (m : Mon) (ev : Ev) : String :=
  if (stepA m.a ev).isNone then "frame-after-close"
  else if (stepB m.b ev).isNone then "handler-bound"
  else if (stepC m.c ev).isNone then "ping"
  else if (stepD m.d ev).isNone then "settings-ack"
  else if (stepE m.e ev).isNone then "malformed-request"
  else "?"

/-! ### 6. control-frame queue accounting (C16) -/

/-- `queuedControlFrames` over the serve loop: `push` = `writeFrame` of a control frame,
`pop` = `scheduleFrameWrite` popping one, `check` = the test at the end of a loop iteration
(`> maxQueuedControlFrames` → serve returns, the connection is closed). -/
inductive QOp where
  | push | pop | check
deriving DecidableEq, Repr

structure CtlQ where
  queued : Nat := 0
  sinceCheck : Nat := 0    -- ghost: pushes since the last check
  closed : Bool := false
deriving Repr, DecidableEq

def CtlQ.step (q : CtlQ) : QOp → CtlQ
  | .push => if q.closed then q else { q with queued := q.queued + 1, sinceCheck := q.sinceCheck + 1 }
  | .pop => if q.closed then q else { q with queued := q.queued - 1 }
  | .check => if q.closed then q
              else if q.queued > maxQueuedControlFrames then { q with closed := true }
              else { q with sinceCheck := 0 }

def CtlQ.run (q : CtlQ) (ops : List QOp) : CtlQ := ops.foldl CtlQ.step q


/-! ### 7. C16: what is observed of one fuzzed connection -/

inductive Outcome where
  | served     -- still open and answering after the bound
  | goaway     -- the server sent GOAWAY
  | closed     -- the server closed the connection
  | stuck      -- neither serving nor ended within the bound
  | panic      -- serverConn.serve panicked
  | deadlock   -- synctest reported a deadlocked bubble
deriving DecidableEq, Repr, Inhabited

/-- one white-box sample taken at a quiescent point -/
structure Sample where
  queued : Nat        -- sc.queuedControlFrames
  handlers : Nat      -- sc.curHandlers
  running : Nat       -- user handlers running (counted by the harness)
  alive : Bool        -- serve() has not returned
deriving DecidableEq, Repr, Inhabited

def Sample.ok (adv : Nat) (x : Sample) : Bool :=
  (!x.alive || decide (x.queued ≤ maxQueuedControlFrames)) && decide (x.handlers ≤ adv) && decide (x.running ≤ adv)

structure CaseObs where
  adv : Nat
  samples : List Sample
  outcome : Outcome
  maxQueued : Nat
  maxHandlers : Nat
deriving DecidableEq, Repr, Inhabited

def Outcome.acceptable : Outcome → Bool
  | .served => true
  | .goaway => true
  | .closed => true
  | _ => false

/-- the C16 monitor over the observations of one case -/
def CaseObs.accept (c : CaseObs) : Bool :=
  c.outcome.acceptable && c.samples.all (Sample.ok c.adv) &&
    decide (c.maxQueued ≤ maxQueuedControlFrames) && decide (c.maxHandlers ≤ c.adv)

end NetVerif.Model.H2Server
