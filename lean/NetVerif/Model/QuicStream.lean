/-
Executable white-box model of the QUIC stream state machine and of the
connection-level flow-control counters (properties C19, C20, C32):

  quic/stream.go      Read, Write (incl. both lock-free fast paths), Flush, CloseRead,
                      CloseWrite, Reset/resetInternal, handleData, handleReset,
                      checkStreamBounds, handleStopSending, handleMaxStreamData,
                      ackOrLoss, ackOrLossData, appendInFramesLocked,
                      appendOutFramesLocked, dataToSend, flushLocked
  quic/conn_flow.go   connInflow / connOutflow, handleStreamBytesRead{Off,On}Loop,
                      sendMaxDataUpdate, handleStreamBytesReceived, appendMaxDataFrame
  quic/sent_val.go    sentVal
  quic/packet_writer.go  the size arithmetic of the append*Frame functions used above

Range sets are the exact list model of C24 (`Model/Rangeset.lean`), the two
byte buffers are the exact chunked pipe of C30 (`Model/Pipe.lean`, chunk 4096).
Offsets and counters are unbounded `Int` (the harness keeps them far below 2^62).
Gates are modelled by their condition (every mutator ends with `unlock(cond)`, so
the condition is a function of the state); blocking is observed with an already
cancelled context, as the package's own tests do.  Not modelled: the send-queue
rings / `streamState` bits of conn_streams.go (scheduling order), `outdone`.
-/
import NetVerif.Model.Rangeset
import NetVerif.Model.Pipe

namespace NetVerif.Model.QuicStream
open NetVerif.Model
open NetVerif.Model.Rangeset (RS Rg)

/-! ### constants (tied to the Go source in Proofs/C20 through Gen/C20) -/
def chunk : Nat := 4096
def autoFlushSize : Int := 1174
def errFlowControl : Int := 3
def errFinalSize : Int := 6
def maxVarint : Int := 4611686018427387903

/-! ### sentVal -/
inductive SV where
  | unset | unsent | sent (pn : Int) | received
deriving DecidableEq, Repr, Inhabited

namespace SV
def isSet : SV → Bool | unset => false | _ => true
def shouldSend : SV → Bool | unsent => true | _ => false
def shouldSendPTO (s : SV) (pto : Bool) : Bool :=
  match s with | unsent => true | sent _ => pto | _ => false
def isReceived : SV → Bool | received => true | _ => false
def set : SV → SV | unset => unsent | s => s
def ackOrLoss (s : SV) (pn : Int) (acked : Bool) : SV :=
  if acked then received else if s = sent pn then unsent else s
def ackLatestOrLoss (s : SV) (pn : Int) (acked : Bool) : SV :=
  if s = sent pn then (if acked then received else unsent) else s
/-- state number as in sent_val.go (>> 62) -/
def code : SV → Nat | unset => 0 | unsent => 1 | sent _ => 2 | received => 3
end SV

/-! ### straight-line flow-control arithmetic (conn_flow.go, stream.go) -/
def setMaxData (mx maxData : Int) : Int := if mx ≥ maxData then mx else maxData
def avail (mx used : Int) : Int := mx - used
def consume (used n : Int) : Int := used + n
def shouldUpdateFlowControl (maxWindow added : Int) : Bool := decide (added ≥ Int.tdiv maxWindow 8)

/-- `checkStreamBounds`: 0 = nil, 3 = FLOW_CONTROL_ERROR, 6 = FINAL_SIZE_ERROR. -/
def checkStreamBounds (inwin insize inEnd e : Int) (fin : Bool) : Int :=
  if e > inwin then errFlowControl
  else if insize ≠ -1 ∧ e > insize then errFinalSize
  else if fin = true ∧ insize ≠ -1 ∧ e ≠ insize then errFinalSize
  else if fin = true ∧ e < inEnd then errFinalSize
  else 0

/-- `handleStreamBytesReceived`: (error code, new usedLimit). -/
def bytesReceived (used sentLimit n : Int) : Int × Int :=
  if used + n > sentLimit then (errFlowControl, used + n) else (0, used + n)

/-- varint size for values kept below 2^62. -/
def szv (v : Int) : Int :=
  if v ≤ 63 then 1 else if v ≤ 16383 then 2 else if v ≤ 1073741823 then 4 else 8

/-! ### connection-level counters -/
structure Conn where
  maxConnRead : Int          -- config.maxConnReadBufferSize()
  inSent : SV := .unset      -- inflow.sent
  usedLimit : Int := 0
  sentLimit : Int
  newLimit : Int
  credit : Int := 0
  omax : Int                 -- outflow.max
  oused : Int := 0           -- outflow.used
deriving Repr

/-- `sendMaxDataUpdate`. -/
def Conn.sendMaxDataUpdate (c : Conn) : Conn :=
  { c with inSent := .unsent, newLimit := c.newLimit + c.credit, credit := 0 }

/-- `handleStreamBytesReadOffLoop(n)` followed by running the message it posts. -/
def Conn.bytesReadOffLoop (c : Conn) (n : Int) : Conn :=
  if n = 0 then c else
  let c1 := { c with credit := c.credit + n }
  if shouldUpdateFlowControl c.maxConnRead c1.credit then c1.sendMaxDataUpdate else c1

/-- `handleStreamBytesReadOnLoop(n)`. -/
def Conn.bytesReadOnLoop (c : Conn) (n : Int) : Conn :=
  let c1 := { c with credit := c.credit + n }
  if shouldUpdateFlowControl c.maxConnRead c1.credit then c1.sendMaxDataUpdate else c1

/-! ### frames and the packet writer -/
inductive Frame where
  | stream (id off : Int) (data : List Nat) (fin : Bool)
  | maxData (v : Int)
  | maxStreamData (id v : Int)
  | resetStream (id code final : Int)
  | stopSending (id code : Int)
  | dataBlocked (id v : Int)
deriving Repr, DecidableEq

/-- what `sentPacket` remembers about a frame -/
inductive Rec where
  | maxData
  | reset (id : Int) | stop (id : Int) | maxSD (id : Int) | blocked (id : Int)
  | stream (id s e : Int) (fin : Bool)
deriving Repr, DecidableEq

structure Writer where
  avail : Int
  frames : List Frame := []
  recs : List Rec := []
deriving Repr

def Writer.put (w : Writer) (cost : Int) (f : Frame) (r : Rec) : Writer :=
  { avail := w.avail - cost, frames := w.frames ++ [f], recs := w.recs ++ [r] }

/-- `appendMaxDataFrame` of packet_writer.go. -/
def Writer.maxData (w : Writer) (v : Int) : Option Writer :=
  if w.avail < 1 + szv v then none else some (w.put (1 + szv v) (.maxData v) .maxData)
def Writer.maxStreamData (w : Writer) (id v : Int) : Option Writer :=
  if w.avail < 1 + szv id + szv v then none else some (w.put (1 + szv id + szv v) (.maxStreamData id v) (.maxSD id))
def Writer.stopSending (w : Writer) (id code : Int) : Option Writer :=
  if w.avail < 1 + szv id + szv code then none else some (w.put (1 + szv id + szv code) (.stopSending id code) (.stop id))
def Writer.dataBlocked (w : Writer) (id v : Int) : Option Writer :=
  if w.avail < 1 + szv id + szv v then none else some (w.put (1 + szv id + szv v) (.dataBlocked id v) (.blocked id))
def Writer.resetStream (w : Writer) (id code final : Int) : Option Writer :=
  if w.avail < 1 + szv id + szv code + szv final then none
  else some (w.put (1 + szv id + szv code + szv final) (.resetStream id code final) (.reset id))

/-- Size decision of `appendStreamFrame`: `none` = not added, else (bytes taken, FIN bit on the wire). -/
def streamFrameFit (avail id off size : Int) (fin : Bool) : Option (Int × Bool) :=
  let mx := avail - 1 - szv id - (if off ≠ 0 then szv off else 0) - szv size
  if mx < 0 ∨ (mx = 0 ∧ size > 0) then none
  else if mx < size then some (mx, false) else some (size, fin)

def streamFrameCost (id off n : Int) : Int :=
  1 + szv id + (if off ≠ 0 then szv off else 0) + szv n + n

/-! ### the stream -/
structure Stream where
  id : Int
  readOnly : Bool
  writeOnly : Bool
  -- receive side
  inp : Pipe.Pipe := Pipe.empty
  inwin : Int
  insendmax : SV := .unset
  inmaxbuf : Int
  insize : Int := -1
  inset : RS := []
  inclosed : SV := .unset
  inresetcode : Int := -1
  inbuf : List Nat := []       -- contents of s.inbuf (aliases the head chunk of `inp`; dropped before `inp` releases it)
  inbufoff : Nat := 0
  -- send side
  out : Pipe.Pipe := Pipe.empty
  outflushed : Int := 0
  outwin : Int
  outmaxsent : Int := 0
  outmaxbuf : Int
  outunsent : RS := []
  outacked : RS := []
  outopened : SV := .unset
  outclosed : SV := .unset
  outblocked : SV := .unset
  outreset : SV := .unset
  outresetcode : Int := 0
  outbuf : Nat := 0            -- len(s.outbuf); nil and empty are not distinguished
  outbufoff : Nat := 0
  panicked : Bool := false     -- a Go run-time panic was reached (never on valid histories)
deriving Repr

/-- condition passed to `ingate.unlock` by `inUnlockNoQueue`. -/
def Stream.canRead (s : Stream) : Bool :=
  let nextByte := s.inp.start + s.inbuf.length
  Rangeset.contains s.inset nextByte || decide (s.insize = nextByte) ||
    decide (s.inresetcode ≠ -1) || s.inclosed.isSet

/-- condition passed to `outgate.unlock` by `outUnlockNoQueue`. -/
def Stream.canWrite (s : Stream) : Bool :=
  decide (s.out.start + s.outmaxbuf > s.out.stop) || s.outclosed.isSet || s.outreset.isSet

/-- the condition under which `Close` returns nil (`outdone` closed by "all data acked"). -/
def Stream.allAcked (s : Stream) : Bool :=
  s.outclosed.isReceived && Rangeset.isrange s.outacked 0 s.out.stop

def pipeWrite (p : Pipe.Pipe) (b : List Nat) (off : Int) : Pipe.Pipe × Bool := Pipe.writeAt chunk p b off

/-! #### receive side -/

inductive ReadRes where
  | data (b : List Nat) (eof : Bool)
  | eof
  | errReset | errClosed | errWriteOnly | blocked | panic
deriving Repr, DecidableEq

/-- `Stream.Read(b)` with `len(b) = n` and a cancelled read context. -/
def read (c : Conn) (s : Stream) (n : Nat) : Conn × Stream × ReadRes :=
  if s.writeOnly then (c, s, .errWriteOnly) else
  if s.inbuf.length > s.inbufoff then
    -- fast path
    let k := min n (s.inbuf.length - s.inbufoff)
    (c, { s with inbufoff := s.inbufoff + k }, .data ((s.inbuf.drop s.inbufoff).take k) false)
  else
  if !s.canRead then (c, s, .blocked) else
  let s := if s.inbufoff > 0 then
      { s with inp := Pipe.discardBefore s.inp (s.inp.start + s.inbufoff), inbufoff := 0, inbuf := [] }
    else s
  if s.inresetcode ≠ -1 then (c, s, .errReset) else
  if s.inclosed.isSet then (c, s, .errClosed) else
  if s.insize = s.inp.start then (c, s, .eof) else
  match s.inset with
  | [] => (c, { s with panicked := true }, .panic)
  | r0 :: _ =>
    if r0.s ≠ 0 ∨ r0.e ≤ s.inp.start then (c, { s with panicked := true }, .panic) else
    let size := r0.e - s.inp.start
    let n' : Int := if size < n then size else n
    let start := s.inp.start
    let e := start + n'
    match Pipe.copy s.inp start n'.toNat with
    | none => (c, { s with panicked := true }, .panic)
    | some bytes =>
      let s := { s with inp := Pipe.discardBefore s.inp e }
      if e = s.insize then (c.bytesReadOffLoop n', s, .data bytes true) else
      -- more readable bytes: park them in inbuf
      let (s, extra) :=
        if r0.s ≤ s.inp.start ∧ r0.e > s.inp.start then
          match Pipe.peek s.inp (r0.e - s.inp.start) with
          | some pb => ({ s with inbuf := pb }, (pb.length : Int))
          | none => ({ s with panicked := true }, 0)
        else (s, 0)
      let s :=
        if s.insize = -1 ∨ s.insize > s.inwin then
          let newWindow := s.inp.start + s.inbuf.length + s.inmaxbuf
          if shouldUpdateFlowControl s.inmaxbuf (newWindow - s.inwin) then { s with insendmax := .unsent } else s
        else s
      (c.bytesReadOffLoop (n' + extra), s, .data bytes false)

/-- `Stream.handleData`: error code (0 = nil). -/
def handleData (c : Conn) (s : Stream) (off : Int) (b : List Nat) (fin : Bool) : Conn × Stream × Int :=
  let e := off + b.length
  let err := checkStreamBounds s.inwin s.insize s.inp.stop e fin
  if err ≠ 0 then (c, s, err) else
  if s.inclosed.isSet ∨ s.inresetcode ≠ -1 then (c, s, 0) else
  let (c, err) :=
    if s.insize = -1 ∧ e > s.inp.stop then
      let r := bytesReceived c.usedLimit c.sentLimit (e - s.inp.stop)
      ({ c with usedLimit := r.2 }, r.1)
    else (c, 0)
  if err ≠ 0 then (c, s, err) else
  let (b, off) :=
    match s.inset with
    | r0 :: _ =>
      if r0.s ≤ off ∧ off < r0.e then
        let newOff := if e ≤ r0.e then e else r0.e
        (b.drop (newOff - off).toNat, newOff)
      else (b, off)
    | [] => (b, off)
  let w := pipeWrite s.inp b off
  let s := { s with inp := w.1, panicked := s.panicked || w.2, inset := Rangeset.add s.inset off e }
  let s := if fin then { s with insize := e, insendmax := .unset } else s
  (c, s, 0)

/-- `Stream.handleReset`. -/
def handleReset (c : Conn) (s : Stream) (code finalSize : Int) : Conn × Stream × Int :=
  let err := checkStreamBounds s.inwin s.insize s.inp.stop finalSize true
  if err ≠ 0 then (c, s, err) else
  if s.inresetcode ≠ -1 then (c, s, 0) else
  let (c, err) :=
    if s.insize = -1 then
      let r := bytesReceived c.usedLimit c.sentLimit (finalSize - s.inp.stop)
      ({ c with usedLimit := r.2 }, r.1)
    else (c, 0)
  if err ≠ 0 then (c, s, err) else
  -- bytes parked in the fast-path buffer were already credited by `Read`; `discardInbufLocked` drops them
  let c := c.bytesReadOnLoop (finalSize - s.inp.start - (s.inbuf.length : Int))
  (c, { s with inbuf := [], inbufoff := 0, inp := Pipe.discardBefore s.inp s.inp.stop,
                inresetcode := code, insize := finalSize }, 0)

/-- `Stream.CloseRead`. -/
def closeRead (c : Conn) (s : Stream) : Conn × Stream :=
  if s.writeOnly then (c, s) else
  let cl : SV := if Rangeset.isrange s.inset 0 s.insize ∨ s.inresetcode ≠ -1 then .received else s.inclosed.set
  -- `discardInbufLocked`: bytes parked in the fast-path buffer were already credited by `Read`
  let discarded := s.inp.stop - s.inp.start - (s.inbuf.length : Int)
  (c.bytesReadOffLoop discarded,
   { s with inclosed := cl, inbuf := [], inbufoff := 0, inp := Pipe.discardBefore s.inp s.inp.stop })

/-- `appendInFramesLocked`: STOP_SENDING and MAX_STREAM_DATA. -/
def appendInFrames (s : Stream) (w : Writer) (pnum : Int) (pto : Bool) : Stream × Writer × Bool :=
  let r1 : Option (Stream × Writer) :=
    if s.inclosed.shouldSendPTO pto then
      match w.stopSending s.id 0 with
      | none => none
      | some w' => some ({ s with inclosed := .sent pnum }, w')
    else some (s, w)
  match r1 with
  | none => (s, w, false)
  | some (s, w) =>
    if s.insendmax.shouldSendPTO pto then
      let v := s.inp.start + s.inmaxbuf
      match w.maxStreamData s.id v with
      | none => (s, w, false)
      | some w' => ({ s with inwin := v, insendmax := .sent pnum }, w', true)
    else (s, w, true)

/-! #### send side -/

/-- `flushFastOutputBuffer`. -/
def flushFast (s : Stream) : Stream :=
  if s.outbuf = 0 ∧ s.outbufoff = 0 then s else
  { s with out := { s.out with stop := s.out.stop + s.outbufoff }, outbuf := 0, outbufoff := 0 }

/-- `flushLocked`. -/
def flushLocked (s : Stream) : Stream :=
  let s := flushFast s
  let s := { s with outopened := s.outopened.set }
  let s := if s.outflushed < s.outwin then
      { s with outunsent := Rangeset.add s.outunsent s.outflushed (if s.outwin ≤ s.out.stop then s.outwin else s.out.stop) }
    else s
  { s with outflushed := s.out.stop }

/-- `writeErrorLocked` ≠ nil. -/
def Stream.writeErr (s : Stream) : Bool := s.outreset.isSet || s.outclosed.isSet

/-- write `b` into the tail chunk at stream position `pos` (the fast path writes through `s.outbuf`,
which aliases `tail.b[end-tail.off:]`). -/
def pokeTail (p : Pipe.Pipe) (pos : Int) (b : List Nat) : Pipe.Pipe :=
  match p.bufs.getLast? with
  | none => p
  | some t =>
    let k := (pos - t.off).toNat
    { p with bufs := p.bufs.dropLast ++ [⟨t.off, t.b.take k ++ b ++ t.b.drop (k + b.length)⟩] }

inductive WriteRes where
  | ok (n : Nat)
  | blocked (n : Nat)      -- context error after n bytes
  | errClosed (n : Nat)    -- write to closed/reset stream after n bytes
  | errReadOnly
deriving Repr, DecidableEq

/-- The `for` loop of `Write` (lock held; `canWrite` as in the Go code). -/
def writeLoop : Nat → Stream → List Nat → Nat → Bool → Stream × WriteRes × Bool
  | 0, s, _, n, _ => (s, .ok n, false)
  | fuel + 1, s, b, n, canWrite =>
    -- returns (stream, result, stillLocked)
    if !b.isEmpty && !canWrite && !s.canWrite then (s, .blocked n, false) else
    if s.writeErr then (s, .errClosed n, false) else
    if b.isEmpty then (s, .ok n, true) else
    let lim := s.out.start + s.outmaxbuf
    let nn : Int := if (b.length : Int) ≤ lim - s.out.stop then b.length else lim - s.out.stop
    let w := pipeWrite s.out (b.take nn.toNat) s.out.stop
    let s := { s with out := w.1, panicked := s.panicked || w.2 }
    let shouldFlush := decide (s.out.stop ≥ s.outwin) || decide (s.out.stop ≥ lim) ||
      decide (s.out.stop - s.outflushed ≥ autoFlushSize)
    let s := if shouldFlush then flushLocked s else s
    let s := if s.out.stop > s.outwin then { s with outblocked := s.outblocked.set } else s
    writeLoop fuel s (b.drop nn.toNat) (n + nn.toNat) false

/-- `Stream.Write(b)` with a cancelled write context. -/
def write (s : Stream) (b : List Nat) : Stream × WriteRes :=
  if s.readOnly then (s, .errReadOnly) else
  if !b.isEmpty && decide (s.outbuf - s.outbufoff ≥ b.length) then
    -- fast path: copy into s.outbuf
    ({ s with out := pokeTail s.out (s.out.stop + s.outbufoff) b, outbufoff := s.outbufoff + b.length }, .ok b.length)
  else
  let canWrite := s.canWrite
  let s := flushFast s
  let r := writeLoop (b.length + 2) s b 0 canWrite
  let s := r.1
  if !r.2.2 then (s, r.2.1) else
  let lim := s.out.start + s.outmaxbuf - s.out.stop - 1
  let s :=
    if lim > 0 then
      match Pipe.availableLen s.out with
      | some a => { s with outbuf := if (a : Int) > lim then lim.toNat else a }
      | none => { s with panicked := true }
    else s
  (s, r.2.1)

/-- `Stream.Flush`: false = error. -/
def flush (s : Stream) : Stream × Bool :=
  if s.readOnly then (s, false) else
  if s.writeErr then (s, false) else (flushLocked s, true)

/-- `Stream.CloseWrite`. -/
def closeWrite (s : Stream) : Stream :=
  if s.readOnly then s else flushLocked { s with outclosed := s.outclosed.set }

/-- `resetInternal(code, userClosed)`. -/
def resetInternal (s : Stream) (code : Int) (userClosed : Bool) : Stream :=
  if s.readOnly then s else
  let s := if userClosed then { s with outclosed := s.outclosed.set } else s
  if s.outreset.isSet then s else
  let code := if code > maxVarint then maxVarint else code
  { s with outreset := .unsent, outresetcode := code, outbuf := 0, outbufoff := 0,
           out := Pipe.discardBefore s.out s.out.stop, outunsent := [], outblocked := .unset }

/-- `handleMaxStreamData`. -/
def handleMaxStreamData (s : Stream) (v : Int) : Stream :=
  if v ≤ s.outwin then s else
  let s := if s.outflushed > s.outwin then
      { s with outunsent := Rangeset.add s.outunsent s.outwin (if v ≤ s.outflushed then v else s.outflushed) }
    else s
  let s := { s with outwin := v }
  if s.out.stop > s.outwin then { s with outblocked := .unsent } else { s with outblocked := .unset }

/-- `ackOrLoss` for the non-STREAM frames. -/
def ackOrLoss (s : Stream) (pnum : Int) (r : Rec) (acked : Bool) : Stream :=
  match r with
  | .reset _ => { s with outreset := s.outreset.ackOrLoss pnum acked }
  | .stop _ => { s with inclosed := s.inclosed.ackOrLoss pnum acked }
  | .maxSD _ => { s with insendmax := s.insendmax.ackLatestOrLoss pnum acked }
  | .blocked _ => { s with outblocked := s.outblocked.ackLatestOrLoss pnum acked }
  | _ => s

/-- `ackOrLossData`. -/
def ackOrLossData (s : Stream) (pnum st en : Int) (fin acked : Bool) : Stream :=
  let s := { s with outopened := s.outopened.ackOrLoss pnum acked }
  let s := if fin then { s with outclosed := s.outclosed.ackOrLoss pnum acked } else s
  if s.outreset.isSet then s else
  if acked then
    let s := { s with outacked := Rangeset.add s.outacked st en, outunsent := Rangeset.sub s.outunsent st en }
    if Rangeset.contains s.outacked s.out.start then
      match s.outacked with
      | r0 :: _ => { s with out := Pipe.discardBefore s.out r0.e }
      | [] => s
    else s
  else
    let u := Rangeset.add s.outunsent st en
    { s with outunsent := s.outacked.foldl (fun u a => Rangeset.sub u a.s a.e) u }

/-- the PTO branch of `dataToSend`: first acked range starting after `start`. -/
def ptoEnd (start e : Int) : List Rg → Int
  | [] => e - start
  | r :: rest => if r.s > start then r.s - start else ptoEnd start e rest

/-- `dataToSend(start, end, outunsent, outacked, pto)`. -/
def dataToSend (start e : Int) (unsent acked : RS) (pto : Bool) : Int × Int :=
  if pto then (start, ptoEnd start e acked)
  else match unsent with
    | r :: _ => (r.s, r.e - r.s)
    | [] => (e, 0)

def imin (a b : Int) : Int := if a ≤ b then a else b
def imax (a b : Int) : Int := if a ≥ b then a else b

/-- `frameOpensStream`. -/
def frameOpensStream (s : Stream) (pnum : Int) : Stream :=
  if !s.outopened.isReceived then { s with outopened := .sent pnum } else s

/-- The connection-level clamp of `appendOutFramesLocked`:
`if end := off+size; end > outmaxsent { end = min(end, outmaxsent+avail); end = max(end, off); size = end-off }`. -/
def clampSize (off size outmaxsent av : Int) : Int :=
  if off + size > outmaxsent then imax (imin (off + size) (outmaxsent + av)) off - off else size

/-- `if end > s.outmaxsent { outflow.consume(end - outmaxsent); s.outmaxsent = end }`: (used', outmaxsent'). -/
def charge (oused outmaxsent e : Int) : Int × Int :=
  if e > outmaxsent then (consume oused (e - outmaxsent), e) else (oused, outmaxsent)

/-- `if fin { s.outclosed.setSent(pnum) }` with `fin` cleared when the frame was truncated
(repaired code): only a frame that carries the FIN bit on the wire records the FIN as sent. -/
def markFin (s : Stream) (wireFin : Bool) (pnum : Int) : Stream :=
  if wireFin then { s with outclosed := .sent pnum } else s

/-- the STREAM loop of `appendOutFramesLocked`. -/
def outLoop : Nat → Conn → Stream → Writer → Int → Bool → Conn × Stream × Writer × Bool
  | 0, c, s, w, _, _ => (c, s, w, true)
  | fuel + 1, c, s, w, pnum, pto =>
    let (off, size) := dataToSend (imin s.out.start s.outwin) (imin s.outflushed s.outwin) s.outunsent s.outacked pto
    let size := clampSize off size s.outmaxsent (avail c.omax c.oused)
    let fin := s.outclosed.isSet && decide (off + size = s.out.stop)
    let shouldSend := decide (size > 0) || s.outopened.shouldSendPTO pto || (fin && s.outclosed.shouldSendPTO pto)
    if !shouldSend then (c, s, w, true) else
    match streamFrameFit w.avail s.id off size fin with
    | none => (c, s, w, false)
    | some (n, wireFin) =>
      match Pipe.copy s.out off n.toNat with
      | none => (c, { s with panicked := true }, w, false)
      | some data =>
        let e := off + n
        let w := w.put (streamFrameCost s.id off n) (.stream s.id off data wireFin) (.stream s.id off e wireFin)
        let ch := charge c.oused s.outmaxsent e
        let c := { c with oused := ch.1 }
        let s := { s with outmaxsent := ch.2 }
        let s := { s with outunsent := Rangeset.sub s.outunsent off e }
        let s := frameOpensStream s pnum
        -- `if len(b) < size { fin = false }`: only a frame that really carries the FIN bit marks it sent
        let s := markFin s wireFin pnum
        if pto then (c, s, w, true)
        else if n < size then (c, s, w, false)
        else outLoop fuel c s w pnum pto

/-- `appendOutFramesLocked`. -/
def appendOutFrames (c : Conn) (s : Stream) (w : Writer) (pnum : Int) (pto : Bool) : Conn × Stream × Writer × Bool :=
  if s.outreset.isSet then
    if s.outreset.shouldSendPTO pto then
      match w.resetStream s.id s.outresetcode s.outmaxsent with
      | none => (c, s, w, false)
      | some w' => (c, frameOpensStream { s with outreset := .sent pnum } pnum, w', true)
    else (c, s, w, true)
  else
    let r : Option (Stream × Writer) :=
      if s.outblocked.shouldSendPTO pto then
        match w.dataBlocked s.id s.outwin with
        | none => none
        | some w' => some (frameOpensStream { s with outblocked := .sent pnum } pnum, w')
      else some (s, w)
    match r with
    | none => (c, s, w, false)
    | some (s, w) => outLoop (s.outunsent.length + 3) c s w pnum pto

/-- `Conn.appendMaxDataFrame`. -/
def appendMaxData (c : Conn) (w : Writer) (pnum : Int) (pto : Bool) : Conn × Writer × Bool :=
  if c.inSent.shouldSendPTO pto then
    let c := { c with newLimit := c.newLimit + c.credit, credit := 0 }
    match w.maxData c.newLimit with
    | none => (c, w, false)
    | some w' => ({ c with sentLimit := c.newLimit, inSent := .sent pnum }, w', true)
  else (c, w, true)

end NetVerif.Model.QuicStream
