import NetVerif.Model.Huffman
/-!
Byte-stride model of `huffmanDecode` (`http2/hpack/huffman.go`): the 256-ary lookup tree built by
`buildRootHuffmanNode` from `huffmanCodes`/`huffmanCodeLen`, and the decoder loop with its
`cur`/`cbits`/`sbits` accounting, exactly as coded.

Memory model of the tree. Go allocates `node`s with a `children *[256]*node` array. Here the heap is
one natural number `tbl`: node `id` (root = 0, further internal nodes numbered in allocation order)
owns the 256 sixteen-bit slots `256*id .. 256*id+255`; a slot holds
  0                      `nil`
  1 + 2*(16*sym + len)   pointer to the leaf of `sym` with (residual) `codeLen = len`
  2*id'                  pointer to internal node `id'` (≥ 1).
All reads/writes are shifts and xors on one number, which the Lean kernel evaluates natively, so the
table obligations (`Proofs.Lemmas.HuffmanStride`) can be discharged by kernel evaluation of the
build itself: the build below is a transcription of the Go loops, nothing is precomputed.
-/
namespace NetVerif.Model.Huffman

/-! ### The lookup tree -/

def entLeaf (sym len : Nat) : Nat := 1 + 2 * (sym * 16 + len)

/-- Slot `i` of node `r`. -/
def getE (tbl r i : Nat) : Nat := (tbl >>> (16 * (256 * r + i))) % 65536

/-- `children[i] = v` on node `r`. -/
def setE (tbl r i v : Nat) : Nat := tbl ^^^ ((getE tbl r i ^^^ v) <<< (16 * (256 * r + i)))

/-- Heap while building: the slots, the number of internal nodes allocated, and whether the build
never followed a leaf pointer as if it were internal (Go would dereference a nil `children`). -/
structure TblSt where
  tbl : Nat
  cnt : Nat
  ok : Bool

/-- `for codeLen > 8 { codeLen -= 8; i := uint8(code >> codeLen); if cur.children[i] == nil {
cur.children[i] = newInternalNode() }; cur = cur.children[i] }`; returns the heap, `cur`, `codeLen`.
At most 4 iterations (fuel) since `codeLen ≤ 32`. -/
def tblDescend : Nat → TblSt → Nat → Nat → Nat → TblSt × Nat × Nat
  | 0, st, cur, codeLen, _ => (st, cur, codeLen)
  | f + 1, st, cur, codeLen, code =>
    if codeLen > 8 then
      let codeLen := codeLen - 8
      let i := (code >>> codeLen) % 256
      let e := getE st.tbl cur i
      if e = 0 then
        tblDescend f { st with tbl := setE st.tbl cur i (2 * st.cnt), cnt := st.cnt + 1 } st.cnt codeLen code
      else tblDescend f { st with ok := st.ok && (e % 2 == 0) } (e / 2) codeLen code
    else (st, cur, codeLen)

/-- `for i := start; i < start+end; i++ { cur.children[i] = &leaves[sym] }` (`k` = iterations). -/
def tblFill (tbl cur start v : Nat) : Nat → Nat
  | 0 => tbl
  | k + 1 => setE (tblFill tbl cur start v k) cur (start + k) v

/-- Loop body of `buildRootHuffmanNode` for one symbol. -/
def tblAddSym (st : TblSt) (sym code len : Nat) : TblSt :=
  let r := tblDescend 4 st 0 len code
  let codeLen := r.2.2
  let shift := 8 - codeLen
  let start := (code <<< shift) % 256          -- int(uint8(code<<shift))
  { r.1 with tbl := tblFill r.1.tbl r.2.1 start (entLeaf sym codeLen) (2 ^ shift) }

def tblBuildFrom : List (Nat × Nat) → Nat → TblSt → TblSt
  | [], _, st => st
  | (c, l) :: rest, sym, st => tblBuildFrom rest (sym + 1) (tblAddSym st sym c l)

/-- `buildRootHuffmanNode()` over the regenerated tables. -/
def rootTable : TblSt :=
  tblBuildFrom (Gen.Huffman.codes.zip Gen.Huffman.lens) 0 { tbl := 0, cnt := 1, ok := true }

/-- What `n.children[idx]` is. -/
inductive Child where
  | nil
  | leaf (sym codeLen : Nat)
  | inner (id : Nat)
  deriving Repr, DecidableEq, Inhabited

def childAt (tbl n idx : Nat) : Child :=
  let e := getE tbl n idx
  if e = 0 then .nil
  else if e % 2 = 1 then .leaf (e / 2 / 16) (e / 2 % 16)
  else .inner (e / 2)

/-! ### The decoder loop -/

/-- Variables of `huffmanDecode`: `n` (node id), `cur` (uint, 64 bit), `cbits`, `sbits` (uint8),
and the output buffer, newest byte first. -/
structure DState where
  n : Nat
  cur : Nat
  cbits : Nat
  sbits : Nat
  out : List Nat
  deriving Repr

/-- `for cbits >= 8 { … }`. `fuel` ≥ 16 suffices (`cbits ≤ 15` and every iteration lowers it);
running out of fuel is reported as invalid data and never happens
(`Proofs.C04.decodeBytesMax_eq`). -/
def drain (tbl maxLen : Nat) : Nat → DState → Except DecErr DState
  | 0, _ => .error .invalid
  | f + 1, st =>
    if st.cbits ≥ 8 then
      let idx := (st.cur >>> (st.cbits - 8)) % 256          -- byte(cur >> (cbits - 8))
      match childAt tbl st.n idx with
      | .nil => .error .invalid
      | .leaf sym len =>
        if maxLen ≠ 0 ∧ st.out.length = maxLen then .error .strLen
        else drain tbl maxLen f
          { st with out := sym :: st.out, cbits := st.cbits - len, n := 0, sbits := st.cbits - len }
      | .inner id => drain tbl maxLen f { st with n := id, cbits := st.cbits - 8 }
    else .ok st

/-- `for _, b := range v { cur = cur<<8 | uint(b); cbits += 8; sbits += 8; for cbits >= 8 {…} }`. -/
def feed (tbl maxLen : Nat) : DState → List Nat → Except DecErr DState
  | st, [] => .ok st
  | st, b :: bs =>
    match drain tbl maxLen 16
        { st with cur := ((st.cur <<< 8) % 2 ^ 64) ||| b, cbits := (st.cbits + 8) % 256,
                  sbits := (st.sbits + 8) % 256 } with
    | .error e => .error e
    | .ok st => feed tbl maxLen st bs

/-- `for cbits > 0 { n = n.children[byte(cur<<(8-cbits))]; … }` after the last byte. -/
def drainTail (tbl maxLen : Nat) : Nat → DState → Except DecErr DState
  | 0, _ => .error .invalid
  | f + 1, st =>
    if st.cbits > 0 then
      let idx := ((st.cur <<< (8 - st.cbits)) % 2 ^ 64) % 256
      match childAt tbl st.n idx with
      | .nil => .error .invalid
      | .inner _ => .ok st                                    -- break
      | .leaf sym len =>
        if len > st.cbits then .ok st                        -- break
        else if maxLen ≠ 0 ∧ st.out.length = maxLen then .error .strLen
        else drainTail tbl maxLen f
          { st with out := sym :: st.out, cbits := st.cbits - len, n := 0, sbits := st.cbits - len }
    else .ok st

/-- The two final checks (`sbits > 7`; trailing bits must be all ones). -/
def finishDecode (st : DState) : Except DecErr (List Nat) :=
  if st.sbits > 7 then .error .invalid
  else
    let mask := (1 <<< st.cbits) - 1
    if st.cur &&& mask ≠ mask then .error .invalid
    else .ok st.out.reverse

/-- `huffmanDecode(buf, maxLen, v)` on an empty `buf`, byte-stride as coded. -/
def decodeBytesMax (maxLen : Nat) (v : List Nat) : Except DecErr (List Nat) :=
  match feed rootTable.tbl maxLen { n := 0, cur := 0, cbits := 0, sbits := 0, out := [] } v with
  | .error e => .error e
  | .ok st =>
    match drainTail rootTable.tbl maxLen 8 st with
    | .error e => .error e
    | .ok st => finishDecode st

/-- `HuffmanDecode`, byte-stride as coded. -/
def decodeBytes (v : List Nat) : Except DecErr (List Nat) := decodeBytesMax 0 v

end NetVerif.Model.Huffman
