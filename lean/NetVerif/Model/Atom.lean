import NetVerif.Gen.C42
/-!
Model of `golang.org/x/net/html/atom` (atom.go) over the regenerated table
(`Gen/C42.lean`: `table`, `atomText`, `hash0`, `maxAtomLen`, `fnvPrime`).

Bytes are `Nat < 256`, byte strings `List Nat`, `Atom` (uint32) is `Nat`.
A Go run-time panic (slice out of range in `Atom.string`) is the result `none`.
-/
namespace NetVerif.Model.Atom
open NetVerif.Gen.C42

/-! ### The Go source this model was written from
Canonical text (go/printer, comments stripped) of every function modelled below. The extractor
regenerates the same texts from the current tree (`Gen.C42.src*`) and `Proofs/C42.gen_src_*` state that
they are equal: an edit to the control flow of `Lookup`/`match`/`fnv`/`String`/`string` breaks those
theorems until this model has been re-validated against the new code and the texts updated. -/
def srcFnv : String := "func fnv(h uint32, s []byte) uint32 {\n\tfor i := range s {\n\t\th ^= uint32(s[i])\n\t\th *= 16777619\n\t}\n\treturn h\n}"
def srcMatch : String := "func match(s string, t []byte) bool {\n\tfor i, c := range t {\n\t\tif s[i] != c {\n\t\t\treturn false\n\t\t}\n\t}\n\treturn true\n}"
def srcLookup : String := "func Lookup(s []byte) Atom {\n\tif len(s) == 0 || len(s) > maxAtomLen {\n\t\treturn 0\n\t}\n\th := fnv(hash0, s)\n\tif a := table[h&uint32(len(table)-1)]; int(a&0xff) == len(s) && match(a.string(), s) {\n\t\treturn a\n\t}\n\tif a := table[(h>>16)&uint32(len(table)-1)]; int(a&0xff) == len(s) && match(a.string(), s) {\n\t\treturn a\n\t}\n\treturn 0\n}"
def srcAtomString : String := "func (a Atom) String() string {\n\tstart := uint32(a >> 8)\n\tn := uint32(a & 0xff)\n\tif start+n > uint32(len(atomText)) {\n\t\treturn \"\"\n\t}\n\treturn atomText[start : start+n]\n}"
def srcAtomStringUnchecked : String := "func (a Atom) string() string {\n\treturn atomText[a>>8 : a>>8+a&0xff]\n}"
def srcString : String := "func String(s []byte) string {\n\tif a := Lookup(s); a != 0 {\n\t\treturn a.String()\n\t}\n\treturn string(s)\n}"

/-- `fnv(h, s)`: `for i := range s { h ^= uint32(s[i]); h *= K }` on uint32. -/
def fnv (h : Nat) (s : List Nat) : Nat :=
  s.foldl (fun h c => ((h ^^^ c) * fnvPrime) % 4294967296) h

/-- Go slice expression `atomText[start : start+n]`; `none` = out-of-range panic. -/
def sliceText (start n : Nat) : Option (List Nat) :=
  if start + n ≤ atomText.length then some ((atomText.drop start).take n) else none

/-- `Atom.string()` (unexported, unchecked): `atomText[a>>8 : a>>8+a&0xff]`. -/
def atomStr (a : Nat) : Option (List Nat) := sliceText (a / 256) (a % 256)

/-- `Atom.String()`: the checked accessor; out-of-range atoms map to "". -/
def text (a : Nat) : List Nat :=
  if a / 256 + a % 256 > atomText.length then [] else (atomText.drop (a / 256)).take (a % 256)

/-- `table[h & uint32(len(table)-1)]` -/
def slot (h : Nat) : Nat := table.getD (h &&& (tableLen - 1)) 0

/-- One probe: `int(a&0xff) == len(s) && match(a.string(), s)`; `none` = panic.
`match` compares `a.string()[i]` with `s[i]` for every `i < len s`; the lengths are equal
at this point, so it is list equality. `strF` is `Atom.string`. -/
def probeWith (strF : Nat → Option (List Nat)) (a : Nat) (s : List Nat) : Option Bool :=
  if a % 256 = s.length then (strF a).map (fun t => t == s) else some false

/-- `Lookup(s)` with the table access `slotF` and `Atom.string` = `strF` abstracted
(so that the proofs can substitute provably equal, faster-to-evaluate accessors). `none` = panic. -/
def lookupWith (slotF : Nat → Nat) (strF : Nat → Option (List Nat)) (s : List Nat) : Option Nat :=
  if s.length = 0 ∨ s.length > maxAtomLen then some 0 else
  let h := fnv hash0 s
  let a := slotF h
  match probeWith strF a s with
  | none => none
  | some true => some a
  | some false =>
    let b := slotF (h / 65536)
    match probeWith strF b s with
    | none => none
    | some true => some b
    | some false => some 0

/-- `Lookup(s)`; `none` = panic. -/
def lookup (s : List Nat) : Option Nat := lookupWith slot atomStr s

/-- `atom.String(s []byte) string`: the interned name if `s` is an atom, else `string(s)`. -/
def stringOf (s : List Nat) : Option (List Nat) :=
  match lookup s with
  | none => none
  | some a => if a ≠ 0 then some (text a) else some s

end NetVerif.Model.Atom
