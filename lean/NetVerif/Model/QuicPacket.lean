import NetVerif.Driver.Util
import NetVerif.Model.VarintQuic
import NetVerif.Model.QuicFrames
import NetVerif.Model.PacketNumber
/-!
Model of the long/short header packet layout of quic/packet_writer.go
(`start…/finish…Packet`), quic/packet_parser.go (`parseLongHeaderPacket`,
`parse1RTTPacket`) and the key-independent part of quic/packet_protection.go
(`headerKey.protect/unprotect`, `packetKey.protect/unprotect`).

The AEAD and the header-protection mask are PARAMETERS (`Crypto`): theorems
state their hypotheses (`open (seal x) = x`, tag length) explicitly.  `toy` is a
concrete instance used (a) to show the hypotheses are satisfiable and (b) to tie
the layout code byte-for-byte to the Go writer/parser, which the harness runs
with the same toy AEAD plugged into `fixedKeys`/`updatingKeyPair`.
Not modelled: AES-GCM/ChaCha20-Poly1305, HKDF key derivation, key updates
(`updating = true`), AEAD integrity-limit accounting.
-/
namespace NetVerif.Model.QuicPacket
open NetVerif.Model.VarintQuic NetVerif.Model.QuicFrames

structure Crypto where
  /-- `packetKey.protect`: packet number, header (additional data), payload ↦ ciphertext ++ tag -/
  aeadSeal : Nat → List Nat → List Nat → List Nat
  /-- `packetKey.unprotect` -/
  aeadOpen : Nat → List Nat → List Nat → Option (List Nat)
  /-- `headerProtection(sample)`: 5 mask bytes -/
  hpMask : List Nat → List Nat

def aeadOverhead : Nat := 16
def sampleSize : Nat := 16
def maxConnIDLen : Nat := 20

/-- `packetNumberLength(pnum, largestAck)`. -/
def pnLen (pnum largestAck : Int) : Nat :=
  let d := pnum - largestAck
  if d < 128 then 1 else if d < 32768 then 2 else if d < 8388608 then 3 else 4

/-- `appendPacketNumber`: the low `n` bytes of `pnum`, big endian. -/
def pnBytes (pnum : Nat) (n : Nat) : List Nat :=
  if n = 1 then [pnum % 256]
  else if n = 2 then [pnum / 256 % 256, pnum % 256]
  else if n = 3 then [pnum / 65536 % 256, pnum / 256 % 256, pnum % 256]
  else [pnum / 16777216 % 256, pnum / 65536 % 256, pnum / 256 % 256, pnum % 256]

def beNat : List Nat → Nat
  | [] => 0
  | b :: rest => b * 256 ^ rest.length + beNat rest

def xorBytes : List Nat → List Nat → List Nat
  | a :: as, m :: ms => (a ^^^ m) :: xorBytes as ms
  | as, _ => as

/-- `headerKey.protect` / the mask part of `unprotect` when the packet-number length is
known: XOR the low bits of byte 0 and the `n` packet-number bytes at `pnumOff`. -/
def applyMask (c : Crypto) (long : Bool) (pkt : List Nat) (pnumOff n : Nat) : List Nat :=
  let m := c.hpMask ((pkt.drop (pnumOff + 4)).take sampleSize)
  let b0 := pkt.headD 0 ^^^ (m.headD 0 &&& (if long then 15 else 31))
  b0 :: ((pkt.drop 1).take (pnumOff - 1) ++
    (xorBytes ((pkt.drop pnumOff).take n) (m.drop 1) ++ pkt.drop (pnumOff + n)))

/-- `padPacketLength`: zero bytes appended so that pnumLen + payload + 16 ≥ 4 + 16. -/
def padTo (payloadLen n : Nat) : Nat := 20 - (payloadLen + n + aeadOverhead)

/-- Long packet types as `packetType` values: 1 Initial, 2 0-RTT, 3 Handshake, 4 Retry. -/
def typeBits (ptype : Nat) : Nat :=
  if ptype = 1 then 0 else if ptype = 2 then 16 else if ptype = 3 then 32 else if ptype = 4 then 48 else 0

inductive PW where
  | panic
  | nopacket
  | packet (bytes : List Nat)
  deriving Repr, DecidableEq

def u32be (v : Nat) : List Nat := [v / 16777216 % 256, v / 65536 % 256, v / 256 % 256, v % 256]

/-- The unprotected long header up to (excluding) the packet number; `plen` is the Length field. -/
def longHeader (ptype version : Nat) (dcid scid token : List Nat) (n plen : Nat) : Option (List Nat) :=
  match appendUint8Bytes dcid, appendUint8Bytes scid,
        (if ptype = 1 then appendVarintBytes token else some []) with
  | some d, some s, some t =>
    some ((128 + 64 + typeBits ptype + (n - 1)) :: (u32be version ++ (d ++ (s ++ (t ++
      [64 + plen / 256 % 256, plen % 256])))))
  | _, _, _ => none

/-- `w.reset(lim); startProtectedLongHeaderPacket; w.b = append(w.b, payload[:min(len, avail)]…);
finishProtectedLongHeaderPacket; w.datagram()`. -/
def writeLong (c : Crypto) (lim : Nat) (ptype version : Nat) (dcid scid token : List Nat)
    (pnum : Nat) (maxAcked : Int) (payload : List Nat) : PW :=
  let n := pnLen pnum maxAcked
  match (if ptype = 1 then sizeVarint token.length else some 0) with
  | none => PW.panic
  | some tsz =>
    let pnumOff := 1 + 4 + 1 + dcid.length + 1 + scid.length + (if ptype = 1 then tsz + token.length else 0) + 2
    if pnumOff + 4 + sampleSize + aeadOverhead ≥ lim then PW.nopacket
    else
      let payOff := pnumOff + n
      let pktLim := if pnumOff + 16383 - aeadOverhead < lim - aeadOverhead then pnumOff + 16383 - aeadOverhead
                    else lim - aeadOverhead
      let pay := payload.take (pktLim - payOff)
      if pay.length = 0 then PW.nopacket
      else
        let padded := pay ++ List.replicate (padTo pay.length n) 0
        let plen := padded.length + n + aeadOverhead
        match longHeader ptype version dcid scid token n plen with
        | none => PW.panic
        | some h =>
          let hdr := h ++ pnBytes pnum n
          PW.packet (applyMask c true (hdr ++ c.aeadSeal pnum hdr padded) pnumOff n)

/-- `start1RTTPacket … finish1RTTPacket` with `updating = false` and key phase `phase` (0 or 4). -/
def writeShort (c : Crypto) (lim : Nat) (phase : Nat) (dcid : List Nat) (pnum : Nat) (maxAcked : Int)
    (payload : List Nat) : PW :=
  let n := pnLen pnum maxAcked
  let pnumOff := 1 + dcid.length
  if pnumOff + 4 + sampleSize + aeadOverhead ≥ lim then PW.nopacket
  else
    let payOff := pnumOff + n
    let pay := payload.take (lim - aeadOverhead - payOff)
    if pay.length = 0 then PW.nopacket
    else
      let padded := pay ++ List.replicate (padTo pay.length n) 0
      let hdr := ((64 + (n - 1)) ||| phase) :: (dcid ++ pnBytes pnum n)
      PW.packet (applyMask c false (hdr ++ c.aeadSeal pnum hdr padded) pnumOff n)

/-- `headerKey.unprotect` followed by `packetKey.unprotect`: payload and packet number. -/
def unprotect (c : Crypto) (long : Bool) (pkt : List Nat) (pnumOff : Nat) (pnumMax : Int) :
    Option (List Nat × Nat × List Nat) :=
  if pkt.length < pnumOff + 4 + sampleSize then none
  else
    let m := c.hpMask ((pkt.drop (pnumOff + 4)).take sampleSize)
    let b0 := pkt.headD 0 ^^^ (m.headD 0 &&& (if long then 15 else 31))
    let n := b0 % 4 + 1
    let pn := xorBytes ((pkt.drop pnumOff).take n) (m.drop 1)
    let num := PacketNumber.decodePN pnumMax (beNat pn) n
    let hdr := b0 :: ((pkt.drop 1).take (pnumOff - 1) ++ pn)
    match c.aeadOpen num.toNat hdr (pkt.drop (pnumOff + n)) with
    | some pay => some (pay, num.toNat, hdr)
    | none => none

structure LongPacket where
  ptype : Nat
  version : Nat
  num : Nat
  dcid : List Nat
  scid : List Nat
  extra : List Nat
  payload : List Nat
  deriving Repr, DecidableEq

/-- `getPacketType` for a buffer of at least 5 bytes whose first byte has the long-header bit:
0 invalid, 1 Initial, 2 0-RTT, 3 Handshake, 4 Retry, 6 Version Negotiation. -/
def longType (pkt : List Nat) : Nat :=
  if (pkt.drop 1).take 4 = [0, 0, 0, 0] then 6
  else if pkt.headD 0 / 64 % 2 ≠ 1 then 0
  else pkt.headD 0 / 16 % 4 + 1

/-- `parseLongHeaderPacket(pkt, k, pnumMax)` with keys set. -/
def parseLong (c : Crypto) (pkt : List Nat) (pnumMax : Int) : Option (LongPacket × Nat) :=
  if pkt.length < 5 ∨ pkt.headD 0 / 128 % 2 ≠ 1 then none
  else
    let ptype := longType pkt
    if ptype = 0 then none
    else
      match consumeUint32 (pkt.drop 1) with
      | none => none
      | some (version, _) =>
        if version = 0 then none
        else
          match takeUint8Bytes (pkt.drop 5) with
          | none => none
          | some (dcid, b1) =>
            if dcid.length > maxConnIDLen then none
            else
              match takeUint8Bytes b1 with
              | none => none
              | some (scid, b2) =>
                if scid.length > maxConnIDLen then none
                else if ptype = 4 then
                  some ({ ptype := 4, version := version, num := 0, dcid := dcid, scid := scid,
                          extra := b2, payload := [] }, pkt.length)
                else
                  match (if ptype = 1 then takeVarintBytes b2 else some ([], b2)) with
                  | none => none
                  | some (extra, b3) =>
                    match takeVarint b3 with
                    | none => none
                    | some (payLen, b4) =>
                      if b4.length < payLen then none
                      else
                        let pnumOff := pkt.length - b4.length
                        match unprotect c true (pkt.take (pnumOff + payLen)) pnumOff pnumMax with
                        | none => none
                        | some (pay, num, _) =>
                          some ({ ptype := ptype, version := version, num := num, dcid := dcid,
                                  scid := scid, extra := extra, payload := pay }, pnumOff + payLen)

/-- `parse1RTTPacket(pkt, k, dstConnIDLen, pnumMax)` with `updating = false`: the current key
`c` is used when the key-phase bit equals `phase`, the next key `cNext` otherwise (both share
the header-protection key). -/
def parseShort (c cNext : Crypto) (phase : Nat) (pkt : List Nat) (cidLen : Nat) (pnumMax : Int) :
    Option (Nat × List Nat) :=
  let pnumOff := 1 + cidLen
  if pkt.length < pnumOff + 4 + sampleSize then none
  else
    let m := c.hpMask ((pkt.drop (pnumOff + 4)).take sampleSize)
    let b0 := pkt.headD 0 ^^^ (m.headD 0 &&& 31)
    let k := if b0 / 4 % 2 * 4 = phase then c else cNext
    match unprotect { k with hpMask := c.hpMask } false pkt pnumOff pnumMax with
    | some (pay, num, _) => some (num, pay)
    | none => none

/-! ### the toy instance -/

def toyNonce (iv : List Nat) (pnum : Nat) : List Nat :=
  iv.take 4 ++ xorBytes (iv.drop 4)
    [pnum / 72057594037927936 % 256, pnum / 281474976710656 % 256, pnum / 1099511627776 % 256,
     pnum / 4294967296 % 256, pnum / 16777216 % 256, pnum / 65536 % 256, pnum / 256 % 256, pnum % 256]

def wsum : List Nat → Nat → Nat
  | [], _ => 0
  | b :: rest, k => b * k + wsum rest (k + 1)

def toyTag (nonce ad p : List Nat) : List Nat :=
  let s := wsum ad 1 + wsum p 7 + wsum nonce 3
  (List.range 16).map (fun j => (s + 31 * j) % 256)

def toySeal (iv : List Nat) (pnum : Nat) (ad p : List Nat) : List Nat :=
  let nonce := toyNonce iv pnum
  p.map (· ^^^ nonce.getD 11 0) ++ toyTag nonce ad p

def toyOpen (iv : List Nat) (pnum : Nat) (ad ct : List Nat) : Option (List Nat) :=
  if ct.length < 16 then none
  else
    let nonce := toyNonce iv pnum
    let p := (ct.take (ct.length - 16)).map (· ^^^ nonce.getD 11 0)
    if ct.drop (ct.length - 16) = toyTag nonce ad p then some p else none

def toyIV (k : Nat) : List Nat := (List.range 12).map (fun i => (16 * (k + 1) + i) % 256)

/-- Toy keys: ciphertext = plaintext XOR one nonce byte, tag = weighted checksum of nonce,
header and plaintext; header-protection mask = first 5 sample bytes. -/
def toy (k : Nat) : Crypto :=
  { aeadSeal := toySeal (toyIV k), aeadOpen := toyOpen (toyIV k), hpMask := fun s => s.take 5 }

/-! ### driver ops (`pkt …`) -/
open NetVerif.Driver

def showPW (parse : List Nat → String) : PW → String
  | .panic => "panic"
  | .nopacket => "none"
  | .packet bs => s!"ok {hexOfBytes bs} {parse bs}"

def showLong (c : Crypto) (pkt : List Nat) (recvMax : Int) : String :=
  match parseLong c pkt recvMax with
  | some (p, n) =>
    s!"{n} {p.ptype} {p.version} {p.num} {hexOfBytes p.dcid} {hexOfBytes p.scid} {hexOfBytes p.extra} {hexOfBytes p.payload}"
  | none => "err"

def showShort (c cn : Crypto) (phase : Nat) (pkt : List Nat) (cidLen : Nat) (recvMax : Int) : String :=
  match parseShort c cn phase pkt cidLen recvMax with
  | some (num, pay) => s!"{num} {hexOfBytes pay}"
  | none => "err"

def pwLen : PW → String
  | .panic => "panic"
  | .nopacket => "none"
  | .packet bs => s!"ok {bs.length}"

def pn62 (s : String) : Option Nat :=
  match parseNat s with
  | some v => if v < 4611686018427387904 then some v else none
  | none => none

def pnMax (s : String) : Option Int :=
  match parseInt s with
  | some v => if -1 ≤ v ∧ v < 4611686018427387904 then some v else none
  | none => none

def driverStepLong (suite ptype version dcid scid token pnum maxAcked recvMax payload lim : String) : String :=
    (do
      let ptype ← parseNat ptype
      if ptype < 1 ∨ ptype > 3 then none
      let version ← parseNat version
      if version ≥ 4294967296 then none
      let dcid ← parseBytes dcid; let scid ← parseBytes scid; let token ← parseBytes token
      let pnum ← pn62 pnum; let maxAcked ← pnMax maxAcked; let recvMax ← pnMax recvMax
      let payload ← parseBytes payload
      let lim ← parseNat lim
      if lim > 65536 then none
      let r := writeLong (toy 0) lim ptype version dcid scid token pnum maxAcked payload
      if suite == "toy" then pure (showPW (fun bs => showLong (toy 0) bs recvMax) r)
      else if suite == "aes128" ∨ suite == "aes256" ∨ suite == "chacha" then pure (pwLen r)
      else none).getD "bad-op"

def driverStep (t : List String) : String :=
  match t with
  | ["long", suite, ptype, version, dcid, scid, token, pnum, maxAcked, recvMax, payload, lim] =>
    driverStepLong suite ptype version dcid scid token pnum maxAcked recvMax payload lim
  | ["longfill", suite, ptype, version, dcid, scid, token, pnum, maxAcked, recvMax, fill, fb, lim] =>
    (do
      let n ← parseNat fill; let b ← parseNat fb
      if n > 70000 ∨ b > 255 then none
      let payload := hexOfBytes ((List.range n).map (fun i => (b + i) % 256))
      pure (driverStepLong suite ptype version dcid scid token pnum maxAcked recvMax payload lim)).getD "bad-op"
  | ["short", suite, phase, dcid, pnum, maxAcked, recvMax, payload, lim] =>
    (do
      let phase ← parseNat phase
      if phase ≠ 0 ∧ phase ≠ 4 then none
      let dcid ← parseBytes dcid
      let pnum ← pn62 pnum; let maxAcked ← pnMax maxAcked; let recvMax ← pnMax recvMax
      let payload ← parseBytes payload
      let lim ← parseNat lim
      if lim > 65536 then none
      let r := writeShort (toy 0) lim phase dcid pnum maxAcked payload
      if suite == "toy" then
        pure (showPW (fun bs => showShort (toy 0) (toy 1) phase bs dcid.length recvMax) r)
      else if suite == "aes128" ∨ suite == "aes256" ∨ suite == "chacha" then pure (pwLen r)
      else none).getD "bad-op"
  | ["parselong", b, recvMax] =>
    (do
      let b ← parseBytes b; let recvMax ← pnMax recvMax
      pure (match showLong (toy 0) b recvMax with | "err" => "err" | s => s!"ok {s}")).getD "bad-op"
  | ["parseshort", b, cidLen, phase, recvMax] =>
    (do
      let b ← parseBytes b; let cidLen ← parseNat cidLen; let phase ← parseNat phase
      let recvMax ← pnMax recvMax
      if phase ≠ 0 ∧ phase ≠ 4 then none
      if cidLen > 255 then none
      pure (match showShort (toy 0) (toy 1) phase b cidLen recvMax with
            | "err" => "err" | s => s!"ok {s}")).getD "bad-op"
  | _ => "bad-op"

end NetVerif.Model.QuicPacket
