import NetVerif.Model.StreamLimits
/-!
Model of the stream-table side of quic/conn_streams.go for ONE stream type of one endpoint
(C21): `streamForFrame` (implicit opening of all lower-numbered peer streams, the
`num >= limit` → STREAM_LIMIT_ERROR check through `remoteStreamLimits.open`, frames for unknown
locally-initiated ids → STREAM_STATE_ERROR), `newLocalStream` (blocks at the peer's MAX_STREAMS),
and stream retirement in `appendStreamFrames` (a stream leaves the table when BOTH directions are
done; only a peer-initiated one then calls `remoteLimit.close()`).

Not modelled: stream data, flow control, the send queues, the frame-type/direction check for
unidirectional streams at the top of `streamForFrame`.
-/
namespace NetVerif.Model.ConnStreams
open NetVerif.Model.StreamLimits

/-- An entry of `streamsState.streams` (`maybeStream`). -/
structure Entry where
  peer : Bool      -- initiated by the peer
  num : Int
  real : Bool      -- false: implicitly opened, `maybeStream{nil}`
  inDone : Bool    -- streamInDone
  outDone : Bool   -- streamOutDone
  deriving Repr, DecidableEq

structure CS where
  uni : Bool
  loc : Local
  rem : Remote
  tab : List Entry
  deriving Repr

def CS.init (uni : Bool) (maxOpen : Int) : CS :=
  { uni := uni, loc := Local.init, rem := Remote.init maxOpen, tab := [] }

inductive FrameRes where
  | stream          -- the frame is delivered to a (possibly new) stream
  | closedStream    -- the stream existed and is gone: frame ignored
  | limitError      -- STREAM_LIMIT_ERROR
  | stateError      -- STREAM_STATE_ERROR
  deriving Repr, DecidableEq

def find (tab : List Entry) (peer : Bool) (num : Int) : Option Entry :=
  tab.find? fun e => e.peer == peer && e.num == num

/-- Implicitly opened placeholders for the peer's streams `lo, lo+1, …` (`k` of them). -/
def implicitEntries (lo : Int) : Nat → List Entry
  | 0 => []
  | k + 1 => { peer := true, num := lo, real := false, inDone := false, outDone := false } :: implicitEntries (lo + 1) k

def newPeerStream (uni : Bool) (num : Int) : Entry :=
  { peer := true, num := num, real := true, inDone := false, outDone := uni }

/-- `streamForFrame` for a peer-initiated stream id with number `num`. -/
def CS.peerFrame (c : CS) (num : Int) : CS × FrameRes :=
  match find c.tab true num with
  | some e =>
    if e.real then (c, .stream)
    else
      -- implicitly opened earlier, created now (`remoteLimit.open` is a no-op: num < opened)
      ({ c with rem := (c.rem.open num).1,
                tab := c.tab.map fun x => if x.peer == true && x.num == num then newPeerStream c.uni num else x }, .stream)
  | none =>
    if num < c.rem.opened then (c, .closedStream)   -- created by the peer and closed since
    else
      let r := c.rem.open num
      if r.2 = false then (c, .limitError)
      else
        ({ c with rem := r.1,
                  tab := c.tab ++ implicitEntries c.rem.opened (num - c.rem.opened).toNat ++ [newPeerStream c.uni num] },
         .stream)

/-- `streamForFrame` for a locally-initiated stream id. -/
def CS.localFrame (c : CS) (num : Int) : CS × FrameRes :=
  match find c.tab false num with
  | some _ => (c, .stream)
  | none =>
    let w := c.loc.wasOpened num
    ({ c with loc := w.1 }, if w.2 then .closedStream else .stateError)

/-- `newLocalStream` with an expired context. -/
def CS.newLocal (c : CS) : CS × OpenRes :=
  let r := c.loc.open
  match r.2 with
  | .ok n => ({ c with loc := r.1, tab := c.tab ++ [{ peer := false, num := n, real := true, inDone := c.uni, outDone := false }] }, r.2)
  | _ => ({ c with loc := r.1 }, r.2)

/-- A MAX_STREAMS frame from the peer. -/
def CS.peerMax (c : CS) (v : Int) : CS := { c with loc := c.loc.setMax v }

def markDone (e : Entry) (inDir : Bool) : Entry :=
  if inDir then { e with inDone := true } else { e with outDone := true }

/-- One direction of a real stream finishes; when both are done the stream is retired
(`delete(c.streams.streams, s.id)`), and only for a peer-initiated stream `remoteLimit.close()` runs. -/
def CS.finish (c : CS) (peer : Bool) (num : Int) (inDir : Bool) : CS :=
  match find c.tab peer num with
  | none => c
  | some e =>
    if !e.real then c else
    let e' : Entry := markDone e inDir
    if e'.inDone && e'.outDone then
      { c with tab := c.tab.filter (fun x => !(x.peer == peer && x.num == num)),
               rem := if peer then c.rem.close else c.rem }
    else { c with tab := c.tab.map fun x => if x.peer == peer && x.num == num then e' else x }

inductive Op where
  | peerFrame (num : Int)
  | localFrame (num : Int)
  | newLocal
  | peerMax (v : Int)
  | finish (peer : Bool) (num : Int) (inDir : Bool)
  | sendMax                       -- `remoteLimit.appendFrame`
  deriving Repr

def CS.step (c : CS) : Op → CS
  | .peerFrame n => (c.peerFrame n).1
  | .localFrame n => (c.localFrame n).1
  | .newLocal => c.newLocal.1
  | .peerMax v => c.peerMax v
  | .finish p n d => c.finish p n d
  | .sendMax => { c with rem := c.rem.appendFrame.1 }

def CS.run (c : CS) (ops : List Op) : CS := ops.foldl CS.step c

/-- The peer-initiated streams currently in the table (implicit placeholders included):
the streams the peer holds open. -/
def CS.peerOpen (c : CS) : List Entry := c.tab.filter (·.peer)

end NetVerif.Model.ConnStreams
