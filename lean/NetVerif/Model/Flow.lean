/-
Model of golang.org/x/net/http2/flow.go: the inbound (`inflow`) and outbound
(`outflow`) flow-control window arithmetic. Shared by C10, C11 (inflow) and
C08, C09 (outflow).

Integers are `Int`. `inflow` fields are Go `int32`; the model computes over
unbounded `Int` and `Inflow.WF` states the range every reachable value stays in
(`Proofs/C10` proves WF is preserved, so no int32/int64 operation of the Go code
overflows on reachable states). `outflow.add` *relies* on int32 wrap-around, so
the outflow model reduces every int32 result with `wrap32`.
A Go `panic` is the result `none`.
-/
namespace NetVerif.Model.Flow

/-- `inflowMinRefresh`: the minimum number of bytes sent in a WINDOW_UPDATE. -/
def inflowMinRefresh : Int := 4096

/-- RFC 7540 §6.9.1 maximum window size, 2^31-1. -/
def maxWindow : Int := 2147483647

/-- `initialWindowSize` (RFC 7540 §6.5.2 default, 65535). -/
def initialWindowSize : Int := 65535

/-- `inflow`: `avail` is the window the peer has been told about (used for
enforcement), `unsent` the credit accumulated but not yet advertised. -/
structure Inflow where
  avail : Int
  unsent : Int
deriving Repr, DecidableEq

namespace Inflow

/-- `inflow.init`: sets `avail`; `unsent` is left alone (zero value on a fresh struct). -/
def init (f : Inflow) (n : Int) : Inflow := { f with avail := n }

/-- A fresh `inflow` after `init n`. -/
def new (n : Int) : Inflow := init ⟨0, 0⟩ n

/-- Reachable-state invariant: both fields non-negative and their sum a legal window. -/
def WF (f : Inflow) : Prop := 0 ≤ f.avail ∧ 0 ≤ f.unsent ∧ f.avail + f.unsent ≤ maxWindow

instance (f : Inflow) : Decidable f.WF := by unfold WF; exact inferInstance

/-- `inflow.add n`: `none` is the Go panic; otherwise the WINDOW_UPDATE increment to
send (0 = buffered for later) and the new state. -/
def add (f : Inflow) (n : Int) : Option (Int × Inflow) :=
  if n < 0 then none
  else
    let unsent := f.unsent + n
    if unsent + f.avail > maxWindow then none
    else if unsent < inflowMinRefresh ∧ unsent < f.avail then some (0, { f with unsent := unsent })
    else some (unsent, ⟨f.avail + unsent, 0⟩)

/-- `inflow.take n` (`n` is a Go `uint32`): whether the window had room, and the new state. -/
def take (f : Inflow) (n : Int) : Bool × Inflow :=
  if n > f.avail then (false, f) else (true, { f with avail := f.avail - n })

end Inflow

/-- `takeInflows f1 f2 n`: all-or-nothing take from two windows (conn and stream). -/
def takeInflows (f1 f2 : Inflow) (n : Int) : Bool × Inflow × Inflow :=
  if n > f1.avail ∨ n > f2.avail then (false, f1, f2)
  else (true, { f1 with avail := f1.avail - n }, { f2 with avail := f2.avail - n })

/-! ### outflow -/

/-- Two's-complement reduction of an int32 result. -/
def wrap32 (x : Int) : Int := Int.emod (x + 2147483648) 4294967296 - 2147483648

/-- Range of a Go `int32`. -/
def IsInt32 (x : Int) : Prop := -2147483648 ≤ x ∧ x ≤ 2147483647

/-- `outflow` as a value: its own counter `n`, and the counter of the connection-level
outflow it points to (`none` for the outflow that sits on the conn itself).
`setConnFlow` is `{ f with conn := some c }`; because Go shares the conn-level outflow by
pointer, callers thread the returned `conn` value back into the connection. -/
structure Outflow where
  n : Int
  conn : Option Int
deriving Repr, DecidableEq

namespace Outflow

def setConnFlow (f : Outflow) (c : Int) : Outflow := { f with conn := some c }

/-- `outflow.available`: min of own and conn-level window. -/
def available (f : Outflow) : Int :=
  match f.conn with
  | some c => if c < f.n then c else f.n
  | none => f.n

/-- `outflow.take n`: `none` is the Go panic ("took too much"). -/
def take (f : Outflow) (n : Int) : Option Outflow :=
  if n > f.available then none
  else some { n := wrap32 (f.n - n), conn := f.conn.map (fun c => wrap32 (c - n)) }

/-- `outflow.add n` (n positive or negative): false iff the int32 sum overflows. -/
def add (f : Outflow) (n : Int) : Bool × Outflow :=
  let sum := wrap32 (f.n + n)
  if (decide (sum > n)) = (decide (f.n > 0)) then (true, { f with n := sum }) else (false, f)

end Outflow

end NetVerif.Model.Flow
