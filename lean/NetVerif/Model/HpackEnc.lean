import NetVerif.Model.Hpack
/-!
# Model of the HPACK encoder (`http2/hpack/encode.go`, `tables.go:search`) — C01, C05

Conventions are those of `Model/Hpack.lean` (the decoder model this file is paired with):
bytes are `Nat`s, strings are byte lists, the dynamic table is a **newest-first** list, sizes are
unbounded `Nat`s (Go: `uint32`; equal while `len name + len value + 32 < 2^32`, the hypothesis of
the C01 theorems).

What is modelled
* `Encoder` = Go's `Encoder` without the `io.Writer`/scratch buffer: `dyn` (`dynTab`; its
  `allowedMaxSize` field is never written by the encoder and stays 0), `minSize`, `maxSizeLimit`,
  `tableSizeUpdate`;
* `headerFieldTable.search`, by its observable contract on the `byName`/`byNameValue`/`evictCount`
  index: the **newest** entry with equal name+value (skipped for sensitive fields), else the newest
  entry with equal name. "Newest" is the *last* element of Go's `ents`, for the static table too
  (`staticTable.byName[":method"] = 3`, not 2): `lastIdx` on the regenerated static entries,
  `firstIdx` on the newest-first dynamic list. That the literal index maps of `static_table.go` are
  exactly this function is the T-tie theorem `Proofs.C01.static_index_is_lastIdx`; that the
  incremental maintenance of the dynamic index (`addEntry`/`evictOldest`) implements it is tied by
  the differential run (encoder bytes are compared on histories full of duplicates and evictions);
* `Encoder.searchTable`, `shouldIndex`, `WriteField`, `SetMaxDynamicTableSize`,
  `SetMaxDynamicTableSizeLimit`, `appendVarInt`, `appendHpackString`, `appendIndexed`,
  `appendNewName`, `appendIndexedName`, `appendTableSize`, `encodeTypeByte`;
* `AppendHuffmanString` is C04's accumulator model `Huffman.appendHuffman` (proved equal to the
  bit-level `Huffman.encode` in `Proofs.C04.appendHuffman_eq_encode`).

Not modelled: `io.Writer` errors / short writes; `uint64`/`uint32` wrap-around.
-/
namespace NetVerif.Model.HpackEnc
open NetVerif.Model.Hpack
open NetVerif.Model

def uint32Max : Nat := 4294967295
def initialHeaderTableSize : Nat := 4096

/-- `Encoder` (without writer and scratch buffer). -/
structure Encoder where
  dyn : DynTable
  minSize : Nat
  maxSizeLimit : Nat
  tableSizeUpdate : Bool
  deriving DecidableEq, Repr, Inhabited

/-- `NewEncoder`. -/
def Encoder.new : Encoder :=
  { dyn := ({ maxSize := 0, allowedMaxSize := 0 } : DynTable).setMaxSize initialHeaderTableSize,
    minSize := uint32Max, maxSizeLimit := initialHeaderTableSize, tableSizeUpdate := false }

/-! ## Table search -/

/-- 1-based position of the first element satisfying `p` at or after position `pos`; 0 if none. -/
def firstIdxFrom (p : Entry → Bool) : List Entry → Nat → Nat
  | [], _ => 0
  | e :: es, pos => if p e then pos else firstIdxFrom p es (pos + 1)

/-- 1-based position of the first (= newest, in a newest-first list) match; 0 if none. -/
def firstIdx (p : Entry → Bool) (l : List Entry) : Nat := firstIdxFrom p l 1

/-- 1-based position of the last match, `acc` if none (`pos` = position of the head). -/
def lastIdxFrom (p : Entry → Bool) : List Entry → Nat → Nat → Nat
  | [], _, acc => acc
  | e :: es, pos, acc => lastIdxFrom p es (pos + 1) (if p e then pos else acc)

/-- 1-based position of the last match in a Go-order (oldest-first) list; 0 if none. -/
def lastIdx (p : Entry → Bool) (l : List Entry) : Nat := lastIdxFrom p l 1 0

def matchNV (f : Field) (e : Entry) : Bool := e.1 == f.name && e.2 == f.value
def matchN (f : Field) (e : Entry) : Bool := e.1 == f.name

/-- The contract of `headerFieldTable.search` given the two lookups "newest id by name+value" and
"newest id by name" already converted to HPACK indices. -/
def searchWith (f : Field) (byNV byN : Nat) : Nat × Bool :=
  if !f.sensitive && byNV != 0 then (byNV, true)
  else if byN != 0 then (byN, false)
  else (0, false)

/-- `staticTable.search(f)`. -/
def staticSearch (f : Field) : Nat × Bool :=
  searchWith f (lastIdx (matchNV f) staticTable) (lastIdx (matchN f) staticTable)

/-- `dynTab.table.search(f)` (index relative to the dynamic table, 1 = newest). -/
def dynSearch (ents : List Entry) (f : Field) : Nat × Bool :=
  searchWith f (firstIdx (matchNV f) ents) (firstIdx (matchN f) ents)

/-- `Encoder.searchTable`. -/
def Encoder.searchTable (e : Encoder) (f : Field) : Nat × Bool :=
  let s := staticSearch f
  if s.2 then (s.1, true)
  else
    let d := dynSearch e.dyn.ents f
    if d.2 || (s.1 == 0 && d.1 != 0) then (d.1 + staticTable.length, d.2)
    else (s.1, false)

/-! ## Byte-level encoders -/

/-- The loop of `appendVarInt` (`for ; i >= 128; i >>= 7`) and the final byte; `fuel ≥ i` suffices. -/
def varIntCont : Nat → Nat → Bytes
  | 0, i => [i]
  | fuel + 1, i => if i ≥ 128 then (128 + i % 128) :: varIntCont fuel (i / 128) else [i]

/-- `appendVarInt(nil, n, i)` with the bits `flag` or-ed into the first byte afterwards
(`dst[first] |= flag`; `flag` is a multiple of `2^n`, so `|` is `+`). -/
def appendVarInt (n : Nat) (flag : Nat) (i : Nat) : Bytes :=
  let k := 2 ^ n - 1
  if i < k then [flag + i] else (flag + k) :: varIntCont (i - k) (i - k)

/-- `AppendHuffmanString(nil, s)`. -/
def huffBytes (s : Bytes) : Bytes := Huffman.appendHuffman s

/-- `appendHpackString(nil, s)`. -/
def appendHpackString (s : Bytes) : Bytes :=
  let huffmanLength := Huffman.encodeLength s
  if huffmanLength < s.length then appendVarInt 7 128 huffmanLength ++ huffBytes s
  else appendVarInt 7 0 s.length ++ s

/-- `encodeTypeByte`. -/
def encodeTypeByte (indexing sensitive : Bool) : Nat :=
  if sensitive then 16 else if indexing then 64 else 0

/-- `appendIndexed`. -/
def appendIndexed (i : Nat) : Bytes := appendVarInt 7 128 i

/-- `appendNewName`. -/
def appendNewName (f : Field) (indexing : Bool) : Bytes :=
  encodeTypeByte indexing f.sensitive :: (appendHpackString f.name ++ appendHpackString f.value)

/-- `appendIndexedName`. -/
def appendIndexedName (f : Field) (i : Nat) (indexing : Bool) : Bytes :=
  appendVarInt (if indexing then 6 else 4) (encodeTypeByte indexing f.sensitive) i ++ appendHpackString f.value

/-- `appendTableSize`. -/
def appendTableSize (v : Nat) : Bytes := appendVarInt 5 32 v

/-! ## Encoder methods -/

/-- `Encoder.shouldIndex`. -/
def Encoder.shouldIndex (e : Encoder) (f : Field) : Bool := !f.sensitive && f.size ≤ e.dyn.maxSize

/-- The `if e.tableSizeUpdate { … }` prologue of `WriteField`: new flags and the bytes emitted. -/
def Encoder.flushUpdate (e : Encoder) : Encoder × Bytes :=
  if e.tableSizeUpdate then
    ({ e with tableSizeUpdate := false, minSize := uint32Max },
     (if e.minSize < e.dyn.maxSize then appendTableSize e.minSize else []) ++ appendTableSize e.dyn.maxSize)
  else (e, [])

/-- The rest of `WriteField` (representation of `f`). -/
def Encoder.writeRepr (e : Encoder) (f : Field) : Encoder × Bytes :=
  let s := e.searchTable f
  if s.2 then (e, appendIndexed s.1)
  else
    let indexing := e.shouldIndex f
    let e' := if indexing then { e with dyn := e.dyn.add (f.name, f.value) } else e
    (e', if s.1 = 0 then appendNewName f indexing else appendIndexedName f s.1 indexing)

/-- `Encoder.WriteField`: new state and the bytes of the single `Write`. -/
def Encoder.writeField (e : Encoder) (f : Field) : Encoder × Bytes :=
  let u := e.flushUpdate
  let r := u.1.writeRepr f
  (r.1, u.2 ++ r.2)

/-- `Encoder.SetMaxDynamicTableSize`. -/
def Encoder.setMaxDynamicTableSize (e : Encoder) (v : Nat) : Encoder :=
  let v := if v > e.maxSizeLimit then e.maxSizeLimit else v
  { e with minSize := if v < e.minSize then v else e.minSize,
           tableSizeUpdate := true,
           dyn := e.dyn.setMaxSize v }

/-- `Encoder.SetMaxDynamicTableSizeLimit`. -/
def Encoder.setMaxDynamicTableSizeLimit (e : Encoder) (v : Nat) : Encoder :=
  if e.dyn.maxSize > v then
    { e with maxSizeLimit := v, tableSizeUpdate := true, dyn := e.dyn.setMaxSize v }
  else { e with maxSizeLimit := v }

/-! ## Histories -/

/-- A table-size call between header blocks. -/
inductive SizeOp where
  | setMax (v : Nat)
  | setLimit (v : Nat)
  deriving DecidableEq, Repr, Inhabited

def Encoder.sizeOp (e : Encoder) : SizeOp → Encoder
  | .setMax v => e.setMaxDynamicTableSize v
  | .setLimit v => e.setMaxDynamicTableSizeLimit v

/-- One header block: the size calls made before it and its fields. -/
structure Block where
  pre : List SizeOp := []
  fields : List Field
  deriving DecidableEq, Repr, Inhabited

/-- Consecutive `WriteField`s; the chunks written, one per field. -/
def Encoder.writeFields : Encoder → List Field → Encoder × List Bytes
  | e, [] => (e, [])
  | e, f :: fs =>
    let r := e.writeField f
    let rs := r.1.writeFields fs
    (rs.1, r.2 :: rs.2)

/-- Size calls, then the block; returns the per-field chunks. -/
def Encoder.encodeBlock (e : Encoder) (b : Block) : Encoder × List Bytes :=
  (b.pre.foldl Encoder.sizeOp e).writeFields b.fields

end NetVerif.Model.HpackEnc
