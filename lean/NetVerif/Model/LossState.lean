/-!
Model of quic/loss.go `lossState` (per-space sent-packet lists, ACK-range processing, loss
detection, packet/key discard), quic/sent_packet_list.go, and quic/congestion_reno.go `ccReno`
(bytes in flight, NewReno window arithmetic, persistent congestion) — C26 and the
`receiveAckRange` clause of C25.

Times are `Int` nanoseconds since an arbitrary epoch; Go's zero `time.Time` is `none`.
Everything that comes out of the RTT estimator is an INPUT of the operation that uses it:
  * `ld`  = `lossState.lossDuration()` used by `detectLoss`,
  * `fst` = `rtt.firstSampleTime` used by `ccReno.packetLost`,
  * `pcd` = the persistent-congestion duration computed in `packetBatchEnd`,
so the theorems hold for any RTT estimator. Not modelled: PTO/loss timers, pacer,
anti-amplification, RTT estimation, qlog.
-/
namespace NetVerif.Model.LossState

inductive PState where
  | sent | acked | lost | unsent
  deriving Repr, DecidableEq

structure Pkt where
  num : Int
  size : Int
  time : Int
  ackEliciting : Bool
  inFlight : Bool
  state : PState
  deriving Repr, DecidableEq

/-- One packet-number space: `sentPacketList` (oldest first; `start = nextNum - len`), `maxAcked`
and the remembered skipped numbers. -/
structure Space where
  nextNum : Int := 0
  pkts : List Pkt := []
  maxAcked : Int := -1
  skipped : List Int := []   -- every number skipped by `skipNumber` (newest first)
  deriving Repr, DecidableEq

/-- `persistentCongestion[space]`. -/
structure PC where
  start : Option Int := none
  end_ : Option Int := none
  next : Int := -1
  deriving Repr, DecidableEq

def maxInt : Int := 9223372036854775807

structure CC where
  mds : Int                          -- maxDatagramSize
  cwnd : Int                         -- congestionWindow
  bytesInFlight : Int := 0
  ssthresh : Int := maxInt           -- slowStartThreshold
  recoveryStart : Option Int := none -- recoveryStartTime
  pendingAcks : Int := 0             -- congestionPendingAcks
  sendOne : Bool := false            -- sendOnePacketInRecovery
  inRecovery : Bool := false
  underutilized : Bool := false
  ackLastLoss : Option Int := none
  pc0 : PC := {}
  pc1 : PC := {}
  pc2 : PC := {}
  deriving Repr, DecidableEq

structure Loss where
  s0 : Space := {}
  s1 : Space := {}
  s2 : Space := {}
  cc : CC
  deriving Repr, DecidableEq

def Loss.space (l : Loss) : Nat → Space
  | 0 => l.s0 | 1 => l.s1 | _ => l.s2

def Loss.setSpace (l : Loss) (i : Nat) (s : Space) : Loss :=
  match i with
  | 0 => { l with s0 := s } | 1 => { l with s1 := s } | _ => { l with s2 := s }

def CC.pc (c : CC) : Nat → PC
  | 0 => c.pc0 | 1 => c.pc1 | _ => c.pc2

def CC.setPc (c : CC) (i : Nat) (p : PC) : CC :=
  match i with
  | 0 => { c with pc0 := p } | 1 => { c with pc1 := p } | _ => { c with pc2 := p }

/-! ### ccReno -/

/-- `minimumCongestionWindow()`. -/
def CC.minWindow (c : CC) : Int := 2 * c.mds

/-- `newReno(maxDatagramSize)`. -/
def newReno (mds : Int) : CC :=
  { mds := mds, cwnd := min (10 * mds) (max 14720 (2 * mds)) }

/-- `canSend()`. -/
def CC.canSend (c : CC) : Bool := c.sendOne || decide (c.bytesInFlight + c.mds ≤ c.cwnd)

/-- `packetSent`. -/
def CC.packetSent (c : CC) (p : Pkt) : CC :=
  if p.inFlight then { c with bytesInFlight := c.bytesInFlight + p.size, sendOne := false } else c

/-- `sent.time.Before(c.recoveryStartTime)` (false when the recovery time is zero). -/
def beforeOpt (t : Int) : Option Int → Bool
  | none => false
  | some r => decide (t < r)

/-- `packetAcked`. -/
def CC.packetAcked (c : CC) (p : Pkt) : CC :=
  if !p.inFlight then c else
  let c := { c with bytesInFlight := c.bytesInFlight - p.size }
  if c.underutilized then c
  else if beforeOpt p.time c.recoveryStart then c
  else { c with pendingAcks := c.pendingAcks + p.size }

/-- The persistent-congestion bookkeeping at the top of `packetLost`; `fst` is `rtt.firstSampleTime`. -/
def pcAfterLoss (pc : PC) (p : Pkt) (fst : Option Int) : PC :=
  let valid : Bool := p.ackEliciting && (match fst with | none => false | some f => decide (f ≤ p.time))
  if valid then
    { start := if p.num ≠ pc.next then some p.time else pc.start, end_ := some p.time, next := p.num + 1 }
  else if p.num = pc.next then { pc with next := p.num + 1 } else pc

/-- `ackLastLoss` after a loss of a packet sent at `t` (`if sent.time.After(c.ackLastLoss)`). -/
def lastLossAfter (a : Option Int) (t : Int) : Option Int :=
  match a with
  | none => some t
  | some a => if t > a then some t else some a

/-- `packetLost(now, space, sent, rtt)`. -/
def CC.packetLost (c : CC) (space : Nat) (p : Pkt) (fst : Option Int) : CC :=
  let c1 := c.setPc space (pcAfterLoss (c.pc space) p fst)
  if !p.inFlight then c1 else
  { c1 with bytesInFlight := c1.bytesInFlight - p.size, ackLastLoss := lastLossAfter c1.ackLastLoss p.time }

/-- `packetDiscarded`. -/
def CC.packetDiscarded (c : CC) (p : Pkt) : CC :=
  if p.inFlight then { c with bytesInFlight := c.bytesInFlight - p.size } else c

/-- The congestion-avoidance loop `for pending > cwnd { pending -= cwnd; cwnd += mds }`. -/
def caLoop (mds : Int) : Nat → Int → Int → Int × Int
  | 0, cwnd, pending => (cwnd, pending)
  | fuel + 1, cwnd, pending =>
    if pending > cwnd then caLoop mds fuel (cwnd + mds) (pending - cwnd) else (cwnd, pending)

/-- `!c.ackLastLoss.IsZero() && !c.ackLastLoss.Before(c.recoveryStartTime)`. -/
def CC.enterCond (c : CC) : Bool :=
  match c.ackLastLoss with
  | none => false
  | some a => !(beforeOpt a c.recoveryStart)

/-- Entering the recovery state. -/
def CC.enterRecovery (c : CC) (now : Int) : CC :=
  { c with recoveryStart := some now, ssthresh := c.cwnd / 2, cwnd := max (c.cwnd / 2) c.minWindow,
           sendOne := true, pendingAcks := 0, inRecovery := true }

/-- The slow-start increment: (cwnd, pendingAcks) after `d := min(ssthresh-cwnd, pending)`. -/
def CC.ssStep (c : CC) : Int × Int :=
  if c.cwnd < c.ssthresh then
    (c.cwnd + min (c.ssthresh - c.cwnd) c.pendingAcks, c.pendingAcks - min (c.ssthresh - c.cwnd) c.pendingAcks)
  else (c.cwnd, c.pendingAcks)

/-- Slow start followed by the congestion-avoidance loop. -/
def CC.grow (c : CC) : CC :=
  let r := caLoop c.mds c.ssStep.2.toNat c.ssStep.1 c.ssStep.2
  { c with inRecovery := false, cwnd := r.1, pendingAcks := r.2 }

def CC.batchStage1 (c : CC) (now : Int) : CC :=
  if c.enterCond then c.enterRecovery now
  else if c.pendingAcks > 0 then c.grow
  else c

/-- `end.Sub(start) >= d` for `persistentCongestion[space]` (both zero gives 0). -/
def PC.persistent (pc : PC) (pcd : Int) : Bool :=
  match pc.start, pc.end_ with
  | some s, some e => decide (e - s ≥ pcd)
  | _, _ => decide ((0 : Int) ≥ pcd)

def CC.batchStage2 (c : CC) (space : Nat) (pcd : Int) : CC :=
  match c.ackLastLoss with
  | none => c
  | some _ => if (c.pc space).persistent pcd then { c with cwnd := c.minWindow, recoveryStart := none } else c

/-- `packetBatchEnd(now, log, space, rtt, maxAckDelay)`; `pcd` is the persistent congestion
duration `(smoothedRTT + max(4*rttvar, granularity) + maxAckDelay) * 3`. -/
def CC.packetBatchEnd (c : CC) (now : Int) (space : Nat) (pcd : Int) : CC :=
  { ((c.batchStage1 now).batchStage2 space pcd) with ackLastLoss := none }

/-! ### sentPacketList -/

def Space.start (s : Space) : Int := s.nextNum - s.pkts.length

/-- `clean()`: drop acked/lost/unsent packets from the head. -/
def cleanList : List Pkt → List Pkt
  | [] => []
  | p :: rest => if p.state = .sent then p :: rest else cleanList rest

def Space.clean (s : Space) : Space := { s with pkts := cleanList s.pkts }

/-- `add(sent)` (the caller supplies `sent.num = nextNum`). -/
def Space.add (s : Space) (p : Pkt) : Space :=
  { s with nextNum := s.nextNum + 1, pkts := s.pkts ++ [p] }

/-! ### lossState operations. Each returns the callbacks it made: (space, packet number, fate). -/

inductive Fate where
  | acked | lost
  deriving Repr, DecidableEq

abbrev Callback := Nat × Int × Fate

def Loss.init (mds : Int) : Loss := { cc := newReno mds }

/-- `packetSent(now, log, space, sent)` for a packet numbered `nextNum`. -/
def Loss.packetSent (l : Loss) (space : Nat) (size : Int) (ae inFlight : Bool) (now : Int) : Loss :=
  let s := l.space space
  let p : Pkt := { num := s.nextNum, size := size, time := now, ackEliciting := ae, inFlight := inFlight, state := .sent }
  let l := l.setSpace space (s.add p)
  { l with cc := l.cc.packetSent p }

/-- `skipNumber(now, space)`. -/
def Loss.skipNumber (l : Loss) (space : Nat) (now : Int) : Loss :=
  let s := l.space space
  let p : Pkt := { num := s.nextNum, size := 0, time := now, ackEliciting := false, inFlight := false, state := .unsent }
  l.setSpace space { (s.add p) with skipped := s.nextNum :: s.skipped }

structure AckWalk where
  pkts : List Pkt
  cc : CC
  maxAcked : Int
  acked : List Int     -- newly acknowledged numbers, in callback order
  violation : Bool

/-- The `for pnum := start; pnum < end; pnum++` loop of `receiveAckRange`, walking the list
(packet numbers in the list are consecutive, so walking the list and skipping numbers below
`lo` is the same as indexing by number). -/
def ackWalk (lo hi : Int) (cc : CC) (maxAcked : Int) : List Pkt → AckWalk
  | [] => ⟨[], cc, maxAcked, [], false⟩
  | p :: rest =>
    if p.num < lo then
      let w := ackWalk lo hi cc maxAcked rest
      { w with pkts := p :: w.pkts }
    else if p.num ≥ hi then ⟨p :: rest, cc, maxAcked, [], false⟩
    else if p.state = .unsent then ⟨p :: rest, cc, maxAcked, [], true⟩
    else if p.state ≠ .sent then
      let w := ackWalk lo hi cc maxAcked rest
      { w with pkts := p :: w.pkts }
    else
      let w := ackWalk lo hi (cc.packetAcked p) (if p.num > maxAcked then p.num else maxAcked) rest
      { w with pkts := { p with state := .acked } :: w.pkts, acked := p.num :: w.acked }

/-- `receiveAckRange(now, space, rangeIndex, start, end, ackf)`.
`violation = true` is the PROTOCOL_VIOLATION error ("acknowledgement for unsent packet");
packets acknowledged before the violation was noticed stay acknowledged, as in the Go code. -/
def Loss.receiveAckRange (l : Loss) (space : Nat) (start end_ : Int) : Loss × List Callback × Bool :=
  let s := l.space space
  -- an acknowledgement for a skipped number is an error even after the list forgot the skip
  if s.skipped.any (fun k => decide (start ≤ k ∧ k < end_)) then (l, [], true) else
  let start := if start < s.start then s.start else start
  if end_ > s.nextNum then (l, [], true)
  else if start ≥ end_ then (l, [], false)
  else
    let w := ackWalk start end_ l.cc s.maxAcked s.pkts
    let l' := { (l.setSpace space { s with pkts := w.pkts, maxAcked := w.maxAcked }) with cc := w.cc }
    (l', w.acked.map fun n => (space, n, Fate.acked), w.violation)

structure LossWalk where
  pkts : List Pkt
  cc : CC
  lost : List Int

/-- The per-space loop of `detectLoss`. -/
def lossWalk (space : Nat) (maxAcked lossTime : Int) (fst : Option Int) (cc : CC) : List Pkt → LossWalk
  | [] => ⟨[], cc, []⟩
  | p :: rest =>
    if p.state ≠ .sent then
      let w := lossWalk space maxAcked lossTime fst cc rest
      { w with pkts := p :: w.pkts }
    else if maxAcked - p.num ≥ 3 ∨ (p.num ≤ maxAcked ∧ p.time ≤ lossTime) then
      let cc' := if p.inFlight then cc.packetLost space p fst else cc
      let w := lossWalk space maxAcked lossTime fst cc' rest
      { w with pkts := { p with state := .lost } :: w.pkts, lost := p.num :: w.lost }
    else ⟨p :: rest, cc, []⟩

def Loss.detectSpace (l : Loss) (space : Nat) (now ld : Int) (fst : Option Int) : Loss × List Callback :=
  let s := l.space space
  let w := lossWalk space s.maxAcked (now - ld) fst l.cc s.pkts
  let l' := { (l.setSpace space ({ s with pkts := w.pkts } : Space).clean) with cc := w.cc }
  (l', w.lost.map fun n => (space, n, Fate.lost))

/-- `detectLoss(now, lossf)`; `ld = lossDuration()`. -/
def Loss.detectLoss (l : Loss) (now ld : Int) (fst : Option Int) : Loss × List Callback :=
  let (l0, c0) := l.detectSpace 0 now ld fst
  let (l1, c1) := l0.detectSpace 1 now ld fst
  let (l2, c2) := l1.detectSpace 2 now ld fst
  (l2, c0 ++ c1 ++ c2)

/-- `advance(now, lossf)` (loss-detection part). -/
def Loss.advance (l : Loss) (now ld : Int) (fst : Option Int) : Loss × List Callback :=
  l.detectLoss now ld fst

/-- `receiveAckEnd(now, log, space, ackDelay, lossf)`. -/
def Loss.receiveAckEnd (l : Loss) (space : Nat) (now ld : Int) (fst : Option Int) (pcd : Int) : Loss × List Callback :=
  let l := l.setSpace space (l.space space).clean
  let (l, cbs) := l.detectLoss now ld fst
  ({ l with cc := l.cc.packetBatchEnd now space pcd }, cbs)

structure DiscWalk where
  pkts : List Pkt
  cc : CC
  lost : List Int

def discWalk (cc : CC) : List Pkt → DiscWalk
  | [] => ⟨[], cc, []⟩
  | p :: rest =>
    if p.state ≠ .sent then
      let w := discWalk cc rest
      { w with pkts := p :: w.pkts }
    else
      let w := discWalk (cc.packetDiscarded p) rest
      { w with pkts := { p with state := .lost } :: w.pkts, lost := p.num :: w.lost }

/-- `discardPackets(space, log, lossf)` (e.g. after a Retry). -/
def Loss.discardPackets (l : Loss) (space : Nat) : Loss × List Callback :=
  let s := l.space space
  let w := discWalk l.cc s.pkts
  let l' := { (l.setSpace space ({ s with pkts := w.pkts } : Space).clean) with cc := w.cc }
  (l', w.lost.map fun n => (space, n, Fate.lost))

/-- `discardKeys(now, log, space)`: in-flight bytes are released, no callbacks, the list is reset. -/
def Loss.discardKeys (l : Loss) (space : Nat) : Loss :=
  let s := l.space space
  let w := discWalk l.cc s.pkts
  { (l.setSpace space {}) with cc := w.cc }

/-- `cc.setUnderutilized(log, v)`. -/
def Loss.setUnderutilized (l : Loss) (v : Bool) : Loss := { l with cc := { l.cc with underutilized := v } }

end NetVerif.Model.LossState
