import NetVerif.Gen.C40
/-!
Model of `html/escape.go`: `escape`/`EscapeString`, `unescapeEntity`, `unescape`/`UnescapeString`
(complete: numeric references incl. the Windows-1252 table, named references through the
regenerated `entity`/`entity2` maps, the attr-mode exceptions and the longest-prefix fallback).

Bytes are `Nat < 256`, strings `List Nat`, runes `Nat`.
Not modelled: the in-place reuse of the input slice by `unescape` (value semantics only).
-/
namespace NetVerif.Model.HtmlEscape
open NetVerif.Gen.C40

/-! ### escape -/

def ampE : List Nat := [38, 97, 109, 112, 59]   -- &amp;
def aposE : List Nat := [38, 35, 51, 57, 59]    -- &#39;
def ltE : List Nat := [38, 108, 116, 59]        -- &lt;
def gtE : List Nat := [38, 103, 116, 59]        -- &gt;
def quotE : List Nat := [38, 35, 51, 52, 59]    -- &#34;
def crE : List Nat := [38, 35, 49, 51, 59]      -- &#13;

/-- The replacement of one byte: the `switch s[i]` of func escape; every other byte is copied. -/
def escByte (c : Nat) : List Nat :=
  if c = 38 then ampE
  else if c = 39 then aposE
  else if c = 60 then ltE
  else if c = 62 then gtE
  else if c = 34 then quotE
  else if c = 13 then crE
  else [c]

/-- `escape(w, s)` / `EscapeString(s)`: the output written to `w`. -/
def escape : List Nat → List Nat
  | [] => []
  | c :: s => escByte c ++ escape s

/-- The same function, but reading the replacement out of the regenerated switch table. -/
def escByteGen (c : Nat) : List Nat :=
  match escTable.lookup c with
  | some e => e
  | none => [c]

/-! ### UTF-8 encoding (`utf8.AppendRune`) -/

def utf8Enc (r : Nat) : List Nat :=
  if r < 128 then [r]
  else if r < 2048 then [192 + r / 64, 128 + r % 64]
  else if (55296 ≤ r ∧ r ≤ 57343) ∨ r > 1114111 then [239, 191, 189]   -- invalid rune → U+FFFD
  else if r < 65536 then [224 + r / 4096, 128 + r / 64 % 64, 128 + r % 64]
  else [240 + r / 262144, 128 + r / 4096 % 64, 128 + r / 64 % 64, 128 + r % 64]

/-! ### unescapeEntity -/

def isDigit (c : Nat) : Bool := 48 ≤ c && c ≤ 57
def isAlnum (c : Nat) : Bool := (97 ≤ c && c ≤ 122) || (65 ≤ c && c ≤ 90) || (48 ≤ c && c ≤ 57)

/-- value of a hex digit, `none` if `c` is not one -/
def hexDigitVal (c : Nat) : Option Nat :=
  if 48 ≤ c ∧ c ≤ 57 then some (c - 48)
  else if 97 ≤ c ∧ c ≤ 102 then some (c - 97 + 10)
  else if 65 ≤ c ∧ c ≤ 70 then some (c - 65 + 10)
  else none

def decDigitVal (c : Nat) : Option Nat := if 48 ≤ c ∧ c ≤ 57 then some (c - 48) else none

/-- The digit loop of the numeric branch: returns (accumulated value, number of digits consumed).
`if x <= 0x10FFFF { x = mult*x + d }` (no int32 overflow: 16*0x10FFFF+15 < 2^31). -/
def digitLoop (hex : Bool) : List Nat → Nat → Nat → Nat × Nat
  | [], x, k => (x, k)
  | c :: s, x, k =>
    match (if hex then hexDigitVal c else decDigitVal c) with
    | none => (x, k)
    | some d => digitLoop hex s (if x ≤ 1114111 then (if hex then 16 else 10) * x + d else x) (k + 1)

/-- Result of `unescapeEntity`: (rune, second rune or 0, bytes consumed). -/
abbrev EntRes := Nat × Nat × Nat

def notEntity : EntRes := (38, 0, 1)

/-- Numeric branch; `s` is the input after `&#`. `i` counts consumed bytes. -/
def numericRef (s : List Nat) : EntRes :=
  match s with
  | [] => notEntity                                  -- `len(s) <= 2`
  | c :: rest =>
    let hex := c = 120 ∨ c = 88
    let body := if hex then rest else s
    let i0 := if hex then 3 else 2
    let (x, k) := digitLoop hex body 0 0
    if k = 0 then notEntity else
    let i := i0 + k
    let i := if (body.drop k).head? = some 59 then i + 1 else i
    let x :=
      if 128 ≤ x ∧ x ≤ 159 then replacementTable.getD (x - 128) 0
      else if x = 0 ∨ (55296 ≤ x ∧ x ≤ 57343) ∨ x > 1114111 then 65533
      else x
    (x, 0, i)

/-- The name scan: the longest alphanumeric run, plus one `;` if it follows directly. -/
def scanName : List Nat → List Nat
  | [] => []
  | c :: s => if isAlnum c then c :: scanName s else if c = 59 then [59] else []

/-- Map key of an entity name (big-endian base 256), as used by the regenerated tables. -/
def nameKey (name : List Nat) : Nat := name.foldl (fun acc b => acc * 256 + b) 0

/-- `entity[name]` (0 if absent). -/
def entityLookup (name : List Nat) : Nat :=
  if name.isEmpty then 0 else
  match entityTable.lookup (nameKey name) with
  | some r => r
  | none => 0

/-- `entity2[name]` ((0,0) if absent). -/
def entity2Lookup (name : List Nat) : Nat × Nat :=
  if name.isEmpty then (0, 0) else
  match entity2Table.lookup (nameKey name) with
  | some r => r
  | none => (0, 0)

/-- `for j := maxLen; j > 1; j-- { if x := entity[entityName[:j]]; x != 0 { return x, 0, j + 1 } }` -/
def prefixFallback (name : List Nat) : Nat → EntRes
  | 0 => notEntity
  | j + 1 =>
    if j + 1 > 1 then
      let x := entityLookup (name.take (j + 1))
      if x ≠ 0 then (x, 0, j + 2) else prefixFallback name j
    else notEntity

/-- Named branch; `s` is the input after `&`. -/
def namedRef (s : List Nat) (attr : Bool) : EntRes :=
  let name := scanName s
  if name.isEmpty then notEntity
  else if attr ∧ name.getLast? ≠ some 59 ∧ (s.drop name.length).head? = some 61 then notEntity
  else
    let x := entityLookup name
    if x ≠ 0 then (x, 0, name.length + 1) else
    let y := entity2Lookup name
    if y.1 ≠ 0 then (y.1, y.2, name.length + 1) else
    if ¬ attr then
      prefixFallback name (min (name.length - 1) longestEntityWithoutSemicolon)
    else notEntity

/-- `unescapeEntity(s, attribute)` where `s = '&' :: rest`. -/
def unescapeEntity (rest : List Nat) (attr : Bool) : EntRes :=
  match rest with
  | [] => notEntity
  | 35 :: t => numericRef t
  | _ => namedRef rest attr

/-! ### unescape -/

/-- The loop of `unescape` (fuel = remaining length; every step consumes at least one byte). -/
def unescapeAux (attr : Bool) : Nat → List Nat → List Nat
  | 0, _ => []
  | _ + 1, [] => []
  | fuel + 1, c :: rest =>
    if c ≠ 38 then c :: unescapeAux attr fuel rest else
    let (r1, r2, n) := unescapeEntity rest attr
    if n = 1 ∧ r1 = 38 then 38 :: unescapeAux attr fuel rest
    else utf8Enc r1 ++ (if r2 ≠ 0 then utf8Enc r2 else []) ++ unescapeAux attr fuel (rest.drop (n - 1))

/-- `unescape(b, attribute)` (and `UnescapeString` = `unescape(b, false)`). -/
def unescape (b : List Nat) (attr : Bool) : List Nat := unescapeAux attr b.length b

/-! ### Comments: `escapeComment` and the tokenizer's `Text()` pipeline for comment data -/

/-- `escapeComment(w, s)`: every `&` becomes `&amp;`; `>` becomes `&gt;` iff it is the first byte or
follows `!` or `-`; every CR becomes `&#13;` (since the `fix:` commit for C40 comment-cr-unescaped).
`prev` is the previous input byte (`none` at the start). -/
def escapeCommentAux : Option Nat → List Nat → List Nat
  | _, [] => []
  | prev, c :: s =>
    (if c = 38 then ampE
     else if c = 62 ∧ (prev = none ∨ prev = some 33 ∨ prev = some 45) then gtE
     else if c = 13 then crE
     else [c]) ++ escapeCommentAux (some c) s

def escapeComment (s : List Nat) : List Nat := escapeCommentAux none s

/-- `convertNewlines`: every CR becomes LF and an LF directly after a CR is dropped
(so CR LF and lone CR both become one LF). `prevCR`: the previous input byte was a CR. -/
def convertNewlinesAux : Bool → List Nat → List Nat
  | _, [] => []
  | prevCR, c :: s =>
    if c = 13 then 10 :: convertNewlinesAux true s
    else if c = 10 ∧ prevCR = true then convertNewlinesAux false s
    else c :: convertNewlinesAux false s

def convertNewlines (s : List Nat) : List Nat := convertNewlinesAux false s

/-- `bytes.Replace(s, nul, replacement, -1)`: NUL becomes U+FFFD. -/
def nulToReplacement : List Nat → List Nat
  | [] => []
  | c :: s => (if c = 0 then [239, 191, 189] else [c]) ++ nulToReplacement s

/-- `Tokenizer.Text()` for a comment token whose raw data span is `s`
(`convertNewlines`, NUL replacement, `unescape(s, false)`). -/
def commentText (s : List Nat) : List Nat := unescape (nulToReplacement (convertNewlines s)) false

end NetVerif.Model.HtmlEscape
