/-
Model of the EDNS(0) part of dns/dnsmessage/message.go:
`ResourceHeader.SetEDNS0`, `DNSSECAllowed`, `ExtendedRCode`.
Only the fields the three methods touch are modelled (Type, Class, TTL);
`h.Name` (always set to the root name) is outside the property.
Arithmetic form (`/ % *` by literal powers of two) of the Go masks:
  TTL & 0x00ff0000 == 0        ⇔ TTL / 2^16 % 256 = 0      (version byte)
  TTL & 0x00ff8000 == 0x8000   ⇔ TTL / 2^15 % 512 = 1      (version 0 and DO set)
Go types: RCode, Class = uint16, TTL = uint32; `uint32(ext) >> 4 << 24` keeps the
low 8 bits of `ext / 16`, `Class(int)` keeps the low 16 bits.
-/
namespace NetVerif.Model.Edns0

structure Hdr where
  typ : Nat
  cls : Nat
  ttl : Nat
  deriving DecidableEq, Repr

def typeOPT : Nat := 41

/-- `h.SetEDNS0(udpPayloadLen, extRCode, dnssecOK)` (fields Type, Class, TTL afterwards), applied to
a header whose fields were `prior` before the call. The Go method OVERWRITES all three fields, so
`prior` is not used: a reused header (earlier SetEDNS0 call, ordinary record TTL) behaves like a
fresh one (`Proofs.C38.set_independent_of_prior`; for the translated code `gen_setEDNS0_eq`). -/
def setEDNS0 (_prior : Hdr) (udpPayloadLen extRCode : Nat) (dnssecOK : Bool) : Hdr :=
  { typ := typeOPT
    cls := udpPayloadLen % 65536
    ttl := extRCode / 16 % 256 * 16777216 + (if dnssecOK then 32768 else 0) }

/-- `h.DNSSECAllowed()` as a function of `h.TTL`. -/
def dnssecAllowed (ttl : Nat) : Bool := decide (ttl / 32768 % 512 = 1)

/-- `h.ExtendedRCode(rcode)` as a function of `h.TTL`. -/
def extendedRCode (ttl rcode : Nat) : Nat :=
  if ttl / 65536 % 256 = 0 then (ttl / 16777216 * 16) ||| rcode else rcode

end NetVerif.Model.Edns0
