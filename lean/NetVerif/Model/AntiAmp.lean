/-!
C27 — QUIC anti-amplification: executable model of the credit counter
`lossState.antiAmplificationLimit` (quic/loss.go), of the datagram sizing of
`Conn.maybeSend` (quic/conn_send.go), and the wire monitor used by the
V-tie. Core Lean only.

Go `int` is modelled as unbounded `Int`; the theorems state the no-overflow
hypothesis (three times the bytes received stays below `math.MaxInt`).
-/
namespace NetVerif.Model.AntiAmp

/-! ## The credit counter (loss.go) -/

/-- `antiAmplificationUnlimited = math.MaxInt`. -/
def unlimited : Int := 9223372036854775807
/-- `minPacketSize`: below this credit `sendLimit` returns `ccBlocked`. -/
def minPacketSize : Int := 128
/-- `smallestMaxDatagramSize`, which `newConn` passes to `loss.init` as `cc.maxDatagramSize`. -/
def maxDatagramSize : Int := 1200
/-- `paddedInitialDatagramSize`. -/
def paddedInitial : Int := 1200
def clientSide : Int := 0
def serverSide : Int := 1

/-- `lossState.init`: the credit of a fresh `lossState` (zero value) after `init(side, …)`. -/
def initCredit (limit side : Int) : Int := if side = clientSide then unlimited else limit

/-- `lossState.datagramReceived`: credit afterwards. -/
def datagramReceived (limit size : Int) : Int :=
  if limit ≠ unlimited then limit + 3 * size else limit

/-- `lossState.packetSent`: credit afterwards (note the `max(0, …)` clamp). -/
def packetSent (limit size : Int) : Int :=
  if limit ≠ unlimited then max 0 (limit - size) else limit

/-- `lossState.validateClientAddress`. -/
def validateClientAddress (_limit : Int) : Int := unlimited

/-- `lossState.maxSendSize`. -/
def maxSendSize (limit maxDgram : Int) : Int := min limit maxDgram

/-- First test of `lossState.sendLimit`: `ccBlocked`. -/
def blocked (limit : Int) : Bool := decide (limit < minPacketSize)

/-! ## Counter histories -/

inductive Op where
  | recv (n : Int)      -- datagramReceived(n)
  | send (n : Int)      -- packetSent for a datagram of n bytes in total
  | validate            -- validateClientAddress
deriving Repr, DecidableEq

/-- Credit plus the two ghost totals the property speaks about. -/
structure St where
  credit : Int
  recvd : Int
  sent : Int
  validated : Bool
deriving Repr, DecidableEq

/-- A server connection right after `lossState.init(serverSide, …)`. -/
def St.server : St := ⟨initCredit 0 serverSide, 0, 0, false⟩

def step (s : St) : Op → St
  | .recv n => { s with credit := datagramReceived s.credit n, recvd := s.recvd + n }
  | .send n => { s with credit := packetSent s.credit n, sent := s.sent + n }
  | .validate => { s with credit := validateClientAddress s.credit, validated := true }

def run (s : St) (ops : List Op) : St := ops.foldl step s

/-- The precondition the proof needs: a send is preceded by `size ≤ maxSendSize()`. -/
def Pre (s : St) : Op → Prop
  | .recv n => 0 ≤ n
  | .send n => 0 ≤ n ∧ n ≤ maxSendSize s.credit maxDatagramSize
  | .validate => True

/-- Every op of the history satisfies `Pre` in the state it is applied to. -/
def AllPre : St → List Op → Prop
  | _, [] => True
  | s, op :: rest => Pre s op ∧ AllPre (step s op) rest

/-- Bytes received by the ops of a history. -/
def recvTotal : List Op → Int
  | [] => 0
  | .recv n :: t => n + recvTotal t
  | _ :: t => recvTotal t

/-! ## `Conn.maybeSend` datagram sizing (conn_send.go)

The packet writer is reset to `maxSendSize()`, packets with `k` bytes in total are
written, and if the datagram carries an ack-eliciting server Initial it is padded
with zeros to `paddedInitialDatagramSize` afterwards (each pad byte is added to the
Initial packet's `size`, so `packetSent` is charged the padded size). Since the repair of
`padded-initial-exceeds-credit` a server only puts ack-eliciting frames into an Initial
packet when `maxSendSize() ≥ paddedInitialDatagramSize`, so a padded datagram is only
produced when the credit covers the padded size. -/

/-- Size on the wire of a datagram whose packets take `k` bytes. -/
def codeDatagramSize (k : Int) (pad : Bool) : Int := if pad then max k paddedInitial else k

inductive COp where
  | recv (n : Int)
  | csend (k : Int) (pad : Bool)   -- one iteration of the maybeSend loop that sends a datagram
  | validate
deriving Repr, DecidableEq

/-- What the code guarantees before a send: not `ccBlocked`, the packets fit the writer, and a
datagram that needs padding is only built when the writer has room for the padded size. -/
def CPre (s : St) : COp → Prop
  | .recv n => 0 ≤ n
  | .csend k pad => blocked s.credit = false ∧ 0 < k ∧ k ≤ maxSendSize s.credit maxDatagramSize ∧
      (pad = true → paddedInitial ≤ maxSendSize s.credit maxDatagramSize)
  | .validate => True

instance (s : St) (op : COp) : Decidable (CPre s op) := by
  cases op <;> unfold CPre <;> infer_instance

def cstep (s : St) : COp → St
  | .recv n => step s (.recv n)
  | .csend k pad => step s (.send (codeDatagramSize k pad))
  | .validate => step s .validate

def AllCPre : St → List COp → Prop
  | _, [] => True
  | s, op :: rest => CPre s op ∧ AllCPre (cstep s op) rest

instance : (s : St) → (ops : List COp) → Decidable (AllCPre s ops)
  | _, [] => by unfold AllCPre; infer_instance
  | s, op :: rest => by
    unfold AllCPre
    have := instDecidableAllCPre (cstep s op) rest
    infer_instance

def crun (s : St) (ops : List COp) : St := ops.foldl cstep s

def crecvTotal : List COp → Int
  | [] => 0
  | .recv n :: t => n + crecvTotal t
  | _ :: t => crecvTotal t

/-! ## Wire monitor (V-tie)

Events observed on the fake network of the package's test rig, for ONE server
endpoint with at most one connection, per client address (a small natural number). -/

inductive Route where
  | none   -- not delivered to a connection
  | conn   -- destination connection ID routes to the existing connection
  | new    -- creates the connection (and is delivered to it)
deriving Repr, DecidableEq

inductive Ev where
  /-- datagram of `n` bytes arrives from address `a`; `hs`: it carries a Handshake packet
      protected with the real handshake keys (processing it validates the address). -/
  | recv (a : Nat) (n : Int) (r : Route) (hs : Bool)
  /-- datagram of `n` bytes leaves for address `a`; `byConn`: written by `Conn.maybeSend`
      (otherwise by the endpoint: Retry, Version Negotiation, stateless reset, close);
      `c`: the real `antiAmplificationLimit` right after it was accounted;
      `k`: bytes taken by the packets, i.e. `n` minus the zero padding after the last packet
      (informational: the monitor judges the size on the wire). -/
  | send (a : Nat) (n : Int) (byConn : Bool) (c : Int) (k : Int)
  /-- the connection's real credit was observed to have become unlimited. -/
  | validated
  /-- the real credit when everything is idle (`none`: no connection). -/
  | cred (c : Option Int)
deriving Repr, DecidableEq

structure Mon where
  hasConn : Bool
  connAddr : Nat
  credit : Int
  recvd : Nat → Int
  sent : Nat → Int
  hs : Nat → Bool
  validated : Nat → Bool

def Mon.init : Mon := ⟨false, 0, 0, fun _ => 0, fun _ => 0, fun _ => false, fun _ => false⟩

def bump (f : Nat → Int) (a : Nat) (n : Int) : Nat → Int := fun x => if x = a then f x + n else f x
def setB (f : Nat → Bool) (a : Nat) : Nat → Bool := fun x => if x = a then true else f x

def mstep (m : Mon) : Ev → Except String Mon
  | .recv a n r hs =>
    if n < 0 then .error "bad-size" else
    let m := { m with recvd := bump m.recvd a n, hs := if hs then setB m.hs a else m.hs }
    match r with
    | .none => .ok m
    | .new =>
      if m.hasConn then .error "second-connection" else
      .ok { m with hasConn := true, connAddr := a,
                   credit := datagramReceived (initCredit 0 serverSide) n }
    | .conn =>
      if !m.hasConn then .error "no-connection" else
      -- a connection only takes credit for datagrams from its own peer address
      if a = m.connAddr then .ok { m with credit := datagramReceived m.credit n } else .ok m
  | .send a n byConn c _k =>
    if n < 0 then .error "bad-size" else
    let m := { m with sent := bump m.sent a n }
    if byConn then
      if !m.hasConn then .error "no-connection" else
      if a ≠ m.connAddr then .error "conn-sent-to-foreign-address" else
      let pre := m.credit
      if blocked pre then .error "sent-while-blocked" else
      let post := packetSent pre n
      if post ≠ c then .error "credit-mismatch" else
      let m := { m with credit := post }
      -- the precondition of the counter theorem, checked on the real send path
      if n ≤ maxSendSize pre maxDatagramSize then
        if !m.validated a ∧ m.sent a > 3 * m.recvd a then .error "amplification" else .ok m
      else .error "send-exceeds-credit"
    else
      if !m.validated a ∧ m.sent a > 3 * m.recvd a then .error "amplification" else .ok m
  | .validated =>
    if !m.hasConn then .error "no-connection" else
    if !m.hs m.connAddr then .error "premature-validation" else
    .ok { m with credit := validateClientAddress m.credit, validated := setB m.validated m.connAddr }
  | .cred c =>
    match c with
    | none => if m.hasConn then .error "credit-mismatch" else .ok m
    | some c => if m.hasConn ∧ m.credit = c then .ok m else .error "credit-mismatch"

def mrun (m : Mon) : List Ev → Except String Mon
  | [] => .ok m
  | e :: rest => match mstep m e with
    | .ok m' => mrun m' rest
    | .error why => .error why

end NetVerif.Model.AntiAmp
