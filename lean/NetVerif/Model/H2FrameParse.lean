import NetVerif.Model.H2Frame
/-!
Inbound frame decoding of `http2/frame.go` with CHECKED slice / index primitives (C16).

`Model/H2Frame.lean` (C06/C07) models the parsers by pattern matching, where "no out-of-range
access" is true by construction. Here every Go slice expression `p[lo:hi]`, `p[i]`,
`binary.BigEndian.Uint32(b)` is a checked primitive that returns `none` when Go would panic
(bounds are `Int`, so a negative bound such as `len(p)-int(padLength)` panics too). A parser returns
`Option (Except RErr Frame)`: `none` = panic, `some (.error e)` = the Go error, `some (.ok f)` = frame.
"The frame reader never panics" is then a theorem (Proofs/C16), not a property of the notation.

The statements of each parser follow the Go source line by line; see the comments.
-/
namespace NetVerif.Model.H2FrameParse
open NetVerif.Model.H2Frame

/-! ### checked primitives -/

/-- `p[i]` -/
def idx (p : List Nat) (i : Int) : Option Nat :=
  if 0 ≤ i ∧ i < p.length then some (p.getD i.toNat 0) else none

/-- `p[lo:hi]`: Go panics unless `0 ≤ lo ≤ hi ≤ len(p)` (cap = len here). -/
def slice (p : List Nat) (lo hi : Int) : Option (List Nat) :=
  if 0 ≤ lo ∧ lo ≤ hi ∧ hi ≤ p.length then some ((p.drop lo.toNat).take (hi.toNat - lo.toNat)) else none

/-- `p[lo:]` -/
def sliceFrom (p : List Nat) (lo : Int) : Option (List Nat) := slice p lo p.length
/-- `p[:hi]` -/
def sliceTo (p : List Nat) (hi : Int) : Option (List Nat) := slice p 0 hi

/-- `binary.BigEndian.Uint32(b)` (`_ = b[3]` bounds check, then the four bytes). -/
def u32 (b : List Nat) : Option Nat := do
  let _ ← idx b 3
  pure (rd32 (← idx b 0) (← idx b 1) (← idx b 2) (← idx b 3))

/-- `binary.BigEndian.Uint16(b)`. -/
def u16 (b : List Nat) : Option Nat := do
  let _ ← idx b 1
  pure ((← idx b 0) * 256 + (← idx b 1))

abbrev Res (α : Type) := Option (Except RErr α)

/-- `readByte(p)`: `if len(p) == 0 { return nil, 0, io.ErrUnexpectedEOF }; return p[1:], p[0], nil`. -/
def readByte (p : List Nat) : Option (Except RErr (List Nat × Nat)) :=
  if p.length = 0 then some (.error .unexpectedEOF)
  else do
    let rest ← sliceFrom p 1
    let b ← idx p 0
    pure (.ok (rest, b))

/-- `readUint32(p)`: `if len(p) < 4 { … ErrUnexpectedEOF }; return p[4:], binary.BigEndian.Uint32(p[:4]), nil`. -/
def readUint32 (p : List Nat) : Option (Except RErr (List Nat × Nat)) :=
  if p.length < 4 then some (.error .unexpectedEOF)
  else do
    let rest ← sliceFrom p 4
    let v ← u32 (← sliceTo p 4)
    pure (.ok (rest, v))

/-! ### the per-type parsers -/

/-- the tail of `parseDataFrame`: the pad check and `payload[:len(payload)-int(padSize)]`. -/
def dataTail (fh : FrameHeader) (payload : List Nat) (padSize : Nat) : Option (Except RErr Frame) :=
  if (padSize : Int) > payload.length then some (.error (.conn errCodeProtocol))
  else do
    let d ← sliceTo payload ((payload.length : Int) - (padSize : Int))
    pure (.ok (.data fh d))

/-- `parseDataFrame`. -/
def parseData (fh : FrameHeader) (payload : List Nat) : Option (Except RErr Frame) :=
  if fh.streamID = 0 then some (.error (.conn errCodeProtocol))
  else if hasFlag fh.flags flagPadded then
    match readByte payload with
    | none => none
    | some (.error e) => some (.error e)
    | some (.ok (rest, padSize)) => dataTail fh rest padSize
  else dataTail fh payload 0

/-- the end of `parseHeadersFrame`: `if len(p)-int(padLength) < 0 {…}; p[:len(p)-int(padLength)]`. -/
def headersFin (fh : FrameHeader) (p : List Nat) (padLength : Nat) (prio : PriorityParam) :
    Option (Except RErr Frame) :=
  if (p.length : Int) - (padLength : Int) < 0 then some (.error (.stream fh.streamID errCodeProtocol))
  else do
    let frag ← sliceTo p ((p.length : Int) - (padLength : Int))
    pure (.ok (.headers fh prio frag))

/-- the PRIORITY part of `parseHeadersFrame`. -/
def headersPrio (fh : FrameHeader) (p : List Nat) (padLength : Nat) : Option (Except RErr Frame) :=
  if hasFlag fh.flags flagPriority then
    match readUint32 p with
    | none => none
    | some (.error e) => some (.error e)
    | some (.ok (p1, v)) =>
      match readByte p1 with
      | none => none
      | some (.error e) => some (.error e)
      | some (.ok (p2, w)) =>
        headersFin fh p2 padLength { streamDep := v % 2147483648, exclusive := v != v % 2147483648, weight := w }
  else headersFin fh p padLength {}

/-- `parseHeadersFrame`. -/
def parseHeaders (fh : FrameHeader) (p : List Nat) : Option (Except RErr Frame) :=
  if fh.streamID = 0 then some (.error (.conn errCodeProtocol))
  else if hasFlag fh.flags flagPadded then
    match readByte p with
    | none => none
    | some (.error e) => some (.error e)
    | some (.ok (rest, padLength)) => headersPrio fh rest padLength
  else headersPrio fh p 0

/-- `parsePriorityFrame`: `len(payload) != 5` → FRAME_SIZE; `Uint32(payload[:4])`, `payload[4]`. -/
def parsePriority (fh : FrameHeader) (payload : List Nat) : Option (Except RErr Frame) :=
  if fh.streamID = 0 then some (.error (.conn errCodeProtocol))
  else if payload.length ≠ 5 then some (.error (.conn errCodeFrameSize))
  else do
    let v ← u32 (← sliceTo payload 4)
    let w ← idx payload 4
    pure (.ok (.priority fh { streamDep := v % 2147483648, exclusive := v % 2147483648 != v, weight := w }))

/-- `parseRSTStreamFrame`. -/
def parseRSTStream (fh : FrameHeader) (p : List Nat) : Option (Except RErr Frame) :=
  if p.length ≠ 4 then some (.error (.conn errCodeFrameSize))
  else if fh.streamID = 0 then some (.error (.conn errCodeProtocol))
  else do
    let v ← u32 (← sliceTo p 4)
    pure (.ok (.rstStream fh v))

/-- `SettingsFrame.Setting(i)`: `buf[i*6 : i*6+2]`, `buf[i*6+2 : i*6+6]`. -/
def settingAt (buf : List Nat) (i : Nat) : Option (Nat × Nat) := do
  let id ← u16 (← slice buf ((i : Int) * 6) ((i : Int) * 6 + 2))
  let v ← u32 (← slice buf ((i : Int) * 6 + 2) ((i : Int) * 6 + 6))
  pure (id, v)

/-- the loop `for i := 0; i < f.NumSettings(); i++ { f.Setting(i) }` from index `i`, `n` iterations left. -/
def settingsFrom (buf : List Nat) : Nat → Nat → Option (List (Nat × Nat))
  | _, 0 => some []
  | i, n + 1 => do
    let s ← settingAt buf i
    let rest ← settingsFrom buf (i + 1) n
    pure (s :: rest)

/-- `parseSettingsFrame` (the `Value(SettingInitialWindowSize)` scan reads every setting up to the hit;
reading all `len(p)/6` of them is the superset of accesses, and is what `ForeachSetting` does later). -/
def parseSettings (fh : FrameHeader) (p : List Nat) : Option (Except RErr Frame) :=
  if hasFlag fh.flags flagAck && fh.length > 0 then some (.error (.conn errCodeFrameSize))
  else if fh.streamID != 0 then some (.error (.conn errCodeProtocol))
  else if p.length % 6 != 0 then some (.error (.conn errCodeFrameSize))
  else do
    let ss ← settingsFrom p 0 (p.length / 6)
    match settingsValue settingInitialWindowSize ss with
    | some v => if v > 2147483647 then pure (.error (.conn errCodeFlowControl)) else pure (.ok (.settings fh ss))
    | none => pure (.ok (.settings fh ss))

/-- `parsePushPromise` after the pad byte. -/
def pushRest (fh : FrameHeader) (p : List Nat) (padLength : Nat) : Option (Except RErr Frame) :=
  match readUint32 p with
  | none => none
  | some (.error e) => some (.error e)
  | some (.ok (p1, v)) =>
    if (padLength : Int) > p1.length then some (.error (.conn errCodeProtocol))
    else do
      let frag ← sliceTo p1 ((p1.length : Int) - (padLength : Int))
      pure (.ok (.pushPromise fh (v % 2147483648) frag))

/-- `parsePushPromise`. -/
def parsePushPromise (fh : FrameHeader) (p : List Nat) : Option (Except RErr Frame) :=
  if fh.streamID = 0 then some (.error (.conn errCodeProtocol))
  else if hasFlag fh.flags flagPadded then
    match readByte p with
    | none => none
    | some (.error e) => some (.error e)
    | some (.ok (p0, padLength)) => pushRest fh p0 padLength
  else pushRest fh p 0

/-- `parsePingFrame`: `copy(f.Data[:], payload)` after `len(payload) != 8` (copy never panics). -/
def parsePing (fh : FrameHeader) (payload : List Nat) : Option (Except RErr Frame) :=
  if payload.length ≠ 8 then some (.error (.conn errCodeFrameSize))
  else if fh.streamID != 0 then some (.error (.conn errCodeProtocol))
  else some (.ok (.ping fh payload))

/-- `parseGoAwayFrame`: `Uint32(p[:4])`, `Uint32(p[4:8])`, `p[8:]`. -/
def parseGoAway (fh : FrameHeader) (p : List Nat) : Option (Except RErr Frame) :=
  if fh.streamID != 0 then some (.error (.conn errCodeProtocol))
  else if p.length < 8 then some (.error (.conn errCodeFrameSize))
  else do
    let last ← u32 (← sliceTo p 4)
    let code ← u32 (← slice p 4 8)
    let debug ← sliceFrom p 8
    pure (.ok (.goAway fh (last % 2147483648) code debug))

/-- `parseWindowUpdateFrame`. -/
def parseWindowUpdate (fh : FrameHeader) (p : List Nat) : Option (Except RErr Frame) :=
  if p.length ≠ 4 then some (.error (.conn errCodeFrameSize))
  else do
    let v ← u32 (← sliceTo p 4)
    let inc := v % 2147483648
    if inc = 0 then
      if fh.streamID = 0 then pure (.error (.conn errCodeProtocol))
      else pure (.error (.stream fh.streamID errCodeProtocol))
    else pure (.ok (.windowUpdate fh inc))

/-- `parseContinuationFrame`. -/
def parseContinuation (fh : FrameHeader) (p : List Nat) : Option (Except RErr Frame) :=
  if fh.streamID = 0 then some (.error (.conn errCodeProtocol)) else some (.ok (.continuation fh p))

/-- `parsePriorityUpdateFrame`: `Uint32(payload[:4])`, `payload[4:]`. -/
def parsePriorityUpdate (fh : FrameHeader) (payload : List Nat) : Option (Except RErr Frame) :=
  if fh.streamID != 0 then some (.error (.conn errCodeProtocol))
  else if payload.length < 4 then some (.error (.conn errCodeFrameSize))
  else do
    let v ← u32 (← sliceTo payload 4)
    let sid := v % 2147483648
    if sid = 0 then pure (.error (.conn errCodeProtocol))
    else do
      let pr ← sliceFrom payload 4
      pure (.ok (.priorityUpdate fh sid pr))

/-- `typeFrameParser(fh.Type)(fc, fh, countError, payload)`. -/
def parseFrame (fh : FrameHeader) (p : List Nat) : Option (Except RErr Frame) :=
  if fh.type = frameData then parseData fh p
  else if fh.type = frameHeaders then parseHeaders fh p
  else if fh.type = framePriority then parsePriority fh p
  else if fh.type = frameRSTStream then parseRSTStream fh p
  else if fh.type = frameSettings then parseSettings fh p
  else if fh.type = framePushPromise then parsePushPromise fh p
  else if fh.type = framePing then parsePing fh p
  else if fh.type = frameGoAway then parseGoAway fh p
  else if fh.type = frameWindowUpdate then parseWindowUpdate fh p
  else if fh.type = frameContinuation then parseContinuation fh p
  else if fh.type = framePriorityUpdate then parsePriorityUpdate fh p
  else some (.ok (.unknown fh p))

/-! ### cutting the byte stream into frames -/

/-- `readFrameHeader(buf[:9])`: length, type, flags, stream id with the reserved bit cleared. -/
def readFrameHeader (buf : List Nat) : Option FrameHeader := do
  let b0 ← idx buf 0
  let b1 ← idx buf 1
  let b2 ← idx buf 2
  let t ← idx buf 3
  let fl ← idx buf 4
  let s ← u32 (← slice buf 5 9)
  pure { length := b0 * 65536 + b1 * 256 + b2, type := t, flags := fl, streamID := s % 2147483648 }

inductive Cut where
  | panic                                               -- an out-of-range access
  | eof                                                 -- no byte left: io.EOF
  | short                                               -- header or payload incomplete: io.ErrUnexpectedEOF / io.EOF
  | tooLarge (hdr : FrameHeader) (rest : List Nat)      -- ErrFrameTooLarge (payload not consumed)
  | frame (hdr : FrameHeader) (payload rest : List Nat)
deriving DecidableEq, Repr

/-- one `ReadFrame` as far as byte consumption goes: `io.ReadFull` of 9 bytes, the size check, then
`io.ReadFull` of `Length` bytes. -/
def cutFrame (maxRead : Nat) (bs : List Nat) : Cut :=
  if bs.length = 0 then .eof
  else if bs.length < frameHeaderLen then .short
  else match sliceTo bs 9, sliceFrom bs 9 with
    | some hb, some body =>
      match readFrameHeader hb with
      | none => .panic
      | some fh =>
        if fh.length > maxRead then .tooLarge fh body
        else if body.length < fh.length then .short
        else match sliceTo body fh.length, sliceFrom body fh.length with
          | some payload, some rest => .frame fh payload rest
          | _, _ => .panic
    | _, _ => .panic

/-- what the read loop produces for one frame -/
inductive Item where
  | frame (hdr : FrameHeader) (res : Option (Except RErr Frame))
  | tooLarge (hdr : FrameHeader)
  | short
  | panic
deriving Repr

/-- `for { ReadFrame }` until the input ends or a terminal condition; `fuel` bounds the iterations. -/
def readFrames (maxRead : Nat) : Nat → List Nat → List Item × Bool   -- (items, ran out of fuel)
  | 0, _ => ([], true)
  | fuel + 1, bs =>
    match cutFrame maxRead bs with
    | .panic => ([.panic], false)
    | .eof => ([], false)
    | .short => ([.short], false)
    | .tooLarge fh _ => ([.tooLarge fh], false)
    | .frame fh payload rest =>
      let (items, out) := readFrames maxRead fuel rest
      (.frame fh (parseFrame fh payload) :: items, out)

end NetVerif.Model.H2FrameParse
