/-
Model of internal/http3/stream.go (the `stream` wrapper with its frame read
limit `lim`), settings.go (`readSettings`), body.go (`bodyReader.Read`) and the
stream dispatch of conn.go, over a fully received QUIC stream.

Environment model (`quic.Stream`, outside the anchored code): the peer's bytes
`data` have all arrived and are followed by FIN; the stream is shorter than one
4096-byte pipe buffer.  `primed` records whether a slow-path `Read` has already
moved the remaining bytes into the lock-free `inbuf`: only an un-primed `Read`
that reaches the end of the stream returns `(n, io.EOF)` with n > 0.
`dead` models `st.stream = nil`; any later use of the QUIC stream is a nil-pointer panic.
(Before the repair of C35's finding `recordBytesRead` set it on a limit overrun; the repaired code
leaves the stream in place and parks `lim` at 0, so no modelled operation sets `dead` any more —
`Proofs/Lemmas/H3Safe.lean` proves that.)
`allocs` records every `make([]byte, size)` whose size is peer-controlled as
`(size, bytes of the stream not yet consumed at that moment)`.
-/
namespace NetVerif.Model.H3Stream

/-- Error values, by Go dynamic type. `code` is the `http3Error` value. -/
inductive Err
  | eof                   -- io.EOF
  | plain (code : Nat)    -- a bare http3Error
  | conn (code : Nat)     -- *connectionError
  | strm (code : Nat)     -- *streamError
  | other                 -- errors.New(..), io.ErrUnexpectedEOF, …
  deriving DecidableEq, Repr

def cNoError : Nat := 0x100
def cInternalError : Nat := 0x102
def cStreamCreationError : Nat := 0x103
def cClosedCriticalStream : Nat := 0x104
def cFrameUnexpected : Nat := 0x105
def cFrameError : Nat := 0x106
def cIDError : Nat := 0x108
def cSettingsError : Nat := 0x109
def cMissingSettings : Nat := 0x10a
def cMessageError : Nat := 0x10e
def cQpackDecompressionFailed : Nat := 0x200

structure St where
  data : List Nat
  primed : Bool
  dead : Bool
  lim : Int
  allocs : List (Nat × Nat)
  deriving DecidableEq, Repr

/-- A fresh `newStream(qs)` over received bytes `data`. -/
def St.fresh (data : List Nat) : St :=
  { data := data, primed := false, dead := false, lim := -1, allocs := [] }

inductive Out (α : Type)
  | ok (a : α) (s : St)
  | err (e : Err) (s : St)
  | panic            -- Go run-time panic (nil *quic.Stream)
  | hang             -- Go loop that never terminates (fuel exhausted)
  deriving Repr

def Out.bind {α β : Type} (x : Out α) (f : α → St → Out β) : Out β :=
  match x with
  | .ok a s => f a s
  | .err e s => .err e s
  | .panic => .panic
  | .hang => .hang

/-! ### quic.Stream -/

/-- `st.stream.ReadByte()`; the only error of a fully received stream is io.EOF. -/
def qsReadByte (s : St) : Out Nat :=
  if s.dead then .panic else
  match s.data with
  | [] => .err .eof s
  | b :: rest => .ok b { s with data := rest, primed := true }

/-- `st.stream.Read(buf)` with `len(buf) = k`: bytes, whether io.EOF accompanies them. -/
def qsRead (s : St) (k : Nat) : Option (List Nat × Bool × St) :=
  if s.dead then none else
  match s.data with
  | [] => some ([], true, s)
  | _ :: _ =>
    if s.primed then some (s.data.take k, false, { s with data := s.data.drop k })
    else if k ≥ s.data.length then some (s.data, true, { s with data := [], primed := true })
    else some (s.data.take k, false, { s with data := s.data.drop k, primed := true })

/-! ### stream.go -/

/-- `recordBytesRead(n)`. -/
def recordBytesRead (s : St) (n : Nat) : Out Unit :=
  if s.lim < 0 then .ok () s
  else if s.lim - n < 0 then .err (.conn cFrameError) { s with lim := 0 }
  else .ok () { s with lim := s.lim - n }

/-- `(*stream).ReadByte`. -/
def readByte (s : St) : Out Nat :=
  match recordBytesRead s 1 with
  | .ok _ s1 =>
    (match qsReadByte s1 with
     | .ok b s2 => .ok b s2
     | .err _ s2 => if s2.lim < 0 then .err .eof s2 else .err (.plain cFrameError) s2
     | .panic => .panic
     | .hang => .hang)
  | .err e s1 => .err e s1
  | .panic => .panic
  | .hang => .hang

/-- `(*stream).Read(buf)`, `len(buf) = k`. Result: bytes read and whether `io.EOF` is returned with them. -/
def read (s : St) (k : Nat) : Out (List Nat × Bool) :=
  match qsRead s k with
  | none => .panic
  | some (bs, eof, s1) =>
    match recordBytesRead s1 bs.length with
    | .ok _ s2 =>
      if eof then
        if s2.lim = 0 then .ok (bs, false) s2
        else if s2.lim > 0 then .err (.plain cFrameError) s2
        else .ok (bs, true) s2
      else .ok (bs, false) s2
    | .err e s2 => .err e s2
    | .panic => .panic
    | .hang => .hang

/-- `io.ReadFull(st, buf)` with `want` bytes still to fill. -/
def readFullAux : Nat → St → Nat → List Nat → Out (List Nat)
  | 0, _, _, _ => .hang
  | fuel + 1, s, want, acc =>
    if want = 0 then .ok acc s else
    match read s want with
    | .ok (bs, eof) s1 =>
      if want - bs.length = 0 then .ok (acc ++ bs) s1
      else if eof then (if (acc ++ bs).length > 0 then .err .other s1 else .err .eof s1)
      else readFullAux fuel s1 (want - bs.length) (acc ++ bs)
    | .err e s1 => .err e s1
    | .panic => .panic
    | .hang => .hang

def readFull (s : St) (size : Nat) : Out (List Nat) := readFullAux (size + 1) s size []

/-- `k` successive `st.stream.ReadByte()` calls accumulating a big-endian value. -/
def qsReadBE : Nat → Nat → St → Out Nat
  | 0, v, s => .ok v s
  | k + 1, v, s =>
    match qsReadByte s with
    | .ok b s1 => qsReadBE k (v * 256 + b) s1
    | .err _ s1 => .err (.plain cFrameError) s1
    | .panic => .panic
    | .hang => .hang

/-- `(*stream).readVarint`. -/
def readVarint (s : St) : Out Nat :=
  match qsReadByte s with
  | .ok b s1 =>
    let n := 2 ^ (b / 64)
    (match qsReadBE (n - 1) (b % 64) s1 with
     | .ok v s2 =>
       (match recordBytesRead s2 n with
        | .ok _ s3 => .ok v s3
        | .err e s3 => .err e s3
        | .panic => .panic
        | .hang => .hang)
     | .err e s2 => .err e s2
     | .panic => .panic
     | .hang => .hang)
  | .err e s1 => .err e s1        -- the raw error of the first byte (io.EOF)
  | .panic => .panic
  | .hang => .hang

/-- `readFrameHeader`: frame type; sets `lim`. -/
def readFrameHeader (s : St) : Out Nat :=
  if s.lim ≥ 0 then .err (.plain cFrameError) s else
  (readVarint s).bind fun ft s1 =>
  match readVarint s1 with
  | .ok size s2 => .ok ft { s2 with lim := size }
  | .err e s2 => if e = .eof then .err (.plain cFrameError) s2 else .err e s2   -- truncated header
  | .panic => .panic
  | .hang => .hang

/-- `endFrame`. -/
def endFrame (s : St) : Out Unit :=
  if s.lim ≠ 0 then .err (.conn cFrameError) s else .ok () { s with lim := -1 }

/-- `readFrameData`: allocates `lim` bytes, then `io.ReadFull`. -/
def readFrameData (s : St) : Out (List Nat) :=
  if s.lim < 0 then .err (.plain cFrameError) s else
  let s1 := { s with allocs := (s.lim.toNat, s.data.length) :: s.allocs }
  readFull s1 s.lim.toNat

/-- the loop of `discardFrame`. -/
def discardLoop : Nat → St → Out Unit
  | 0, s => .ok () s
  | k + 1, s =>
    match qsReadByte s with
    | .ok _ s1 => discardLoop k s1
    | .err _ s1 => .err (.strm cFrameError) s1
    | .panic => .panic
    | .hang => .hang

/-- `discardFrame`. -/
def discardFrame (s : St) : Out Unit :=
  (discardLoop s.lim.toNat s).bind fun _ s1 => .ok () { s1 with lim := -1 }

def knownFrameType (ft : Nat) : Bool :=
  ft = 0 || ft = 1 || ft = 3 || ft = 4 || ft = 5 || ft = 7 || ft = 13

/-- `discardUnknownFrame`. -/
def discardUnknownFrame (s : St) (ft : Nat) : Out Unit :=
  if knownFrameType ft then .err (.conn cFrameUnexpected) s else discardFrame s

/-! ### settings.go -/

def reservedSetting (t : Nat) : Bool := t = 2 || t = 3 || t = 4 || t = 5

/-- the `for st.lim > 0` loop of `readSettings`; collects the settings passed to `f`. -/
def settingsLoop : Nat → St → List (Nat × Nat) → Out (List (Nat × Nat))
  | 0, _, _ => .hang
  | fuel + 1, s, acc =>
    if s.lim > 0 then
      (readVarint s).bind fun t s1 =>
      (readVarint s1).bind fun v s2 =>
      if reservedSetting t then .err (.conn cSettingsError) s2
      else settingsLoop fuel s2 (acc ++ [(t, v)])
    else (endFrame s).bind fun _ s1 => .ok acc s1

/-- `readSettings` with a callback that never fails. -/
def readSettings (s : St) : Out (List (Nat × Nat)) :=
  match readFrameHeader s with
  | .ok ft s1 =>
    if ft ≠ 4 then .err (.conn cMissingSettings) s1
    else settingsLoop (s1.lim.toNat + 1) s1 []
  | .err _ s1 => .err (.conn cMissingSettings) s1
  | .panic => .panic
  | .hang => .hang

end NetVerif.Model.H3Stream
