import NetVerif.Model.Bpf
/-!
Model of golang.org/x/net/bpf vm.go / vm_instructions.go (C49):

* `newVM`      — the acceptance decision of `NewVM` (err == nil);
* `stepTyped`  — one iteration of the `switch ins := ins.(type)` in `VM.Run`
                 with the helpers of vm_instructions.go, on typed instructions;
* `runTyped`   — `VM.Run`: the `for i := 0; i < len(v.filter) && ok; i++` loop;
* `stepRaw` / `runRaw` — an independently written reference interpreter of
  classic BPF over RAW instructions (opcode numbers of the classic BPF
  instruction set; 32-bit unsigned arithmetic, shifts >= 32 give 0, big-endian
  packet loads with mathematical (non-wrapping) offsets X+K, out-of-bounds loads
  and division/modulo by X = 0 return 0, forward jumps only).

Registers are `Nat`s (< 2^32 by construction), the packet is a `List Nat` of
bytes, the scratch memory `M[0..15]` is a function.  Go panics are the
distinguished step result `panic` (they are proved unreachable for accepted
programs).  `halt` (Go: `ok = false`, the loop ends and Run returns 0) and
`fellOff` (the loop ends because `i >= len`) are kept apart from `ret 0`
although Go reports all three as `(0, nil)`; the driver prints them as `ok 0`.
-/
namespace NetVerif.Model.BpfVM
open NetVerif.Model.Bpf

abbrev two32 : Nat := 4294967296

structure State where
  a : Nat
  x : Nat
  m : Nat → Nat

def State.init : State := ⟨0, 0, fun _ => 0⟩

def setM (m : Nat → Nat) (n v : Nat) : Nat → Nat := fun j => if j = n then v else m j

/-- Result of executing one instruction. -/
inductive Step where
  | next (s : State) (skip : Nat)   -- continue at pc + 1 + skip
  | done (v : Nat)                  -- RetA / RetConstant
  | halt                            -- Go: ok = false (Run returns 0)
  | unknown                         -- Go: "unknown Instruction" error / reference: invalid opcode
  | panic                           -- Go run-time panic

/-- Result of a run. -/
inductive Outcome where
  | ret (v : Nat)
  | halt
  | fellOff
  | err
  | panic
  | outOfFuel
deriving DecidableEq, Repr

/-- The interpreter loop shared by both machines: fetch, step, `pc += 1 + skip`. -/
def runFuel {α : Type} (step : α → State → List Nat → Step) (prog : List α) (pkt : List Nat) :
    Nat → Nat → State → Outcome
  | 0, pc, _ => if pc < prog.length then .outOfFuel else .fellOff
  | fuel + 1, pc, s =>
    match prog[pc]? with
    | none => .fellOff
    | some ins =>
      match step ins s pkt with
      | .next s' skip => runFuel step prog pkt fuel (pc + 1 + skip) s'
      | .done v => .ret v
      | .halt => .halt
      | .unknown => .err
      | .panic => .panic

/-! ### vm_instructions.go -/

/-- `aluOpCommon(op, regA, value)`; `none` = Go's integer-divide-by-zero panic. -/
def aluOpCommon (op a v : Nat) : Option Nat :=
  if op = aluOpAdd then some ((a + v) % two32)
  else if op = aluOpSub then some ((a + two32 - v) % two32)
  else if op = aluOpMul then some ((a * v) % two32)
  else if op = aluOpDiv then (if v = 0 then none else some (a / v))
  else if op = aluOpOr then some (a ||| v)
  else if op = aluOpAnd then some (a &&& v)
  else if op = aluOpShiftLeft then some (if v < 32 then (a * 2 ^ v) % two32 else 0)
  else if op = aluOpShiftRight then some (if v < 32 then a / 2 ^ v else 0)
  else if op = aluOpMod then (if v = 0 then none else some (a % v))
  else if op = aluOpXor then some (a ^^^ v)
  else some a

/-- `jumpIfCommon(cond, skipTrue, skipFalse, regA, value)`. -/
def jumpIfCommon (cond st sf a v : Nat) : Nat :=
  let ok : Bool :=
    if cond = jumpEqual then a == v
    else if cond = jumpNotEqual then a != v
    else if cond = jumpGreaterThan then decide (a > v)
    else if cond = jumpLessThan then decide (a < v)
    else if cond = jumpGreaterOrEqual then decide (a ≥ v)
    else if cond = jumpLessOrEqual then decide (a ≤ v)
    else if cond = jumpBitsSet then (a &&& v) != 0
    else if cond = jumpBitsNotSet then (a &&& v) == 0
    else false
  if ok then st else sf

inductive LoadRes where
  | ok (v : Nat)
  | oob
  | panic

/-- `loadCommon(in, offset, size)`. -/
def loadCommon (pkt : List Nat) (offset : Nat) (size : Int) : LoadRes :=
  if ¬ ((offset : Int) + size ≤ (pkt.length : Int)) then .oob
  else if size = 1 then .ok (pkt.getD offset 0)
  else if size = 2 then .ok (pkt.getD offset 0 * 256 + pkt.getD (offset + 1) 0)
  else if size = 4 then
    .ok (pkt.getD offset 0 * 16777216 + pkt.getD (offset + 1) 0 * 65536 +
         pkt.getD (offset + 2) 0 * 256 + pkt.getD (offset + 3) 0)
  else .panic

def loadToA (s : State) (r : LoadRes) : Step :=
  match r with
  | .ok v => .next { s with a := v } 0
  | .oob => .halt
  | .panic => .panic

/-- One iteration of the dispatch in `VM.Run`. -/
def stepTyped (ins : Instr) (s : State) (pkt : List Nat) : Step :=
  match ins with
  | .aluOpConstant op val =>
    match aluOpCommon op s.a val with
    | some a => .next { s with a := a } 0
    | none => .panic
  | .aluOpX op =>
    if s.x = 0 ∧ (op = aluOpDiv ∨ op = aluOpMod) then .halt
    else
      match aluOpCommon op s.a s.x with
      | some a => .next { s with a := a } 0
      | none => .panic
  | .jump skip => .next s skip
  | .jumpIf cond val st sf => .next s (jumpIfCommon cond st sf s.a val)
  | .jumpIfX cond st sf => .next s (jumpIfCommon cond st sf s.a s.x)
  | .loadAbsolute off size => loadToA s (loadCommon pkt off size)
  | .loadConstant dst val =>
    if dst = regA then .next { s with a := val } 0
    else if dst = regX then .next { s with x := val } 0
    else .next s 0
  | .loadExtension num =>
    if num = extLen then .next { s with a := pkt.length % two32 } 0 else .panic
  | .loadIndirect off size => loadToA s (loadCommon pkt (off + s.x) size)
  | .loadMemShift off =>
    if off + 1 ≤ pkt.length then .next { s with x := (pkt.getD off 0 &&& 0x0f) * 4 } 0 else .halt
  | .loadScratch dst n =>
    if dst = regA then (if 0 ≤ n ∧ n < 16 then .next { s with a := s.m n.toNat } 0 else .panic)
    else if dst = regX then (if 0 ≤ n ∧ n < 16 then .next { s with x := s.m n.toNat } 0 else .panic)
    else .next s 0
  | .retA => .done s.a
  | .retConstant val => .done val
  | .storeScratch src n =>
    if src = regA then (if 0 ≤ n ∧ n < 16 then .next { s with m := setM s.m n.toNat s.a } 0 else .panic)
    else if src = regX then (if 0 ≤ n ∧ n < 16 then .next { s with m := setM s.m n.toNat s.x } 0 else .panic)
    else .next s 0
  | .tax => .next { s with x := s.a } 0
  | .txa => .next { s with a := s.x } 0
  | .negateA => .unknown
  | .raw _ => .unknown

/-- `VM.Run(in)`; fuel = program length (sufficient: `Proofs.C49.runTyped_fuel`). -/
def runTyped (p : List Instr) (pkt : List Nat) : Outcome :=
  runFuel stepTyped p pkt p.length 0 State.init

/-- A `*VM` value: the only field is the program (`filter`); registers and the scratch memory `M[0..15]` are
locals of `Run`, zeroed at every call. -/
structure VM where
  filter : List Instr

/-- `(*VM).Run(in)` as a state transition of the VM object: the VM is left as it was. -/
def VM.run (v : VM) (pkt : List Nat) : VM × Outcome := (v, runTyped v.filter pkt)

/-- Successive `Run` calls on one VM value. -/
def VM.runSeq (v : VM) : List (List Nat) → List Outcome
  | [] => []
  | pkt :: rest => let (v', o) := v.run pkt; o :: VM.runSeq v' rest

/-! ### vm.go: NewVM -/

def isRet : Instr → Bool
  | .retA => true
  | .retConstant _ => true
  | _ => false

/-- The per-instruction checks of `NewVM`; `check = len(filter) - (i+1)`. -/
def checkInstr (check : Nat) (ins : Instr) : Bool :=
  match ins with
  | .jump skip => !(decide (check ≤ skip))
  | .jumpIf _ _ st sf => !(decide (check ≤ st)) && !(decide (check ≤ sf))
  | .jumpIfX _ st sf => !(decide (check ≤ st)) && !(decide (check ≤ sf))
  | .aluOpConstant op val => !(val == 0 && (op == aluOpDiv || op == aluOpMod))
  | .loadExtension num => num == extLen
  | _ => true

/-- The `for i, ins := range filter` loop over a suffix (`rest.length` = number of instructions from `i` on). -/
def checkAll : List Instr → Bool
  | [] => true
  | ins :: rest => checkInstr rest.length ins && checkAll rest

/-- `NewVM(filter)` returns a nil error. -/
def newVM (p : List Instr) : Bool :=
  !p.isEmpty && checkAll p &&
  (match p.getLast? with | some i => isRet i | none => false) &&
  (asmProg p).isSome

/-! ### reference classic-BPF interpreter over raw instructions -/

/-- Big-endian value of `n` packet bytes at `off`. -/
def pktBE (pkt : List Nat) (off : Nat) : Nat → Nat
  | 0 => 0
  | n + 1 => pkt.getD off 0 * 256 ^ n + pktBE pkt (off + 1) n

/-- Packet load: `none` when the `n` bytes are not all inside the packet. -/
def pktLoad (pkt : List Nat) (off n : Nat) : Option Nat :=
  if off + n ≤ pkt.length then some (pktBE pkt off n) else none

def rawLoadA (s : State) (v : Option Nat) : Step :=
  match v with
  | some v => .next { s with a := v } 0
  | none => .halt

def wrap32 (n : Nat) : Nat := n % two32

def rawALU (s : State) (a : Nat) : Step := .next { s with a := a } 0

def cond (b : Bool) (jt jf : Nat) : Nat := if b then jt else jf

/-- One classic BPF instruction (opcode numbers as in the classic BPF instruction set:
class | size/op | mode/source). Unknown opcodes, `M[k]` with k > 15 and division by a zero constant are
invalid programs (`unknown`). -/
def stepRaw (r : Raw) (s : State) (pkt : List Nat) : Step :=
  let k := r.k
  match r.op with
  -- loads
  | 0x00 => .next { s with a := k } 0                       -- ld  #k
  | 0x01 => .next { s with x := k } 0                       -- ldx #k
  | 0x20 => rawLoadA s (pktLoad pkt k 4)                    -- ld  [k]
  | 0x28 => rawLoadA s (pktLoad pkt k 2)                    -- ldh [k]
  | 0x30 => rawLoadA s (pktLoad pkt k 1)                    -- ldb [k]
  | 0x40 => rawLoadA s (pktLoad pkt (s.x + k) 4)            -- ld  [x+k]
  | 0x48 => rawLoadA s (pktLoad pkt (s.x + k) 2)            -- ldh [x+k]
  | 0x50 => rawLoadA s (pktLoad pkt (s.x + k) 1)            -- ldb [x+k]
  | 0x60 => if k < 16 then .next { s with a := s.m k } 0 else .unknown   -- ld  M[k]
  | 0x61 => if k < 16 then .next { s with x := s.m k } 0 else .unknown   -- ldx M[k]
  | 0x80 => .next { s with a := wrap32 pkt.length } 0       -- ld  #len
  | 0x81 => .next { s with x := wrap32 pkt.length } 0       -- ldx #len
  | 0xb1 =>                                                 -- ldx 4*([k]&0xf)
    match pktLoad pkt k 1 with
    | some b => .next { s with x := 4 * (b % 16) } 0
    | none => .halt
  -- stores
  | 0x02 => if k < 16 then .next { s with m := setM s.m k s.a } 0 else .unknown   -- st  M[k]
  | 0x03 => if k < 16 then .next { s with m := setM s.m k s.x } 0 else .unknown   -- stx M[k]
  -- ALU, constant operand
  | 0x04 => rawALU s (wrap32 (s.a + k))
  | 0x14 => rawALU s (wrap32 (s.a + two32 - k))
  | 0x24 => rawALU s (wrap32 (s.a * k))
  | 0x34 => if k = 0 then .unknown else rawALU s (s.a / k)
  | 0x44 => rawALU s (s.a ||| k)
  | 0x54 => rawALU s (s.a &&& k)
  | 0x64 => rawALU s (if k ≥ 32 then 0 else wrap32 (s.a <<< k))
  | 0x74 => rawALU s (if k ≥ 32 then 0 else s.a >>> k)
  | 0x94 => if k = 0 then .unknown else rawALU s (s.a % k)
  | 0xa4 => rawALU s (s.a ^^^ k)
  -- ALU, X operand
  | 0x0c => rawALU s (wrap32 (s.a + s.x))
  | 0x1c => rawALU s (wrap32 (s.a + two32 - s.x))
  | 0x2c => rawALU s (wrap32 (s.a * s.x))
  | 0x3c => if s.x = 0 then .halt else rawALU s (s.a / s.x)
  | 0x4c => rawALU s (s.a ||| s.x)
  | 0x5c => rawALU s (s.a &&& s.x)
  | 0x6c => rawALU s (if s.x ≥ 32 then 0 else wrap32 (s.a <<< s.x))
  | 0x7c => rawALU s (if s.x ≥ 32 then 0 else s.a >>> s.x)
  | 0x9c => if s.x = 0 then .halt else rawALU s (s.a % s.x)
  | 0xac => rawALU s (s.a ^^^ s.x)
  | 0x84 => rawALU s (wrap32 (two32 - s.a))                 -- neg
  -- jumps
  | 0x05 => .next s k                                       -- ja
  | 0x15 => .next s (cond (s.a == k) r.jt r.jf)             -- jeq #k
  | 0x25 => .next s (cond (decide (s.a > k)) r.jt r.jf)     -- jgt #k
  | 0x35 => .next s (cond (decide (s.a ≥ k)) r.jt r.jf)     -- jge #k
  | 0x45 => .next s (cond ((s.a &&& k) != 0) r.jt r.jf)     -- jset #k
  | 0x1d => .next s (cond (s.a == s.x) r.jt r.jf)           -- jeq x
  | 0x2d => .next s (cond (decide (s.a > s.x)) r.jt r.jf)   -- jgt x
  | 0x3d => .next s (cond (decide (s.a ≥ s.x)) r.jt r.jf)   -- jge x
  | 0x4d => .next s (cond ((s.a &&& s.x) != 0) r.jt r.jf)   -- jset x
  -- return
  | 0x06 => .done k                                         -- ret #k
  | 0x16 => .done s.a                                       -- ret a
  -- misc
  | 0x07 => .next { s with x := s.a } 0                     -- tax
  | 0x87 => .next { s with a := s.x } 0                     -- txa
  | _ => .unknown

/-- The reference interpreter on a raw program. -/
def runRaw (rp : List Raw) (pkt : List Nat) : Outcome :=
  runFuel stepRaw rp pkt rp.length 0 State.init

end NetVerif.Model.BpfVM
