/-
Model of idna/punycode.go (RFC 3492 `encode` / `decode`, `adapt`, `madd`,
digit mapping) and of the A-label branch of `Profile.process` (idna/idna.go).

Strings are lists of code points (`Nat`): the model sees a Go string the way
`for _, r := range s` does. All Go arithmetic is `int32`; the model uses `Nat`
with the overflow checks of the code written out (`madd`, `delta++ < 0`,
`n > utf8.MaxRune`). `none` = the Go function returned a non-nil error.
The `panic` of `encodeDigit` is modelled by `encodeDigit = none`; `encodeVar`
uses the total `encDigit` and `Proofs.C50.encodeVar_digits_ok` shows the panic
is unreachable.
-/
namespace NetVerif.Model.Punycode

def base : Nat := 36
def tmin : Nat := 1
def tmax : Nat := 26
def skew : Nat := 38
def damp : Nat := 700
def initialBias : Nat := 72
def initialN : Nat := 128
def maxInt32 : Nat := 2147483647
def maxRune : Nat := 1114111
/-- `if len(output) >= 1024 { return "", punyError }` in `decode`. -/
def maxOutput : Nat := 1024
def hyphen : Nat := 45

/-- `madd(a, b, c)`: `a + b*c` with int32 overflow detection (`none` = overflow). -/
def madd (a b c : Nat) : Option Nat :=
  if b * c + a > maxInt32 then none else some (a + b * c)

/-- `decodeDigit`. -/
def decodeDigit (x : Nat) : Option Nat :=
  if 48 ≤ x ∧ x ≤ 57 then some (x - 22)
  else if 65 ≤ x ∧ x ≤ 90 then some (x - 65)
  else if 97 ≤ x ∧ x ≤ 122 then some (x - 97)
  else none

/-- `encodeDigit` (`none` = the Go panic). -/
def encodeDigit (d : Nat) : Option Nat :=
  if d < 26 then some (d + 97) else if d < 36 then some (d + 22) else none

/-- total version used inside `encodeVar` (equal to `encodeDigit` for `d < 36`). -/
def encDigit (d : Nat) : Nat := if d < 26 then d + 97 else d + 22

/-- The threshold `t` computed inline in both loops:
`t := k - bias; if k <= bias { t = tmin } else if k >= bias+tmax { t = tmax }`. -/
def threshold (k bias : Nat) : Nat :=
  if k ≤ bias then tmin else if k ≥ bias + tmax then tmax else k - bias

/-- `for delta > ((base-tmin)*tmax)/2 { delta /= base - tmin; k += base }` -/
def adaptLoop : (fuel : Nat) → (delta k : Nat) → Nat × Nat
  | 0, delta, k => (delta, k)
  | fuel + 1, delta, k =>
    if delta > ((base - tmin) * tmax) / 2 then adaptLoop fuel (delta / (base - tmin)) (k + base)
    else (delta, k)

/-- `adapt(delta, numPoints, firstTime)`; fuel 32 suffices for int32 deltas
(`Proofs.C50.adaptLoop_fuel`). -/
def adapt (delta numPoints : Nat) (firstTime : Bool) : Nat :=
  let d := if firstTime then delta / damp else delta / 2
  let d := d + d / numPoints
  let (d, k) := adaptLoop 32 d 0
  k + (base - tmin + 1) * d / (d + skew)

/-! ### decode -/

/-- One generalized variable-length integer of `decode`'s inner `for k := base; ; k += base`
loop. Returns the new `i` and the unread input. -/
def decodeVar (bias : Nat) : (k i w : Nat) → List Nat → Option (Nat × List Nat)
  | _, _, _, [] => none
  | k, i, w, c :: cs =>
    match decodeDigit c with
    | none => none
    | some digit =>
      match madd i digit w with
      | none => none
      | some i' =>
        if digit < threshold k bias then some (i', cs)
        else
          match madd 0 w (base - threshold k bias) with
          | none => none
          | some w' => decodeVar bias (k + base) i' w' cs

/-- `output = append(output, 0); copy(output[i+1:], output[i:]); output[i] = n`. -/
def insertAt (i n : Nat) (out : List Nat) : List Nat := out.take i ++ n :: out.drop i

/-- The outer `for pos < len(encoded)` loop. `fuel` ≥ input length (every round reads ≥ 1 digit). -/
def decodeLoop : (fuel : Nat) → (input out : List Nat) → (i n bias : Nat) → Option (List Nat)
  | _, [], out, _, _, _ => some out
  | 0, _ :: _, _, _, _, _ => none
  | fuel + 1, c :: cs, out, i, n, bias =>
    match decodeVar bias base i 1 (c :: cs) with
    | none => none
    | some (i', rest) =>
      if out.length ≥ maxOutput then none
      else
        let x := out.length + 1
        let n' := n + i' / x
        if n' > maxRune then none
        else decodeLoop fuel rest (insertAt (i' % x) n' out) (i' % x + 1) n' (adapt (i' - i) x (i == 0))

/-- Split at the last `-`: `some (before, after)`; `none` when there is no `-`. -/
def splitLast : List Nat → Option (List Nat × List Nat)
  | [] => none
  | c :: cs =>
    match splitLast cs with
    | some (b, a) => some (c :: b, a)
    | none => if c = hyphen then some ([], cs) else none

def isAscii (s : List Nat) : Bool := s.all (· < 128)

/-- `decode(encoded)` up to the final `string(output)` conversion. In the order of the code:
`encoded == ""`; `pos == 1` (nothing before the last `-`); the literal part must be basic
(`!ascii(encoded[:pos])`); `pos == len(encoded)` shortcut; the delta loop. -/
def decodeRunes (enc : List Nat) : Option (List Nat) :=
  if enc = [] then some []
  else
    match splitLast enc with
    | none => decodeLoop enc.length enc [] 0 initialN initialBias        -- pos = 0
    | some (b, a) =>
      if b = [] then none                                                   -- pos = 1
      else if !isAscii b then none                                          -- literal part not basic
      else if a = [] then some b                                            -- pos = len(encoded)
      else decodeLoop a.length a b 0 initialN initialBias

/-- Go's `string([]rune)`: surrogates (and out-of-range values) become U+FFFD. -/
def goRune (r : Nat) : Nat := if (55296 ≤ r ∧ r ≤ 57343) ∨ r > maxRune then 65533 else r

/-- `decode(encoded)` as observed through `[]rune(result)`. -/
def decode (enc : List Nat) : Option (List Nat) := (decodeRunes enc).map (·.map goRune)

/-! ### encode -/

theorem threshold_pos (k bias : Nat) : 1 ≤ threshold k bias := by
  unfold threshold tmin tmax; split
  · omega
  · split <;> omega

/-- The digits of one delta (`q := delta; for k := base; ; k += base {…}` plus the final digit). -/
def encodeVar (bias k q : Nat) : List Nat :=
  if q < threshold k bias then [encDigit q]
  else
    encDigit (threshold k bias + (q - threshold k bias) % (base - threshold k bias)) ::
      encodeVar bias (k + base) ((q - threshold k bias) / (base - threshold k bias))
termination_by q
decreasing_by
  have := threshold_pos k bias
  have : (q - threshold k bias) / (base - threshold k bias) ≤ q - threshold k bias := Nat.div_le_self _ _
  omega

structure EncSt where
  delta : Nat
  h : Nat
  bias : Nat
  out : List Nat
  deriving Repr

/-- The inner `for _, r := range s` of one outer round (`n` fixed; `b` = number of basic code points). -/
def encInner (n b : Nat) : List Nat → EncSt → Option EncSt
  | [], st => some st
  | r :: rs, st =>
    if r < n then
      if st.delta + 1 > maxInt32 then none
      else encInner n b rs { st with delta := st.delta + 1 }
    else if r > n then encInner n b rs st
    else
      encInner n b rs
        { delta := 0, h := st.h + 1, bias := adapt st.delta (st.h + 1) (st.h == b),
          out := st.out ++ encodeVar st.bias base st.delta }

/-- `m := 0x7fffffff; for _, r := range s { if m > r && r >= n { m = r } }`. -/
def minGE (n : Nat) (s : List Nat) : Nat :=
  s.foldl (fun m r => if m > r ∧ r ≥ n then r else m) maxInt32

/-- The outer `for remaining != 0` loop; `remaining = len(runes) - h` throughout, so the
condition is written `h < s.length`. -/
def encOuter : (fuel : Nat) → (s : List Nat) → (b n : Nat) → EncSt → Option (List Nat)
  | 0, s, _, _, st => if st.h < s.length then none else some st.out
  | fuel + 1, s, b, n, st =>
    if st.h < s.length then
      let m := minGE n s
      match madd st.delta (m - n) (st.h + 1) with
      | none => none
      | some d =>
        match encInner m b s { st with delta := d } with
        | none => none
        | some st' => encOuter fuel s b (m + 1) { st' with delta := st'.delta + 1 }
    else some st.out

/-- `encode(prefix, s)` (with `unicode16 = false`: no U+FFFD check). -/
def encode (pfx s : List Nat) : Option (List Nat) :=
  let basic := s.filter (· < 128)
  let b := basic.length
  let out := pfx ++ basic ++ (if b > 0 then [hyphen] else [])
  encOuter s.length s b initialN { delta := 0, h := b, bias := initialBias, out := out }

/-- `encode` under a given value of the `unicode16` constant. Returns `(string, isErr)`. -/
def encodeU (u16 : Bool) (pfx s : List Nat) : List Nat × Bool :=
  if u16 ∧ 65533 ∈ s then (s, true)
  else match encode pfx s with
    | some a => (a, false)
    | none => ([], true)

/-! ### `Profile.process` for the Punycode profile (no mapping, no validation options) -/

def acePrefix : List Nat := [120, 110, 45, 45]  -- "xn--"

def splitDots : List Nat → List (List Nat)
  | [] => [[]]
  | c :: cs =>
    if c = 46 then [] :: splitDots cs
    else match splitDots cs with
      | l :: ls => (c :: l) :: ls
      | [] => [[c]]

def joinDots : List (List Nat) → List Nat
  | [] => []
  | [l] => l
  | l :: ls => l ++ 46 :: joinDots ls

/-- The A-label branch for one label: `(new label, error recorded by this label)`:
`decode` fails → error, label kept; `if err == nil && isASCII(u) { err = punyError(enc) }`
(the error only accumulates, so `err == nil` does not show in the Boolean). -/
def alabelStep (label : List Nat) : List Nat × Bool :=
  if acePrefix.isPrefixOf label then
    match decode (label.drop 4) with
    | none => (label, true)                                   -- "Spec says keep the old label."
    | some u => (u, isAscii u)
  else (label, false)

def firstLoop : Bool → List (List Nat) → List (List Nat) × Bool
  | err, [] => ([], err)
  | err, l :: ls =>
    let (l', e) := alabelStep l
    let (ls', err') := firstLoop (err || e) ls
    (l' :: ls', err')

def secondLoop (u16 : Bool) : Bool → List (List Nat) → List (List Nat) × Bool
  | err, [] => ([], err)
  | err, l :: ls =>
    if isAscii l then
      let (ls', err') := secondLoop u16 err ls
      (l :: ls', err')
    else
      let (a, e) := encodeU u16 acePrefix l
      let (ls', err') := secondLoop u16 (err || e) ls
      (a :: ls', err')

/-- `Punycode.process(s, toASCII)`: `(result, err != nil)`. -/
def processPunycode (u16 : Bool) (toASCII : Bool) (s : List Nat) : List Nat × Bool :=
  let (ls, err) := firstLoop false (splitDots s)
  if toASCII then
    let (ls', err') := secondLoop u16 err ls
    (joinDots ls', err')
  else (joinDots ls, err)

/-! ### Monitor for the profile-level observations (V-tie `profiles`)

One observation = the results of the real `Profile` on one domain `x`:
`(a, ae) = ToASCII x`, `(aa, aae) = ToASCII a`, `(u, ue) = ToUnicode x`, `(au, aue) = ToASCII u`
(`?e` = error returned). -/

structure Obs where
  /-- profile flag: transitional processing (ToUnicode is always non-transitional; the
  `ToASCII ∘ ToUnicode` clause fails for it exactly through deviation characters, see
  `transitionalDeviation`) -/
  transitional : Bool
  /-- profile flag: decoded A-labels are validated (`fromPuny`) but the mapping step does not
  validate U-labels (`New(ValidateLabels(true))` without `MapForLookup`) -/
  vonly : Bool
  x : List Nat
  a : List Nat
  ae : Bool
  aa : List Nat
  aae : Bool
  u : List Nat
  ue : Bool
  au : List Nat
  aue : Bool

def lowerAscii (c : Nat) : Nat := if 65 ≤ c ∧ c ≤ 90 then c + 32 else c

def hasAce (l : List Nat) : Bool := acePrefix.isPrefixOf l

/-- `xn--` label whose payload decodes (as coded) to ASCII only (possibly empty). -/
def asciiOnlyALabel (l : List Nat) : Bool :=
  hasAce l && (match decode (l.drop 4) with | some u => isAscii u | none => false)

/-- `xn--` label whose payload does not decode. -/
def undecodableALabel (l : List Nat) : Bool :=
  hasAce l && (decode (l.drop 4)).isNone

/-- Lower-case ASCII domain: the UTS 46 mapping step of every profile is the identity on it. -/
def asciiLower (x : List Nat) : Bool := x.all (fun c => decide (c < 128) && !(decide (65 ≤ c) && decide (c ≤ 90)))

/-- What `ToUnicode` must return on an accepted lower-case ASCII domain. -/
def expectedUnicode (x : List Nat) : List Nat :=
  joinDots ((splitDots x).map (fun l =>
    if hasAce l then (match decode (l.drop 4) with | some u => u | none => l) else l))

/-- An A-label of an accepted ToASCII result is canonical: it decodes to a non-ASCII string whose
encoding is the label itself. -/
def aceLabelCanonical (l : List Nat) : Bool :=
  if hasAce l then
    match decode (l.drop 4) with
    | some u => !isAscii u && (encode [] u == some (l.drop 4))
    | none => false
  else true

/-- `none` = accepted. -/
def badALabel (l : List Nat) : Bool := undecodableALabel l || asciiOnlyALabel l

/-- The four UTS 46 deviation characters (U+00DF ß, U+03C2 ς, U+200C ZWNJ, U+200D ZWJ): transitional
processing maps/drops them in U-labels but keeps them in decoded A-labels. -/
def isDeviation (c : Nat) : Bool := c == 223 || c == 962 || c == 8204 || c == 8205

/-- Region of the known finding `idna-transitional-alabel-deviation-roundtrip`: a transitional
profile whose ToUnicode result holds a deviation character. -/
def transitionalDeviation (o : Obs) : Bool := o.transitional && o.u.any isDeviation

def monitorObs (o : Obs) : Option String :=
  if asciiLower o.x && (splitDots o.x).any badALabel && !o.ae then
    some "undecodable-or-ascii-only-alabel-accepted-by-toascii"
  else if asciiLower o.x && (splitDots o.x).any badALabel && !o.ue then
    some "undecodable-or-ascii-only-alabel-accepted-by-tounicode"
  else if asciiLower o.x && !o.ue && o.u != expectedUnicode o.x then
    some "tounicode-differs-from-model-decode"
  else if o.ae then none
  else if !o.vonly && (o.aae || o.aa != o.a) then some "toascii-not-idempotent"
  else if !transitionalDeviation o && !o.vonly && !(splitDots o.u).any hasAce && (o.aue || o.au != o.a) then
    some "toascii-of-tounicode-differs"
  else if !(splitDots o.a).all aceLabelCanonical then some "noncanonical-alabel-in-output"
  else none

end NetVerif.Model.Punycode
