import NetVerif.Model.Flow
/-
Trace monitor for the inbound flow-control behaviour of an HTTP/2 endpoint as seen
by its peer (C10, C11). One trace line = one scripted step of the peer/application
(`Act`) followed by everything observable that the endpoint did in response (`Obs`),
recorded by the Go harness from the package's own test rig after the connection has
gone idle (synctest.Wait), so every line is evaluated against the exact window the
endpoint had advertised when the step was taken.

The monitor keeps the *peer's view*: conn window = 65535 + Σ WINDOW_UPDATE(0) − Σ L of
DATA frames that were within the advertised windows; per-stream windows likewise.
It models the branch structure of `serverConn.processData` (which windows a DATA frame is
charged against: stream state, declared Content-Length, closed request body).
`serverConn.closeStream` discards the unread body (BreakWithError) and refunds it once; a
history in which those bytes are read and refunded again (the defect repaired by the
`fix: http2: ...closeStream...` commit) lifts the window above its configured size and is rejected.
-/
namespace NetVerif.Model.FlowMonitor
open NetVerif.Model.Flow

/-- HTTP/2 error code FLOW_CONTROL_ERROR. -/
def errFlowControl : Nat := 3

inductive Obs where
  | set (v : Int)                 -- SETTINGS_INITIAL_WINDOW_SIZE advertised by the endpoint
  | wu (sid : Nat) (n : Int)      -- WINDOW_UPDATE sent by the endpoint
  | rst (sid : Nat) (code : Nat)  -- RST_STREAM sent by the endpoint
  | goaway (code : Nat)           -- GOAWAY sent by the endpoint
  | rd (sid : Nat) (n : Int)      -- the application read n body bytes of stream sid
  | crst (sid : Nat)              -- the peer reset stream sid (issued by the harness while quiescing)
  | closed                        -- the endpoint closed the connection
  | connerr (code : Nat)          -- the endpoint's application saw a connection error with this code
  | skipped                       -- the scripted application step could not be performed (handler busy / gone)
  | other                         -- anything else (response HEADERS/DATA, blocked/busy markers)
deriving Repr, DecidableEq

inductive Act where
  | reset (connWin streamWin : Int)                       -- new server connection, configured receive windows
  | ereset (connWin streamWin : Int)                      -- same, but the peer does not acknowledge the server's SETTINGS yet
  | ack                                                   -- the peer acknowledges the server's SETTINGS
  | treset (connWin streamWin : Int)                      -- new Transport connection (the endpoint is the client)
  | req (sid : Nat) (kind : Nat)                          -- Transport: application starts a request (0 GET, 1 POST whose body stays open, 2 HEAD)
  | rhdr (sid : Nat) (es : Bool)                          -- Transport: peer sends the response HEADERS
  | shutdown (sid : Nat)                                  -- server: a body-less request `sid` is left in flight, then graceful shutdown (GOAWAY NO_ERROR)
  | hdr (sid : Nat) (cl : Int) (es : Bool)                -- peer opens a stream; cl = declared Content-Length or -1
  | data (sid : Nat) (len pad : Int) (es : Bool)          -- peer DATA; pad = -1: unpadded, else pad bytes + 1 length byte
  | read (sid : Nat)                                      -- application reads (result in Obs.rd)
  | bclose (sid : Nat)                                    -- application closes the body
  | hexit (sid : Nat)                                     -- application handler returns
  | crst (sid : Nat)                                      -- peer sends RST_STREAM
  | quiesce                                               -- every handler returns; then the C10 check
deriving Repr, DecidableEq

structure Line where
  act : Act
  obs : List Obs
deriving Repr

inductive SStatus where
  | preHeaders   -- Transport: request sent, no response HEADERS yet (DATA is a protocol error)
  | open_        -- peer may send DATA that is delivered (charged to conn and stream windows)
  | halfRemote   -- peer has ended the stream; body still readable
  | closed       -- closeStream has run (reset by either side, or handler returned)
deriving Repr, DecidableEq

structure StreamSt where
  id : Nat
  status : SStatus
  win : Int          -- peer's view of the stream receive window
  declCL : Int       -- declared Content-Length or -1
  bodyBytes : Int    -- payload bytes accepted for the body so far
  delivered : Int    -- bytes the application has read
  bodyClosed : Bool  -- the application closed the body
  lingers : Bool     -- Transport: the stream stays registered after the peer's END_STREAM (request body still open)
  isHead : Bool      -- Transport: HEAD request (any DATA payload is a protocol error)
  short : Int        -- by how much the window the server ENFORCES is below the advertised `win`: the server
                     -- applies a configured stream window < 65535 before the peer has acknowledged the SETTINGS
                     -- announcing it (known finding pre-ack-small-stream-window); 0 otherwise
deriving Repr, DecidableEq

structure Mon where
  started : Bool
  dead : Bool            -- connection-level error / close: nothing further is checked
  transport : Bool       -- role of the endpoint under test: false = server, true = Transport
  goneAway : Bool        -- server: graceful GOAWAY sent; streams opened afterwards are ignored (their DATA is discarded)
  acked : Bool           -- the peer has acknowledged the endpoint's SETTINGS (SETTINGS_INITIAL_WINDOW_SIZE in force)
  configured : Int       -- configured connection receive window
  streamInit : Int       -- advertised initial stream window
  conn : Int             -- peer's view of the connection receive window
  sumWU : Int            -- ghost: Σ WINDOW_UPDATE(0)
  sumData : Int          -- ghost: Σ flow-controlled length of DATA within the windows
  maxSid : Nat
  streams : List StreamSt
deriving Repr, DecidableEq

/-- Before any connection: the RFC initial window, nothing sent or received. -/
def Mon.init : Mon := ⟨false, false, false, false, true, 0, 0, initialWindowSize, 0, 0, 0, []⟩

def findStream (ss : List StreamSt) (sid : Nat) : Option StreamSt :=
  ss.find? (fun s => s.id == sid)

/-- Update the stream `findStream` would return (the first with that id). -/
def updStream : List StreamSt → Nat → (StreamSt → StreamSt) → List StreamSt
  | [], _, _ => []
  | s :: rest, sid, f => if s.id == sid then f s :: rest else s :: updStream rest sid f

/-- Flow-controlled length of a DATA frame. -/
def flowLen (len pad : Int) : Int := if pad < 0 then len else len + pad + 1

/-- Residue check shared by `reset` and `quiesce` (C10.holds_partial): the peer's view is
the configured size minus a residue below both batching bounds. -/
def residueOK (m : Mon) : Bool :=
  let residue := m.configured - m.conn
  decide (0 ≤ residue) && (decide (residue = 0) || (decide (residue < inflowMinRefresh) && decide (residue < m.conn)))

/-- Verdict of the action part of a line: new state and, for a DATA frame beyond an
advertised window, the stream on which FLOW_CONTROL_ERROR must be reported. -/
structure ActOut where
  m : Mon
  expectFC : Option Nat
deriving Repr

/-- Where FLOW_CONTROL_ERROR is reported for a DATA frame on stream `sid`: the server resets
the stream; the Transport treats every receive-window violation as a connection error
(reported on "stream" 0: GOAWAY / the application's connection error). -/
def fcTarget (m : Mon) (sid : Nat) : Nat := if m.transport then 0 else sid

/-- Status after the peer's END_STREAM has been processed. -/
def endedStatus (m : Mon) (s : StreamSt) : SStatus :=
  if m.transport && !s.lingers then .closed else .halfRemote

/-- The frame is not delivered: it is charged to (and refunded on) the connection window only,
whether or not the endpoint's own RST_STREAM for that stream has reached the wire yet.
The endpoint resets / aborts a stream that was still registered (server: STREAM_CLOSED or
PROTOCOL_ERROR, possibly still queued behind a blocked writer; Transport: protocol error),
so the stream counts as closed from here on. -/
def connOnlyAct (m : Mon) (sid : Nat) (L : Int) : ActOut :=
  if L > m.conn then ⟨m, some (fcTarget m sid)⟩
  else
    let ss := updStream m.streams sid (fun s => { s with status := .closed })
    ⟨{ m with conn := m.conn - L, sumData := m.sumData + L, streams := ss }, none⟩

/-- The frame is within both windows and is delivered to the stream's body. -/
def acceptAct (m : Mon) (st : StreamSt) (sid : Nat) (len L : Int) (es : Bool) : ActOut :=
  let ended := es && !(st.bodyClosed && decide (len > 0))
  let ss := updStream m.streams sid (fun s =>
    { s with win := s.win - L,
             bodyBytes := if len > 0 then s.bodyBytes + len else s.bodyBytes,
             status := if ended then endedStatus m s else s.status })
  ⟨{ m with conn := m.conn - L, sumData := m.sumData + L, streams := ss }, none⟩

def dataAct (m : Mon) (sid : Nat) (len pad : Int) (es : Bool) : ActOut :=
  let L := flowLen len pad
  if len < 0 ∨ pad < -1 then ⟨{ m with dead := true }, none⟩ else   -- not a DATA frame
  match findStream m.streams sid with
  | none =>
    -- DATA on an idle stream is a connection error (PROTOCOL_ERROR); not a flow-control matter
    ⟨{ m with dead := true }, none⟩
  | some st =>
    match st.status with
    | .closed => connOnlyAct m sid L
    | .halfRemote => connOnlyAct m sid L
    | .preHeaders => connOnlyAct m sid L
    | .open_ =>
      if st.declCL ≠ -1 ∧ st.bodyBytes + len > st.declCL then connOnlyAct m sid L
      else if L = 0 then
        let ss := updStream m.streams sid (fun s => { s with status := if es then endedStatus m s else s.status })
        ⟨{ m with streams := ss }, none⟩
      else if st.isHead ∧ len > 0 then connOnlyAct m sid L
      else if L > m.conn ∨ L > st.win - st.short then ⟨m, some (fcTarget m sid)⟩
      else acceptAct m st sid len L es

/-- The stream window advertised to the peer for a new stream: SETTINGS_INITIAL_WINDOW_SIZE once the
peer has acknowledged it; before that the protocol default 65535 if that is larger
(RFC 9113 6.5.3, 6.9.2). -/
def advWin (m : Mon) : Int :=
  if m.acked then m.streamInit else if m.streamInit < initialWindowSize then initialWindowSize else m.streamInit

def setStatus (m : Mon) (sid : Nat) (st : SStatus) : Mon :=
  { m with streams := updStream m.streams sid (fun s => { s with status := st }) }

def actStep (m : Mon) : Act → ActOut
  | .reset c s =>
    if s < 0 ∨ s > maxWindow then ⟨{ Mon.init with started := true, dead := true }, none⟩
    else ⟨{ Mon.init with started := true, configured := c, streamInit := s }, none⟩
  | .ereset c s =>
    if s < 0 ∨ s > maxWindow then ⟨{ Mon.init with started := true, dead := true }, none⟩
    else ⟨{ Mon.init with started := true, configured := c, streamInit := s, acked := false }, none⟩
  | .ack =>
    -- the acknowledged SETTINGS_INITIAL_WINDOW_SIZE takes effect: every stream window moves by the
    -- difference, and from here on advertised = enforced
    if m.acked then ⟨m, none⟩
    else ⟨{ m with acked := true,
                   streams := m.streams.map (fun s => { s with win := s.win - s.short, short := 0 }) }, none⟩
  | .treset c s =>
    -- the Transport adds its configured buffer to the RFC default window (never beyond 2^31-1), and keeps one
    -- request without response open on stream 1 (the harness' observer of connection errors)
    if s < 0 ∨ s > maxWindow then ⟨{ Mon.init with started := true, dead := true }, none⟩
    else ⟨{ Mon.init with started := true, transport := true,
                          configured := (if c + initialWindowSize > maxWindow then maxWindow else c + initialWindowSize),
                          streamInit := s, maxSid := 1,
                          streams := [⟨1, .preHeaders, s, -1, 0, 0, false, false, false, 0⟩] }, none⟩
  | .req sid kind =>
    if sid ≤ m.maxSid ∨ sid % 2 = 0 then ⟨{ m with dead := true }, none⟩
    else ⟨{ m with maxSid := sid,
                   streams := ⟨sid, .preHeaders, m.streamInit, -1, 0, 0, false, decide (kind = 1), decide (kind = 2), 0⟩ :: m.streams }, none⟩
  | .rhdr sid es =>
    let ss := updStream m.streams sid (fun s =>
      if s.status = .preHeaders then { s with status := if es then endedStatus m s else .open_ } else s)
    ⟨{ m with streams := ss }, none⟩
  | .hdr sid cl es =>
    if sid ≤ m.maxSid ∨ sid % 2 = 0 then ⟨{ m with dead := true }, none⟩
    else if m.goneAway then
      -- HEADERS above the GOAWAY's last stream id are ignored; DATA on that stream is discarded:
      -- charged to and refunded on the connection window only
      ⟨{ m with maxSid := sid,
                streams := ⟨sid, .closed, advWin m, cl, 0, 0, false, false, false, advWin m - m.streamInit⟩ :: m.streams }, none⟩
    else ⟨{ m with maxSid := sid,
                   streams := ⟨sid, if es then .halfRemote else .open_, advWin m, cl, 0, 0, false, false, false, advWin m - m.streamInit⟩ :: m.streams }, none⟩
  | .shutdown sid =>
    if sid ≤ m.maxSid ∨ sid % 2 = 0 ∨ m.transport ∨ m.goneAway then ⟨{ m with dead := true }, none⟩
    else ⟨{ m with maxSid := sid, goneAway := true,
                   streams := ⟨sid, .halfRemote, advWin m, -1, 0, 0, false, false, false, advWin m - m.streamInit⟩ :: m.streams }, none⟩
  | .data sid len pad es => dataAct m sid len pad es
  | .read _ => ⟨m, none⟩
  | .bclose sid =>
    -- server: the handler closes the request body; Transport: Response.Body.Close aborts the stream
    if m.transport then ⟨setStatus m sid .closed, none⟩
    else ⟨{ m with streams := updStream m.streams sid (fun s => { s with bodyClosed := true }) }, none⟩
  | .hexit sid => ⟨setStatus m sid .closed, none⟩
  | .crst sid => ⟨setStatus m sid .closed, none⟩
  | .quiesce => ⟨m, none⟩

/-- One observation. `fc` is the stream on which FLOW_CONTROL_ERROR is legitimate on this line. -/
def obsStep (fc : Option Nat) (m : Mon) : Obs → Except String Mon
  | .set v =>
    if v < 0 ∨ v > maxWindow then .error "initial-window-out-of-range"
    else .ok { m with streamInit := v }
  | .wu sid n =>
    if sid = 0 then
      let c := m.conn + n
      if c > maxWindow then .error "conn-window-exceeds-2^31-1"
      else if c > m.configured then .error "conn-window-above-configured"
      else .ok { m with conn := c, sumWU := m.sumWU + n }
    else
      match findStream m.streams sid with
      | none => .ok m
      | some st =>
        if st.win + n > maxWindow then .error "stream-window-exceeds-2^31-1"
        else .ok { m with streams := updStream m.streams sid (fun s => { s with win := s.win + n }) }
  | .rst sid code =>
    if code = errFlowControl ∧ fc ≠ some sid then .error "flow-control-error-within-window"
    else .ok (setStatus m sid .closed)
  | .goaway code =>
    if code = errFlowControl ∧ fc ≠ some 0 then .error "flow-control-goaway"
    else .ok { m with dead := m.dead || decide (code ≠ 0) }
  | .connerr code =>
    if code = errFlowControl ∧ fc ≠ some 0 then .error "flow-control-error-within-window"
    else .ok { m with dead := true }
  | .rd sid n =>
    match findStream m.streams sid with
    | none => .ok m
    | some st =>
      if n < 0 then .error "negative-read"
      else if st.delivered + n > st.bodyBytes then .error "delivered-more-than-accepted"
      else
        .ok { m with streams := updStream m.streams sid (fun s => { s with delivered := s.delivered + n }) }
  | .crst sid => .ok (setStatus m sid .closed)
  | .closed => .ok { m with dead := true }
  | .skipped => .ok m
  | .other => .ok m

def obsFold (fc : Option Nat) (m : Mon) : List Obs → Except String Mon
  | [] => .ok m
  | o :: rest =>
    if m.dead then .ok m else
    match obsStep fc m o with
    | .error e => .error e
    | .ok m' => obsFold fc m' rest

/-- FLOW_CONTROL_ERROR was reported on `sid` (0: as a connection error). -/
def hasFC (sid : Nat) (obs : List Obs) : Bool :=
  if sid = 0 then obs.contains (.goaway errFlowControl) || obs.contains (.connerr errFlowControl)
  else obs.contains (.rst sid errFlowControl)

/-- An application step the harness could not perform (handler blocked in a read, or gone)
has no effect of its own. -/
def effAct (a : Act) (obs : List Obs) : Act :=
  match a with
  | .bclose _ | .hexit _ | .req _ _ | .rhdr _ _ | .shutdown _ => if obs.contains .skipped then .read 0 else a
  | _ => a

/-- The `reset` line: a new connection; the initial WINDOW_UPDATE must bring the peer's view
to the configured size up to a batching residue. -/
def resetLine (m : Mon) (l : Line) : Except String Mon :=
  match obsFold none (actStep m l.act).m l.obs with
  | .error e => .error e
  | .ok m' => if m'.dead || residueOK m' then .ok m' else .error "initial-window-not-configured"

/-- End-of-line check: at `quiesce` every handler has returned and the C10 statement is checked. -/
def finishLine (act : Act) (m' : Mon) : Except String Mon :=
  match act with
  | .quiesce =>
    if m'.dead || residueOK m' then
      .ok { m' with streams := m'.streams.map (fun s => { s with status := .closed }) }
    else if m'.configured - m'.conn < 0 then .error "over-refund" else .error "credit-leak"
  | _ => .ok m'

/-- Any other line, on a live connection. -/
def liveLine (m : Mon) (act : Act) (obs : List Obs) : Except String Mon :=
  let a := actStep m act
  if a.m.dead then .ok a.m else
  match a.expectFC with
  | some sid =>
    if !hasFC sid obs then .error "excess-data-not-refused"
    else obsFold (some sid) (setStatus a.m sid .closed) obs   -- the refused stream is reset
  | none =>
    match obsFold none a.m obs with
    | .error e => .error e
    | .ok m' => finishLine act m'

/-- One trace line. -/
def lineStep (m : Mon) (l : Line) : Except String Mon :=
  match l.act with
  | .reset .. => resetLine m l
  | .ereset .. => resetLine m l
  | .treset .. => resetLine m l
  | act0 =>
    if !m.started then .ok m  -- nothing to check before a connection exists
    else if m.dead then .ok m
    else liveLine m (effAct act0 l.obs) l.obs

def run (m : Mon) : List Line → Except String Mon
  | [] => .ok m
  | l :: rest => match lineStep m l with
    | .error e => .error e
    | .ok m' => run m' rest

end NetVerif.Model.FlowMonitor
