/-!
Model of quic/stream_limits.go (C21): `localStreamLimits` and `remoteStreamLimits`.
All counters are Go `int64`; modelled over unbounded `Int` (values stay below 2^62:
`maxOpen ≤ maxStreamsLimit = 2^60`, stream numbers `< 2^60`).

The gate of `localStreamLimits` is modelled as the Boolean condition recorded by the last
`unlock` (`lim.gate.unlock(lim.opened < lim.max)`); `open` is the non-waiting variant
(`waitAndLock` with an already expired context): it reports `blocked` exactly when the Go call
would block.
-/
namespace NetVerif.Model.StreamLimits

def implicitStreamLimit : Int := 100
def maxStreamsLimit : Int := 1152921504606846976 -- 1 << 60

/-- `configDefault(v, def, limit)` of quic/config.go. -/
def configDefault (v dflt limit : Int) : Int :=
  if v = 0 then dflt else if v < 0 then 0 else min v limit

def maxRemoteStreams (v : Int) : Int := configDefault v 100 maxStreamsLimit

/-! ### localStreamLimits -/

structure Local where
  max : Int := 0
  opened : Int := 0     -- -1 when the conn is closed
  gate : Bool := false  -- condition recorded by the last unlock
  deriving Repr, DecidableEq

/-- The value every `lim.unlock()` records. -/
def gateCond (opened max : Int) : Bool := decide (opened < max)

def Local.unlock (l : Local) : Local := { l with gate := gateCond l.opened l.max }

/-- `newGate()`: unlocked, condition unset. -/
def Local.init : Local := { max := 0, opened := 0, gate := false }

inductive OpenRes where
  | blocked            -- the Go call would block (gate condition unset)
  | closed             -- errConnClosed
  | ok (num : Int)
  deriving Repr, DecidableEq

def Local.open (l : Local) : Local × OpenRes :=
  match l.gate with
  | false => (l, .blocked)
  | true =>
    if l.opened < 0 then (l.unlock, .closed)
    else (({ l with opened := l.opened + 1 } : Local).unlock, .ok l.opened)

def Local.setMax (l : Local) (m : Int) : Local :=
  ({ l with max := Max.max l.max m } : Local).unlock

def Local.connHasClosed (l : Local) : Local :=
  ({ l with opened := -1 } : Local).unlock

def Local.wasOpened (l : Local) (num : Int) : Local × Bool :=
  (l.unlock, decide (num < l.opened))

/-! ### remoteStreamLimits -/

structure Remote where
  max : Int := 0
  opened : Int := 0
  closed : Int := 0
  maxOpen : Int := 0
  sendUnsent : Bool := false   -- `sendMax` is in the "set, not sent" state
  deriving Repr, DecidableEq

def Remote.init (maxOpen : Int) : Remote :=
  { max := min maxOpen implicitStreamLimit, opened := 0, closed := 0, maxOpen := maxOpen, sendUnsent := false }

/-- The candidate new limit of `maybeUpdateMax`. -/
def Remote.newMax (r : Remote) : Int := min (r.closed + r.maxOpen) (r.opened + implicitStreamLimit)

/-- The heuristic deciding whether to advertise `newMax`. -/
def Remote.shouldUpdate (r : Remote) : Bool :=
  let avail := r.max - r.opened
  decide (r.newMax > r.max ∧ (avail < 8 ∨ r.newMax - r.max ≥ 2 * avail))

def Remote.maybeUpdateMax (r : Remote) : Remote :=
  if r.shouldUpdate then { r with max := r.newMax, sendUnsent := true } else r

/-- `open(id)` with `num = id.num()`: `false` is the STREAM_LIMIT_ERROR. -/
def Remote.open (r : Remote) (num : Int) : Remote × Bool :=
  if num ≥ r.max then (r, false)
  else if num ≥ r.opened then (({ r with opened := num + 1 } : Remote).maybeUpdateMax, true)
  else (r, true)

def Remote.close (r : Remote) : Remote :=
  ({ r with closed := r.closed + 1 } : Remote).maybeUpdateMax

/-- `appendFrame` when the frame fits: the MAX_STREAMS value put on the wire, if any.
(`pto` re-sends of an un-acked value are not modelled: they repeat the same `lim.max`.) -/
def Remote.appendFrame (r : Remote) : Remote × Option Int :=
  if r.sendUnsent then ({ r with sendUnsent := false }, some r.max) else (r, none)

/-! ### histories -/

inductive LOp where
  | open | setMax (m : Int) | connHasClosed | wasOpened (n : Int)
  deriving Repr

def Local.step (l : Local) : LOp → Local
  | .open => l.open.1
  | .setMax m => l.setMax m
  | .connHasClosed => l.connHasClosed
  | .wasOpened n => (l.wasOpened n).1

def Local.run (l : Local) (ops : List LOp) : Local := ops.foldl Local.step l

inductive ROp where
  | open (num : Int) | close | appendFrame
  deriving Repr

def Remote.step (r : Remote) : ROp → Remote
  | .open n => (r.open n).1
  | .close => r.close
  | .appendFrame => r.appendFrame.1

def Remote.run (r : Remote) (ops : List ROp) : Remote := ops.foldl Remote.step r

/-- The MAX_STREAMS values put on the wire along a history, in order. -/
def Remote.frames : Remote → List ROp → List Int
  | _, [] => []
  | r, .appendFrame :: rest => r.appendFrame.2.toList ++ Remote.frames r.appendFrame.1 rest
  | r, .open n :: rest => Remote.frames (r.step (.open n)) rest
  | r, .close :: rest => Remote.frames (r.step .close) rest

end NetVerif.Model.StreamLimits
