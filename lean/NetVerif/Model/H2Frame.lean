/-
Model of the HTTP/2 Framer of /repo/http2/frame.go (C06, C07).

* bytes are `Nat`s < 256 in `List Nat`; `uint32` arguments are `Nat`s (the
  theorems carry the `< 2^32` / `< 256` hypotheses the Go types impose);
  shifts and masks are written with `/ % *` by literal powers of two.
* `write*`   : one function per `Framer.Write*` with `AllowIllegalWrites = false`,
  returning the exact bytes handed to the single `w.Write` call or the error.
* `parseFrame`: the `parse*Frame` functions (dispatch = `typeFrameParser`).
* `readFrame` : `Framer.ReadFrame` without `ReadMetaHeaders`
  (`ReadFrameHeader` = 9-byte header, `maxReadSize`, `checkFrameOrder`;
  `ReadFrameForHeader` = payload + parser), over the remaining byte stream.
* `readMeta`  : `Framer.ReadFrame` with `ReadMetaHeaders` set: `readMetaFrame`
  as a fold over abstract HPACK decoder outputs (see `FragDec`).
Not modelled: `AllowIllegalWrites/AllowIllegalReads = true`, `frameCache`
reuse / frame invalidation, logging, `errDetail` texts, `countError` tokens,
the unexported RFC 9218 fields of `PriorityParam`.
-/
namespace NetVerif.Model.H2Frame

/-! ## Constants (tied to the Go source by `Proofs/C06.lean` via `Gen/C06.lean`) -/

def frameData : Nat := 0
def frameHeaders : Nat := 1
def framePriority : Nat := 2
def frameRSTStream : Nat := 3
def frameSettings : Nat := 4
def framePushPromise : Nat := 5
def framePing : Nat := 6
def frameGoAway : Nat := 7
def frameWindowUpdate : Nat := 8
def frameContinuation : Nat := 9
def framePriorityUpdate : Nat := 16

def flagEndStream : Nat := 1     -- FlagDataEndStream, FlagHeadersEndStream
def flagAck : Nat := 1           -- FlagSettingsAck, FlagPingAck
def flagEndHeaders : Nat := 4    -- Headers / Continuation / PushPromise
def flagPadded : Nat := 8        -- Data / Headers / PushPromise
def flagPriority : Nat := 32     -- FlagHeadersPriority

def settingInitialWindowSize : Nat := 4

def errCodeProtocol : Nat := 1
def errCodeFlowControl : Nat := 3
def errCodeFrameSize : Nat := 6
def errCodeCompression : Nat := 9

def frameHeaderLen : Nat := 9
def maxFrameSize : Nat := 16777215      -- 1<<24 - 1

/-- `Flags.Has(v)` for a single-bit `v` (a literal power of two): bit test. -/
def hasFlag (f v : Nat) : Bool := f / v % 2 == 1

/-- big-endian uint32 (`writeUint32`, `startWrite`'s stream id). -/
def be32 (v : Nat) : List Nat :=
  [v / 16777216 % 256, v / 65536 % 256, v / 256 % 256, v % 256]

/-- `binary.BigEndian.Uint32`. -/
def rd32 (a b c d : Nat) : Nat := a * 16777216 + b * 65536 + c * 256 + d

/-! ## Frames -/

structure FrameHeader where
  length : Nat
  type : Nat
  flags : Nat
  streamID : Nat
deriving DecidableEq, Repr, Inhabited

structure PriorityParam where
  streamDep : Nat := 0
  exclusive : Bool := false
  weight : Nat := 0
deriving DecidableEq, Repr, Inhabited

def PriorityParam.isZero (p : PriorityParam) : Bool :=
  p.streamDep == 0 && !p.exclusive && p.weight == 0

/-- What `ReadFrame` returns, by concrete Go type, with the fields the accessors expose. -/
inductive Frame where
  | data (h : FrameHeader) (data : List Nat)
  | headers (h : FrameHeader) (prio : PriorityParam) (frag : List Nat)
  | priority (h : FrameHeader) (p : PriorityParam)
  | rstStream (h : FrameHeader) (code : Nat)
  | settings (h : FrameHeader) (settings : List (Nat × Nat))
  | pushPromise (h : FrameHeader) (promiseID : Nat) (frag : List Nat)
  | ping (h : FrameHeader) (data : List Nat)
  | goAway (h : FrameHeader) (lastStreamID : Nat) (code : Nat) (debug : List Nat)
  | windowUpdate (h : FrameHeader) (incr : Nat)
  | continuation (h : FrameHeader) (frag : List Nat)
  | priorityUpdate (h : FrameHeader) (prioritized : Nat) (priority : List Nat)
  | unknown (h : FrameHeader) (payload : List Nat)
deriving DecidableEq, Repr

def Frame.header : Frame → FrameHeader
  | .data h _ | .headers h _ _ | .priority h _ | .rstStream h _ | .settings h _
  | .pushPromise h _ _ | .ping h _ | .goAway h _ _ _ | .windowUpdate h _
  | .continuation h _ | .priorityUpdate h _ _ | .unknown h _ => h

/-! ## Write side -/

inductive WErr where
  | streamID        -- errStreamID
  | depStreamID     -- errDepStreamID
  | padLength       -- errPadLength
  | padBytes        -- errPadBytes
  | frameTooLarge   -- ErrFrameTooLarge (endWrite)
  | windowIncr      -- "illegal window increment value"
deriving DecidableEq, Repr

/-- `validStreamID` on a uint32. -/
def validStreamID (s : Nat) : Bool := s != 0 && s < 2147483648
/-- `validStreamIDOrZero` on a uint32. -/
def validStreamIDOrZero (s : Nat) : Bool := s < 2147483648

/-- `startWrite` … appends … `endWrite`: the 9-byte header with the back-patched
length, or `ErrFrameTooLarge` when the payload needs more than 24 bits. -/
def frameBytes (t fl sid : Nat) (payload : List Nat) : Except WErr (List Nat) :=
  if payload.length ≥ 16777216 then .error .frameTooLarge
  else .ok (payload.length / 65536 % 256 :: payload.length / 256 % 256 :: payload.length % 256 ::
            t :: fl :: sid / 16777216 % 256 :: sid / 65536 % 256 :: sid / 256 % 256 :: sid % 256 ::
            payload)

def b2n (b : Bool) (v : Nat) : Nat := if b then v else 0

/-- `WriteDataPadded` (`pad = none` is Go's `nil` pad, i.e. `WriteData`). -/
def writeData (sid : Nat) (endStream : Bool) (data : List Nat) (pad : Option (List Nat)) :
    Except WErr (List Nat) :=
  if !validStreamID sid then .error .streamID
  else match pad with
    | none => frameBytes frameData (b2n endStream flagEndStream) sid data
    | some p =>
      if p.length > 255 then .error .padLength
      else if p.any (· != 0) then .error .padBytes
      else frameBytes frameData (b2n endStream flagEndStream + flagPadded) sid
             (p.length :: (data ++ p))

/-- the 5 priority bytes: `v |= 1<<31` when exclusive, then weight. -/
def prioBytes (p : PriorityParam) : List Nat :=
  be32 (p.streamDep + b2n p.exclusive 2147483648) ++ [p.weight]

/-- `WriteHeaders`. -/
def writeHeaders (sid : Nat) (frag : List Nat) (endStream endHeaders : Bool) (padLen : Nat)
    (prio : PriorityParam) : Except WErr (List Nat) :=
  if !validStreamID sid then .error .streamID
  else if !prio.isZero && !validStreamIDOrZero prio.streamDep then .error .depStreamID
  else frameBytes frameHeaders
      (b2n (padLen != 0) flagPadded + b2n endStream flagEndStream + b2n endHeaders flagEndHeaders
        + b2n (!prio.isZero) flagPriority) sid
      ((if padLen != 0 then [padLen] else []) ++ (if !prio.isZero then prioBytes prio else [])
        ++ frag ++ List.replicate padLen 0)

/-- `WritePriority`. -/
def writePriority (sid : Nat) (p : PriorityParam) : Except WErr (List Nat) :=
  if !validStreamID sid then .error .streamID
  else if !validStreamIDOrZero p.streamDep then .error .depStreamID
  else frameBytes framePriority 0 sid (prioBytes p)

/-- `WriteRSTStream`. -/
def writeRSTStream (sid code : Nat) : Except WErr (List Nat) :=
  if !validStreamID sid then .error .streamID
  else frameBytes frameRSTStream 0 sid (be32 code)

def settingBytes (s : Nat × Nat) : List Nat := s.1 / 256 % 256 :: s.1 % 256 :: be32 s.2

def settingsBytes : List (Nat × Nat) → List Nat
  | [] => []
  | s :: rest => settingBytes s ++ settingsBytes rest

/-- `WriteSettings`. -/
def writeSettings (ss : List (Nat × Nat)) : Except WErr (List Nat) :=
  frameBytes frameSettings 0 0 (settingsBytes ss)

/-- `WriteSettingsAck`. -/
def writeSettingsAck : Except WErr (List Nat) := frameBytes frameSettings flagAck 0 []

/-- `WritePing` (`data` is a `[8]byte`). -/
def writePing (ack : Bool) (data : List Nat) : Except WErr (List Nat) :=
  frameBytes framePing (b2n ack flagAck) 0 data

/-- `WriteGoAway`. -/
def writeGoAway (maxSid code : Nat) (debug : List Nat) : Except WErr (List Nat) :=
  frameBytes frameGoAway 0 0 (be32 (maxSid % 2147483648) ++ be32 code ++ debug)

/-- `WriteWindowUpdate` (the stream id is not validated by the Go code). -/
def writeWindowUpdate (sid incr : Nat) : Except WErr (List Nat) :=
  if incr < 1 || incr > 2147483647 then .error .windowIncr
  else frameBytes frameWindowUpdate 0 sid (be32 incr)

/-- `WriteContinuation`. -/
def writeContinuation (sid : Nat) (endHeaders : Bool) (frag : List Nat) : Except WErr (List Nat) :=
  if !validStreamID sid then .error .streamID
  else frameBytes frameContinuation (b2n endHeaders flagEndHeaders) sid frag

/-- `WritePushPromise`. -/
def writePushPromise (sid promiseID : Nat) (frag : List Nat) (endHeaders : Bool) (padLen : Nat) :
    Except WErr (List Nat) :=
  if !validStreamID sid then .error .streamID
  else if !validStreamID promiseID then .error .streamID
  else frameBytes framePushPromise (b2n (padLen != 0) flagPadded + b2n endHeaders flagEndHeaders) sid
      ((if padLen != 0 then [padLen] else []) ++ be32 promiseID ++ frag ++ List.replicate padLen 0)

/-- `WritePriorityUpdate`. -/
def writePriorityUpdate (sid : Nat) (priority : List Nat) : Except WErr (List Nat) :=
  if !validStreamID sid then .error .streamID
  else frameBytes framePriorityUpdate 0 0 (be32 sid ++ priority)

/-- `WriteRawFrame`. -/
def writeRawFrame (t fl sid : Nat) (payload : List Nat) : Except WErr (List Nat) :=
  frameBytes t fl sid payload

/-! ## The write buffer over sequences of calls on ONE Framer

`Framer.wbuf` is reused by every Write method: `startWrite` truncates it (`f.wbuf[:0]`) and writes
the header with a zero length, the method appends, `endWrite` patches the length and hands the whole
buffer to `w.Write`. A method that fails AFTER `startWrite` (WriteHeaders: invalid StreamDep,
WritePushPromise: invalid PromiseID, `endWrite`: ErrFrameTooLarge) leaves a partial frame in the
buffer. `runCall wbuf c` is the call `c` on a Framer whose buffer currently holds `wbuf`, following
the Go statement order; `Proofs.C06.runCall_result` shows the result never depends on `wbuf`. -/

/-- the arguments of one `Framer.Write*` call. -/
inductive Call where
  | data (sid : Nat) (endStream : Bool) (data : List Nat) (pad : Option (List Nat))
  | headers (sid : Nat) (frag : List Nat) (endStream endHeaders : Bool) (padLen : Nat) (prio : PriorityParam)
  | priority (sid : Nat) (p : PriorityParam)
  | rstStream (sid code : Nat)
  | settings (ss : List (Nat × Nat))
  | settingsAck
  | ping (ack : Bool) (data : List Nat)
  | goAway (maxSid code : Nat) (debug : List Nat)
  | windowUpdate (sid incr : Nat)
  | continuation (sid : Nat) (endHeaders : Bool) (frag : List Nat)
  | pushPromise (sid promiseID : Nat) (frag : List Nat) (endHeaders : Bool) (padLen : Nat)
  | priorityUpdate (sid : Nat) (priority : List Nat)
  | raw (t fl sid : Nat) (payload : List Nat)

/-- the call on a fresh Framer (the functions above). -/
def Call.fresh : Call → Except WErr (List Nat)
  | .data sid es d pad => writeData sid es d pad
  | .headers sid frag es eh padLen prio => writeHeaders sid frag es eh padLen prio
  | .priority sid p => writePriority sid p
  | .rstStream sid code => writeRSTStream sid code
  | .settings ss => writeSettings ss
  | .settingsAck => writeSettingsAck
  | .ping ack d => writePing ack d
  | .goAway m c d => writeGoAway m c d
  | .windowUpdate sid incr => writeWindowUpdate sid incr
  | .continuation sid eh frag => writeContinuation sid eh frag
  | .pushPromise sid pid frag eh padLen => writePushPromise sid pid frag eh padLen
  | .priorityUpdate sid p => writePriorityUpdate sid p
  | .raw t fl sid p => writeRawFrame t fl sid p

/-- `startWrite`: `append(f.wbuf[:0], 0, 0, 0, type, flags, streamID…)` — the old content is dropped. -/
def startWriteS (_wbuf : List Nat) (t fl sid : Nat) : List Nat :=
  [0, 0, 0, t, fl, sid / 16777216 % 256, sid / 65536 % 256, sid / 256 % 256, sid % 256]

/-- `endWrite`: result of the call and the buffer afterwards (on ErrFrameTooLarge nothing is
written and the oversized partial frame stays in the buffer). -/
def endWriteS (wbuf : List Nat) : Except WErr (List Nat) × List Nat :=
  if wbuf.length - 9 ≥ 16777216 then (.error .frameTooLarge, wbuf)
  else
    let out := (wbuf.length - 9) / 65536 % 256 :: (wbuf.length - 9) / 256 % 256 :: (wbuf.length - 9) % 256 ::
      wbuf.drop 3
    (.ok out, out)

/-- one call on a Framer whose write buffer holds `wbuf`: (result, buffer afterwards). -/
def runCall (wbuf : List Nat) : Call → Except WErr (List Nat) × List Nat
  | .data sid es d pad =>
    if !validStreamID sid then (.error .streamID, wbuf)
    else match pad with
      | none => endWriteS (startWriteS wbuf frameData (b2n es flagEndStream) sid ++ d)
      | some p =>
        if p.length > 255 then (.error .padLength, wbuf)
        else if p.any (· != 0) then (.error .padBytes, wbuf)
        else endWriteS (startWriteS wbuf frameData (b2n es flagEndStream + flagPadded) sid ++ [p.length] ++ d ++ p)
  | .headers sid frag es eh padLen prio =>
    if !validStreamID sid then (.error .streamID, wbuf)
    else
      let fl := b2n (padLen != 0) flagPadded + b2n es flagEndStream + b2n eh flagEndHeaders + b2n (!prio.isZero) flagPriority
      let w1 := startWriteS wbuf frameHeaders fl sid ++ (if padLen != 0 then [padLen] else [])
      if !prio.isZero && !validStreamIDOrZero prio.streamDep then (.error .depStreamID, w1)   -- partial frame left
      else endWriteS (w1 ++ (if !prio.isZero then prioBytes prio else []) ++ frag ++ List.replicate padLen 0)
  | .priority sid p =>
    if !validStreamID sid then (.error .streamID, wbuf)
    else if !validStreamIDOrZero p.streamDep then (.error .depStreamID, wbuf)
    else endWriteS (startWriteS wbuf framePriority 0 sid ++ prioBytes p)
  | .rstStream sid code =>
    if !validStreamID sid then (.error .streamID, wbuf)
    else endWriteS (startWriteS wbuf frameRSTStream 0 sid ++ be32 code)
  | .settings ss => endWriteS (startWriteS wbuf frameSettings 0 0 ++ settingsBytes ss)
  | .settingsAck => endWriteS (startWriteS wbuf frameSettings flagAck 0)
  | .ping ack d => endWriteS (startWriteS wbuf framePing (b2n ack flagAck) 0 ++ d)
  | .goAway m c d => endWriteS (startWriteS wbuf frameGoAway 0 0 ++ be32 (m % 2147483648) ++ be32 c ++ d)
  | .windowUpdate sid incr =>
    if incr < 1 || incr > 2147483647 then (.error .windowIncr, wbuf)
    else endWriteS (startWriteS wbuf frameWindowUpdate 0 sid ++ be32 incr)
  | .continuation sid eh frag =>
    if !validStreamID sid then (.error .streamID, wbuf)
    else endWriteS (startWriteS wbuf frameContinuation (b2n eh flagEndHeaders) sid ++ frag)
  | .pushPromise sid pid frag eh padLen =>
    if !validStreamID sid then (.error .streamID, wbuf)
    else
      let w1 := startWriteS wbuf framePushPromise (b2n (padLen != 0) flagPadded + b2n eh flagEndHeaders) sid
                  ++ (if padLen != 0 then [padLen] else [])
      if !validStreamID pid then (.error .streamID, w1)   -- partial frame left
      else endWriteS (w1 ++ be32 pid ++ frag ++ List.replicate padLen 0)
  | .priorityUpdate sid p =>
    if !validStreamID sid then (.error .streamID, wbuf)
    else endWriteS (startWriteS wbuf framePriorityUpdate 0 0 ++ be32 sid ++ p)
  | .raw t fl sid p => endWriteS (startWriteS wbuf t fl sid ++ p)

/-- a sequence of calls on one Framer: the result of every call, and the final buffer. -/
def runCalls : List Nat → List Call → List (Except WErr (List Nat)) × List Nat
  | wbuf, [] => ([], wbuf)
  | wbuf, c :: cs =>
    let r := runCall wbuf c
    let rs := runCalls r.2 cs
    (r.1 :: rs.1, rs.2)

/-! ## Read side: the per-type parsers -/

inductive RErr where
  | eof                       -- io.EOF
  | unexpectedEOF             -- io.ErrUnexpectedEOF
  | frameTooLarge             -- ErrFrameTooLarge
  | conn (code : Nat)         -- ConnectionError(code) (connError{…} is converted by ReadFrameForHeader)
  | stream (sid code : Nat)   -- StreamError{sid, code}
deriving DecidableEq, Repr

/-- `terminalReadFrameError`: everything but a StreamError ends the stream of frames. -/
def RErr.terminal : RErr → Bool
  | .stream _ _ => false
  | _ => true

def parseData (fh : FrameHeader) (p : List Nat) : Except RErr Frame :=
  if fh.streamID = 0 then .error (.conn errCodeProtocol)
  else if hasFlag fh.flags flagPadded then
    match p with
    | [] => .error .unexpectedEOF
    | padSize :: rest =>
      if padSize > rest.length then .error (.conn errCodeProtocol)
      else .ok (.data fh (rest.take (rest.length - padSize)))
  else .ok (.data fh p)

/-- the optional 5 priority bytes of HEADERS: `(remaining, param)`. -/
def readPrio (p : List Nat) : Except RErr (List Nat × PriorityParam) :=
  match p with
  | a :: b :: c :: d :: rest =>
    match rest with
    | w :: rest' =>
      .ok (rest', { streamDep := rd32 a b c d % 2147483648,
                    exclusive := rd32 a b c d != rd32 a b c d % 2147483648, weight := w })
    | [] => .error .unexpectedEOF
  | _ => .error .unexpectedEOF

def parseHeaders (fh : FrameHeader) (p : List Nat) : Except RErr Frame :=
  if fh.streamID = 0 then .error (.conn errCodeProtocol)
  else
    -- pad length byte
    match (if hasFlag fh.flags flagPadded then
            (match p with | [] => none | b :: rest => some (rest, b)) else some (p, 0)) with
    | none => .error .unexpectedEOF
    | some (p1, padLength) =>
      match (if hasFlag fh.flags flagPriority then readPrio p1 else .ok (p1, {})) with
      | .error e => .error e
      | .ok (p2, prio) =>
        if p2.length < padLength then .error (.stream fh.streamID errCodeProtocol)
        else .ok (.headers fh prio (p2.take (p2.length - padLength)))

def parsePriority (fh : FrameHeader) (p : List Nat) : Except RErr Frame :=
  if fh.streamID = 0 then .error (.conn errCodeProtocol)
  else match p with
    | [a, b, c, d, w] =>
      .ok (.priority fh { streamDep := rd32 a b c d % 2147483648,
                          exclusive := rd32 a b c d % 2147483648 != rd32 a b c d, weight := w })
    | _ => .error (.conn errCodeFrameSize)

def parseRSTStream (fh : FrameHeader) (p : List Nat) : Except RErr Frame :=
  match p with
  | [a, b, c, d] =>
    if fh.streamID = 0 then .error (.conn errCodeProtocol)
    else .ok (.rstStream fh (rd32 a b c d))
  | _ => .error (.conn errCodeFrameSize)

/-- the 6-byte settings of a payload whose length is a multiple of 6
(`SettingsFrame.Setting(i)` for `i < NumSettings()`). -/
def settingsOf : List Nat → List (Nat × Nat)
  | i0 :: i1 :: a :: b :: c :: d :: rest => (i0 * 256 + i1, rd32 a b c d) :: settingsOf rest
  | _ => []

/-- `SettingsFrame.Value(id)`: the first setting with that id. -/
def settingsValue (id : Nat) : List (Nat × Nat) → Option Nat
  | [] => none
  | s :: rest => if s.1 = id then some s.2 else settingsValue id rest

def parseSettings (fh : FrameHeader) (p : List Nat) : Except RErr Frame :=
  if hasFlag fh.flags flagAck && fh.length > 0 then .error (.conn errCodeFrameSize)
  else if fh.streamID != 0 then .error (.conn errCodeProtocol)
  else if p.length % 6 != 0 then .error (.conn errCodeFrameSize)
  else match settingsValue settingInitialWindowSize (settingsOf p) with
    | some v => if v > 2147483647 then .error (.conn errCodeFlowControl)
                else .ok (.settings fh (settingsOf p))
    | none => .ok (.settings fh (settingsOf p))

def parsePushPromise (fh : FrameHeader) (p : List Nat) : Except RErr Frame :=
  if fh.streamID = 0 then .error (.conn errCodeProtocol)
  else
    match (if hasFlag fh.flags flagPadded then
            (match p with | [] => none | b :: rest => some (rest, b)) else some (p, 0)) with
    | none => .error .unexpectedEOF
    | some (p1, padLength) =>
      match p1 with
      | a :: b :: c :: d :: p2 =>
        if padLength > p2.length then .error (.conn errCodeProtocol)
        else .ok (.pushPromise fh (rd32 a b c d % 2147483648) (p2.take (p2.length - padLength)))
      | _ => .error .unexpectedEOF

def parsePing (fh : FrameHeader) (p : List Nat) : Except RErr Frame :=
  if p.length != 8 then .error (.conn errCodeFrameSize)
  else if fh.streamID != 0 then .error (.conn errCodeProtocol)
  else .ok (.ping fh p)

def parseGoAway (fh : FrameHeader) (p : List Nat) : Except RErr Frame :=
  if fh.streamID != 0 then .error (.conn errCodeProtocol)
  else match p with
    | a :: b :: c :: d :: e :: f :: g :: h :: debug =>
      .ok (.goAway fh (rd32 a b c d % 2147483648) (rd32 e f g h) debug)
    | _ => .error (.conn errCodeFrameSize)

def parseWindowUpdate (fh : FrameHeader) (p : List Nat) : Except RErr Frame :=
  match p with
  | [a, b, c, d] =>
    if rd32 a b c d % 2147483648 = 0 then
      if fh.streamID = 0 then .error (.conn errCodeProtocol)
      else .error (.stream fh.streamID errCodeProtocol)
    else .ok (.windowUpdate fh (rd32 a b c d % 2147483648))
  | _ => .error (.conn errCodeFrameSize)

def parseContinuation (fh : FrameHeader) (p : List Nat) : Except RErr Frame :=
  if fh.streamID = 0 then .error (.conn errCodeProtocol)
  else .ok (.continuation fh p)

def parsePriorityUpdate (fh : FrameHeader) (p : List Nat) : Except RErr Frame :=
  if fh.streamID != 0 then .error (.conn errCodeProtocol)
  else match p with
    | a :: b :: c :: d :: rest =>
      if rd32 a b c d % 2147483648 = 0 then .error (.conn errCodeProtocol)
      else .ok (.priorityUpdate fh (rd32 a b c d % 2147483648) rest)
    | _ => .error (.conn errCodeFrameSize)

/-- `typeFrameParser(fh.Type)(…)`. -/
def parseFrame (fh : FrameHeader) (p : List Nat) : Except RErr Frame :=
  if fh.type = frameData then parseData fh p
  else if fh.type = frameHeaders then parseHeaders fh p
  else if fh.type = framePriority then parsePriority fh p
  else if fh.type = frameRSTStream then parseRSTStream fh p
  else if fh.type = frameSettings then parseSettings fh p
  else if fh.type = framePushPromise then parsePushPromise fh p
  else if fh.type = framePing then parsePing fh p
  else if fh.type = frameGoAway then parseGoAway fh p
  else if fh.type = frameWindowUpdate then parseWindowUpdate fh p
  else if fh.type = frameContinuation then parseContinuation fh p
  else if fh.type = framePriorityUpdate then parsePriorityUpdate fh p
  else .ok (.unknown fh p)

/-! ## Read side: the Framer -/

structure Framer where
  /-- `SetMaxReadFrameSize` (already clamped to `maxFrameSize`). -/
  maxReadSize : Nat
  /-- non-zero iff the last frame was an unfinished HEADERS/CONTINUATION. -/
  lastHeaderStream : Nat := 0
deriving DecidableEq, Repr

/-- `SetMaxReadFrameSize`. -/
def setMaxReadFrameSize (v : Nat) : Nat := if v > maxFrameSize then maxFrameSize else v

def newFramer : Framer := { maxReadSize := maxFrameSize }

/-- `checkFrameOrder`: the new `lastHeaderStream`, or the connection error. -/
def checkFrameOrder (last : Nat) (fh : FrameHeader) : Except RErr Nat :=
  if last != 0 && fh.type != frameContinuation then .error (.conn errCodeProtocol)
  else if last != 0 && fh.streamID != last then .error (.conn errCodeProtocol)
  else if last == 0 && fh.type == frameContinuation then .error (.conn errCodeProtocol)
  else if fh.type == frameHeaders || fh.type == frameContinuation then
    .ok (if hasFlag fh.flags flagEndHeaders then 0 else fh.streamID)
  else .ok last

/-- Result of one `ReadFrame` call. `hdr` is the frame header when it was read
completely and passed the size and order checks (i.e. `ReadFrameHeader`
succeeded); `rest` is what remains in the reader. -/
structure ReadResult where
  res : Except RErr Frame
  hdr : Option FrameHeader
  fr : Framer
  rest : List Nat

/-- `readFrameHeader` on the first 9 bytes. -/
def decodeHeader (b0 b1 b2 t fl s0 s1 s2 s3 : Nat) : FrameHeader :=
  { length := b0 * 65536 + b1 * 256 + b2, type := t, flags := fl,
    streamID := rd32 s0 s1 s2 s3 % 2147483648 }

/-- `Framer.ReadFrame` (without `ReadMetaHeaders`). -/
def readFrame (fr : Framer) (bs : List Nat) : ReadResult :=
  match bs with
  | [] => ⟨.error .eof, none, fr, []⟩
  | b0 :: b1 :: b2 :: t :: fl :: s0 :: s1 :: s2 :: s3 :: body =>
    let fh := decodeHeader b0 b1 b2 t fl s0 s1 s2 s3
    if fh.length > fr.maxReadSize then ⟨.error .frameTooLarge, none, fr, body⟩
    else match checkFrameOrder fr.lastHeaderStream fh with
      | .error e => ⟨.error e, none, fr, body⟩
      | .ok last' =>
        let fr' := { fr with lastHeaderStream := last' }
        if body.length < fh.length then
          ⟨.error (if body.isEmpty then .eof else .unexpectedEOF), some fh, fr', []⟩
        else ⟨parseFrame fh (body.take fh.length), some fh, fr', body.drop fh.length⟩
  | _ => ⟨.error .unexpectedEOF, none, fr, []⟩

/-! ## `ReadMetaHeaders`: `readMetaFrame` over abstract HPACK decoder output

HPACK decoding itself is not modelled here (C01–C05 do that). One call
`hdec.Write(frag)` is abstracted by a `FragDec`:
* `fields`     — the fields the decoder hands to the emit callback, in order, as long as the
                 callback has not disabled emission (`SetEmitEnabled(false)`); once emission
                 is disabled the decoder calls the callback no more;
* `errEnabled` — `Write` fails after those fields if emission is then still enabled
                 (errors of `decodeString` of a non-indexed literal are skipped by the
                 decoder when emission is disabled);
* `errAlways`  — `Write` fails in this fragment whether or not emission is enabled.
and `hdec.Close()` by `closeErr`. The theorems quantify over all such outcomes.
-/

structure Field where
  name : List Nat
  value : List Nat
deriving DecidableEq, Repr, Inhabited

structure FragDec where
  fields : List Field := []
  errEnabled : Bool := false
  errAlways : Bool := false
deriving Repr, Inhabited

structure HpackOracle where
  decs : List FragDec := []
  closeErr : Bool := false
deriving Repr, Inhabited

/-- `httpguts.isTokenTable[b]`. -/
def isTokenByte (b : Nat) : Bool :=
  (48 ≤ b && b ≤ 57) || (65 ≤ b && b ≤ 90) || (97 ≤ b && b ≤ 122) ||
  b == 33 || b == 35 || b == 36 || b == 37 || b == 38 || b == 39 || b == 42 || b == 43 ||
  b == 45 || b == 46 || b == 94 || b == 95 || b == 96 || b == 124 || b == 126

/-- `validWireHeaderFieldName` on the bytes of the string (a byte ≥ 0x80 decodes to a rune
≥ 0x80 or to RuneError, which `IsTokenRune` rejects). -/
def validWireHeaderFieldName (v : List Nat) : Bool :=
  !v.isEmpty && v.all (fun b => b < 128 && isTokenByte b && !(65 ≤ b && b ≤ 90))

/-- `httpguts.ValidHeaderFieldValue`: no CTL except LWS (HTAB; SP is not a CTL). -/
def validHeaderFieldValue (v : List Nat) : Bool :=
  v.all (fun b => !((b < 32 || b == 127) && !(b == 32 || b == 9)))

/-- `strings.HasPrefix(name, ":")` = `HeaderField.IsPseudo`. -/
def Field.isPseudo (f : Field) : Bool :=
  match f.name with
  | 58 :: _ => true
  | _ => false

/-- `HeaderField.Size()` (a uint32). -/
def Field.size (f : Field) : Nat := (f.name.length + f.value.length + 32) % 4294967296

/-- `Framer.maxHeaderListSize()`. -/
def maxHeaderListSize (configured : Nat) : Nat := if configured = 0 then 16777216 else configured

/-- the variables captured by the emit callback of `readMetaFrame`. -/
structure MetaState where
  remainSize : Nat
  sawRegular : Bool := false
  invalid : Bool := false
  enabled : Bool := true      -- hdec.emitEnabled
  truncated : Bool := false   -- mh.Truncated
  fields : List Field := []   -- mh.Fields
deriving Repr

/-- does the emit callback set `invalid` for this field (or was it set before)? -/
def metaInvalid (st : MetaState) (f : Field) : Bool :=
  st.invalid || !validHeaderFieldValue f.value ||
    (if f.isPseudo then st.sawRegular else !validWireHeaderFieldName f.name)

/-- the emit callback (called by the decoder only while emission is enabled). -/
def metaEmit (st : MetaState) (f : Field) : MetaState :=
  if !st.enabled then st
  else if metaInvalid st f then
    { st with sawRegular := st.sawRegular || !f.isPseudo, invalid := true, enabled := false }
  else if f.size > st.remainSize then
    { st with sawRegular := st.sawRegular || !f.isPseudo, enabled := false, truncated := true, remainSize := 0 }
  else
    { st with sawRegular := st.sawRegular || !f.isPseudo, remainSize := st.remainSize - f.size,
              fields := st.fields ++ [f] }

/-- `hdec.Write(frag)`: the new callback state and whether `Write` returned an error. -/
def metaWrite (st : MetaState) (d : FragDec) : MetaState × Bool :=
  let st' := d.fields.foldl metaEmit st
  (st', d.errAlways || (d.errEnabled && st'.enabled))

def pseudoRequest : List (List Nat) :=
  [[58, 109, 101, 116, 104, 111, 100],                    -- :method
   [58, 112, 97, 116, 104],                               -- :path
   [58, 115, 99, 104, 101, 109, 101],                     -- :scheme
   [58, 97, 117, 116, 104, 111, 114, 105, 116, 121],      -- :authority
   [58, 112, 114, 111, 116, 111, 99, 111, 108]]           -- :protocol
def pseudoResponse : List (List Nat) := [[58, 115, 116, 97, 116, 117, 115]]  -- :status

/-- `mh.PseudoFields()`. -/
def pseudoFields (fs : List Field) : List Field := fs.takeWhile Field.isPseudo

/-- the loop of `checkPseudos` over `pf`, `seen` being `pf[:i]`: error or (isRequest, isResponse). -/
def checkPseudosLoop : List Field → List Field → Bool → Bool → Option (Bool × Bool)
  | [], _, rq, rs => some (rq, rs)
  | hf :: rest, seen, rq, rs =>
    if pseudoRequest.contains hf.name then
      if seen.any (fun h2 => h2.name == hf.name) then none
      else checkPseudosLoop rest (seen ++ [hf]) true rs
    else if pseudoResponse.contains hf.name then
      if seen.any (fun h2 => h2.name == hf.name) then none
      else checkPseudosLoop rest (seen ++ [hf]) rq true
    else none

/-- `MetaHeadersFrame.checkPseudos() == nil`. -/
def checkPseudos (fs : List Field) : Bool :=
  match checkPseudosLoop (pseudoFields fs) [] false false with
  | none => false
  | some (rq, rs) => !(rq && rs)

/-- The `for` loop of `readMetaFrame`, entered with the current fragment `frag` and whether its
frame had END_HEADERS. `fuel` bounds the number of CONTINUATION frames (each consumes ≥ 9 bytes of
`bs`, so `bs.length + 1` suffices: `readMeta`). Returns the callback state at `break`, or the error. -/
def metaLoop : Nat → Framer → MetaState → List Nat → Bool → List FragDec → List Nat →
    Except RErr MetaState × Framer × List Nat
  | 0, fr, _, _, _, _, bs => (.error .eof, fr, bs)
  | fuel + 1, fr, st, frag, ended, decs, bs =>
    -- `int64(len(frag)) > 2*int64(remainSize)`: computed in int64, no uint32 wrap (repaired upstream)
    if frag.length > 2 * st.remainSize then (.error (.conn errCodeProtocol), fr, bs)
    else if st.invalid then (.error (.conn errCodeProtocol), fr, bs)
    else
      let (st', werr) := metaWrite st (decs.headD {})
      if werr then (.error (.conn errCodeCompression), fr, bs)
      else if ended then (.ok st', fr, bs)
      else
        let r := readFrame fr bs
        match r.res with
        | .error e => (.error e, r.fr, r.rest)
        | .ok (.continuation h frag') =>
          metaLoop fuel r.fr st' frag' (hasFlag h.flags flagEndHeaders) decs.tail r.rest
        | .ok _ => (.error .eof, r.fr, r.rest)   -- unreachable: checkFrameOrder admits only CONTINUATION

/-- what `ReadFrame` returns when `ReadMetaHeaders` is set. -/
inductive MFrame where
  | plain (f : Frame)
  | metaHeaders (h : FrameHeader) (prio : PriorityParam) (fields : List Field) (truncated : Bool)
deriving Repr

structure MetaReadResult where
  res : Except RErr MFrame
  fr : Framer
  rest : List Nat

/-- `Framer.ReadFrame` with `ReadMetaHeaders` set and `MaxHeaderListSize = mhls`. -/
def readMeta (fr : Framer) (mhls : Nat) (orc : HpackOracle) (bs : List Nat) : MetaReadResult :=
  let r := readFrame fr bs
  match r.res with
  | .error e => ⟨.error e, r.fr, r.rest⟩
  | .ok (.headers h prio frag) =>
    match metaLoop (r.rest.length + 1) r.fr { remainSize := maxHeaderListSize mhls } frag
            (hasFlag h.flags flagEndHeaders) orc.decs r.rest with
    | (.error e, fr', rest') => ⟨.error e, fr', rest'⟩
    | (.ok st, fr', rest') =>
      if orc.closeErr then ⟨.error (.conn errCodeCompression), fr', rest'⟩
      else if st.invalid then ⟨.error (.stream h.streamID errCodeProtocol), fr', rest'⟩
      else if !checkPseudos st.fields then ⟨.error (.stream h.streamID errCodeProtocol), fr', rest'⟩
      else ⟨.ok (.metaHeaders h prio st.fields st.truncated), fr', rest'⟩
  | .ok f => ⟨.ok (.plain f), r.fr, r.rest⟩

end NetVerif.Model.H2Frame
