/-!
Wire-level monitor for C25 (V-tie): events recorded by the harness that plays the peer of a real
`Conn` (harness/C25/conn_test.go). One event = one script step with everything observed on the
wire until the Conn went idle again.
-/
namespace NetVerif.Model.AckWire

/-- PROTOCOL_VIOLATION. -/
def errProtocolViolation : Nat := 10

structure Ev where
  arrival : Option Int := none                 -- packet number of the packet the peer sent (in the scripted space)
  challenge : Bool := false                    -- it carried a PATH_CHALLENGE
  peerAck : List (Int × Int) := []             -- ranges of the ACK frame it carried (none: [])
  sent : List Int := []                        -- numbers of the packets the Conn sent in the scripted space
  acks : List (List (Int × Int)) := []         -- ACK frames the Conn sent in the scripted space
  resp : List Int := []                        -- packet numbers whose PATH_CHALLENGE was answered
  close : Option Nat := none                   -- transport error code of a CONNECTION_CLOSE
  deriving Repr

/-- What the peer knows after a prefix of the trace. -/
structure WState where
  arrived : List Int      -- every packet number that arrived (handshake ones included)
  sent : List Int         -- every packet number the Conn was seen sending
  sentLow : Int           -- numbers below were used by the Conn before the script started
  procd : List Int        -- packet numbers already answered
  deriving Repr

/-- `∀ n, lo ≤ n < hi → p n`, computably. -/
def allIn (lo hi : Int) (p : Int → Bool) : Bool :=
  (List.range (hi - lo).toNat).all fun i => p (lo + (i : Int))

def anyIn (lo hi : Int) (p : Int → Bool) : Bool :=
  (List.range (hi - lo).toNat).any fun i => p (lo + (i : Int))

def arrivedAfter (st : WState) (e : Ev) : List Int :=
  match e.arrival with
  | some p => p :: st.arrived
  | none => st.arrived

/-- The arriving packet number is larger than every earlier one, so the Conn must process it. -/
def isFresh (st : WState) (e : Ev) : Bool :=
  match e.arrival with
  | some p => st.arrived.all fun a => decide (a < p)
  | none => false

/-- The peer ACK covers a packet number the Conn never put on the wire. -/
def coversUnsent (st : WState) (rs : List (Int × Int)) : Bool :=
  rs.any fun r => anyIn r.1 r.2 fun n => decide (st.sentLow ≤ n) && !(st.sent.contains n)

def nodupB : List Int → Bool
  | [] => true
  | x :: xs => !(xs.contains x) && nodupB xs

def check (st : WState) (e : Ev) : Bool :=
  -- clause 1: every ACK frame on the wire acknowledges only numbers that arrived
  (e.acks.all fun f => f.all fun r => allIn r.1 r.2 fun n => (arrivedAfter st e).contains n) &&
  -- clause 2: no packet number is processed twice
  (e.resp.all fun pn => !(st.procd.contains pn)) && nodupB e.resp &&
  -- clause 3: a (processed) peer ACK closes the connection with PROTOCOL_VIOLATION iff it covers a never-sent number
  (if !e.peerAck.isEmpty && isFresh st e
   then coversUnsent st e.peerAck == (e.close == some errProtocolViolation) else true) &&
  -- delivery: a packet numbered above everything before it is decoded to its number and processed (answered)
  (if e.challenge && isFresh st e then (match e.arrival with | some p => e.resp.contains p | none => true) else true)

def next (st : WState) (e : Ev) : WState :=
  { st with arrived := arrivedAfter st e, sent := st.sent ++ e.sent, procd := st.procd ++ e.resp }

def run (st : WState) : List Ev → Bool
  | [] => true
  | e :: es => check st e && run (next st e) es

def after (st : WState) (tr : List Ev) : WState := tr.foldl next st

end NetVerif.Model.AckWire
