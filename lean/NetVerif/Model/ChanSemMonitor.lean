/-!
# Trace monitors for the C29 / C58 stress harnesses (V-tie)

The Go harnesses run the REAL gate / queue / LimitListener under many goroutines and log
linearisation events stamped with a global atomic sequence number; the merged, seq-sorted
trace is fed to these monitors.  A monitor only checks the property (the implementation
column of the tie is always `ok`).  Core Lean only.
-/
namespace NetVerif.Model.ChanSemMonitor

/-! ## Gate: `acq` is logged inside the critical section right after acquiring, `rel` inside
the critical section right before `unlock(set)` — so in a correct gate they alternate. -/

inductive GEv where
  /-- goroutine `gid` acquired; `how` = 0 lock, 1 lockIfSet, 2 waitAndLock; `set` = the bool
  `lock` returned (always true for the other two) -/
  | acq (gid : Nat) (how : Nat) (set : Bool)
  /-- goroutine `gid` is about to call `unlock(set)` -/
  | rel (gid : Nat) (set : Bool)
  /-- `lockIfSet` returned false / `waitAndLock` returned the context error -/
  | miss (gid : Nat)
  | fin
deriving DecidableEq, Repr

structure GMon where
  holder : Option Nat
  cond : Bool
deriving DecidableEq, Repr

def GMon.step (m : GMon) : GEv → Except String GMon
  | .acq gid how set =>
    match m.holder with
    | some h => .error s!"two-holders {h} {gid}"
    | none =>
      if how = 0 then
        if set = m.cond then .ok { m with holder := some gid } else .error "lock-reported-wrong-condition"
      else if how = 1 ∨ how = 2 then
        if m.cond ∧ set then .ok { m with holder := some gid } else .error "acquired-while-condition-unset"
      else .error "bad-how"
  | .rel gid set =>
    if m.holder = some gid then .ok { holder := none, cond := set } else .error "release-by-non-holder"
  | .miss gid => if m.holder = some gid then .error "miss-by-holder" else .ok m
  | .fin => if m.holder = none then .ok m else .error "held-at-end"

def GMon.run (m : GMon) : List GEv → Except String GMon
  | [] => .ok m
  | e :: es => match m.step e with
    | .ok m' => m'.run es
    | .error s => .error s

/-- The goroutines inside the critical section according to the trace alone. -/
def inside : List Nat → List GEv → List Nat
  | cur, [] => cur
  | cur, .acq gid _ _ :: es => inside (gid :: cur) es
  | cur, .rel gid _ :: es => inside (cur.erase gid) es
  | cur, _ :: es => inside cur es

/-! ## Queue: invocation / response events of put, get, close. -/

inductive QEv where
  | pinv (p k : Nat)
  | pret (p k : Nat) (ok : Bool)
  | ginv (c : Nat)
  | gitem (c p k : Nat)
  | gclosed (c : Nat)
  | gctx (c : Nat)
  | cinv
  | cret
  | fin (drained : Bool)
deriving DecidableEq, Repr

structure QMon where
  idx : Nat := 0
  pinv : List ((Nat × Nat) × Nat) := []       -- item ↦ index of its put invocation
  pret : List ((Nat × Nat) × Bool) := []      -- item ↦ result of put
  ginv : List (Nat × Nat) := []               -- consumer ↦ index of its pending get invocation
  deliv : List ((Nat × Nat) × Nat) := []      -- delivered item ↦ index of the get response
  cinv : Option Nat := none
  cret : Option Nat := none
deriving Repr

def lookup {α β : Type} [DecidableEq α] (a : α) : List (α × β) → Option β
  | [] => none
  | (x, y) :: r => if x = a then some y else lookup a r

/-- FIFO in real time: no later item of the same producer was delivered by a get that had
already returned before this get was invoked. -/
def fifoOK (deliv : List ((Nat × Nat) × Nat)) (p k gi : Nat) : Bool :=
  deliv.all (fun d => !(d.1.1 = p ∧ d.1.2 > k ∧ d.2 < gi))

def QMon.step (m : QMon) (e : QEv) : Except String QMon :=
  let m1 := { m with idx := m.idx + 1 }
  match e with
  | .pinv p k =>
    if (lookup (p, k) m.pinv).isSome then .error "put-invoked-twice"
    else .ok { m1 with pinv := ((p, k), m.idx) :: m.pinv }
  | .pret p k ok =>
    match lookup (p, k) m.pinv with
    | none => .error "put-response-without-invocation"
    | some pi =>
      if ok then
        match m.cret with
        | some r => if r < pi then .error "put-accepted-after-close-returned"
                    else .ok { m1 with pret := ((p, k), ok) :: m.pret }
        | none => .ok { m1 with pret := ((p, k), ok) :: m.pret }
      else if m.cinv.isNone then .error "put-rejected-but-never-closed"
      else if (lookup (p, k) m.deliv).isSome then .error "rejected-item-delivered"
      else .ok { m1 with pret := ((p, k), ok) :: m.pret }
  | .ginv c => .ok { m1 with ginv := (c, m.idx) :: m.ginv.filter (fun x => x.1 ≠ c) }
  | .gitem c p k =>
    match lookup c m.ginv with
    | none => .error "get-response-without-invocation"
    | some gi =>
      if (lookup (p, k) m.pinv).isNone then .error "phantom-item"
      else if (lookup (p, k) m.deliv).isSome then .error "item-delivered-twice"
      else if lookup (p, k) m.pret = some false then .error "rejected-item-delivered"
      else if !fifoOK m.deliv p k gi then .error "fifo-order"
      else if (match m.cret with | some r => decide (r < gi) | none => false) then .error "item-after-close-returned"
      else .ok { m1 with deliv := ((p, k), m.idx) :: m.deliv, ginv := m.ginv.filter (fun x => x.1 ≠ c) }
  | .gclosed c =>
    if (lookup c m.ginv).isNone then .error "get-response-without-invocation"
    else if m.cinv.isNone then .error "closed-error-but-never-closed"
    else .ok { m1 with ginv := m.ginv.filter (fun x => x.1 ≠ c) }
  | .gctx c =>
    if (lookup c m.ginv).isNone then .error "get-response-without-invocation"
    else .ok { m1 with ginv := m.ginv.filter (fun x => x.1 ≠ c) }
  | .cinv => .ok { m1 with cinv := some (m.cinv.getD m.idx) }
  | .cret => if m.cinv.isNone then .error "close-response-without-invocation"
             else .ok { m1 with cret := some (m.cret.getD m.idx) }
  | .fin drained =>
    if drained ∧ !(m.pret.all (fun x => !x.2 || (lookup x.1 m.deliv).isSome)) then .error "item-lost"
    else .ok m1

def QMon.run (m : QMon) : List QEv → Except String QMon
  | [] => .ok m
  | e :: es => match m.step e with
    | .ok m' => m'.run es
    | .error s => .error s

/-- Items delivered according to the trace alone, in trace order. -/
def deliveredOf : List QEv → List (Nat × Nat)
  | [] => []
  | .gitem _ p k :: es => (p, k) :: deliveredOf es
  | _ :: es => deliveredOf es

def putInvokedOf : List QEv → List (Nat × Nat)
  | [] => []
  | .pinv p k :: es => (p, k) :: putInvokedOf es
  | _ :: es => putInvokedOf es

/-! ## LimitListener: `iacc` is logged by the inner listener when it hands out a connection
(the semaphore slot is already held), `iclose` when the inner connection is closed (the slot is
released only afterwards) — so #iacc − #distinct iclose is the number of accepted, unclosed
connections at that point of the trace. -/

inductive LEv where
  | iacc (id : Nat)
  | iclose (id : Nat)
  /-- acceptor `a` is about to call Accept / got a connection / got an error -/
  | ainv (a : Nat)
  | acc (a : Nat)
  | aerr (a : Nat)
  /-- `Close()` has returned -/
  | lret
  | other
deriving DecidableEq, Repr

structure LMon where
  limit : Nat
  opened : List Nat := []     -- ids accepted and not yet closed
  closed : List Nat := []     -- ids closed at least once
  closeReturned : Bool := false
  late : List Nat := []       -- acceptors whose pending Accept was invoked after Close returned
deriving Repr

def LMon.step (m : LMon) : LEv → Except String LMon
  | .iacc id =>
    if id ∈ m.opened ∨ id ∈ m.closed then .error "connection-id-reused"
    else if m.opened.length + 1 > m.limit then .error s!"limit-exceeded {m.opened.length + 1} {m.limit}"
    else .ok { m with opened := id :: m.opened }
  | .iclose id =>
    if id ∈ m.opened then .ok { m with opened := m.opened.erase id, closed := id :: m.closed }
    else if id ∈ m.closed then .ok m
    else .error "close-of-unknown-connection"
  | .ainv a => .ok { m with late := if m.closeReturned then a :: m.late else m.late.erase a }
  | .acc a => if a ∈ m.late then .error "accept-after-close-returned-a-connection" else .ok m
  | .aerr a => .ok { m with late := m.late.erase a }
  | .lret => .ok { m with closeReturned := true }
  | .other => .ok m

def LMon.run (m : LMon) : List LEv → Except String LMon
  | [] => .ok m
  | e :: es => match m.step e with
    | .ok m' => m'.run es
    | .error s => .error s

/-- Accepted-and-unclosed connections according to the trace alone. -/
def openOf : List Nat → List LEv → List Nat
  | cur, [] => cur
  | cur, .iacc id :: es => openOf (id :: cur) es
  | cur, .iclose id :: es => openOf (cur.erase id) es
  | cur, _ :: es => openOf cur es

end NetVerif.Model.ChanSemMonitor
