/-!
# Trace monitors for the C29 / C58 stress harnesses (V-tie)

The Go harnesses run the REAL gate / queue / LimitListener under many goroutines and log
linearisation events stamped with a global atomic sequence number; the merged, seq-sorted
trace is fed to these monitors.  A monitor only checks the property (the implementation
column of the tie is always `ok`).  Core Lean only.
-/
namespace NetVerif.Model.ChanSemMonitor

/-! ## Gate: `acq` is logged inside the critical section right after acquiring, `rel` inside
the critical section right before `unlock(set)` — so in a correct gate they alternate. -/

inductive GEv where
  /-- goroutine `gid` acquired; `how` = 0 lock, 1 lockIfSet, 2 waitAndLock; `set` = the bool
  `lock` returned (always true for the other two) -/
  | acq (gid : Nat) (how : Nat) (set : Bool)
  /-- goroutine `gid` is about to call `unlock(set)` -/
  | rel (gid : Nat) (set : Bool)
  /-- `lockIfSet` returned false / `waitAndLock` returned the context error -/
  | miss (gid : Nat)
  | fin
deriving DecidableEq, Repr

structure GMon where
  holder : Option Nat
  cond : Bool
deriving DecidableEq, Repr

def GMon.step (m : GMon) : GEv → Except String GMon
  | .acq gid how set =>
    match m.holder with
    | some h => .error s!"two-holders {h} {gid}"
    | none =>
      if how = 0 then
        if set = m.cond then .ok { m with holder := some gid } else .error "lock-reported-wrong-condition"
      else if how = 1 ∨ how = 2 then
        if m.cond ∧ set then .ok { m with holder := some gid } else .error "acquired-while-condition-unset"
      else .error "bad-how"
  | .rel gid set =>
    if m.holder = some gid then .ok { holder := none, cond := set } else .error "release-by-non-holder"
  | .miss gid => if m.holder = some gid then .error "miss-by-holder" else .ok m
  | .fin => if m.holder = none then .ok m else .error "held-at-end"

def GMon.run (m : GMon) : List GEv → Except String GMon
  | [] => .ok m
  | e :: es => match m.step e with
    | .ok m' => m'.run es
    | .error s => .error s

/-- The goroutines inside the critical section according to the trace alone. -/
def inside : List Nat → List GEv → List Nat
  | cur, [] => cur
  | cur, .acq gid _ _ :: es => inside (gid :: cur) es
  | cur, .rel gid _ :: es => inside (cur.erase gid) es
  | cur, _ :: es => inside cur es

/-! ## Queue: invocation / response events of put, get, close. -/

inductive QEv where
  | pinv (p k : Nat)
  | pret (p k : Nat) (ok : Bool)
  | ginv (c : Nat)
  | gitem (c p k : Nat)
  | gclosed (c : Nat)
  | gctx (c : Nat)
  | cinv
  | cret
  | fin (drained : Bool)
deriving DecidableEq, Repr

/-- The monitor keeps the trace so far and, for every pending operation, the trace as it was
when the operation was invoked; every check is a plain function of these. -/
structure QMon where
  hist : List QEv := []
  pinv : List ((Nat × Nat) × List QEv) := []   -- item ↦ trace before its put invocation
  ginv : List (Nat × List QEv) := []           -- consumer ↦ trace before its pending get invocation
deriving Repr

def lookup {α β : Type} [DecidableEq α] (a : α) : List (α × β) → Option β
  | [] => none
  | (x, y) :: r => if x = a then some y else lookup a r

/-- Items delivered according to the trace alone, in trace order. -/
def deliveredOf : List QEv → List (Nat × Nat)
  | [] => []
  | .gitem _ p k :: es => (p, k) :: deliveredOf es
  | _ :: es => deliveredOf es

def putInvokedOf : List QEv → List (Nat × Nat)
  | [] => []
  | .pinv p k :: es => (p, k) :: putInvokedOf es
  | _ :: es => putInvokedOf es

/-- Items whose `put` returned true / false. -/
def acceptedOf : List QEv → List (Nat × Nat)
  | [] => []
  | .pret p k true :: es => (p, k) :: acceptedOf es
  | _ :: es => acceptedOf es

def rejectedOf : List QEv → List (Nat × Nat)
  | [] => []
  | .pret p k false :: es => (p, k) :: rejectedOf es
  | _ :: es => rejectedOf es

/-- The consumer an invocation / response event of `get` belongs to. -/
def evConsumer : QEv → Option Nat
  | .ginv c => some c
  | .gitem c _ _ => some c
  | .gclosed c => some c
  | .gctx c => some c
  | _ => none

/-- `none` = the event is accepted. -/
def QMon.check (m : QMon) : QEv → Option String
  | .pinv p k => if (p, k) ∈ putInvokedOf m.hist then some "put-invoked-twice" else none
  | .pret p k ok =>
    match lookup (p, k) m.pinv with
    | none => some "put-response-without-invocation"
    | some a =>
      if ok then (if QEv.cret ∈ a then some "put-accepted-after-close-returned" else none)
      else if QEv.cinv ∉ m.hist then some "put-rejected-but-never-closed"
      else if (p, k) ∈ deliveredOf m.hist then some "rejected-item-delivered"
      else none
  | .ginv _ => none
  | .gitem c p k =>
    match lookup c m.ginv with
    | none => some "get-response-without-invocation"
    | some a =>
      if (p, k) ∉ putInvokedOf m.hist then some "phantom-item"
      else if (p, k) ∈ deliveredOf m.hist then some "item-delivered-twice"
      else if (p, k) ∈ rejectedOf m.hist then some "rejected-item-delivered"
      -- FIFO in real time: no later item of the same producer was delivered by a get that had
      -- already returned before this get was invoked
      else if (deliveredOf a).any (fun d => decide (d.1 = p ∧ k < d.2)) then some "fifo-order"
      else if QEv.cret ∈ a then some "item-after-close-returned"
      else none
  | .gclosed c =>
    if (lookup c m.ginv).isNone then some "get-response-without-invocation"
    else if QEv.cinv ∉ m.hist then some "closed-error-but-never-closed"
    else none
  | .gctx c => if (lookup c m.ginv).isNone then some "get-response-without-invocation" else none
  | .cinv => none
  | .cret => if QEv.cinv ∉ m.hist then some "close-response-without-invocation" else none
  | .fin drained =>
    if drained ∧ ¬ (∀ it ∈ acceptedOf m.hist, it ∈ deliveredOf m.hist) then some "item-lost" else none

def QMon.step (m : QMon) (e : QEv) : Except String QMon :=
  match m.check e with
  | some why => .error why
  | none =>
    .ok { hist := m.hist ++ [e],
          pinv := (match e with
            | .pinv p k => ((p, k), m.hist) :: m.pinv
            | _ => m.pinv),
          ginv := (match evConsumer e with
            | some c =>
              let f := m.ginv.filter (fun x => x.1 ≠ c)
              (match e with
               | .ginv _ => (c, m.hist) :: f
               | _ => f)
            | none => m.ginv) }

def QMon.run (m : QMon) : List QEv → Except String QMon
  | [] => .ok m
  | e :: es => match m.step e with
    | .ok m' => m'.run es
    | .error s => .error s

/-! ## LimitListener: `iacc` is logged by the inner listener when it hands out a connection
(the semaphore slot is already held), `iclose` when the inner connection is closed (the slot is
released only afterwards) — so #iacc − #distinct iclose is the number of accepted, unclosed
connections at that point of the trace. -/

inductive LEv where
  | iacc (id : Nat)
  | iclose (id : Nat)
  /-- acceptor `a` is about to call Accept / got a connection / got an error -/
  | ainv (a : Nat)
  | acc (a : Nat)
  | aerr (a : Nat)
  /-- `Close()` has returned -/
  | lret
  | other
deriving DecidableEq, Repr

structure LMon where
  limit : Nat
  opened : List Nat := []     -- ids accepted and not yet closed
  closed : List Nat := []     -- ids closed at least once
  hist : List LEv := []       -- the trace so far
  ainv : List (Nat × List LEv) := []   -- acceptor ↦ trace before its pending Accept invocation
deriving Repr

def LMon.step (m : LMon) (e : LEv) : Except String LMon :=
  let h := m.hist ++ [e]
  match e with
  | .iacc id =>
    if id ∈ m.opened ∨ id ∈ m.closed then .error "connection-id-reused"
    else if m.opened.length + 1 > m.limit then .error s!"limit-exceeded {m.opened.length + 1} {m.limit}"
    else .ok { m with opened := id :: m.opened, hist := h }
  | .iclose id =>
    if id ∈ m.opened then .ok { m with opened := m.opened.erase id, closed := id :: m.closed, hist := h }
    else if id ∈ m.closed then .ok { m with hist := h }
    else .error "close-of-unknown-connection"
  | .ainv a => .ok { m with ainv := (a, m.hist) :: m.ainv.filter (fun x => x.1 ≠ a), hist := h }
  | .acc a =>
    match lookup a m.ainv with
    | none => .error "accept-result-without-invocation"
    | some x =>
      if LEv.lret ∈ x then .error "accept-after-close-returned-a-connection"
      else .ok { m with ainv := m.ainv.filter (fun x => x.1 ≠ a), hist := h }
  | .aerr a => .ok { m with ainv := m.ainv.filter (fun x => x.1 ≠ a), hist := h }
  | .lret => .ok { m with hist := h }
  | .other => .ok { m with hist := h }

def LMon.run (m : LMon) : List LEv → Except String LMon
  | [] => .ok m
  | e :: es => match m.step e with
    | .ok m' => m'.run es
    | .error s => .error s

/-- Accepted-and-unclosed connections according to the trace alone. -/
def openOf : List Nat → List LEv → List Nat
  | cur, [] => cur
  | cur, .iacc id :: es => openOf (id :: cur) es
  | cur, .iclose id :: es => openOf (cur.erase id) es
  | cur, _ :: es => openOf cur es

end NetVerif.Model.ChanSemMonitor
