import NetVerif.Model.ChanSem
/-!
# The QUIC queue on the ChanSem semantics (C29, layer 2)

`quic/queue.go`: an unbounded FIFO protected by a gate whose condition is
"non-empty or closed".  Methods are `QStmt` lists (`Model.ChanSem.queue`, regenerated from the
Go source); gate calls run the gate's select machine (`GG.step`) step by step, so goroutines
interleave at every channel operation and between any two statements.  Core Lean only.

Each data statement is one step.  That is justified by `Proofs.C29.queue_data_access_exclusive`:
only the goroutine holding the gate ever executes a statement that reads or writes `err`/`q`.
-/
namespace NetVerif.Model.ChanSem

inductive QMeth where
  | close
  | put
  | get
deriving DecidableEq, Repr

/-- Shared fields of the queue, plus ghost histories. -/
structure QShared where
  err : Bool := false            -- `q.err != nil`
  q : List Nat := []
  accepted : List Nat := []      -- ghost: every item ever appended, in order
  delivered : List Nat := []     -- ghost: every item ever popped, in order
deriving DecidableEq, Repr

def BExp.eval (sh : QShared) : BExp → Bool
  | .lit b => b
  | .errSet => sh.err
  | .nonEmpty => !sh.q.isEmpty
  | .or a b => a.eval sh || b.eval sh
  | .not a => !a.eval sh

structure QG where
  g : GG := {}
  qcont : List QStmt := []
  qmeth : QMeth := .close
  /-- a deferred `q.unlock()` is registered -/
  deferred : Bool := false
  /-- `put`'s argument / the item `get` popped -/
  item : Nat := 0
  result : Option QRet := none
  /-- `q.q[0]` on an empty slice -/
  panicked : Bool := false
deriving DecidableEq, Repr

inductive QAct where
  | call (m : QMeth) (v : Nat)
  | gate (a : GAct)
  | stmt
deriving DecidableEq, Repr

def QueueSrc.body (S : QueueSrc) : QMeth → List QStmt
  | .close => S.close
  | .put => S.put
  | .get => S.get

/-- `return v`: run the deferred `q.unlock()` first if one is registered. -/
def retNow (S : QueueSrc) (qg : QG) (v : QRet) : QG :=
  if qg.deferred then { qg with deferred := false, qcont := S.unlock ++ [.ret v] }
  else { qg with qcont := [], result := some v }

def QG.step (S : QueueSrc) (G : GateSrc) (σ : Store GCh) (sh : QShared) (qg : QG) :
    QAct → Option (Store GCh × QShared × QG)
  | .call m v =>
    if qg.qcont.isEmpty && qg.g.cont.isEmpty && !qg.panicked then
      some (σ, sh, { qg with qcont := S.body m ++ [.ret .unit], qmeth := m, item := v,
                             deferred := false, result := none, g := { qg.g with ctx := false } })
    else none
  | .gate (.call _ _) => none
  | .gate a => (qg.g.step G σ a).map fun (σ', g') => (σ', sh, { qg with g := g' })
  | .stmt =>
    if !qg.g.cont.isEmpty || qg.panicked then none else
    match qg.qcont with
    | [] => none
    | .gate m arg :: rest =>
      (qg.g.step G σ (.call m ((arg.map (·.eval sh)).getD false))).map
        fun (σ', g') => (σ', sh, { qg with g := g', qcont := rest })
    | .deferUnlock :: rest => some (σ, sh, { qg with deferred := true, qcont := rest })
    | .retIfGateErr v :: rest =>
      if qg.g.last = some .err then some (σ, sh, retNow S qg v)
      else some (σ, sh, { qg with qcont := rest })
    | .retIf c v :: rest =>
      if c.eval sh then some (σ, sh, retNow S qg v) else some (σ, sh, { qg with qcont := rest })
    | .setErrIfNil :: rest => some (σ, { sh with err := true }, { qg with qcont := rest })
    | .append :: rest =>
      some (σ, { sh with q := sh.q ++ [qg.item], accepted := sh.accepted ++ [qg.item] },
            { qg with qcont := rest })
    | .popFront :: rest =>
      match sh.q with
      | [] => some (σ, sh, { qg with panicked := true })
      | x :: r => some (σ, { sh with q := r, delivered := sh.delivered ++ [x] },
                        { qg with item := x, qcont := rest })
    | .ret v :: _ => some (σ, sh, retNow S qg v)

structure QConfig where
  σ : Store GCh
  sh : QShared
  gs : List QG

def QConfig.step (S : QueueSrc) (G : GateSrc) (c : QConfig) (i : Nat) (a : QAct) : Option QConfig :=
  match c.gs[i]? with
  | none => none
  | some qg =>
    match qg.step S G c.σ c.sh a with
    | none => none
    | some (σ', sh', qg') => some { σ := σ', sh := sh', gs := c.gs.set i qg' }

/-- `newQueue()`: empty, open, the gate unlocked with the condition unset; `n` goroutines. -/
def QConfig.init (G : GateSrc) (n : Nat) : QConfig :=
  { σ := gateStore G 0 1, sh := {}, gs := List.replicate n {} }

inductive QReachable (S : QueueSrc) (G : GateSrc) : QConfig → Prop where
  | init (n : Nat) : QReachable S G (QConfig.init G n)
  | step {c c' : QConfig} {i : Nat} {a : QAct} :
      QReachable S G c → c.step S G i a = some c' → QReachable S G c'

/-- The gate condition the queue maintains: closed or non-empty. -/
def condVal (sh : QShared) : Bool := sh.err || !sh.q.isEmpty

def condExp : BExp := .or .errSet .nonEmpty

/-- Static flow check of a continuation: `safe owns deferred gateFailed cont` holds when, started
by a goroutine that owns the gate iff `owns`, with a deferred unlock iff `deferred`, the
continuation respects the gate protocol, touches `err`/`q` only while owning, unlocks with the
recomputed condition and returns without owning. -/
def safe : Bool → Bool → Bool → List QStmt → Bool
  | _, _, _, [] => false
  | o, d, f, s :: k =>
    match s with
    | .gate .lock none => !o && safe true d false k
    | .gate .waitAndLock none => !o && !d && safe true d false k && safe false d true k
    | .gate .unlock (some e) => o && decide (e = condExp) && safe false d false k
    | .gate _ _ => false
    | .deferUnlock => o && !d && safe o true f k
    | .retIfGateErr _ => if f then (!o && !d) else safe o d false k
    | .retIf _ _ => o && d && safe o d f k
    | .setErrIfNil => o && safe o d f k
    | .append => o && safe o d f k
    | .popFront => o && safe o d f k
    | .ret _ => if d then o else !o

end NetVerif.Model.ChanSem
