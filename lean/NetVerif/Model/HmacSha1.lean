/-
Concrete MAC for the C57 driver: base64.RawURLEncoding(HMAC-SHA1(key, msg)) over
byte lists, 32-bit words as `Nat` reduced mod 2^32. Used only to make the XSRF
model executable (differential tie); the C57 theorems quantify over every `mac`.
-/
namespace NetVerif.Model.HmacSha1

def m32 : Nat := 4294967296

def rotl (x n : Nat) : Nat := ((x <<< n) ||| (x >>> (32 - n))) % m32

def be32 (a b c d : Nat) : Nat := a * 16777216 + b * 65536 + c * 256 + d

def wordBytes (w : Nat) : List Nat := [w / 16777216 % 256, w / 65536 % 256, w / 256 % 256, w % 256]

/-- SHA-1 padding: 0x80, zeros to 56 mod 64, 64-bit big-endian bit length. -/
def pad (msg : List Nat) : List Nat :=
  let n := msg.length
  let k := (119 - n % 64) % 64
  let bits := 8 * n
  msg ++ 128 :: (List.replicate k 0 ++
    [bits / 72057594037927936 % 256, bits / 281474976710656 % 256, bits / 1099511627776 % 256,
     bits / 4294967296 % 256, bits / 16777216 % 256, bits / 65536 % 256, bits / 256 % 256, bits % 256])

def wordsOf : List Nat → List Nat
  | a :: b :: c :: d :: rest => be32 a b c d :: wordsOf rest
  | _ => []

/-- message schedule: 80 words from the 16 block words. -/
def schedule (w16 : List Nat) : Array Nat :=
  (List.range 64).foldl (fun (w : Array Nat) i =>
    let t := i + 16
    w.push (rotl (w[t - 3]! ^^^ w[t - 8]! ^^^ w[t - 14]! ^^^ w[t - 16]!) 1)) w16.toArray

structure St where
  a : Nat
  b : Nat
  c : Nat
  d : Nat
  e : Nat

def notw (x : Nat) : Nat := 4294967295 - x

def round (s : St) (t : Nat) (wt : Nat) : St :=
  let (f, k) :=
    if t < 20 then ((s.b &&& s.c) ||| (notw s.b &&& s.d), 0x5A827999)
    else if t < 40 then (s.b ^^^ s.c ^^^ s.d, 0x6ED9EBA1)
    else if t < 60 then ((s.b &&& s.c) ||| (s.b &&& s.d) ||| (s.c &&& s.d), 0x8F1BBCDC)
    else (s.b ^^^ s.c ^^^ s.d, 0xCA62C1D6)
  let tmp := (rotl s.a 5 + f + s.e + k + wt) % m32
  { a := tmp, b := s.a, c := rotl s.b 30, d := s.c, e := s.d }

def compress (h : St) (block : List Nat) : St :=
  let w := schedule (wordsOf block)
  let s := (List.range 80).foldl (fun s t => round s t w[t]!) h
  { a := (h.a + s.a) % m32, b := (h.b + s.b) % m32, c := (h.c + s.c) % m32,
    d := (h.d + s.d) % m32, e := (h.e + s.e) % m32 }

def blocks : Nat → List Nat → St → St
  | 0, _, h => h
  | f + 1, bs, h => if bs.length < 64 then h else blocks f (bs.drop 64) (compress h (bs.take 64))

def sha1 (msg : List Nat) : List Nat :=
  let p := pad msg
  let h := blocks (p.length / 64 + 1) p
    { a := 0x67452301, b := 0xEFCDAB89, c := 0x98BADCFE, d := 0x10325476, e := 0xC3D2E1F0 }
  wordBytes h.a ++ wordBytes h.b ++ wordBytes h.c ++ wordBytes h.d ++ wordBytes h.e

/-- HMAC key block: keys longer than the block are hashed, then zero-padded to 64 bytes. -/
def keyBlock (key : List Nat) : List Nat :=
  let k0 := if key.length > 64 then sha1 key else key
  k0 ++ List.replicate (64 - k0.length) 0

def hmacSha1 (key msg : List Nat) : List Nat :=
  let k := keyBlock key
  let inner := sha1 (k.map (· ^^^ 0x36) ++ msg)
  sha1 (k.map (· ^^^ 0x5c) ++ inner)

def b64char (v : Nat) : Nat :=
  if v < 26 then 65 + v else if v < 52 then 97 + (v - 26) else if v < 62 then 48 + (v - 52)
  else if v = 62 then 45 else 95

/-- `base64.RawURLEncoding.EncodeToString`. -/
def b64url : List Nat → List Nat
  | a :: b :: c :: rest =>
    b64char (a / 4) :: b64char (a % 4 * 16 + b / 16) :: b64char (b % 16 * 4 + c / 64) :: b64char (c % 64) :: b64url rest
  | [a, b] => [b64char (a / 4), b64char (a % 4 * 16 + b / 16), b64char (b % 16 * 4)]
  | [a] => [b64char (a / 4), b64char (a % 4 * 16)]
  | [] => []

/-- The MAC text used by xsrftoken. -/
def mac (key msg : List Nat) : List Nat := b64url (hmacSha1 key msg)

end NetVerif.Model.HmacSha1
