/-
Model of WebDAV dead properties: webdav/file.go (memFSNode.Patch / DeadProps)
and the decision logic of webdav/prop.go (`patch`, `props`, `makePropstats`).
Names are (namespace, local) pairs of opaque strings; values are opaque strings
(the inner XML of the property, canonicalised by the harness). XML
(de)serialisation is not modelled.
-/
namespace NetVerif.Model.DavProps

abbrev PName := String × String
/-- dead-property map as an association list (at most one entry per name) -/
abbrev Dead := List (PName × String)

def lookup (n : PName) : Dead → Option String
  | [] => none
  | (m, v) :: r => if m = n then some v else lookup n r

def erase (n : PName) : Dead → Dead
  | [] => []
  | (m, v) :: r => if m = n then erase n r else (m, v) :: erase n r

/-- `n.deadProps[p.XMLName] = p` -/
def put (n : PName) (v : String) (d : Dead) : Dead := erase n d ++ [(n, v)]

/-- one property of one `Proppatch`: (remove?, name, value) -/
abbrev POp := Bool × PName × String

/-- the body of the double loop in `memFSNode.Patch` -/
def applyOp (d : Dead) (op : POp) : Dead :=
  if op.1 then erase op.2.1 d else put op.2.1 op.2.2 d

structure Patch where
  remove : Bool
  props : List (PName × String)

/-- all (remove, name, value) triples in request order -/
def flatten (ps : List Patch) : List POp :=
  ps.flatMap (fun p => p.props.map (fun q => (p.remove, q.1, q.2)))

/-- `memFSNode.Patch`: applies every property of every patch in order -/
def patchNode (d : Dead) (ps : List Patch) : Dead := (flatten ps).foldl applyOp d

/-- live-property table rows: (space, local, has a find function, applies to directories) -/
abbrev LiveRow := String × String × Bool × Bool

def isLive (live : List LiveRow) (n : PName) : Bool :=
  live.any (fun r => r.1 = n.1 ∧ r.2.1 = n.2)

/-- `prop.findFn != nil && (prop.dir || !isDir)` for the row of `n` (false when `n` is not live) -/
def liveFindable (live : List LiveRow) (isDir : Bool) (n : PName) : Bool :=
  live.any (fun r => r.1 = n.1 ∧ r.2.1 = n.2 ∧ r.2.2.1 = true ∧ (r.2.2.2 = true ∨ isDir = false))

/-- `makePropstats` over (status, items) pairs -/
def makePropstats {α : Type} (x y : Nat × List α) : List (Nat × List α) :=
  let a := if x.2.isEmpty then [] else [x]
  let b := if y.2.isEmpty then [] else [y]
  if (a ++ b).isEmpty then [(200, [])] else a ++ b

/-- `patch` of prop.go composed with `memFSNode.Patch`: the propstats (status, names) and the new map -/
def patch (live : List LiveRow) (d : Dead) (ps : List Patch) : List (Nat × List PName) × Dead :=
  let names := (flatten ps).map (fun o => o.2.1)
  if names.any (isLive live) then
    (makePropstats (403, names.filter (isLive live)) (424, names.filter (fun n => !isLive live n)), d)
  else
    ([(200, names)], patchNode d ps)

/-- `props` of prop.go: for each requested name, OK with the dead value, OK with a live value
(`none`), or Not Found -/
def props (live : List LiveRow) (d : Dead) (isDir : Bool) (pnames : List PName) :
    List (Nat × List (PName × Option String)) :=
  let oks := pnames.filterMap (fun n =>
    match lookup n d with
    | some v => some (n, some v)
    | none => if liveFindable live isDir n then some (n, none) else none)
  let nfs := pnames.filterMap (fun n =>
    match lookup n d with
    | some _ => none
    | none => if liveFindable live isDir n then none else some (n, (none : Option String)))
  makePropstats (200, oks) (404, nfs)

end NetVerif.Model.DavProps
