/-!
# ChanSem — a small-step semantics of Go channels, `select` and goroutines

Used by C29 (quic `gate` / `queue`, `internal/gate`) and C58 (`netutil.LimitListener`).
Core Lean only.

Layer 0  channels (`Chan`: capacity, number of buffered values, closed flag), `select`
         statements with and without `default` (`Sel`), context cancellation as an
         arm that is enabled once the goroutine's context is cancelled.
Layer 1  the *gate*: its methods are terms of the select DSL (`GateSrc`, regenerated from
         the Go source into `Gen/C29.lean` and proved equal to `Model.gate`).  A configuration
         is a channel store plus a list (any length) of goroutines, each one a most general
         client that respects the usage protocol (calls `unlock` iff its last call acquired).
Layer 2  the *queue*: methods are terms of a flat statement DSL (`QStmt`) that call gate
         methods; shared data `err`, `q`; ghost histories `accepted`, `delivered`.
Layer 3  `LimitListener` (see `Model/LimitListener.lean`).

What is assumed (not modelled): the Go runtime implements buffered channels, `select`
and the memory model as specified (a `select` atomically performs one ready
communication; `default` is taken only when no communication is ready).
-/
namespace NetVerif.Model.ChanSem

/-! ## Layer 0: channels and select -/

structure Chan where
  cap : Nat
  len : Nat
  closed : Bool
deriving DecidableEq, Repr

inductive Arm (κ : Type) where
  | recv (c : κ)
  | send (c : κ)
  | ctxDone
deriving DecidableEq, Repr

/-- What follows a fired arm: `return v`, or fall through to the next statement. -/
inductive Out (ρ : Type) where
  | ret (v : ρ)
  | fall
deriving DecidableEq, Repr

/-- One `select` statement (a bare channel operation is a one-arm select without
default).  `guard = some b`: the statement sits in the `b` branch of `if <bool param>`. -/
structure Sel (κ ρ : Type) where
  guard : Option Bool
  arms : List (Arm κ × Out ρ)
  dflt : Option (Out ρ)
deriving DecidableEq, Repr

abbrev Method (κ ρ : Type) := List (Sel κ ρ)

abbrev Store (κ : Type) := κ → Chan

def upd {κ : Type} [DecidableEq κ] (σ : Store κ) (c : κ) (v : Chan) : Store κ :=
  fun c' => if c' = c then v else σ c'

/-- A receive is ready when a value is buffered or the channel is closed; a send when
the buffer has room (no modelled program sends on a channel that is ever closed, and
capacity-0 channels are only ever closed, so rendezvous is not needed); the context arm
once the goroutine's context has been cancelled. -/
def Arm.enabled {κ : Type} (σ : Store κ) (ctx : Bool) : Arm κ → Bool
  | .recv c => decide (0 < (σ c).len) || (σ c).closed
  | .send c => decide ((σ c).len < (σ c).cap)
  | .ctxDone => ctx

def Arm.fire {κ : Type} [DecidableEq κ] (σ : Store κ) : Arm κ → Store κ
  | .recv c => if 0 < (σ c).len then upd σ c { σ c with len := (σ c).len - 1 } else σ
  | .send c => upd σ c { σ c with len := (σ c).len + 1 }
  | .ctxDone => σ

inductive Pick where
  | arm (k : Nat)
  | dflt
deriving DecidableEq, Repr

/-- One execution of a select: arm `k` may fire if it is ready (the choice among ready
arms is nondeterministic); `default` only if no arm is ready.  `none` = not enabled. -/
def Sel.step {κ ρ : Type} [DecidableEq κ] (σ : Store κ) (ctx : Bool) (s : Sel κ ρ) :
    Pick → Option (Store κ × Option (Arm κ) × Out ρ)
  | .arm k =>
    match s.arms[k]? with
    | some (a, o) => if a.enabled σ ctx then some (a.fire σ, some a, o) else none
    | none => none
  | .dflt =>
    match s.dflt with
    | some o => if s.arms.all (fun ao => !ao.1.enabled σ ctx) then some (σ, none, o) else none
    | none => none

/-- The statements executed by a call with boolean argument `arg`. -/
def instantiate {κ ρ : Type} (m : Method κ ρ) (arg : Bool) : List (Sel κ ρ) :=
  m.filter (fun s => match s.guard with | none => true | some b => b == arg)

/-! ## Layer 1: the gate -/

inductive GCh where
  | set
  | unset
deriving DecidableEq, Repr

/-- Results: `true`, `false`, `nil` error, non-nil error. -/
inductive GRes where
  | tt
  | ff
  | nil
  | err
deriving DecidableEq, Repr

inductive GMeth where
  | lock
  | waitAndLock
  | lockIfSet
  | unlock
deriving DecidableEq, Repr

def GMeth.isUnlock : GMeth → Bool
  | .unlock => true
  | _ => false

/-- What the extractor reads from `gate.go`. -/
structure GateSrc where
  capSet : Nat
  capUnset : Nat
  lock : Method GCh GRes
  waitAndLock : Method GCh GRes
  lockIfSet : Method GCh GRes
  unlock : Method GCh GRes
  /-- the constructor releases the new gate with `unlock(<this>)`; `none` = its parameter -/
  newArg : Option Bool
  /-- `unlockFunc(f)` is `g.unlock(f())` (quic only; `true` when the method is absent) -/
  unlockFuncIsUnlock : Bool
deriving DecidableEq, Repr

def GateSrc.body (S : GateSrc) : GMeth → Method GCh GRes
  | .lock => S.lock
  | .waitAndLock => S.waitAndLock
  | .lockIfSet => S.lockIfSet
  | .unlock => S.unlock

/-- `quic/gate.go` as a DSL term (the extractor must regenerate exactly this). -/
def gate : GateSrc where
  capSet := 1
  capUnset := 1
  lock := [⟨none, [(.recv .set, .ret .tt), (.recv .unset, .ret .ff)], none⟩]
  waitAndLock :=
    [⟨none, [(.recv .set, .ret .nil)], some .fall⟩,
     ⟨none, [(.recv .set, .ret .nil), (.ctxDone, .ret .err)], none⟩]
  lockIfSet := [⟨none, [(.recv .set, .ret .tt)], some (.ret .ff)⟩]
  unlock := [⟨some true, [(.send .set, .fall)], none⟩, ⟨some false, [(.send .unset, .fall)], none⟩]
  newArg := some false
  unlockFuncIsUnlock := true

/-- `internal/gate/gate.go`: identical methods; `New(set)` passes its parameter. -/
def gateInternal : GateSrc := { gate with newArg := none }

/-- Does a completed call leave the caller owning the gate? -/
def acquired : GMeth → Option GRes → Bool
  | .lock, _ => true
  | .waitAndLock, some .nil => true
  | .lockIfSet, some .tt => true
  | _, _ => false

/-- A goroutine using a gate.  `holding`/`took` are ghost variables defined by the channel
operations (a receive on `set`/`unset` takes the token, a send returns it); `owns` is what
the client believes from the results of its calls. -/
structure GG where
  cont : List (Sel GCh GRes) := []
  meth : GMeth := .lock
  arg : Bool := false
  ctx : Bool := false
  holding : Bool := false
  took : Option GCh := none
  owns : Bool := false
  last : Option GRes := none
deriving DecidableEq, Repr

inductive GAct where
  | call (m : GMeth) (arg : Bool)
  | cancel
  | run (p : Pick)
deriving DecidableEq, Repr

def holdAfter (a : Option (Arm GCh)) (h : Bool) : Bool :=
  match a with
  | some (.recv _) => true
  | some (.send _) => false
  | _ => h

def tookAfter (a : Option (Arm GCh)) (t : Option GCh) : Option GCh :=
  match a with
  | some (.recv c) => some c
  | _ => t

/-- The goroutine after a select fired arm `a` with outcome `o` (`rest` = the statements
after the select). -/
def GG.after (g : GG) (rest : List (Sel GCh GRes)) :
    Store GCh × Option (Arm GCh) × Out GRes → Store GCh × GG
  | (σ', a, .ret v) =>
    (σ', { g with cont := [], holding := holdAfter a g.holding, took := tookAfter a g.took,
                  last := some v, owns := acquired g.meth (some v) })
  | (σ', a, .fall) =>
    match rest with
    | [] => (σ', { g with cont := [], holding := holdAfter a g.holding, took := tookAfter a g.took,
                          last := none, owns := acquired g.meth none })
    | _ :: _ => (σ', { g with cont := rest, holding := holdAfter a g.holding,
                              took := tookAfter a g.took })

/-- One step of goroutine `g`.  Usage protocol: a call is made only between calls,
`unlock` iff the goroutine owns the gate. -/
def GG.step (S : GateSrc) (σ : Store GCh) (g : GG) : GAct → Option (Store GCh × GG)
  | .call m arg =>
    if g.cont.isEmpty && (m.isUnlock == g.owns) then
      some (σ, { g with cont := instantiate (S.body m) arg, meth := m, arg := arg, last := none })
    else none
  | .cancel => if g.ctx then none else some (σ, { g with ctx := true })
  | .run p =>
    match g.cont with
    | [] => none
    | s :: rest => (s.step σ g.ctx p).map (g.after rest)

structure GConfig where
  σ : Store GCh
  gs : List GG
  /-- ghost: the argument of the most recent completed `unlock` (initially the constructor's) -/
  cond : Bool

def GConfig.step (S : GateSrc) (c : GConfig) (i : Nat) (a : GAct) : Option GConfig :=
  match c.gs[i]? with
  | none => none
  | some g =>
    match g.step S c.σ a with
    | none => none
    | some (σ', g') =>
      some { σ := σ', gs := c.gs.set i g',
             cond := if g.meth.isUnlock && !g.cont.isEmpty && g'.cont.isEmpty then g.arg else c.cond }

def gateStore (S : GateSrc) (inSet inUnset : Nat) : Store GCh
  | .set => ⟨S.capSet, inSet, false⟩
  | .unset => ⟨S.capUnset, inUnset, false⟩

/-- `newGate()` / `New(b)`: unlocked, condition `b`, `n` goroutines that may use it. -/
def GConfig.init (S : GateSrc) (b : Bool) (n : Nat) : GConfig :=
  { σ := gateStore S (if b then 1 else 0) (if b then 0 else 1), gs := List.replicate n {}, cond := b }

/-- `newLockedGate()`: locked, the creating goroutine (index 0) owns it. -/
def GConfig.initLocked (S : GateSrc) (n : Nat) : GConfig :=
  { σ := gateStore S 0 0, gs := { holding := true, owns := true } :: List.replicate n {}, cond := false }

inductive GReachable (S : GateSrc) : GConfig → Prop where
  | init (b : Bool) (n : Nat) : GReachable S (GConfig.init S b n)
  | initLocked (n : Nat) : GReachable S (GConfig.initLocked S n)
  | step {c c' : GConfig} {i : Nat} {a : GAct} :
      GReachable S c → c.step S i a = some c' → GReachable S c'

def b2n (b : Bool) : Nat := if b then 1 else 0

def holders (gs : List GG) : Nat := (gs.map (fun g => b2n g.holding)).sum

def tokens (σ : Store GCh) : Nat := (σ .set).len + (σ .unset).len

/-! ## Layer 2: the queue (syntax; the semantics follows below) -/

/-- Boolean expressions over the queue fields. -/
inductive BExp where
  | lit (b : Bool)
  | errSet                -- `q.err != nil`
  | nonEmpty              -- `len(q.q) > 0`
  | or (a b : BExp)
  | not (a : BExp)
deriving DecidableEq, Repr

inductive QRet where
  | unit                  -- no result (`close`)
  | tt                    -- `true`
  | ff                    -- `false`
  | gateErr               -- `zero, err` (the context error of `waitAndLock`)
  | queueErr              -- `zero, q.err`
  | item                  -- `v, nil`
deriving DecidableEq, Repr

/-- Statements of queue methods (flat). -/
inductive QStmt where
  | gate (m : GMeth) (arg : Option BExp)   -- `q.gate.m(arg)`
  | deferUnlock                            -- `defer q.unlock()`
  | retIfGateErr (v : QRet)                -- `if err := <the gate call just made>; err != nil { return v }`
  | retIf (c : BExp) (v : QRet)            -- `if c { return v }`
  | setErrIfNil                            -- `if q.err == nil { q.err = err }`
  | append                                 -- `q.q = append(q.q, v)`
  | popFront                               -- `v := q.q[0]; copy(q.q[:], q.q[1:]); q.q[len(q.q)-1] = zero; q.q = q.q[:len(q.q)-1]`
  | ret (v : QRet)                         -- `return v`
deriving DecidableEq, Repr

/-- What the extractor reads from `queue.go`. -/
structure QueueSrc where
  close : List QStmt
  put : List QStmt
  get : List QStmt
  unlock : List QStmt
  /-- `newQueue` builds the gate with `newGate()` -/
  newUsesNewGate : Bool
deriving DecidableEq, Repr

/-- `quic/queue.go` as a DSL term. -/
def queue : QueueSrc where
  close := [.gate .lock none, .deferUnlock, .setErrIfNil]
  put := [.gate .lock none, .deferUnlock, .retIf .errSet .ff, .append, .ret .tt]
  get := [.gate .waitAndLock none, .retIfGateErr .gateErr, .deferUnlock, .retIf .errSet .queueErr,
          .popFront, .ret .item]
  unlock := [.gate .unlock (some (.or .errSet .nonEmpty))]
  newUsesNewGate := true

end NetVerif.Model.ChanSem
