import NetVerif.Model.Dns
/-!
The reader of `Model/Dns.lean` once more, but with every Go slice / index / sub-slice expression
of the unpack and skip paths going through CHECKED primitives: `getC msg i` is `msg[i]`,
`sliceC msg a b` is `msg[a:b]`; both yield the distinguished outcome `Err.panic` ("index out of
range" / "slice bounds out of range") when out of range. The guards in front of them are exactly
the guards of the Go code (`if off+2 > len(msg)`, `if currOff >= len(msg)`, `if endOff > len(msg)`…).
So in this twin absence of a panic is NOT true by construction; C37 proves that it never yields
`Err.panic` and that it is equal to the model (which reads through total list functions).
Functions `fC` below mirror `f` of the model; the composite ones are textual copies.
-/
namespace NetVerif.Model.Dns

/-- `msg[i]` -/
def getC (msg : Bytes) (i : Nat) : Except Err Nat :=
  if h : i < msg.length then .ok msg[i] else .error .panic

/-- `msg[a:b]` -/
def sliceC (msg : Bytes) (a b : Nat) : Except Err Bytes :=
  if a ≤ b ∧ b ≤ msg.length then .ok ((msg.drop a).take (b - a)) else .error .panic

/-- `unpackUint16`: `if off+uint16Len > len(msg)`; `msg[off]`, `msg[off+1]` -/
def u16AtC (msg : Bytes) (off : Nat) : Except Err (Nat × Nat) :=
  if off + 2 > msg.length then .error .baseLen
  else match getC msg off with
    | .error e => .error e
    | .ok a => match getC msg (off + 1) with
      | .error e => .error e
      | .ok b => .ok (a * 256 + b, off + 2)

/-- `unpackUint32` -/
def u32AtC (msg : Bytes) (off : Nat) : Except Err (Nat × Nat) :=
  if off + 4 > msg.length then .error .baseLen
  else match getC msg off with
    | .error e => .error e
    | .ok a => match getC msg (off + 1) with
      | .error e => .error e
      | .ok b => match getC msg (off + 2) with
        | .error e => .error e
        | .ok c => match getC msg (off + 3) with
          | .error e => .error e
          | .ok d => .ok (a * 16777216 + b * 65536 + c * 256 + d, off + 4)

/-- `unpackBytes`: `newOff := off + len(field); if newOff > len(msg)`; `copy(field, msg[off:newOff])` -/
def bytesAtC (msg : Bytes) (off n : Nat) : Except Err Bytes :=
  if off + n > msg.length then .error .baseLen else sliceC msg off (off + n)

/-- `unpackText`: `if off >= len(msg)`; `msg[off]`; `if endOff > len(msg)`; `msg[beginOff:endOff]` -/
def textAtC (msg : Bytes) (off : Nat) : Except Err (Bytes × Nat) :=
  if off ≥ msg.length then .error .baseLen
  else match getC msg off with
    | .error e => .error e
    | .ok c =>
      if off + 1 + c > msg.length then .error .calcLen
      else match sliceC msg (off + 1) (off + 1 + c) with
        | .error e => .error e
        | .ok t => .ok (t, off + 1 + c)

/-- the loop of `Name.unpack`: `if currOff >= len(msg)`; `msg[currOff]`; `if endOff > len(msg)`;
`msg[currOff:endOff]`; pointer: `if currOff >= len(msg)`; `msg[currOff]` -/
def unpackLoopC (msg : Bytes) : Nat → Nat → Nat → Bytes → Nat → Except Err (Bytes × Nat)
  | 0, _, _, _, _ => .error .fuel
  | fuel + 1, currOff, ptr, name, newOff =>
    if currOff ≥ msg.length then .error .baseLen
    else match getC msg currOff with
      | .error e => .error e
      | .ok c =>
        if c / 64 = 0 then
          if c = 0 then
            .ok (if name.isEmpty then [46] else name, if ptr = 0 then currOff + 1 else newOff)
          else if currOff + 1 + c > msg.length then .error .calcLen
          else match sliceC msg (currOff + 1) (currOff + 1 + c) with
            | .error e => .error e
            | .ok seg =>
              if seg.contains 46 then .error .invalidName
              else if name.length + c ≥ 254 then .error .nameTooLong
              else unpackLoopC msg fuel (currOff + 1 + c) ptr (name ++ seg ++ [46]) newOff
        else if c / 64 = 3 then
          if currOff + 1 ≥ msg.length then .error .invalidPtr
          else match getC msg (currOff + 1) with
            | .error e => .error e
            | .ok c1 =>
              if ptr + 1 > 10 then .error .tooManyPtr
              else unpackLoopC msg fuel (c % 64 * 256 + c1) (ptr + 1) name
                     (if ptr = 0 then currOff + 2 else newOff)
        else .error .reserved

def unpackNameC (msg : Bytes) (off : Nat) : Except Err (Bytes × Nat) :=
  unpackLoopC msg unpackFuel off 0 [] off

/-- the loop of `skipName`: `if newOff >= len(msg)`; `msg[newOff]`; `if newOff > len(msg)` -/
def skipLoopC (msg : Bytes) : Nat → Nat → Except Err Nat
  | 0, _ => .error .fuel
  | fuel + 1, newOff =>
    if newOff ≥ msg.length then .error .baseLen
    else match getC msg newOff with
      | .error e => .error e
      | .ok c =>
        if c / 64 = 0 then
          if c = 0 then .ok (newOff + 1)
          else if newOff + 1 + c > msg.length then .error .calcLen
          else skipLoopC msg fuel (newOff + 1 + c)
        else if c / 64 = 3 then .ok (newOff + 2)
        else .error .reserved

def skipNameC (msg : Bytes) (off : Nat) : Except Err Nat :=
  skipLoopC msg (msg.length + 1) off

/-- loop of `unpackOPTResource`: two `unpackUint16`, the bound check, `copy(o.Data, msg[off:])` -/
def optLoopC (msg : Bytes) (endOff : Nat) : Nat → Nat → Except Err (List (Nat × Bytes))
  | 0, _ => .error .fuel
  | fuel + 1, off =>
    if off < endOff then
      match u16AtC msg off with
      | .error e => .error e
      | .ok (code, off1) =>
        match u16AtC msg off1 with
        | .error e => .error e
        | .ok (l, off2) =>
          if off2 + l > endOff then .error .calcLen
          else match sliceC msg off2 msg.length with   -- msg[off:]
            | .error e => .error e
            | .ok tail =>
              if tail.length < l then .error .calcLen   -- copy(...) != int(l)
              else match optLoopC msg endOff fuel (off2 + l) with
                | .ok os => .ok ((code, tail.take l) :: os)
                | .error e => .error e
    else .ok []

/-- second pass of `unpackSVCBResource`: `len(msg[off:]) < int(size)`; `msg[off:][:int(size)]` -/
def svcbPass2C (msg : Bytes) : List (Nat × Nat × Nat) → Except Err (List (Nat × Bytes))
  | [] => .ok []
  | (key, size, voff) :: r =>
    match sliceC msg voff msg.length with
    | .error e => .error e
    | .ok tail =>
      if tail.length < size then .error .calcLen
      else match sliceC tail 0 size with
        | .error e => .error e
        | .ok v => match svcbPass2C msg r with
          | .ok ps => .ok ((key, v) :: ps)
          | .error e => .error e

/-- the TargetName walk of `unpackSVCBResource`: `for i := targetOff; i < paramsOff; i += 1+int(msg[i])`.
`none` = the walk would panic. -/
def targetCompressedC (msg : Bytes) : Nat → Nat → Nat → Except Err Bool
  | 0, _, _ => .ok false
  | fuel + 1, i, stop =>
    if i < stop then
      match getC msg i with
      | .error e => .error e
      | .ok c => if c / 64 = 3 then .ok true else targetCompressedC msg fuel (i + 1 + c) stop
    else .ok false

/-- `header.unpack`: six `unpackUint16` -/
def unpackWireHeaderC (msg : Bytes) : Except Err WireHeader :=
  match u16AtC msg 0 with
  | .error e => .error e
  | .ok (id, o1) => match u16AtC msg o1 with
    | .error e => .error e
    | .ok (bits, o2) => match u16AtC msg o2 with
      | .error e => .error e
      | .ok (nq, o3) => match u16AtC msg o3 with
        | .error e => .error e
        | .ok (na, o4) => match u16AtC msg o4 with
          | .error e => .error e
          | .ok (nu, o5) => match u16AtC msg o5 with
            | .error e => .error e
            | .ok (nr, _) => .ok { id := id, bits := bits, nq := nq, na := na, nu := nu, nr := nr }

def nameOnlyC (msg : Bytes) (off : Nat) : Except Err Bytes :=
  match unpackNameC msg off with
  | .ok (n, _) => .ok n
  | .error e => .error e

def txtLoopC (msg : Bytes) (length : Nat) : Nat → Nat → Nat → Except Err (List Bytes)
  | 0, _, _ => .error .fuel
  | fuel + 1, off, n =>
    if n < length then
      match textAtC msg off with
      | .error e => .error e
      | .ok (t, off') =>
        if length - n < t.length + 1 then .error .calcLen
        else match txtLoopC msg length fuel off' (n + t.length + 1) with
          | .ok ts => .ok (t :: ts)
          | .error e => .error e
    else .ok []

def svcbPass1C (msg : Bytes) (bodyEnd : Nat) : Nat → Nat → Option Nat → Except Err (List (Nat × Nat × Nat))
  | 0, _, _ => .error .fuel
  | fuel + 1, off, prev =>
    if off < bodyEnd then
      match u16AtC msg off with
      | .error e => .error e
      | .ok (key, off1) =>
        if outOfOrder prev key then .error .paramOutOfOrder
        else match u16AtC msg off1 with
          | .error e => .error e
          | .ok (size, off2) =>
            if off2 + size > bodyEnd then .error .resourceLen
            else match svcbPass1C msg bodyEnd fuel (off2 + size) (some key) with
              | .ok ps => .ok ((key, size, off2) :: ps)
              | .error e => .error e
    else if off ≠ bodyEnd then .error .resourceLen
    else .ok []

def unpackSVCBC (msg : Bytes) (off length : Nat) : Except Err (Nat × Bytes × List (Nat × Bytes)) :=
  match u16AtC msg off with
  | .error e => .error e
  | .ok (prio, off1) =>
    match unpackNameC msg off1 with
    | .error e => .error e
    | .ok (target, off2) =>
      match targetCompressedC msg (off2 + 1) off1 off2 with
      | .error e => .error e
      | .ok true => .error .invalidPtr
      | .ok false =>
      match svcbPass1C msg (off + length) (msg.length + 1) off2 none with
      | .error e => .error e
      | .ok l =>
        match svcbPass2C msg l with
        | .error e => .error e
        | .ok ps => .ok (prio, target, ps)

def unpackBodyC (msg : Bytes) (off : Nat) (typ length : Nat) : Except Err Body :=
  if typ = 1 then (bytesAtC msg off 4).map Body.a
  else if typ = 2 then (nameOnlyC msg off).map Body.ns
  else if typ = 5 then (nameOnlyC msg off).map Body.cname
  else if typ = 6 then
    match unpackNameC msg off with
    | .error e => .error e
    | .ok (ns, o1) =>
      match unpackNameC msg o1 with
      | .error e => .error e
      | .ok (mbox, o2) =>
        match u32AtC msg o2 with
        | .error e => .error e
        | .ok (serial, o3) =>
          match u32AtC msg o3 with
          | .error e => .error e
          | .ok (refresh, o4) =>
            match u32AtC msg o4 with
            | .error e => .error e
            | .ok (retry, o5) =>
              match u32AtC msg o5 with
              | .error e => .error e
              | .ok (expire, o6) =>
                match u32AtC msg o6 with
                | .error e => .error e
                | .ok (minTTL, _) => .ok (.soa ns mbox serial refresh retry expire minTTL)
  else if typ = 12 then (nameOnlyC msg off).map Body.ptr
  else if typ = 15 then
    match u16AtC msg off with
    | .error e => .error e
    | .ok (pref, o1) => (nameOnlyC msg o1).map (Body.mx pref)
  else if typ = 16 then (txtLoopC msg length (length + 1) off 0).map Body.txt
  else if typ = 28 then (bytesAtC msg off 16).map Body.aaaa
  else if typ = 33 then
    match u16AtC msg off with
    | .error e => .error e
    | .ok (prio, o1) =>
      match u16AtC msg o1 with
      | .error e => .error e
      | .ok (weight, o2) =>
        match u16AtC msg o2 with
        | .error e => .error e
        | .ok (port, o3) => (nameOnlyC msg o3).map (Body.srv prio weight port)
  else if typ = 64 then
    (unpackSVCBC msg off length).map (fun (p, t, ps) => Body.svcb p t ps)
  else if typ = 65 then
    (unpackSVCBC msg off length).map (fun (p, t, ps) => Body.https p t ps)
  else if typ = 41 then (optLoopC msg (off + length) (msg.length + 1) off).map Body.opt
  else (bytesAtC msg off length).map (Body.unknown typ)

def unpackQuestionC (msg : Bytes) (off : Nat) : Except Err (Question × Nat) :=
  match unpackNameC msg off with
  | .error e => .error e
  | .ok (name, o1) =>
    match u16AtC msg o1 with
    | .error e => .error e
    | .ok (typ, o2) =>
      match u16AtC msg o2 with
      | .error e => .error e
      | .ok (cls, o3) => .ok ({ name := name, typ := typ, cls := cls }, o3)

def unpackRHeaderC (msg : Bytes) (off : Nat) : Except Err (RHeader × Nat) :=
  match unpackNameC msg off with
  | .error e => .error e
  | .ok (name, o1) =>
    match u16AtC msg o1 with
    | .error e => .error e
    | .ok (typ, o2) =>
      match u16AtC msg o2 with
      | .error e => .error e
      | .ok (cls, o3) =>
        match u32AtC msg o3 with
        | .error e => .error e
        | .ok (ttl, o4) =>
          match u16AtC msg o4 with
          | .error e => .error e
          | .ok (len, o5) =>
            if o5 + len > msg.length then .error .resourceLen  -- Parser.resourceHeader: the body must be inside msg
            else .ok ({ name := name, typ := typ, cls := cls, ttl := ttl, length := len }, o5)

def unpackResourceC (msg : Bytes) (off : Nat) : Except Err (Resource × Nat) :=
  match unpackRHeaderC msg off with
  | .error e => .error e
  | .ok (h, o1) =>
    match unpackBodyC msg o1 h.typ h.length with
    | .error e => .error e
    | .ok b => .ok ({ hdr := h, body := b }, o1 + h.length)

def skipQuestionC (msg : Bytes) (off : Nat) : Except Err Nat :=
  match skipNameC msg off with
  | .error e => .error e
  | .ok o1 =>
    match skip16 msg o1 with
    | .error e => .error e
    | .ok o2 => skip16 msg o2

def skipResourceC (msg : Bytes) (off : Nat) : Except Err Nat :=
  match skipNameC msg off with
  | .error e => .error e
  | .ok o1 =>
    match skip16 msg o1 with
    | .error e => .error e
    | .ok o2 =>
      match skip16 msg o2 with
      | .error e => .error e
      | .ok o3 =>
        match skip32 msg o3 with
        | .error e => .error e
        | .ok o4 =>
          match u16AtC msg o4 with
          | .error e => .error e
          | .ok (len, o5) => if o5 + len > msg.length then .error .resourceLen else .ok (o5 + len)

def unpackQuestionsC (msg : Bytes) : Nat → Nat → Except Err (List Question × Nat)
  | 0, off => .ok ([], off)
  | n + 1, off =>
    match unpackQuestionC msg off with
    | .error e => .error e
    | .ok (q, o1) =>
      match unpackQuestionsC msg n o1 with
      | .error e => .error e
      | .ok (qs, o2) => .ok (q :: qs, o2)

def unpackResourcesC (msg : Bytes) : Nat → Nat → Except Err (List Resource × Nat)
  | 0, off => .ok ([], off)
  | n + 1, off =>
    match unpackResourceC msg off with
    | .error e => .error e
    | .ok (r, o1) =>
      match unpackResourcesC msg n o1 with
      | .error e => .error e
      | .ok (rs, o2) => .ok (r :: rs, o2)

def skipQuestionsC (msg : Bytes) : Nat → Nat → Except Err Nat
  | 0, off => .ok off
  | n + 1, off =>
    match skipQuestionC msg off with
    | .error e => .error e
    | .ok o1 => skipQuestionsC msg n o1

def skipResourcesC (msg : Bytes) : Nat → Nat → Except Err Nat
  | 0, off => .ok off
  | n + 1, off =>
    match skipResourceC msg off with
    | .error e => .error e
    | .ok o1 => skipResourcesC msg n o1

def unpackMessageOffC (msg : Bytes) : Except Err (Message × Nat) :=
  match unpackWireHeaderC msg with
  | .error e => .error e
  | .ok w =>
    match unpackQuestionsC msg w.nq 12 with
    | .error e => .error e
    | .ok (qs, o1) =>
      match unpackResourcesC msg w.na o1 with
      | .error e => .error e
      | .ok (an, o2) =>
        match unpackResourcesC msg w.nu o2 with
        | .error e => .error e
        | .ok (au, o3) =>
          match unpackResourcesC msg w.nr o3 with
          | .error e => .error e
          | .ok (ad, o4) =>
            .ok ({ hdr := headerOfBits w.id w.bits, questions := qs, answers := an,
                   authorities := au, additionals := ad }, o4)

def unpackMessageC (msg : Bytes) : Except Err Message :=
  match unpackMessageOffC msg with
  | .ok (m, _) => .ok m
  | .error e => .error e

def skipMessageC (msg : Bytes) : Except Err Nat :=
  match unpackWireHeaderC msg with
  | .error e => .error e
  | .ok w =>
    match skipQuestionsC msg w.nq 12 with
    | .error e => .error e
    | .ok o1 =>
      match skipResourcesC msg w.na o1 with
      | .error e => .error e
      | .ok o2 =>
        match skipResourcesC msg w.nu o2 with
        | .error e => .error e
        | .ok o3 => skipResourcesC msg w.nr o3

def walkQuestionC (msg : Bytes) (off : Nat) (s : Step) : Except Err (Item × Nat) :=
  match s with
  | .parse | .headerBody =>
    match unpackQuestionC msg off with
    | .ok (q, o) => .ok (.q q, o)
    | .error e => .error e
  | .skip | .headerSkip =>
    match skipQuestionC msg off with
    | .ok o => .ok (.skipped, o)
    | .error e => .error e

def walkResourceC (msg : Bytes) (off : Nat) (s : Step) : Except Err (Item × Nat) :=
  match s with
  | .parse =>
    match unpackResourceC msg off with
    | .ok (r, o) => .ok (.r r, o)
    | .error e => .error e
  | .headerBody =>
    match unpackRHeaderC msg off with
    | .error e => .error e
    | .ok (h, o1) =>
      match unpackBodyC msg o1 h.typ h.length with
      | .error e => .error e
      | .ok b => .ok (.r { hdr := h, body := b }, o1 + h.length)
  | .skip =>
    match skipResourceC msg off with
    | .ok o => .ok (.skipped, o)
    | .error e => .error e
  | .headerSkip =>
    match unpackRHeaderC msg off with
    | .error e => .error e
    | .ok (h, o1) =>
      match skipAfterHeader msg o1 h.length with
      | .ok o => .ok (.h h, o)
      | .error e => .error e

def walkSectionC (one : Bytes → Nat → Step → Except Err (Item × Nat)) (msg : Bytes) :
    Nat → Nat → List Step → Except Err (List Item × Nat × List Step)
  | 0, off, sc => .ok ([], off, sc)
  | n + 1, off, sc =>
    match one msg off (nextStep sc).1 with
    | .error e => .error e
    | .ok (it, o1) =>
      match walkSectionC one msg n o1 (nextStep sc).2 with
      | .error e => .error e
      | .ok (its, o2, sc') => .ok (it :: its, o2, sc')

def walkMessageC (msg : Bytes) (sc : List Step) : Except Err (List Item × Nat) :=
  match unpackWireHeaderC msg with
  | .error e => .error e
  | .ok w =>
    match walkSectionC walkQuestionC msg w.nq 12 sc with
    | .error e => .error e
    | .ok (i1, o1, s1) =>
      match walkSectionC walkResourceC msg w.na o1 s1 with
      | .error e => .error e
      | .ok (i2, o2, s2) =>
        match walkSectionC walkResourceC msg w.nu o2 s2 with
        | .error e => .error e
        | .ok (i3, o3, s3) =>
          match walkSectionC walkResourceC msg w.nr o3 s3 with
          | .error e => .error e
          | .ok (i4, o4, _) => .ok (i1 ++ i2 ++ i3 ++ i4, o4)

end NetVerif.Model.Dns
