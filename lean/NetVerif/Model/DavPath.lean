/-
Model of the path handling of webdav/file.go: `slashClean`, `Dir.resolve`, and the
root checks of `Dir.RemoveAll` / `Dir.Rename` (C45). Also used by the lock model (C43),
which cleans every resource name with `slashClean`.

Strings are byte lists (`List Nat`, bytes < 256; '/' = 47, '.' = 46, NUL = 0).
`path.Clean` / `filepath.Clean` (identical on slash systems) is modelled as a component
stack: split on '/', drop "" and ".", let ".." pop the stack (dropped at the root of a
rooted path, kept at the front of a relative one), render with single slashes.
The native separator is '/', so the `filepath.Separator != '/'` disjunct of `resolve`
is constant false and `filepath.FromSlash` is the identity.
-/
namespace NetVerif.Model.DavPath

abbrev Bytes := List Nat

/-- `strings.Split(s, "/")` (always at least one component). -/
def splitSlash : Bytes → List Bytes
  | [] => [[]]
  | b :: rest =>
    if b = 47 then [] :: splitSlash rest
    else match splitSlash rest with
      | [] => [[b]]
      | c :: cs => (b :: c) :: cs

/-- One component processed by Clean; the stack is kept reversed (head = last component). -/
def cleanStep (rooted : Bool) (stk : List Bytes) (c : Bytes) : List Bytes :=
  if c = [] then stk
  else if c = [46] then stk
  else if c = [46, 46] then
    match stk with
    | [] => if rooted then [] else [c]
    | t :: rest => if t = [46, 46] then c :: stk else rest
  else c :: stk

/-- Components of the cleaned path, in order. -/
def cleanComps (rooted : Bool) (comps : List Bytes) : List Bytes :=
  (comps.foldl (cleanStep rooted) []).reverse

/-- `strings.Join(cs, "/")`. -/
def joinSlash : List Bytes → Bytes
  | [] => []
  | [c] => c
  | c :: cs => c ++ 47 :: joinSlash cs

/-- Render a cleaned component list. -/
def render (rooted : Bool) (cs : List Bytes) : Bytes :=
  if rooted then 47 :: joinSlash cs
  else if cs = [] then [46] else joinSlash cs

def isRooted (p : Bytes) : Bool := p.head? = some 47

/-- `path.Clean(p)` (= `filepath.Clean` on slash systems). -/
def pathClean (p : Bytes) : Bytes :=
  if p = [] then [46]
  else render (isRooted p) (cleanComps (isRooted p) (splitSlash p))

/-- webdav `slashClean`. -/
def slashClean (name : Bytes) : Bytes :=
  pathClean (if isRooted name then name else 47 :: name)

/-- Component form of `slashClean` (what the theorems speak about). -/
def slashCleanComps (name : Bytes) : List Bytes := cleanComps true (splitSlash name)

/-- The directory string `resolve` and the root checks work with: `""` means `"."`. -/
def dirOf (d : Bytes) : Bytes := if d = [] then [46] else d

/-- `Dir.resolve`: `none` models the returned `""` (rejection). -/
def resolve (d name : Bytes) : Option Bytes :=
  if name.contains 0 then none
  else some (pathClean (dirOf d ++ 47 :: slashClean name))

/-- What `Dir.RemoveAll` / `Dir.Rename` do before reaching the `os` package. -/
inductive FsOutcome where
  | notExist                      -- resolve rejected the name: os.ErrNotExist
  | invalid                       -- root refusal: os.ErrInvalid
  | os (paths : List Bytes)       -- the os function is called with these native paths
deriving DecidableEq, Repr

/-- NOTE: the Go code compares with `filepath.Clean(string(d))` (of `d`, not of `dirOf d`);
`filepath.Clean("") = "."`, so the two agree. -/
def removeAll (d name : Bytes) : FsOutcome :=
  match resolve d name with
  | none => .notExist
  | some p => if p = pathClean d then .invalid else .os [p]

def rename (d oldName newName : Bytes) : FsOutcome :=
  match resolve d oldName with
  | none => .notExist
  | some o =>
    match resolve d newName with
    | none => .notExist
    | some n => if pathClean d = o ∨ pathClean d = n then .invalid else .os [o, n]

/-- Mkdir / OpenFile / Stat: rejection or the os call. -/
def simpleOp (d name : Bytes) : FsOutcome :=
  match resolve d name with
  | none => .notExist
  | some p => .os [p]

end NetVerif.Model.DavPath
