import NetVerif.Model.H2Frame
/-!
# C14 — HTTP/2 message ⇄ frames (abstract message model)

A *message* (one direction of one HTTP/2 exchange) is a header field list, the body bytes and a
trailer field list (`[]` = no trailer section).  This file models how `/repo/http2` turns a message
into frames and back:

* `splitBlock`     — the loop of `splitHeaderBlock` (write.go) and of `ClientConn.writeHeaders`
                     (transport.go): fragments of at most `max` bytes;
* `headerFrames`   — `writeResHeaders.writeHeaderBlock` / `ClientConn.writeHeaders`: first fragment
                     HEADERS (carrying END_STREAM), the rest CONTINUATION, END_HEADERS on the last;
* `chunks`         — DATA chunking of `writeRequestBody`/`awaitFlowControl` (client) and
                     `writeDataFromHandler` + write scheduler (server): the body is cut at arbitrary
                     points dictated by read sizes / flow-control windows, every chunk ≤ max frame size;
* `encodeFrames`   — END_STREAM placement: on HEADERS (no body, no trailers), on the last DATA, on a
                     separate empty DATA, or on the trailers' HEADERS;
* `step`/`decodeFrames` — the receiving side as a per-stream state machine (this is also the
                     monitor the C14 driver runs over the recorded wire frames);
* `SFrame.bytes`/`encodeMessage`/`decodeMessage` — the same through the 9-byte framing of
                     `Model/H2Frame.lean` (C06).

HPACK is *abstract* here: a stateful `Codec` (encoder state `S`, decoder state `D`) whose
round-trip law is a hypothesis of the theorems (`Codec.Lawful`); HPACK itself is C01–C05.
Not modelled: padding and PRIORITY on sent frames (the Transport/Server never send them),
interleaving of several streams (the monitor demultiplexes by stream id), RST_STREAM/GOAWAY.
-/
namespace NetVerif.Model.H2Msg
open NetVerif.Model.H2Frame

abbrev Bytes := List Nat

structure Msg where
  headers : List Field
  body : Bytes
  trailers : List Field := []
deriving DecidableEq, Repr, Inhabited

/-- the stream frames a message consists of (no padding / priority: never sent by this code). -/
inductive SFrame where
  | headers (sid : Nat) (endStream endHeaders : Bool) (frag : Bytes)
  | continuation (sid : Nat) (endHeaders : Bool) (frag : Bytes)
  | data (sid : Nat) (endStream : Bool) (payload : Bytes)
deriving DecidableEq, Repr, Inhabited

def SFrame.endStream : SFrame → Bool
  | .headers _ es _ _ => es
  | .continuation _ _ _ => false
  | .data _ es _ => es

def SFrame.endHeaders : SFrame → Bool
  | .headers _ _ eh _ => eh
  | .continuation _ eh _ => eh
  | .data _ _ _ => false

def SFrame.isContinuation : SFrame → Bool
  | .continuation _ _ _ => true
  | _ => false

def SFrame.sid : SFrame → Nat
  | .headers s _ _ _ | .continuation s _ _ | .data s _ _ => s

/-- payload length on the wire. -/
def SFrame.len : SFrame → Nat
  | .headers _ _ _ f | .continuation _ _ f | .data _ _ f => f.length

/-- header block fragment carried (DATA carries none). -/
def SFrame.frag : SFrame → Bytes
  | .headers _ _ _ f | .continuation _ _ f => f
  | .data _ _ _ => []

/-- DATA payload carried. -/
def SFrame.dataBytes : SFrame → Bytes
  | .data _ _ p => p
  | _ => []

/-! ## Header block fragmentation -/

/-- The loop `for len(headerBlock) > 0 { frag := headerBlock[:min(len, max)]; … }` of
`splitHeaderBlock` and `ClientConn.writeHeaders`. `fuel` bounds the iterations (Go loops forever
for `max = 0`, which cannot occur: `max` is 16384 resp. the peer's MAX_FRAME_SIZE ≥ 16384). -/
def splitLoop : Nat → Nat → Bytes → List Bytes
  | 0, _, _ => []
  | fuel + 1, max, hb =>
    if hb.length > 0 then hb.take max :: splitLoop fuel max (hb.drop max) else []

def splitBlock (max : Nat) (hb : Bytes) : List Bytes := splitLoop hb.length max hb

/-- CONTINUATION frames for the non-first fragments; END_HEADERS on the last. -/
def contFrames (sid : Nat) : List Bytes → List SFrame
  | [] => []
  | [f] => [.continuation sid true f]
  | f :: g :: rest => .continuation sid false f :: contFrames sid (g :: rest)

/-- `fn(ctx, frag, first, len(headerBlock) == 0)`: first fragment HEADERS (END_STREAM as given,
END_HEADERS iff it is also the last), the others CONTINUATION. An empty block writes nothing. -/
def headerFrames (sid : Nat) (endStream : Bool) : List Bytes → List SFrame
  | [] => []
  | f :: rest => .headers sid endStream rest.isEmpty f :: contFrames sid rest

/-- the `const maxFrameSize = 16384` of `splitHeaderBlock` (server side: "the minimum MAX_FRAME_SIZE
that all peers must support"); the client uses the peer's advertised SETTINGS_MAX_FRAME_SIZE. -/
def serverHdrFragmentMax : Nat := 16384

/-- `writeHeaders(streamID, endStream, maxFrameSize, hdrs)` / `splitHeaderBlock(…, writeHeaderBlock)`. -/
def writeHeaderBlock (sid : Nat) (endStream : Bool) (max : Nat) (hb : Bytes) : List SFrame :=
  headerFrames sid endStream (splitBlock max hb)

/-! ## DATA chunking -/

/-- The body cut into DATA payloads. `cuts` is the arbitrary sequence of sizes that the body
reader's chunking and the flow-control windows allow (`awaitFlowControl` returns
`min(len(remain), maxFrameSize, window)`; the server's scheduler does the same); a cut is clipped to
`max`; when the cut sequence is exhausted the rest goes out in `max`-sized pieces. Cuts of 0 give
empty DATA frames (legal on the wire; the receiver must cope). -/
def chunks (max : Nat) : List Nat → Bytes → List Bytes
  | [], b => splitBlock max b
  | c :: cs, b =>
    if b.length > 0 then b.take (min c max) :: chunks max cs (b.drop (min c max)) else []

/-- all chunks as DATA frames; the last one carries END_STREAM iff `endOnLast`. -/
def dataFrames (sid : Nat) (endOnLast : Bool) : List Bytes → List SFrame
  | [] => []
  | [c] => [.data sid endOnLast c]
  | c :: d :: rest => .data sid false c :: dataFrames sid endOnLast (d :: rest)

/-! ## The abstract header codec (HPACK) -/

structure Codec where
  S : Type
  D : Type
  /-- encode one field list (one header block), threading the encoder state. -/
  enc : S → List Field → Bytes × S
  /-- decode one complete header block, threading the decoder state. -/
  dec : D → Bytes → Option (List Field × D)

/-! ## Message → frames -/

/-- What the sender's environment decides (SETTINGS and schedule). -/
structure Plan where
  sid : Nat
  /-- fragment limit of header blocks: peer's MAX_FRAME_SIZE (client) / the constant 16384 (server). -/
  maxHdr : Nat
  /-- DATA payload limit: peer's MAX_FRAME_SIZE. -/
  maxData : Nat
  /-- cut sizes imposed by read chunking and flow-control windows. -/
  cuts : List Nat := []
  /-- the sender knows at HEADERS time that nothing follows (client: `!HasBody && !HasTrailers`;
  server: `handlerDone && !hasTrailers && len(p) == 0`): END_STREAM goes on HEADERS. -/
  earlyEnd : Bool := true
  /-- END_STREAM in a separate empty DATA frame (EOF noticed after the last chunk was sent). -/
  sepEnd : Bool := false
deriving Repr

def encodeFrames (C : Codec) (s : C.S) (p : Plan) (m : Msg) : List SFrame × C.S :=
  let hb := C.enc s m.headers
  let chs := chunks p.maxData p.cuts m.body
  if m.trailers.isEmpty then
    if chs.isEmpty && p.earlyEnd then
      (writeHeaderBlock p.sid true p.maxHdr hb.1, hb.2)
    else if chs.isEmpty || p.sepEnd then
      (writeHeaderBlock p.sid false p.maxHdr hb.1 ++ dataFrames p.sid false chs ++ [.data p.sid true []], hb.2)
    else
      (writeHeaderBlock p.sid false p.maxHdr hb.1 ++ dataFrames p.sid true chs, hb.2)
  else
    let tb := C.enc hb.2 m.trailers
    (writeHeaderBlock p.sid false p.maxHdr hb.1 ++ dataFrames p.sid false chs
      ++ writeHeaderBlock p.sid true p.maxHdr tb.1, tb.2)

/-! ## Frames → message: the per-stream receive state machine (= the C14 monitor) -/

inductive Phase where
  | start                                  -- expecting the first HEADERS
  | hdrBlock (es : Bool) (acc : Bytes)     -- inside the first header block (END_STREAM seen = es)
  | body                                   -- header block complete; DATA or trailers may follow
  | trlBlock (acc : Bytes)                 -- inside the trailers' header block
  | done                                   -- END_STREAM processed
deriving DecidableEq, Repr, Inhabited

structure StreamSt where
  sid : Nat
  phase : Phase := .start
  headers : List Field := []
  /-- DATA payloads received so far, newest first. -/
  chunksRev : List Bytes := []
  trailers : List Field := []
  /-- the first HEADERS frame carried END_STREAM (the receiver learns "no body" from it). -/
  hdrEnd : Bool := false
deriving Repr, Inhabited

def StreamSt.body (st : StreamSt) : Bytes := st.chunksRev.reverse.flatten

def StreamSt.msg (st : StreamSt) : Msg :=
  { headers := st.headers, body := st.body, trailers := st.trailers }

/-- complete first header block. -/
def finishHdr {D : Type} (dec : D → Bytes → Option (List Field × D)) (d : D) (st : StreamSt)
    (es : Bool) (blk : Bytes) : Option (D × StreamSt) :=
  match dec d blk with
  | some (fs, d') => some (d', { st with headers := fs, hdrEnd := es, phase := if es then .done else .body })
  | none => none

/-- complete trailer block. -/
def finishTrl {D : Type} (dec : D → Bytes → Option (List Field × D)) (d : D) (st : StreamSt)
    (blk : Bytes) : Option (D × StreamSt) :=
  match dec d blk with
  | some (fs, d') => some (d', { st with trailers := fs, phase := .done })
  | none => none

/-- One frame of the stream. `none` = the frame sequence is not a well-formed message
(wrong stream, CONTINUATION out of place, DATA before the headers are complete, trailers without
END_STREAM, anything after END_STREAM, undecodable header block). -/
def step {D : Type} (dec : D → Bytes → Option (List Field × D)) (d : D) (st : StreamSt)
    (f : SFrame) : Option (D × StreamSt) :=
  if f.sid ≠ st.sid then none else
  match st.phase, f with
  | .start, .headers _ es eh frag =>
    if eh then finishHdr dec d st es frag else some (d, { st with phase := .hdrBlock es frag })
  | .hdrBlock es acc, .continuation _ eh frag =>
    if eh then finishHdr dec d st es (acc ++ frag)
    else some (d, { st with phase := .hdrBlock es (acc ++ frag) })
  | .body, .data _ es p =>
    some (d, { st with chunksRev := p :: st.chunksRev, phase := if es then .done else .body })
  | .body, .headers _ es eh frag =>
    if !es then none
    else if eh then finishTrl dec d st frag else some (d, { st with phase := .trlBlock frag })
  | .trlBlock acc, .continuation _ eh frag =>
    if eh then finishTrl dec d st (acc ++ frag) else some (d, { st with phase := .trlBlock (acc ++ frag) })
  | _, _ => none

def run {D : Type} (dec : D → Bytes → Option (List Field × D)) (d : D) (st : StreamSt) :
    List SFrame → Option (D × StreamSt)
  | [] => some (d, st)
  | f :: fs =>
    match step dec d st f with
    | some (d', st') => run dec d' st' fs
    | none => none

/-- reassemble one message from the frames of stream `sid`. -/
def decodeFrames {D : Type} (dec : D → Bytes → Option (List Field × D)) (d : D) (sid : Nat)
    (fs : List SFrame) : Option (Msg × D) :=
  match run dec d { sid := sid } fs with
  | some (d', st) => if st.phase = .done then some (st.msg, d') else none
  | none => none

/-! ## Through the 9-byte framing (C06's `Model/H2Frame.lean`) -/

/-- `Framer.WriteHeaders` / `WriteContinuation` / `WriteData` as called by this code
(no padding, no priority). -/
def SFrame.bytes : SFrame → Except WErr Bytes
  | .headers sid es eh frag => writeHeaders sid frag es eh 0 {}
  | .continuation sid eh frag => writeContinuation sid eh frag
  | .data sid es p => writeData sid es p none

def framesBytes : List SFrame → Except WErr Bytes
  | [] => .ok []
  | f :: fs =>
    match f.bytes, framesBytes fs with
    | .ok b, .ok bs => .ok (b ++ bs)
    | .error e, _ => .error e
    | _, .error e => .error e

/-- message → wire bytes. -/
def encodeMessage (C : Codec) (s : C.S) (p : Plan) (m : Msg) : Except WErr Bytes × C.S :=
  (framesBytes (encodeFrames C s p m).1, (encodeFrames C s p m).2)

/-- what `ReadFrame` returned, as a stream frame (padding already stripped by the parser;
a HEADERS priority section is ignored, as `processHeaders` does for the message content). -/
def ofFrame : Frame → Option SFrame
  | .headers h _ frag => some (.headers h.streamID (hasFlag h.flags flagEndStream) (hasFlag h.flags flagEndHeaders) frag)
  | .continuation h frag => some (.continuation h.streamID (hasFlag h.flags flagEndHeaders) frag)
  | .data h d => some (.data h.streamID (hasFlag h.flags flagEndStream) d)
  | _ => none

/-- `ReadFrame` until the bytes are exhausted; every frame must be a stream frame. -/
def readAll : Nat → Framer → Bytes → Option (List SFrame)
  | 0, _, bs => if bs.isEmpty then some [] else none
  | n + 1, fr, bs =>
    if bs.isEmpty then some [] else
    match (readFrame fr bs).res with
    | .ok f =>
      match ofFrame f, readAll n (readFrame fr bs).fr (readFrame fr bs).rest with
      | some sf, some rest => some (sf :: rest)
      | _, _ => none
    | .error _ => none

/-- wire bytes → message (a receiver whose Framer allows frames up to `maxRead`). -/
def decodeMessage {D : Type} (dec : D → Bytes → Option (List Field × D)) (d : D) (maxRead : Nat)
    (sid : Nat) (bs : Bytes) : Option (Msg × D) :=
  match readAll bs.length { maxReadSize := setMaxReadFrameSize maxRead } bs with
  | some fs => decodeFrames dec d sid fs
  | none => none

end NetVerif.Model.H2Msg
