import NetVerif.Model.VarintQuic
/-
Model of the HTTP/3 message path of golang.org/x/net/internal/http3 (C34):

* `bodyWriter.write` / `bodyWriter.Close`           (body.go)   — `remain` accounting on the sending side
* `bodyReader.Read`                                  (body.go)   — `remain` accounting on the reading side
* the choice between `bodyReader` and `http.NoBody`  (server.go `handleRequestStream`, roundtrip.go `RoundTrip`)
* `writeBodyAndTrailer`                              (roundtrip.go) — the client's request body copy loop
* `responseWriter` WriteHeader/Write/Flush/close     (server.go) — buffering (512-byte `bodyBuffer`),
  Content-Length trimming, bodyless statuses
* frame layout `varint type ++ varint length ++ payload` (stream.go `writeVarint`/`readFrameHeader`)

Field sections (QPACK, property C33) are an abstract type `α`.  The QUIC stream (property C19) is a
list of frames followed by exactly one terminal event (`fin` or `reset`).  Stream write failures
(peer STOP_SENDING / connection loss) are not modelled: `st.Write` always accepts all bytes.
Bytes are `Nat`s, byte strings `List Nat`; Go `int64` counters are `Int` (no overflow: all values
are lengths of in-memory slices or parsed 63-bit numbers).
-/
namespace NetVerif.Model.H3Body

/-! ## Straight-line integer kernels (regenerated from the Go source into `Gen/C34.lean`, T-tie) -/

/-- `bodyWriter.write`: `w.remain >= 0 && size > w.remain`. -/
def bwTooLong (remain size : Int) : Bool := decide (remain ≥ 0 ∧ size > remain)
/-- `bodyWriter.write` loop body: `if w.remain >= 0 { w.remain -= int64(n) }`. -/
def bwAccount (remain n : Int) : Int := if remain ≥ 0 then remain - n else remain
/-- `bodyWriter.Close`: `w.remain > 0`. -/
def bwCloseShort (remain : Int) : Bool := decide (remain > 0)
/-- `bodyReader.Read`: `r.remain > 0` (at EOF of the stream and at a trailing HEADERS frame). -/
def brShort (remain : Int) : Bool := decide (remain > 0)
/-- `bodyReader.Read`: `r.remain >= 0 && r.st.lim > r.remain` (at a DATA frame header). -/
def brDataTooLong (remain lim : Int) : Bool := decide (remain ≥ 0 ∧ lim > remain)
/-- `bodyReader.Read`: `if r.remain > 0 { r.remain -= int64(n) }`. -/
def brAccount (remain n : Int) : Int := if remain > 0 then remain - n else remain
/-- `bodyReader.Read`: `if int64(len(p)) > r.st.lim { p = p[:r.st.lim] }` on lengths. -/
def brClamp (plen lim : Int) : Int := if plen > lim then lim else plen
/-- server.go `handleRequestStream`: `contentLength != 0 || len(reqInfo.Trailer) != 0`. -/
def srvHasBody (contentLength ntrailer : Int) : Bool := decide (contentLength ≠ 0 ∨ ntrailer ≠ 0)
/-- roundtrip.go `RoundTrip`: `bodyLen := contentLength; if req.Method == http.MethodHead ||
statusCode == http.StatusNotModified { bodyLen = 0 }` — a response to HEAD and a 304 response never
contain content, whatever Content-Length they carry. -/
def cliBodyLen (contentLength : Int) (isHead : Bool) (statusCode : Int) : Int :=
  if isHead = true ∨ statusCode = 304 then 0 else contentLength
/-- roundtrip.go `RoundTrip`: `bodyLen != 0 || len(trailer) > 0`. -/
def cliHasBody (bodyLen ntrailer : Int) : Bool := decide (bodyLen ≠ 0 ∨ ntrailer > 0)
/-- server.go `responseCanHaveBody`. -/
def responseCanHaveBody (status : Int) : Bool :=
  if status ≥ 100 ∧ status ≤ 199 then false
  else if status = 204 then false
  else if status = 304 then false
  else true
/-- server.go `trimWriteLocked` on lengths: (accepted length, new bodyLenLeft, trimmed). -/
def trimWrite (bodyLenLeft blen : Int) : Int × Int × Bool :=
  if bodyLenLeft < 0 then (blen, bodyLenLeft, false)
  else
    let n := min blen bodyLenLeft
    (n, bodyLenLeft - n, decide (n ≠ blen))
/-- server.go `bodyBuffer.write` on lengths: number of bytes that go into the buffer. -/
def bbTake (blen bbcap bblen : Int) : Int := min blen (bbcap - bblen)
/-- server.go `Write`: `!rw.wroteHeader || len(b) <= cap(rw.bb)-len(rw.bb)`. -/
def rwBuffers (wroteHeader : Bool) (blen bbcap bblen : Int) : Bool :=
  !wroteHeader || decide (blen ≤ bbcap - bblen)
/-- server.go `defaultBodyBufferCap`. -/
def defaultBodyBufferCap : Nat := 512
/-- roundtrip.go `actualContentLength` (`noBody`: `req.Body == nil || req.Body == http.NoBody`). -/
def actualContentLength (noBody : Bool) (contentLength : Int) : Int :=
  if noBody then 0 else if contentLength ≠ 0 then contentLength else -1

/-! ## Frames and streams -/

inductive Frame (α : Type) where
  | headers (h : α)
  | data (p : List Nat)
  | unknown (t : Nat) (p : List Nat)   -- a frame type outside the known set: skipped by every reader
deriving Repr, DecidableEq

/-- How a QUIC stream direction ends: cleanly (`CloseWrite`, FIN) or by `Reset`. -/
inductive StreamEnd where
  | fin | reset
deriving Repr, DecidableEq

/-- The body carried by a frame list: DATA payloads up to the first HEADERS frame (the trailers). -/
def bodyOf {α : Type} : List (Frame α) → List Nat
  | [] => []
  | .headers _ :: _ => []
  | .data p :: fs => p ++ bodyOf fs
  | .unknown _ _ :: fs => bodyOf fs

/-- The trailers carried by a frame list (first HEADERS frame). -/
def trailerOf {α : Type} : List (Frame α) → Option α
  | [] => none
  | .headers h :: _ => some h
  | .data _ :: fs => trailerOf fs
  | .unknown _ _ :: fs => trailerOf fs

/-! ## bodyWriter -/

inductive WErr where
  | tooLong   -- "body longer than specified content length" (streamError H3_INTERNAL_ERROR)
  | short     -- "body shorter than specified content length"
deriving Repr, DecidableEq

structure BodyWriter where
  remain : Int          -- -1: content length not known
deriving Repr, DecidableEq

/-- Total size of the slices handed to one `write(ps...)` call. -/
def sumLens (ps : List (List Nat)) : Nat := (ps.map List.length).sum

/-- The `for _, p := range ps` loop of `bodyWriter.write` with every `st.Write` succeeding:
`n` is the running total and — as in the Go code — the running TOTAL is subtracted after every slice. -/
def accountLoop (remain : Int) (n : Nat) : List (List Nat) → Int
  | [] => remain
  | p :: ps => accountLoop (bwAccount remain ((n + p.length : Nat) : Int)) (n + p.length) ps

structure WriteRes where
  w : BodyWriter
  n : Nat
  err : Option WErr
  frame : Option (List Nat)     -- payload of the DATA frame put on the stream
deriving Repr, DecidableEq

/-- `bodyWriter.write(ps...)`. -/
def BodyWriter.write (w : BodyWriter) (ps : List (List Nat)) : WriteRes :=
  let size := sumLens ps
  if size = 0 then ⟨w, 0, none, none⟩
  else if bwTooLong w.remain size then ⟨w, 0, some .tooLong, none⟩
  else ⟨⟨accountLoop w.remain 0 ps⟩, size, none, some ps.flatten⟩

/-- `bodyWriter.Close` up to the error decision (trailers and CloseWrite are done by the callers below). -/
def BodyWriter.close (w : BodyWriter) : Option WErr :=
  if bwCloseShort w.remain then some .short else none

/-! ## The client's request body: `clientConn.writeBodyAndTrailer` -/

structure SendRes (α : Type) where
  frames : List (Frame α)
  ending : StreamEnd           -- exactly one terminal event: FIN or (after `rt.abort`) RESET
deriving Repr

/-- `io.Copy(&rt.reqBodyWriter, rt.reqBody)`: one `Write(p)` per non-empty chunk, stop at the first error.
Returns the writer, the DATA payloads put on the stream, and whether a write failed. -/
def copyChunks (w : BodyWriter) : List (List Nat) → BodyWriter × List (List Nat) × Bool
  | [] => (w, [], false)
  | c :: cs =>
    if c.length = 0 then copyChunks w cs   -- io.Copy never calls Write with 0 bytes
    else
      let r := w.write [c]
      match r.err with
      | some _ => (w, [], true)
      | none =>
        let (w', ps, e) := copyChunks r.w cs
        (w', (match r.frame with | some p => p :: ps | none => ps), e)

/-- `writeBodyAndTrailer`: copy, then `Close`; any error is `rt.abort` (stream reset, nothing more is
sent); otherwise the trailers (when the trailer map is non-empty) and FIN. -/
def sendBody {α : Type} (declared : Int) (chunks : List (List Nat)) (trailer : Option α) : SendRes α :=
  let (w, ps, failed) := copyChunks ⟨declared⟩ chunks
  let dataFrames : List (Frame α) := ps.map Frame.data
  if failed then ⟨dataFrames, .reset⟩
  else match w.close with
    | some _ => ⟨dataFrames, .reset⟩
    | none =>
      match trailer with
      | some t => ⟨dataFrames ++ [Frame.headers t], .fin⟩
      | none => ⟨dataFrames, .fin⟩

/-! ## bodyReader -/

inductive RRes where
  | ok          -- (n, nil)
  | eof         -- io.EOF: the body ended cleanly
  | errShort    -- streamError H3_MESSAGE_ERROR "body shorter than content-length"
  | errLong     -- streamError H3_MESSAGE_ERROR "body longer than content-length"
  | errReset    -- the peer reset the stream
deriving Repr, DecidableEq

structure BodyReader (α : Type) where
  remain : Int
  cur : Option (List Nat)        -- unread rest of the current DATA frame (`none`: st.lim = -1)
  rest : List (Frame α)          -- frames not yet looked at
  ending : StreamEnd
  err : Option RRes              -- sticky r.err (io.EOF is sticky too)
  trailer : Option α             -- trailers decoded so far
deriving Repr

def BodyReader.mk0 {α : Type} (declared : Int) (fs : List (Frame α)) (e : StreamEnd) : BodyReader α :=
  ⟨declared, none, fs, e, none, none⟩

inductive Seek (α : Type) where
  | err (e : RRes)
  | eof (t : Option α)
  | data (p : List Nat) (fs : List (Frame α))

/-- The `for r.st.lim < 0` loop of `bodyReader.Read`. -/
def seek {α : Type} (remain : Int) (e : StreamEnd) : List (Frame α) → Seek α
  | [] =>
    match e with
    | .fin => if brShort remain then .err .errShort else .eof none
    | .reset => .err .errReset
  | .data p :: fs => if brDataTooLong remain p.length then .err .errLong else .data p fs
  | .headers h :: _ => if brShort remain then .err .errShort else .eof (some h)
  | .unknown _ _ :: fs => seek remain e fs

/-- The tail of `Read`: hand out at most `k` bytes of the current frame. -/
def deliver {α : Type} (r : BodyReader α) (cur : List Nat) (k : Nat) : BodyReader α × List Nat × RRes :=
  let n := (brClamp k cur.length).toNat
  ({ r with cur := some (cur.drop n), remain := brAccount r.remain n }, cur.take n, .ok)

/-- `bodyReader.Read(p)`; `k` is the number of bytes the underlying stream is willing and able to
hand over for this call (`≤ len(p)`; the theorems quantify over every sequence of `k`s). -/
def BodyReader.read {α : Type} (r : BodyReader α) (k : Nat) : BodyReader α × List Nat × RRes :=
  match r.err with
  | some e => (r, [], e)
  | none =>
    match r.cur with
    | some (c :: cs) => deliver r (c :: cs) k
    | _ =>  -- lim = 0 (endFrame) or lim < 0: look for the next DATA frame
      match seek r.remain r.ending r.rest with
      | .err e => ({ r with cur := none, err := some e }, [], e)
      | .eof t => ({ r with cur := none, err := some .eof, trailer := t, rest := [] }, [], .eof)
      | .data p fs => deliver { r with rest := fs } p k

/-- A sequence of `Read` calls, stopping at the first result that is not `(n, nil)`.
`none`: the caller stopped reading before the end. -/
def BodyReader.run {α : Type} (r : BodyReader α) : List Nat → List Nat × Option RRes × Option α
  | [] => ([], none, r.trailer)
  | k :: ks =>
    match r.read k with
    | (r', bs, .ok) => let (bs', e, t) := r'.run ks; (bs ++ bs', e, t)
    | (r', _, e) => ([], some e, r'.trailer)

/-- `Request.Body` / `Response.Body` as chosen by the server / the client. -/
inductive BodyKind where
  | noBody                 -- http.NoBody: Read returns io.EOF at once, the stream is never looked at
  | reader (remain : Int)
deriving Repr, DecidableEq

def serverBodyKind (contentLength : Int) (ntrailer : Nat) : BodyKind :=
  if srvHasBody contentLength ntrailer then .reader contentLength else .noBody

def clientBodyKind (contentLength : Int) (isHead : Bool) (statusCode : Nat) (ntrailer : Nat) : BodyKind :=
  let bodyLen := cliBodyLen contentLength isHead statusCode
  if cliHasBody bodyLen ntrailer then .reader bodyLen else .noBody

def recvBody {α : Type} (k : BodyKind) (fs : List (Frame α)) (e : StreamEnd) (ks : List Nat) :
    List Nat × Option RRes × Option α :=
  match k with
  | .noBody => if ks.isEmpty then ([], none, none) else ([], some .eof, none)
  | .reader d => (BodyReader.mk0 d fs e).run ks

/-! ## responseWriter (server.go) -/

inductive Ev (α : Type) where
  | frame (f : Frame α)
  | respHeaders (status : Nat)     -- the final HEADERS frame of the response (fields: the snapshot)
  | infoHeaders (status : Nat)     -- an interim (1xx) HEADERS frame, flushed at once
  | flush
  | fin
deriving Repr, DecidableEq

inductive WTag where
  | nil | contentLength | bodyNotAllowed
deriving Repr, DecidableEq

structure RW (α : Type) where
  declared : Int                -- Content-Length in the handler's header map at WriteHeader time, -1 if none
  statusSet : Bool := false
  status : Nat := 0
  bodyLenLeft : Int := 0
  bb : List Nat := []
  wroteHeader : Bool := false
  cannotHaveBody : Bool         -- initially: request method is HEAD
  out : List (Ev α) := []       -- events so far (in order)

/-- `WriteHeader(status)` for a non-informational status. -/
def RW.writeHeader {α : Type} (rw : RW α) (status : Nat) : RW α :=
  if rw.statusSet then rw
  else { rw with statusSet := true, status := status,
                 bodyLenLeft := if rw.declared ≥ 0 then rw.declared else -1 }

/-- `writeHeaderLockedOnce`. -/
def RW.writeHeaderOnce {α : Type} (rw : RW α) : RW α :=
  if rw.wroteHeader then rw
  else { rw with cannotHaveBody := rw.cannotHaveBody || !responseCanHaveBody rw.status,
                 out := rw.out ++ [Ev.respHeaders rw.status], wroteHeader := true }

/-- `rw.bw.write(ps...)` with `bw.remain = -1`: one DATA frame unless the total size is 0. -/
def RW.bwWrite {α : Type} (rw : RW α) (ps : List (List Nat)) : RW α :=
  match ((⟨-1⟩ : BodyWriter).write ps).frame with
  | some p => { rw with out := rw.out ++ [Ev.frame (Frame.data p)] }
  | none => rw

/-- `responseWriter.Write(b)`: new state, `n`, error tag. -/
def RW.write {α : Type} (rw : RW α) (b : List Nat) : RW α × Nat × WTag :=
  let rw := rw.writeHeader 200
  if rw.status = 304 then (rw, 0, .bodyNotAllowed)
  else
    let (n, left, trimmed) := trimWrite rw.bodyLenLeft b.length
    let b := b.take n.toNat
    let rw := { rw with bodyLenLeft := left }
    let tag := if trimmed then WTag.contentLength else WTag.nil
    let initialBLen := b.length
    let buffers := rwBuffers rw.wroteHeader b.length defaultBodyBufferCap rw.bb.length
    let k := if buffers then (bbTake b.length defaultBodyBufferCap rw.bb.length).toNat else 0
    let rw := { rw with bb := rw.bb ++ b.take k }
    let b := b.drop k
    if buffers && b.isEmpty then (rw, initialBLen, tag)
    else
      let rw := rw.writeHeaderOnce
      if rw.cannotHaveBody then (rw, initialBLen, tag)
      else
        let rw := rw.bwWrite [rw.bb, b]
        ({ rw with bb := [] }, initialBLen, tag)

/-- `responseWriter.Flush()`. -/
def RW.flush {α : Type} (rw : RW α) : RW α :=
  let rw := (rw.writeHeader 200).writeHeaderOnce
  let rw := if rw.cannotHaveBody then rw else { (rw.bwWrite [rw.bb]) with bb := [] }
  { rw with out := rw.out ++ [Ev.flush] }

/-- `responseWriter.close()`: Flush, the trailers when the trailer map is non-empty, FIN. -/
def RW.close {α : Type} (rw : RW α) (trailer : Option α) : RW α :=
  let rw := rw.flush
  let tr : List (Ev α) := match trailer with | some t => [Ev.frame (Frame.headers t)] | none => []
  { rw with out := rw.out ++ tr ++ [Ev.fin] }

inductive HOp where
  | write (b : List Nat)
  | flush
deriving Repr, DecidableEq

def RW.runOps {α : Type} (rw : RW α) : List HOp → RW α × List (Nat × WTag)
  | [] => (rw, [])
  | .write b :: ops =>
    let (rw', n, t) := rw.write b
    let (rw'', rs) := rw'.runOps ops
    (rw'', (n, t) :: rs)
  | .flush :: ops => rw.flush.runOps ops

/-- A whole handler run: optional explicit `WriteHeader`, the ops, then `close` when the handler returns. -/
def respond {α : Type} (isHead : Bool) (declared : Int) (explicit : Option Nat) (ops : List HOp)
    (trailer : Option α) : List (Ev α) × List (Nat × WTag) :=
  let rw : RW α := { declared := declared, cannotHaveBody := isHead }
  let rw := match explicit with | some s => rw.writeHeader s | none => rw
  let (rw, rs) := rw.runOps ops
  ((rw.close trailer).out, rs)

/-- `WriteHeader(1xx)` calls made before the final status is set: `writeHeaderLocked` + `Flush` for
each; they change nothing else in the responseWriter. -/
def interimEvents {α : Type} (interim : List Nat) : List (Ev α) :=
  interim.flatMap fun st => [Ev.infoHeaders st, Ev.flush]

/-- A handler run that first sends the interim responses `interim` (e.g. 100, 103). -/
def respondInterim {α : Type} (isHead : Bool) (declared : Int) (interim : List Nat) (explicit : Option Nat)
    (ops : List HOp) (trailer : Option α) : List (Ev α) × List (Nat × WTag) :=
  let r := respond isHead declared explicit ops trailer
  (interimEvents interim ++ r.1, r.2)

/-- The response-header loop of `clientConn.RoundTrip` (roundtrip.go): every informational (1xx)
HEADERS frame is skipped (`continue`) — also a 100 the request did not ask for —, the first other
HEADERS frame is the response; what follows it is the body part. -/
def clientFinal {α : Type} : List (Ev α) → Option (Nat × List (Ev α))
  | [] => none
  | .respHeaders st :: es => some (st, es)
  | _ :: es => clientFinal es

/-- Frames of the response body part of an event list (everything after the response HEADERS). -/
def evFrames {α : Type} : List (Ev α) → List (Frame α)
  | [] => []
  | .frame f :: es => f :: evFrames es
  | _ :: es => evFrames es

def finCount {α : Type} (es : List (Ev α)) : Nat := (es.filter (fun e => match e with | .fin => true | _ => false)).length

/-- Bytes the handler's `Write` calls accepted (the `n` results), in order. -/
def acceptedBytes : List HOp → List (Nat × WTag) → List Nat
  | .write b :: ops, (n, _) :: rs => b.take n ++ acceptedBytes ops rs
  | .flush :: ops, rs => acceptedBytes ops rs
  | _, _ => []

/-! ## Byte-level message composition (stream.go framing) -/

open NetVerif.Model.VarintQuic

def frameTypeData : Nat := 0
def frameTypeHeaders : Nat := 1

/-- `writeVarint(type); writeVarint(len(payload)); Write(payload)`; `none`: "varint too large" panic. -/
def encFrame (t : Nat) (payload : List Nat) : Option (List Nat) :=
  match appendVarint t, appendVarint payload.length with
  | some a, some b => some (a ++ b ++ payload)
  | _, _ => none

/-- `readFrameHeader` + the whole payload (`none`: truncated). Returns type, payload, bytes consumed. -/
def decFrame (b : List Nat) : Option (Nat × List Nat × Nat) :=
  match consumeVarint b with
  | none => none
  | some (t, n1) =>
    match consumeVarint (b.drop n1) with
    | none => none
    | some (len, n2) =>
      let rest := (b.drop n1).drop n2
      if len > rest.length then none else some (t, rest.take len, n1 + n2 + len)

/-- Split a complete stream into raw frames (fuel = number of bytes: every frame consumes ≥ 2). -/
def decFrames : Nat → List Nat → Option (List (Nat × List Nat))
  | _, [] => some []
  | 0, _ :: _ => none
  | fuel + 1, b :: bs =>
    match decFrame (b :: bs) with
    | none => none
    | some (t, p, n) =>
      match decFrames fuel ((b :: bs).drop n) with
      | none => none
      | some fs => some ((t, p) :: fs)

/-- A message: field section, body, optional trailer section. -/
structure Msg (α : Type) where
  fields : α
  body : List Nat
  trailer : Option α
deriving Repr, DecidableEq

/-- Concatenation of encoded raw frames `(type, payload)`. -/
def encRaw : List (Nat × List Nat) → Option (List Nat)
  | [] => some []
  | (t, p) :: rs =>
    match encFrame t p, encRaw rs with
    | some a, some b => some (a ++ b)
    | _, _ => none

/-- The optional trailing HEADERS frame. -/
def trailerRaw {α : Type} (encF : α → List Nat) : Option α → List (Nat × List Nat)
  | some t => [(frameTypeHeaders, encF t)]
  | none => []

/-- Raw frames of a message: HEADERS, one DATA frame per chunk of the given chunking, optional trailing HEADERS. -/
def rawOfMsg {α : Type} (encF : α → List Nat) (fields : α) (chunks : List (List Nat)) (trailer : Option α) :
    List (Nat × List Nat) :=
  (frameTypeHeaders, encF fields) :: (chunks.map fun c => (frameTypeData, c)) ++ trailerRaw encF trailer

/-- `encode`. -/
def encodeMsg {α : Type} (encF : α → List Nat) (fields : α) (chunks : List (List Nat)) (trailer : Option α) :
    Option (List Nat) :=
  encRaw (rawOfMsg encF fields chunks trailer)

/-- Body and trailers out of the raw frames that follow the leading HEADERS frame. -/
def decRest {α : Type} (decF : List Nat → Option α) : List (Nat × List Nat) → Option (List Nat × Option α)
  | [] => some ([], none)
  | (t, p) :: fs =>
    if t = frameTypeData then
      match decRest decF fs with
      | some (b, tr) => some (p ++ b, tr)
      | none => none
    else if t = frameTypeHeaders then
      match decF p, fs with
      | some h, [] => some ([], some h)
      | _, _ => none
    else decRest decF fs

/-- `decode` of a complete stream. -/
def decodeMsg {α : Type} (decF : List Nat → Option α) (bytes : List Nat) : Option (Msg α) :=
  match decFrames bytes.length bytes with
  | some ((t, p) :: fs) =>
    if t = frameTypeHeaders then
      match decF p, decRest decF fs with
      | some h, some (b, tr) => some ⟨h, b, tr⟩
      | _, _ => none
    else none
  | _ => none

end NetVerif.Model.H3Body
