/-
Model of quic/packet_number.go: packet-number length selection, truncated
encoding and RFC 9000 A.3 decoding. Packet numbers are `Int` (Go: int64;
all values stay far below 2^63 for arguments in the documented ranges
`-1 ≤ largest < 2^62`, `0 ≤ pn < 2^62`, so no wrap-around is modelled).
`&^ mask` / `| truncated` are written arithmetically: for `expected ≥ 0` and
`0 ≤ truncated < win`, `(expected &^ (win-1)) | truncated =
expected - expected % win + truncated`.
-/
namespace NetVerif.Model.PacketNumber

def maxPacketNumber : Int := 4611686018427387903  -- 2^62 - 1

/-- `packetNumberLength(pnum, largestAck)`. -/
def pnLen (pnum largestAck : Int) : Int :=
  let d := pnum - largestAck
  if d < 128 then 1
  else if d < 32768 then 2
  else if d < 8388608 then 3
  else 4

/-- Window `1 << (8*n)` for the byte lengths that occur (1..4); other lengths are
outside the contract of the Go function and are not modelled (`0`). -/
def win (n : Int) : Int :=
  if n = 1 then 256
  else if n = 2 then 65536
  else if n = 3 then 16777216
  else if n = 4 then 4294967296
  else 0

/-- `decodePacketNumber(largest, truncated, numLenInBytes)` for
`largest ≥ -1`, `0 ≤ truncated < win n`, `n ∈ 1..4`. -/
def decodePN (largest truncated n : Int) : Int :=
  let expected := largest + 1
  let w := win n
  let hwin := w / 2
  let candidate := expected - expected % w + truncated
  if candidate ≤ expected - hwin ∧ candidate < 4611686018427387904 - w then candidate + w
  else if candidate > expected + hwin ∧ candidate ≥ w then candidate - w
  else candidate

/-- `appendPacketNumber(nil, pnum, largestAck)`: big-endian low bytes of `pnum`. -/
def appendPN (pnum largestAck : Int) : List Int :=
  let n := pnLen pnum largestAck
  if n = 1 then [pnum % 256]
  else if n = 2 then [pnum / 256 % 256, pnum % 256]
  else if n = 3 then [pnum / 65536 % 256, pnum / 256 % 256, pnum % 256]
  else [pnum / 16777216 % 256, pnum / 65536 % 256, pnum / 256 % 256, pnum % 256]

/-- Big-endian value of a byte list (what the packet parser hands to the decoder). -/
def beValue : List Int → Int
  | [] => 0
  | b :: rest => b * 256 ^ rest.length + beValue rest

end NetVerif.Model.PacketNumber
