import NetVerif.Model.VarintQuic
/-!
Model of the QUIC frame codecs of quic/packet_writer.go (`append*Frame`),
quic/packet_parser.go (`consume*Frame`) and the dispatcher
`parseDebugFrame` of quic/frame_debug.go.

Bytes are `Nat` (< 256) in `List Nat`.  Integer fields are `Nat`: Go `uint64`
fields directly, Go `int64`/`int` fields for their non-negative values (a
negative value converted with `uint64(x)` is ≥ 2^63 and makes `SizeVarint`
panic, exactly like a `Nat` ≥ 2^62 does here).

Writer side: `WR.panic` is a Go panic ("varint too large", "uint8-prefixed
bytes too large"), `WR.full` is `added == false`, `WR.added bs` are the bytes
appended to the packet.  `avail` is `w.avail()` (never negative in the writer).
Parser side: `none` is the `n = -1` result; `some (frame, n)` carries the
number of bytes consumed.  The parsers are written in "remaining input" style
(`b[n:]` is the remainder list) which is the same computation as the Go
offset arithmetic.
-/
namespace NetVerif.Model.QuicFrames
open NetVerif.Model.VarintQuic

/-! ### frame type bytes (tied to packet.go through Gen/C28.lean) -/
def ftPadding : Nat := 0x00
def ftPing : Nat := 0x01
def ftAck : Nat := 0x02
def ftAckECN : Nat := 0x03
def ftResetStream : Nat := 0x04
def ftStopSending : Nat := 0x05
def ftCrypto : Nat := 0x06
def ftNewToken : Nat := 0x07
def ftStreamBase : Nat := 0x08
def ftMaxData : Nat := 0x10
def ftMaxStreamData : Nat := 0x11
def ftMaxStreamsBidi : Nat := 0x12
def ftMaxStreamsUni : Nat := 0x13
def ftDataBlocked : Nat := 0x14
def ftStreamDataBlocked : Nat := 0x15
def ftStreamsBlockedBidi : Nat := 0x16
def ftStreamsBlockedUni : Nat := 0x17
def ftNewConnectionID : Nat := 0x18
def ftRetireConnectionID : Nat := 0x19
def ftPathChallenge : Nat := 0x1a
def ftPathResponse : Nat := 0x1b
def ftConnectionCloseTransport : Nat := 0x1c
def ftConnectionCloseApplication : Nat := 0x1d
def ftHandshakeDone : Nat := 0x1e
def streamOffBit : Nat := 4
def streamLenBit : Nat := 2
def streamFinBit : Nat := 1
def maxStreamsLimit : Nat := 1152921504606846976  -- 1 << 60

/-- A parsed frame (the fields the `consume*Frame` functions return). ACK ranges are
`(start, end)` half-open, in the order the parser reports them (highest first). -/
inductive Frame where
  | padding (n : Nat)
  | ping
  | ack (largest delay : Nat) (ranges : List (Nat × Nat)) (ecn : Nat × Nat × Nat)
  | resetStream (id code finalSize : Nat)
  | stopSending (id code : Nat)
  | crypto (off : Nat) (data : List Nat)
  | newToken (token : List Nat)
  | stream (id off : Nat) (fin : Bool) (data : List Nat)
  | maxData (max : Nat)
  | maxStreamData (id max : Nat)
  | maxStreams (uni : Bool) (max : Nat)
  | dataBlocked (max : Nat)
  | streamDataBlocked (id max : Nat)
  | streamsBlocked (uni : Bool) (max : Nat)
  | newConnectionID (seq retire : Nat) (cid token : List Nat)
  | retireConnectionID (seq : Nat)
  | pathChallenge (data : List Nat)
  | pathResponse (data : List Nat)
  | connCloseTransport (code frameType : Nat) (reason : List Nat)
  | connCloseApp (code : Nat) (reason : List Nat)
  | handshakeDone
  deriving Repr, DecidableEq

/-! ### remaining-input readers -/

/-- `v, n := ConsumeVarint(b); b = b[n:]`. -/
def takeVarint (b : List Nat) : Option (Nat × List Nat) :=
  match consumeVarint b with
  | some (v, n) => some (v, b.drop n)
  | none => none

/-- `p, n := ConsumeVarintBytes(b); b = b[n:]`. -/
def takeVarintBytes (b : List Nat) : Option (List Nat × List Nat) :=
  match consumeVarintBytes b with
  | some (p, n) => some (p, b.drop n)
  | none => none

/-- `p, n := ConsumeUint8Bytes(b); b = b[n:]`. -/
def takeUint8Bytes (b : List Nat) : Option (List Nat × List Nat) :=
  match consumeUint8Bytes b with
  | some (p, n) => some (p, b.drop n)
  | none => none

/-! ### encoders: the byte layout each `append*Frame` produces when there is room
(`none` = Go panic in `AppendVarint` / `AppendUint8Bytes`) -/

def enc1 (t a : Nat) : Option (List Nat) :=
  match appendVarint a with
  | some x => some (t :: x)
  | none => none

def enc2 (t a b : Nat) : Option (List Nat) :=
  match appendVarint a, appendVarint b with
  | some x, some y => some (t :: (x ++ y))
  | _, _ => none

def enc3 (t a b c : Nat) : Option (List Nat) :=
  match appendVarint a, appendVarint b, appendVarint c with
  | some x, some y, some z => some (t :: (x ++ (y ++ z)))
  | _, _, _ => none

def encResetStream (id code fs : Nat) := enc3 ftResetStream id code fs
def encStopSending (id code : Nat) := enc2 ftStopSending id code
def encMaxData (m : Nat) := enc1 ftMaxData m
def encMaxStreamData (id m : Nat) := enc2 ftMaxStreamData id m
def encMaxStreams (uni : Bool) (m : Nat) := enc1 (if uni then ftMaxStreamsUni else ftMaxStreamsBidi) m
def encDataBlocked (m : Nat) := enc1 ftDataBlocked m
def encStreamDataBlocked (id m : Nat) := enc2 ftStreamDataBlocked id m
def encStreamsBlocked (uni : Bool) (m : Nat) :=
  enc1 (if uni then ftStreamsBlockedUni else ftStreamsBlockedBidi) m
def encRetireConnectionID (seq : Nat) := enc1 ftRetireConnectionID seq

def encNewToken (token : List Nat) : Option (List Nat) :=
  match appendVarintBytes token with
  | some x => some (ftNewToken :: x)
  | none => none

/-- CRYPTO with exactly `data` (the writer may truncate first). -/
def encCrypto (off : Nat) (data : List Nat) : Option (List Nat) :=
  match appendVarint off, appendVarintBytes data with
  | some x, some y => some (ftCrypto :: (x ++ y))
  | _, _ => none

/-- STREAM with explicit OFF/LEN/FIN bits (the writer always sets LEN, and OFF iff off ≠ 0).
Without the OFF bit the offset field is absent (the frame then means offset 0); without
the LEN bit the data extends to the end of the packet. -/
def encStream (offBit lenBit fin : Bool) (id off : Nat) (data : List Nat) : Option (List Nat) :=
  let typ := ftStreamBase + (if offBit then streamOffBit else 0) + (if lenBit then streamLenBit else 0)
    + (if fin then streamFinBit else 0)
  match appendVarint id, (if offBit then appendVarint off else some []),
        (if lenBit then appendVarintBytes data else some data) with
  | some x, some y, some z => some (typ :: (x ++ (y ++ z)))
  | _, _, _ => none

def encNewConnectionID (seq retire : Nat) (cid token : List Nat) : Option (List Nat) :=
  match appendVarint seq, appendVarint retire, appendUint8Bytes cid with
  | some x, some y, some z => some (ftNewConnectionID :: (x ++ (y ++ (z ++ token))))
  | _, _, _ => none

def encPathChallenge (data : List Nat) : List Nat := ftPathChallenge :: data
def encPathResponse (data : List Nat) : List Nat := ftPathResponse :: data

def encConnCloseTransport (code frameType : Nat) (reason : List Nat) : Option (List Nat) :=
  match appendVarint code, appendVarint frameType, appendVarintBytes reason with
  | some x, some y, some z => some (ftConnectionCloseTransport :: (x ++ (y ++ z)))
  | _, _, _ => none

def encConnCloseApp (code : Nat) (reason : List Nat) : Option (List Nat) :=
  match appendVarint code, appendVarintBytes reason with
  | some x, some y => some (ftConnectionCloseApplication :: (x ++ y))
  | _, _ => none

/-! ### the packet writer's `append*Frame` functions -/

inductive WR where
  | panic
  | full
  | added (bytes : List Nat)
  deriving Repr, DecidableEq

/-- The common shape: `if w.avail() < <exact encoded size> { return false }; append…`.
The size expression calls `SizeVarint` on every varint field, so it panics exactly when
the encoder would. -/
def writeSized (avail : Nat) (e : Option (List Nat)) : WR :=
  match e with
  | none => WR.panic
  | some bs => if avail < bs.length then WR.full else WR.added bs

def writePing (avail : Nat) : WR := if avail < 1 then WR.full else WR.added [ftPing]
def writeHandshakeDone (avail : Nat) : WR := if avail < 1 then WR.full else WR.added [ftHandshakeDone]
def writeResetStream (avail id code fs : Nat) : WR := writeSized avail (encResetStream id code fs)
def writeStopSending (avail id code : Nat) : WR := writeSized avail (encStopSending id code)
def writeNewToken (avail : Nat) (token : List Nat) : WR := writeSized avail (encNewToken token)
def writeMaxData (avail m : Nat) : WR := writeSized avail (encMaxData m)
def writeMaxStreamData (avail id m : Nat) : WR := writeSized avail (encMaxStreamData id m)
def writeMaxStreams (avail : Nat) (uni : Bool) (m : Nat) : WR := writeSized avail (encMaxStreams uni m)
def writeDataBlocked (avail m : Nat) : WR := writeSized avail (encDataBlocked m)
def writeStreamDataBlocked (avail id m : Nat) : WR := writeSized avail (encStreamDataBlocked id m)
def writeStreamsBlocked (avail : Nat) (uni : Bool) (m : Nat) : WR :=
  writeSized avail (encStreamsBlocked uni m)
def writeRetireConnectionID (avail seq : Nat) : WR := writeSized avail (encRetireConnectionID seq)
def writeConnCloseTransport (avail code ft : Nat) (reason : List Nat) : WR :=
  writeSized avail (encConnCloseTransport code ft reason)
def writeConnCloseApp (avail code : Nat) (reason : List Nat) : WR :=
  writeSized avail (encConnCloseApp code reason)

/-- `appendPathChallengeFrame` / `appendPathResponseFrame` (`data` is a `[8]byte`). -/
def writePath (avail t : Nat) (data : List Nat) : WR :=
  if avail < 9 then WR.full else WR.added (t :: data)

/-- `appendNewConnectionIDFrame`: the size check uses `1+len(connID)` and happens before
`AppendUint8Bytes` can panic on a connection ID longer than 255 bytes. -/
def writeNewConnectionID (avail seq retire : Nat) (cid token : List Nat) : WR :=
  match sizeVarint seq, sizeVarint retire with
  | some a, some b =>
    if avail < 1 + a + b + 1 + cid.length + token.length then WR.full
    else match encNewConnectionID seq retire cid token with
      | some bs => WR.added bs
      | none => WR.panic
  | _, _ => WR.panic

/-- `appendCryptoFrame(off, len(data))` followed by `copy(b, data)`: the data is truncated
to the room that is left. -/
def writeCrypto (avail off : Nat) (data : List Nat) : WR :=
  match sizeVarint off, sizeVarint data.length with
  | some a, some b =>
    if avail ≤ 1 + a + b then WR.full
    else
      let max := avail - (1 + a + b)
      let size := if max < data.length then max else data.length
      match encCrypto off (data.take size) with
      | some bs => WR.added bs
      | none => WR.panic
  | _, _ => WR.panic

/-- `appendStreamFrame(id, off, len(data), fin)` followed by `copy(b, data)`. -/
def writeStream (avail id off : Nat) (fin : Bool) (data : List Nat) : WR :=
  match sizeVarint id, (if off ≠ 0 then sizeVarint off else some 0), sizeVarint data.length with
  | some a, some b, some c =>
    if avail < 1 + a + b + c ∨ (avail = 1 + a + b + c ∧ data.length > 0) then WR.full
    else
      let max := avail - (1 + a + b + c)
      let size := if max < data.length then max else data.length
      let fin' := if max < data.length then false else fin
      match encStream (off ≠ 0) true fin' id off (data.take size) with
      | some bs => WR.added bs
      | none => WR.panic
  | _, _, _ => WR.panic

/-- `debugFramePadding.write` with `to == 0`: up to `size` PADDING bytes. -/
def writePadding (avail size : Nat) : WR :=
  if avail = 0 then WR.full else WR.added (List.replicate (min size avail) ftPadding)

/-- `appendPaddingTo(n)` on an empty packet buffer (`len(w.b) = 0`, `pktLim = avail`):
number of PADDING bytes appended (`aeadOverhead` = 16 is subtracted from `n`). -/
def paddingTo (avail : Nat) (n : Int) : Nat :=
  let lim : Int := if n - 16 < (avail : Int) then n - 16 else (avail : Int)
  if lim ≤ 0 then 0 else lim.toNat

/-! #### ACK -/

/-- The loop of `appendAckFrame` over the older ranges (given highest first), `prevStart`
being the start of the range written last. Returns the bytes and the final range count. -/
def ackMore (ecnLen : Nat) : List (Nat × Nat) → Nat → Nat → Nat → Option (List Nat × Nat)
  | [], _, _, count => some ([], count)
  | (s, e) :: rs, prevStart, avail, count =>
    -- gap = prevStart - e - 1, size = e - s - 1 as uint64: negative values make SizeVarint panic
    if prevStart < e + 1 ∨ e < s + 1 then none
    else
      match appendVarint (prevStart - e - 1), appendVarint (e - s - 1) with
      | some g, some z =>
        if avail < g.length + z.length + ecnLen ∨ count > 62 then some ([], count)
        else
          match ackMore ecnLen rs s (avail - (g.length + z.length)) (count + 1) with
          | some (bs, c) => some (g ++ (z ++ bs), c)
          | none => none
      | _, _ => none

def ecnBytes (ecn : Nat × Nat × Nat) : Option (List Nat) :=
  if ecn = (0, 0, 0) then some []
  else
    match appendVarint ecn.1, appendVarint ecn.2.1, appendVarint ecn.2.2 with
    | some a, some b, some c => some (a ++ (b ++ c))
    | _, _, _ => none

/-- `appendAckFrame(seen, delay, ecn)`; `seen` is the rangeset, lowest range first, ranges
`(start, end)` half-open; `ecn = (t0, t1, ce)`. -/
def writeAck (avail : Nat) (seen : List (Nat × Nat)) (delay : Nat) (ecn : Nat × Nat × Nat) : WR :=
  match seen.reverse with
  | [] => WR.full
  | (s, e) :: older =>
    if e < 1 ∨ e < s + 1 then WR.panic   -- uint64(seen.max()) / uint64(size-1) of a negative number
    else
      match ecnBytes ecn, appendVarint (e - 1), appendVarint delay, appendVarint (e - s - 1) with
      | some eb, some l, some d, some f =>
        let hdr := 1 + l.length + d.length + 1 + f.length
        if avail < hdr + eb.length then WR.full
        else
          match ackMore eb.length older s (avail - hdr) 0 with
          | some (more, count) =>
            WR.added ((if ecn = (0, 0, 0) then ftAck else ftAckECN) :: (l ++ (d ++ (count :: (f ++ (more ++ eb))))))
          | none => WR.panic
      | _, _, _, _ => WR.panic

/-! ### parsers -/

/-- The `(gap, length)` pairs after the first range of an ACK frame; `prevMin` is the
smallest packet number of the previous range. -/
def ackTail : Nat → Nat → List Nat → Option (List (Nat × Nat) × List Nat)
  | 0, _, b => some ([], b)
  | k + 1, prevMin, b =>
    match takeVarint b with
    | none => none
    | some (gap, b1) =>
      match takeVarint b1 with
      | none => none
      | some (len, b2) =>
        -- rangeMax = prevMin - gap - 2 ; rangeMin = rangeMax - len ; reject if negative
        if prevMin < gap + 2 then none
        else if prevMin - gap - 2 < len then none
        else
          match ackTail k (prevMin - gap - 2 - len) b2 with
          | none => none
          | some (rs, r) => some ((prevMin - gap - 2 - len, prevMin - gap - 2 + 1) :: rs, r)

/-- `consumeAckFrame` on `t :: b` where `t` is the type byte: largest, delay, ranges
(highest first, as the callback receives them), ECN counts, rest. -/
def consumeAck (t : Nat) (b : List Nat) : Option (Nat × Nat × List (Nat × Nat) × (Nat × Nat × Nat) × List Nat) :=
  match takeVarint b with
  | none => none
  | some (largest, b1) =>
    match takeVarint b1 with
    | none => none
    | some (delay, b2) =>
      match takeVarint b2 with
      | none => none
      | some (count, b3) =>
        match takeVarint b3 with
        | none => none
        | some (len, b4) =>
          if largest < len then none
          else
            match ackTail count (largest - len) b4 with
            | none => none
            | some (rs, b5) =>
              let ranges := (largest - len, largest + 1) :: rs
              if t ≠ ftAckECN then some (largest, delay, ranges, (0, 0, 0), b5)
              else
                match takeVarint b5 with
                | none => none
                | some (t0, b6) =>
                  match takeVarint b6 with
                  | none => none
                  | some (t1, b7) =>
                    match takeVarint b7 with
                    | none => none
                    | some (ce, b8) => some (largest, delay, ranges, (t0, t1, ce), b8)

def parse1 (b : List Nat) (k : Nat → Frame) : Option (Frame × List Nat) :=
  match takeVarint b with
  | some (a, r) => some (k a, r)
  | none => none

def parse2 (b : List Nat) (k : Nat → Nat → Frame) : Option (Frame × List Nat) :=
  match takeVarint b with
  | none => none
  | some (a, r1) =>
    match takeVarint r1 with
    | some (c, r2) => some (k a c, r2)
    | none => none

def parse3 (b : List Nat) (k : Nat → Nat → Nat → Frame) : Option (Frame × List Nat) :=
  match takeVarint b with
  | none => none
  | some (a, r1) =>
    match takeVarint r1 with
    | none => none
    | some (c, r2) =>
      match takeVarint r2 with
      | some (d, r3) => some (k a c d, r3)
      | none => none

def countPadding : List Nat → Nat
  | 0 :: rest => countPadding rest + 1
  | _ => 0

/-- `consumeStreamFrame` on `t :: b`. -/
def consumeStream (t : Nat) (b : List Nat) : Option (Frame × List Nat) :=
  match takeVarint b with
  | none => none
  | some (id, b1) =>
    match (if t / 4 % 2 = 1 then takeVarint b1 else some (0, b1)) with
    | none => none
    | some (off, b2) =>
      match (if t / 2 % 2 = 1 then takeVarintBytes b2 else some (b2, [])) with
      | none => none
      | some (data, b3) =>
        if off + data.length ≥ 4611686018427387904 then none
        else some (Frame.stream id off (t % 2 = 1) data, b3)

/-- `consumeNewConnectionIDFrame` (after the type byte). The connection ID has an 8-bit length
(`ConsumeUint8Bytes`), as in the writer and RFC 9000 §19.15. -/
def consumeNewConnectionID (b : List Nat) : Option (Frame × List Nat) :=
  match takeVarint b with
  | none => none
  | some (seq, b1) =>
    match takeVarint b1 with
    | none => none
    | some (retire, b2) =>
      if seq < retire then none
      else
        match takeUint8Bytes b2 with
        | none => none
        | some (cid, b3) =>
          if cid.length < 1 ∨ cid.length > 20 then none
          else if b3.length < 16 then none
          else some (Frame.newConnectionID seq retire cid (b3.take 16), b3.drop 16)

def consumePath (b : List Nat) (k : List Nat → Frame) : Option (Frame × List Nat) :=
  if b.length < 8 then none else some (k (b.take 8), b.drop 8)

/-- Frame body parser: `t` is the type byte `b[0]`, `b` the bytes after it. -/
def parseBody (t : Nat) (b : List Nat) : Option (Frame × List Nat) :=
  if t = ftPadding then
    some (Frame.padding (countPadding b + 1), b.drop (countPadding b))
  else if t = ftPing then some (Frame.ping, b)
  else if t = ftAck ∨ t = ftAckECN then
    match consumeAck t b with
    | some (largest, delay, ranges, ecn, r) => some (Frame.ack largest delay ranges ecn, r)
    | none => none
  else if t = ftResetStream then parse3 b Frame.resetStream
  else if t = ftStopSending then parse2 b Frame.stopSending
  else if t = ftCrypto then
    match takeVarint b with
    | none => none
    | some (off, r1) =>
      match takeVarintBytes r1 with
      | some (data, r2) => some (Frame.crypto off data, r2)
      | none => none
  else if t = ftNewToken then
    match takeVarintBytes b with
    | none => none
    | some (tok, r) => if tok.length = 0 then none else some (Frame.newToken tok, r)
  else if 8 ≤ t ∧ t ≤ 15 then consumeStream t b
  else if t = ftMaxData then parse1 b Frame.maxData
  else if t = ftMaxStreamData then parse2 b Frame.maxStreamData
  else if t = ftMaxStreamsBidi ∨ t = ftMaxStreamsUni then
    match takeVarint b with
    | none => none
    | some (v, r) =>
      if v > maxStreamsLimit then none else some (Frame.maxStreams (t = ftMaxStreamsUni) v, r)
  else if t = ftDataBlocked then parse1 b Frame.dataBlocked
  else if t = ftStreamDataBlocked then parse2 b Frame.streamDataBlocked
  else if t = ftStreamsBlockedBidi ∨ t = ftStreamsBlockedUni then
    match takeVarint b with
    | none => none
    | some (v, r) =>
      if v > maxStreamsLimit then none else some (Frame.streamsBlocked (t = ftStreamsBlockedUni) v, r)
  else if t = ftNewConnectionID then consumeNewConnectionID b
  else if t = ftRetireConnectionID then parse1 b Frame.retireConnectionID
  else if t = ftPathChallenge then consumePath b Frame.pathChallenge
  else if t = ftPathResponse then consumePath b Frame.pathResponse
  else if t = ftConnectionCloseTransport then
    match takeVarint b with
    | none => none
    | some (code, r1) =>
      match takeVarint r1 with
      | none => none
      | some (ft, r2) =>
        match takeVarintBytes r2 with
        | some (reason, r3) => some (Frame.connCloseTransport code ft reason, r3)
        | none => none
  else if t = ftConnectionCloseApplication then
    match takeVarint b with
    | none => none
    | some (code, r1) =>
      match takeVarintBytes r1 with
      | some (reason, r2) => some (Frame.connCloseApp code reason, r2)
      | none => none
  else if t = ftHandshakeDone then some (Frame.handshakeDone, b)
  else none

/-- `parseDebugFrame` up to the presentation of ACK ranges: frame and bytes consumed. -/
def parseFrame (b : List Nat) : Option (Frame × Nat) :=
  match b with
  | [] => none
  | t :: rest =>
    match parseBody t rest with
    | some (f, r) => some (f, b.length - r.length)
    | none => none

/-! ### `parseDebugFrameAck`'s range reversal (in-place swap loop) -/

/-- swap elements `i` and `j` of a list (no-op when out of range). -/
def swapAt {α : Type} (l : List α) (i j : Nat) : List α :=
  match l[i]?, l[j]? with
  | some a, some b => (l.set i b).set j a
  | _, _ => l

/-- The loop `for i := 0; i < len/2; i++ { j := len-1-i; swap(i, j) }`. -/
def debugReverse {α : Type} (l : List α) : List α :=
  (List.range (l.length / 2)).foldl (fun acc i => swapAt acc i (l.length - 1 - i)) l

end NetVerif.Model.QuicFrames
