import NetVerif.Model.H3Stream
import NetVerif.Model.QpackStatic
/-
Model of internal/http3/qpack.go, qpack_encode.go, qpack_decode.go,
qpack_static.go: RFC 7541 prefixed integers and string literals, the three
QPACK field-line representations, the static-table-only encoder and the decoder
loop (Required Insert Count / Base prefix, pseudo-header ordering).

Strings are byte lists.  The Huffman code lives outside the anchored files
(`hpack.HuffmanEncodeLength / AppendHuffmanString / HuffmanDecodeToString`); it
is a parameter `H : Huff` of every function that touches string literals.  The
theorems assume `H.dec (H.enc s) = some s` and `(H.enc s).length = H.encLen s`;
the driver instantiates `H` with an executable codec over the extracted table.
-/
namespace NetVerif.Model.Qpack
open NetVerif.Model.H3Stream

structure Huff where
  encLen : List Nat → Nat               -- hpack.HuffmanEncodeLength
  enc : List Nat → List Nat             -- hpack.AppendHuffmanString(nil, s)
  dec : List Nat → Option (List Nat)    -- hpack.HuffmanDecodeToString (none = error)

/-- A field line as seen by the encoder's caller / the decoder's callback. -/
structure Field where
  never : Bool          -- itype = neverIndex
  name : List Nat
  value : List Nat
  deriving DecidableEq, Repr

/-! ### Encoder side -/

/-- `binary.AppendUvarint(nil, v)`. -/
def appendUvarint (v : Nat) : List Nat :=
  if h : v < 128 then [v] else (v % 128 + 128) :: appendUvarint (v / 128)
termination_by v
decreasing_by omega

/-- `appendPrefixedInt(nil, firstByte, prefixLen, i)`; `firstByte` has its low `p` bits clear,
so `firstByte | byte(u)` is `firstByte + u`. -/
def appendPrefixedInt (first p v : Nat) : List Nat :=
  if v < 2 ^ p - 1 then [first + v]
  else (first + (2 ^ p - 1)) :: appendUvarint (v - (2 ^ p - 1))

/-- `appendPrefixedString(nil, firstByte, prefixLen, s)`. -/
def appendPrefixedString (H : Huff) (first p : Nat) (s : List Nat) : List Nat :=
  if H.encLen s < s.length then
    appendPrefixedInt (first + 2 ^ p) p (H.encLen s) ++ H.enc s
  else appendPrefixedInt first p s.length ++ s

/-- `appendIndexedFieldLine(nil, staticTable, index)`. -/
def appendIndexedFieldLine (index : Nat) : List Nat := appendPrefixedInt (128 + 64) 6 index

def nbit (never : Bool) (bit : Nat) : Nat := if never then bit else 0

/-- `appendLiteralFieldLineWithNameReference(nil, staticTable, itype, nameIndex, value)`. -/
def appendLiteralNameRef (H : Huff) (never : Bool) (nameIndex : Nat) (value : List Nat) : List Nat :=
  appendPrefixedInt (64 + nbit never 32 + 16) 4 nameIndex ++ appendPrefixedString H 0 7 value

/-- `appendLiteralFieldLineWithLiteralName(nil, itype, name, value)`. -/
def appendLiteralLiteralName (H : Huff) (never : Bool) (name value : List Nat) : List Nat :=
  appendPrefixedString H (32 + nbit never 16) 3 name ++ appendPrefixedString H 0 7 value

/-- `httpcommon.LowerHeader`: lower-cased name if it is printable ASCII. -/
def lowerByte (b : Nat) : Nat := if 65 ≤ b ∧ b ≤ 90 then b + 32 else b
def isAsciiPrint (s : List Nat) : Bool := s.all fun b => 32 ≤ b && b ≤ 126
def lowerHeader (s : List Nat) : Option (List Nat) :=
  if isAsciiPrint s then some (s.map lowerByte) else none

/-- `staticTableByNameValue[{name,value}]` as built by `initStaticTableMaps` (last index wins). -/
def lookupNameValueAux (name value : List Nat) : List (List Nat × List Nat) → Nat → Option Nat → Option Nat
  | [], _, r => r
  | e :: t, i, r => lookupNameValueAux name value t (i + 1) (if e.1 = name ∧ e.2 = value then some i else r)
def lookupNameValue (tbl : List (List Nat × List Nat)) (name value : List Nat) : Option Nat :=
  lookupNameValueAux name value tbl 0 none

/-- `staticTableByName[name]` (first index wins). -/
def lookupNameAux (name : List Nat) : List (List Nat × List Nat) → Nat → Option Nat
  | [], _ => none
  | e :: t, i => if e.1 = name then some i else lookupNameAux name t (i + 1)
def lookupName (tbl : List (List Nat × List Nat)) (name : List Nat) : Option Nat :=
  lookupNameAux name tbl 0

/-- The body of the callback passed to `headers` in `qpackEncoder.encode`. -/
def encodeField (H : Huff) (tbl : List (List Nat × List Nat)) (f : Field) : List Nat :=
  match lowerHeader f.name with
  | none => []
  | some name =>
    match (if f.never then none else lookupNameValue tbl name f.value) with
    | some i => appendIndexedFieldLine i
    | none =>
      match lookupName tbl name with
      | some i => appendLiteralNameRef H f.never i f.value
      | none => appendLiteralLiteralName H f.never name f.value

def encodeFields (H : Huff) (tbl : List (List Nat × List Nat)) : List Field → List Nat
  | [] => []
  | f :: fs => encodeField H tbl f ++ encodeFields H tbl fs

/-- `qpackEncoder.encode`. -/
def encode (H : Huff) (tbl : List (List Nat × List Nat)) (fs : List Field) : List Nat :=
  appendPrefixedInt 0 8 0 ++ appendPrefixedInt 0 7 0 ++ encodeFields H tbl fs

def staticTable := NetVerif.Model.QpackStatic.staticTable

/-! ### Decoder side -/

def qpackErr : Err := .plain cQpackDecompressionFailed

/-- `binary.ReadUvarint(st)` with `k` iterations left (`k = 10` initially), accumulator `x`,
multiplier `m = 2^s`. Every error is mapped to one value by the only caller. -/
def readUvarintAux : Nat → Nat → Nat → St → Out Nat
  | 0, _, _, s => .err .other s
  | k + 1, x, m, s =>
    match readByte s with
    | .ok b s1 =>
      if b < 128 then
        if k = 0 ∧ b > 1 then .err .other s1 else .ok (x + b * m) s1
      else readUvarintAux k (x + (b - 128) * m) (m * 128) s1
    | .err e s1 => .err e s1
    | .panic => .panic
    | .hang => .hang

def readUvarint (s : St) : Out Nat := readUvarintAux 10 0 1 s

def maxInt64 : Nat := 9223372036854775807

/-- `readPrefixedIntWithByte(firstByte, prefixLen)`. -/
def readPrefixedIntWithByte (s : St) (first p : Nat) : Out Nat :=
  let mask := 2 ^ p - 1
  if first % 2 ^ p ≠ mask then .ok (first % 2 ^ p) s else
  match readUvarint s with
  | .ok v s1 => if v > maxInt64 - mask then .err qpackErr s1 else .ok (v + mask) s1
  | .err _ s1 => .err qpackErr s1
  | .panic => .panic
  | .hang => .hang

/-- `readPrefixedInt(prefixLen)`: first byte and value. -/
def readPrefixedInt (s : St) (p : Nat) : Out (Nat × Nat) :=
  match readByte s with
  | .ok b s1 => (readPrefixedIntWithByte s1 b p).bind fun v s2 => .ok (b, v) s2
  | .err _ s1 => .err qpackErr s1
  | .panic => .panic
  | .hang => .hang

/-- `readPrefixedStringWithByte(firstByte, prefixLen)`.
The repaired code reads the literal with `io.ReadAll(io.LimitReader(st, size))` and rejects a short
result; on this stream model that consumes the same bytes and succeeds/fails exactly like
`io.ReadFull` (`readFull`). What changed is the allocation: the buffer starts at 512 bytes and grows
only when full, so its capacity is at most `2 * (bytes obtained) + 512`; that bound is what `allocs`
records (together with the bytes of the stream not yet consumed). -/
def readPrefixedStringWithByte (H : Huff) (s : St) (first p : Nat) : Out (List Nat) :=
  match readPrefixedIntWithByte s first p with
  | .ok size s1 =>
    if s1.lim ≥ 0 ∧ (size : Int) > s1.lim then .err qpackErr s1 else
    let s2 := { s1 with allocs := (2 * min size s1.data.length + 512, s1.data.length) :: s1.allocs }
    (match readFull s2 size with
     | .ok data s3 =>
       if first / 2 ^ p % 2 = 1 then
         (match H.dec data with
          | some str => .ok str s3
          | none => .err qpackErr s3)
       else .ok data s3
     | .err _ s3 => .err qpackErr s3
     | .panic => .panic
     | .hang => .hang)
  | .err _ s1 => .err qpackErr s1
  | .panic => .panic
  | .hang => .hang

/-- `readPrefixedString(prefixLen)`. -/
def readPrefixedString (H : Huff) (s : St) (p : Nat) : Out (Nat × List Nat) :=
  match readByte s with
  | .ok b s1 => (readPrefixedStringWithByte H s1 b p).bind fun str s2 => .ok (b, str) s2
  | .err _ s1 => .err qpackErr s1
  | .panic => .panic
  | .hang => .hang

/-- `staticTableEntry(index)`. -/
def staticTableEntry (tbl : List (List Nat × List Nat)) (index : Nat) : Option (List Nat × List Nat) :=
  tbl[index]?

/-- `decodeIndexedFieldLine(b)`. -/
def decodeIndexedFieldLine (tbl : List (List Nat × List Nat)) (s : St) (b : Nat) : Out Field :=
  (readPrefixedIntWithByte s b 6).bind fun index s1 =>
  if b / 64 % 2 = 1 then
    match staticTableEntry tbl index with
    | some ent => .ok ⟨false, ent.1, ent.2⟩ s1
    | none => .err qpackErr s1
  else .err .other s1

/-- `decodeLiteralFieldLineWithNameReference(b)`. -/
def decodeLiteralNameRef (H : Huff) (tbl : List (List Nat × List Nat)) (s : St) (b : Nat) : Out Field :=
  (readPrefixedIntWithByte s b 4).bind fun nameIndex s1 =>
  if b / 16 % 2 = 1 then
    match staticTableEntry tbl nameIndex with
    | some ent =>
      (readPrefixedString H s1 7).bind fun r s2 => .ok ⟨b / 32 % 2 = 1, ent.1, r.2⟩ s2
    | none => .err qpackErr s1
  else .err .other s1

/-- `decodeLiteralFieldLineWithLiteralName(b)`. -/
def decodeLiteralLiteralName (H : Huff) (s : St) (b : Nat) : Out Field :=
  (readPrefixedStringWithByte H s b 3).bind fun name s1 =>
  (readPrefixedString H s1 7).bind fun r s2 => .ok ⟨b / 16 % 2 = 1, name, r.2⟩ s2

/-- One field line, dispatched on `bits.LeadingZeros8(firstByte)`.  For a first byte below 8
no case of the Go switch matches and the (empty) name is rejected by the caller. -/
def decodeFieldLine (H : Huff) (tbl : List (List Nat × List Nat)) (s : St) (b : Nat) : Out Field :=
  if b ≥ 128 then decodeIndexedFieldLine tbl s b
  else if b ≥ 64 then decodeLiteralNameRef H tbl s b
  else if b ≥ 32 then decodeLiteralLiteralName H s b
  else if b ≥ 8 then .err .other s
  else .ok ⟨false, [], []⟩ s

/-- Result of a decode: the field lines handed to the callback, in order, and how it ended. -/
structure DecResult where
  fields : List Field
  final : Out Unit

/-- The `for st.lim > 0` loop of `qpackDecoder.decode` (callback never fails). -/
def decodeLoop (H : Huff) (tbl : List (List Nat × List Nat)) : Nat → St → Bool → List Field → DecResult
  | 0, _, _, acc => ⟨acc, .hang⟩
  | fuel + 1, s, sawNonPseudo, acc =>
    if s.lim > 0 then
      match readByte s with
      | .ok b s1 =>
        (match decodeFieldLine H tbl s1 b with
         | .ok f s2 =>
           (match f.name with
            | [] => ⟨acc, .err (.plain cMessageError) s2⟩
            | c :: _ =>
              if c = 58 then
                if sawNonPseudo then ⟨acc, .err (.plain cMessageError) s2⟩
                else decodeLoop H tbl fuel s2 sawNonPseudo (acc ++ [f])
              else decodeLoop H tbl fuel s2 true (acc ++ [f]))
         | .err e s2 => ⟨acc, .err e s2⟩
         | .panic => ⟨acc, .panic⟩
         | .hang => ⟨acc, .hang⟩)
      | .err e s1 => ⟨acc, .err e s1⟩
      | .panic => ⟨acc, .panic⟩
      | .hang => ⟨acc, .hang⟩
    else ⟨acc, .ok () s⟩

/-- `qpackDecoder.decode(st, f)`. -/
def decode (H : Huff) (tbl : List (List Nat × List Nat)) (s : St) : DecResult :=
  match readPrefixedInt s 8 with
  | .ok (_, ric) s1 =>
    if ric ≠ 0 then ⟨[], .err qpackErr s1⟩ else
    (match readPrefixedInt s1 7 with
     | .ok _ s2 => decodeLoop H tbl (s2.lim.toNat + 1) s2 false []
     | .err e s2 => ⟨[], .err e s2⟩
     | .panic => ⟨[], .panic⟩
     | .hang => ⟨[], .hang⟩)
  | .err e s1 => ⟨[], .err e s1⟩
  | .panic => ⟨[], .panic⟩
  | .hang => ⟨[], .hang⟩

end NetVerif.Model.Qpack
