import NetVerif.Model.NetIP
/-
Model of http/httpproxy/proxy.go: `config.init` (matcher construction from the NO_PROXY
string), the four matchers, `config.useProxy` and `config.proxyForURL`.

Strings are byte lists.  The standard-library parsers the Go code calls are NOT modelled; they
are parameters (`Oracles`): `net.ParseCIDR`, `net.SplitHostPort`, `net.ParseIP` and
`idna.Lookup.ToASCII`.  Every definition and theorem is for arbitrary oracle functions; in the
differential run the harness tabulates the real functions on the strings that occur.
`net/url` is not modelled either: a request is given as the scheme plus the pair
`canonicalHostPort(reqURL)` (IDNA form of `url.Hostname()`, `url.Port()` or the scheme default) and
`netip.ParseAddr(host)`; a proxy setting is given as the `String()` of the URL `parseProxy`
produced (or none).  `proxyForURL` hands host and port to `useProxyHostPort` directly; the
string wrapper `useProxy(addr)` (split, then the same function) is only reachable from tests and
is not modelled.
-/
namespace NetVerif.Model.HttpProxy
open NetVerif.Model.NetIP

structure Oracles where
  /-- `net.ParseCIDR(s)`: network IP bytes, mask ones, mask bits. -/
  parseCIDR : List Nat → Option (List Nat × Nat × Nat)
  /-- `net.SplitHostPort(s)`. -/
  splitHostPort : List Nat → Option (List Nat × List Nat)
  /-- `net.ParseIP(s)` (16-byte form as Go returns it). -/
  parseIP : List Nat → Option (List Nat)
  /-- `idna.Lookup.ToASCII(s)` (only consulted for non-ASCII `s`). -/
  idna : List Nat → Option (List Nat)

/-- `idnaASCII` + the caller's `if err == nil { phost = v }`. -/
def idnaASCII (O : Oracles) (v : List Nat) : List Nat :=
  if isASCII v then v else
  match O.idna v with
  | some w => w
  | none => v

inductive Matcher where
  | all
  | cidr (ip : List Nat) (ones bits : Nat)
  | ip (ip : List Nat) (port : List Nat)
  | domain (host : List Nat) (port : List Nat) (matchHost : Bool)
  deriving Repr, DecidableEq

/-- `matcher.match(host, port, ip)`; `ip = none` is the nil IP. -/
def Matcher.matches (m : Matcher) (host port : List Nat) (ip : Option (List Nat)) : Bool :=
  match m with
  | .all => true
  | .cidr nip ones bits => contains nip ones bits (ip.getD [])
  | .ip mip mport =>
    if ipEqual mip (ip.getD []) then mport == [] || mport == port else false
  | .domain mhost mport matchHost =>
    if ip.isSome then false
    else if hasSuffix host mhost || (matchHost && host == mhost.drop 1) then
      mport == [] || mport == port
    else false

/-- What one comma-separated value of NO_PROXY contributes in `config.init`. -/
inductive Step where
  | skip
  | star
  | addCIDR (ip : List Nat) (ones bits : Nat)
  | addIP (ip : List Nat) (port : List Nat)
  | addDomain (host : List Nat) (port : List Nat) (matchHost : Bool)
  deriving Repr, DecidableEq

def star : List Nat := [42]          -- "*"
def starDot : List Nat := [42, 46]   -- "*."

/-- The body of the `for _, p := range strings.Split(c.NoProxy, ",")` loop. -/
def pieceStep (O : Oracles) (p0 : List Nat) : Step :=
  let p := toLower (trimSpace p0)
  if p = [] then .skip
  else if p = star then .star
  else match O.parseCIDR p with
  | some (ip, ones, bits) => .addCIDR ip ones bits
  | none =>
    -- IPv4:port, [IPv6]:port
    let hp : Option (List Nat × List Nat) :=
      match O.splitHostPort p with
      | some (h, port) =>
        if h = [] then none
        else if h.head? = some 91 ∧ h.getLast? = some 93 then some ((h.drop 1).dropLast, port)
        else some (h, port)
      | none => some (p, [])
    match hp with
    | none => .skip
    | some (phost, pport) =>
      match O.parseIP phost with
      | some pip => .addIP pip pport
      | none =>
        -- "domain.com." is the fully qualified spelling of "domain.com"
        let phost := trimSuffixDot phost
        if phost = [] then .skip
        else
          let phost1 := if hasPrefix phost starDot then phost.drop 1 else phost
          let matchHost := phost1.head? != some 46
          let phost2 := if matchHost then 46 :: phost1 else phost1
          .addDomain (idnaASCII O phost2) pport matchHost

/-- The loop itself, with the early `return` on "*". -/
def initLoop (O : Oracles) : List (List Nat) → List Matcher → List Matcher → List Matcher × List Matcher
  | [], ipM, domM => (ipM, domM)
  | p :: rest, ipM, domM =>
    match pieceStep O p with
    | .skip => initLoop O rest ipM domM
    | .star => ([.all], [.all])
    | .addCIDR ip ones bits => initLoop O rest (ipM ++ [.cidr ip ones bits]) domM
    | .addIP ip port => initLoop O rest (ipM ++ [.ip ip port]) domM
    | .addDomain h port mh => initLoop O rest ipM (domM ++ [.domain h port mh])

structure Cfg where
  cgi : Bool
  httpProxy : Option (List Nat)
  httpsProxy : Option (List Nat)
  ipMatchers : List Matcher
  domainMatchers : List Matcher
  deriving Repr

/-- `config.init` (proxy URLs already parsed by `parseProxy`; `none` = nil URL). -/
def init (O : Oracles) (cgi : Bool) (httpProxy httpsProxy : Option (List Nat)) (noProxy : List Nat) : Cfg :=
  let (ipM, domM) := initLoop O (splitComma noProxy) [] []
  { cgi := cgi, httpProxy := httpProxy, httpsProxy := httpsProxy, ipMatchers := ipM, domainMatchers := domM }

/-- A request as `useProxyHostPort` sees it. -/
structure Req where
  scheme : List Nat
  host : List Nat
  port : List Nat
  ip : Option (List Nat)
  deriving Repr

def localhost : List Nat := [108, 111, 99, 97, 108, 104, 111, 115, 116]
def schemeHTTP : List Nat := [104, 116, 116, 112]
def schemeHTTPS : List Nat := [104, 116, 116, 112, 115]

/-- `config.useProxyHostPort(host, port)`. -/
def useProxy (c : Cfg) (r : Req) : Bool :=
  -- host names are case-insensitive: `addr := strings.ToLower(strings.TrimSpace(host))` comes first
  let addr := trimSuffixDot (toLower (trimSpace r.host))
  if addr = localhost then false
  else if (match r.ip with | some ip => isLoopback ip | none => false) then false
  else
    if r.ip.isSome && c.ipMatchers.any (fun m => m.matches addr r.port r.ip) then false
    else if c.domainMatchers.any (fun m => m.matches addr r.port r.ip) then false
    else true

inductive Result where
  | noProxy
  | proxy (url : List Nat)
  | errCGI
  deriving Repr, DecidableEq

/-- `config.proxyForURL`. -/
def proxyForURL (c : Cfg) (r : Req) : Result :=
  if r.scheme = schemeHTTPS then
    match c.httpsProxy with
    | none => .noProxy
    | some u => if useProxy c r then .proxy u else .noProxy
  else if r.scheme = schemeHTTP then
    match c.httpProxy with
    | none => .noProxy
    | some u => if c.cgi then .errCGI else if useProxy c r then .proxy u else .noProxy
  else .noProxy

end NetVerif.Model.HttpProxy
