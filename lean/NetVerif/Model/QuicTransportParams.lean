import NetVerif.Model.VarintQuic
import NetVerif.Model.QuicFrames
/-!
Model of quic/transport_params.go: `marshalTransportParameters` and
`unmarshalTransportParams`.

Integer fields are `Nat` (the Go fields are `int64`/`int8`/`time.Duration`;
the model covers their non-negative values; durations are in nanoseconds).
Byte-slice fields that Go tests against `nil` are `Option (List Nat)`.
A `netip.AddrPort` is the pair (bytes of `Addr().AsSlice()`, port).
`none` from `marshal` is a Go panic; `none` from `unmarshal` is the
`errTransportParameter` result (all error causes collapse to it).
-/
namespace NetVerif.Model.QuicTransportParams
open NetVerif.Model.VarintQuic NetVerif.Model.QuicFrames

/-! parameter IDs (tied to the source through Gen/C28.lean) -/
def idOriginalDstConnID : Nat := 0x00
def idMaxIdleTimeout : Nat := 0x01
def idStatelessResetToken : Nat := 0x02
def idMaxUDPPayloadSize : Nat := 0x03
def idInitialMaxData : Nat := 0x04
def idInitialMaxStreamDataBidiLocal : Nat := 0x05
def idInitialMaxStreamDataBidiRemote : Nat := 0x06
def idInitialMaxStreamDataUni : Nat := 0x07
def idInitialMaxStreamsBidi : Nat := 0x08
def idInitialMaxStreamsUni : Nat := 0x09
def idAckDelayExponent : Nat := 0x0a
def idMaxAckDelay : Nat := 0x0b
def idDisableActiveMigration : Nat := 0x0c
def idPreferredAddress : Nat := 0x0d
def idActiveConnIDLimit : Nat := 0x0e
def idInitialSrcConnID : Nat := 0x0f
def idRetrySrcConnID : Nat := 0x10

def defaultMaxUDPPayloadSize : Nat := 65527
def defaultAckDelayExponent : Nat := 3
def defaultMaxAckDelayMs : Nat := 25
def defaultActiveConnIDLimit : Nat := 2
def msNs : Nat := 1000000

structure TParams where
  originalDstConnID : Option (List Nat)
  maxIdleTimeout : Nat            -- ns
  statelessResetToken : Option (List Nat)
  maxUDPPayloadSize : Nat
  initialMaxData : Nat
  initialMaxStreamDataBidiLocal : Nat
  initialMaxStreamDataBidiRemote : Nat
  initialMaxStreamDataUni : Nat
  initialMaxStreamsBidi : Nat
  initialMaxStreamsUni : Nat
  ackDelayExponent : Nat
  maxAckDelay : Nat               -- ns
  disableActiveMigration : Bool
  preferredAddrConnID : Option (List Nat)
  preferredAddrV4 : List Nat × Nat
  preferredAddrV6 : List Nat × Nat
  preferredAddrResetToken : Option (List Nat)
  activeConnIDLimit : Nat
  initialSrcConnID : Option (List Nat)
  retrySrcConnID : Option (List Nat)
  deriving Repr, DecidableEq

/-- `defaultTransportParameters()`. -/
def defaultParams : TParams :=
  { originalDstConnID := none, maxIdleTimeout := 0, statelessResetToken := none,
    maxUDPPayloadSize := defaultMaxUDPPayloadSize, initialMaxData := 0,
    initialMaxStreamDataBidiLocal := 0, initialMaxStreamDataBidiRemote := 0,
    initialMaxStreamDataUni := 0, initialMaxStreamsBidi := 0, initialMaxStreamsUni := 0,
    ackDelayExponent := defaultAckDelayExponent, maxAckDelay := defaultMaxAckDelayMs * msNs,
    disableActiveMigration := false, preferredAddrConnID := none,
    preferredAddrV4 := ([], 0), preferredAddrV6 := ([], 0), preferredAddrResetToken := none,
    activeConnIDLimit := defaultActiveConnIDLimit, initialSrcConnID := none, retrySrcConnID := none }

/-! ### marshal -/

/-- `AppendVarint(id); AppendVarintBytes(v)`. -/
def tlvBytes (id : Nat) (v : List Nat) : Option (List Nat) :=
  match appendVarint id, appendVarintBytes v with
  | some a, some b => some (a ++ b)
  | _, _ => none

/-- `AppendVarint(id); AppendVarint(SizeVarint(v)); AppendVarint(v)`. -/
def tlvInt (id v : Nat) : Option (List Nat) :=
  match appendVarint v with
  | some e => tlvBytes id e
  | none => none

def optBytes (id : Nat) (v : Option (List Nat)) : Option (List Nat) :=
  match v with
  | none => some []
  | some x => tlvBytes id x

def optInt (id v dflt : Nat) : Option (List Nat) :=
  if v = dflt then some [] else tlvInt id v

def u16be (v : Nat) : List Nat := [v / 256 % 256, v % 256]

/-- The preferred_address parameter as written by Go: a single ID byte, the declared length
`4+2+16+2+1+len(cid)+16`, then whatever the fields contain. -/
def prefAddrBytes (p : TParams) : Option (List Nat) :=
  match p.preferredAddrConnID with
  | none => some []
  | some cid =>
    match appendVarint (4 + 2 + 16 + 2 + 1 + cid.length + 16), appendUint8Bytes cid with
    | some l, some c =>
      some (idPreferredAddress :: (l ++ (p.preferredAddrV4.1 ++ (u16be p.preferredAddrV4.2 ++
        (p.preferredAddrV6.1 ++ (u16be p.preferredAddrV6.2 ++ (c ++ (p.preferredAddrResetToken.getD []))))))))
    | _, _ => none

/-- The list of pieces `marshalTransportParameters` appends, in order. -/
def marshalPieces (p : TParams) : List (Option (List Nat)) :=
  [ optBytes idOriginalDstConnID p.originalDstConnID,
    optInt idMaxIdleTimeout (p.maxIdleTimeout / msNs) 0,
    optBytes idStatelessResetToken p.statelessResetToken,
    optInt idMaxUDPPayloadSize p.maxUDPPayloadSize defaultMaxUDPPayloadSize,
    optInt idInitialMaxData p.initialMaxData 0,
    optInt idInitialMaxStreamDataBidiLocal p.initialMaxStreamDataBidiLocal 0,
    optInt idInitialMaxStreamDataBidiRemote p.initialMaxStreamDataBidiRemote 0,
    optInt idInitialMaxStreamDataUni p.initialMaxStreamDataUni 0,
    optInt idInitialMaxStreamsBidi p.initialMaxStreamsBidi 0,
    optInt idInitialMaxStreamsUni p.initialMaxStreamsUni 0,
    optInt idAckDelayExponent p.ackDelayExponent defaultAckDelayExponent,
    optInt idMaxAckDelay (p.maxAckDelay / msNs) defaultMaxAckDelayMs,
    (if p.disableActiveMigration then some [idDisableActiveMigration, 0] else some []),
    prefAddrBytes p,
    optInt idActiveConnIDLimit p.activeConnIDLimit defaultActiveConnIDLimit,
    optBytes idInitialSrcConnID p.initialSrcConnID,
    optBytes idRetrySrcConnID p.retrySrcConnID ]

def concatPieces : List (Option (List Nat)) → Option (List Nat)
  | [] => some []
  | none :: _ => none
  | some x :: rest =>
    match concatPieces rest with
    | some y => some (x ++ y)
    | none => none

/-- `marshalTransportParameters(p)`; `none` = panic. -/
def marshal (p : TParams) : Option (List Nat) := concatPieces (marshalPieces p)

/-! ### unmarshal -/

/-- Split the input into `(id, value)` pairs (the two `Consume…` calls at the top of the loop). -/
def splitTLVsF : Nat → List Nat → Option (List (Nat × List Nat))
  | _, [] => some []
  | 0, _ :: _ => none
  | f + 1, b =>
    match takeVarint b with
    | none => none
    | some (id, b1) =>
      match takeVarintBytes b1 with
      | none => none
      | some (val, b2) =>
        match splitTLVsF f b2 with
        | some l => some ((id, val) :: l)
        | none => none

def splitTLVs (b : List Nat) : Option (List (Nat × List Nat)) := splitTLVsF b.length b

/-- A value that must be exactly one varint (`v, n = ConsumeVarint(val); … n != len(val)` ⇒ error). -/
def wholeVarint (val : List Nat) : Option Nat :=
  match consumeVarint val with
  | some (v, n) => if n = val.length then some v else none
  | none => none

def u16of (b : List Nat) : Nat := b.getD 0 0 * 256 + b.getD 1 0

/-- One iteration of the `switch id` in `unmarshalTransportParams`. -/
def applyParam (p : TParams) (id : Nat) (val : List Nat) : Option TParams :=
  if id = idOriginalDstConnID then some { p with originalDstConnID := some val }
  else if id = idMaxIdleTimeout then
    match wholeVarint val with
    | some v => some { p with maxIdleTimeout := (if v > 4294967296 then 0 else v) * msNs }
    | none => none
  else if id = idStatelessResetToken then
    if val.length ≠ 16 then none else some { p with statelessResetToken := some val }
  else if id = idMaxUDPPayloadSize then
    match wholeVarint val with
    | some v => if v < 1200 then none else some { p with maxUDPPayloadSize := v }
    | none => none
  else if id = idInitialMaxData then
    match wholeVarint val with
    | some v => some { p with initialMaxData := v }
    | none => none
  else if id = idInitialMaxStreamDataBidiLocal then
    match wholeVarint val with
    | some v => some { p with initialMaxStreamDataBidiLocal := v }
    | none => none
  else if id = idInitialMaxStreamDataBidiRemote then
    match wholeVarint val with
    | some v => some { p with initialMaxStreamDataBidiRemote := v }
    | none => none
  else if id = idInitialMaxStreamDataUni then
    match wholeVarint val with
    | some v => some { p with initialMaxStreamDataUni := v }
    | none => none
  else if id = idInitialMaxStreamsBidi then
    match wholeVarint val with
    | some v => if v > maxStreamsLimit then none else some { p with initialMaxStreamsBidi := v }
    | none => none
  else if id = idInitialMaxStreamsUni then
    match wholeVarint val with
    | some v => if v > maxStreamsLimit then none else some { p with initialMaxStreamsUni := v }
    | none => none
  else if id = idAckDelayExponent then
    match wholeVarint val with
    | some v => if v > 20 then none else some { p with ackDelayExponent := v }
    | none => none
  else if id = idMaxAckDelay then
    match wholeVarint val with
    | some v => if v ≥ 16384 then none else some { p with maxAckDelay := v * msNs }
    | none => none
  else if id = idDisableActiveMigration then
    if val.length ≠ 0 then none else some { p with disableActiveMigration := true }
  else if id = idPreferredAddress then
    if val.length < 4 + 2 + 16 + 2 + 1 then none
    else
      match takeUint8Bytes (val.drop 24) with
      | none => none
      | some (cid, rest) =>
        if rest.length ≠ 16 then none
        else some { p with
          preferredAddrV4 := (val.take 4, u16of (val.drop 4)),
          preferredAddrV6 := ((val.drop 6).take 16, u16of (val.drop 22)),
          preferredAddrConnID := some cid,
          preferredAddrResetToken := some rest }
  else if id = idActiveConnIDLimit then
    match wholeVarint val with
    | some v => if v < 2 then none else some { p with activeConnIDLimit := v }
    | none => none
  else if id = idInitialSrcConnID then some { p with initialSrcConnID := some val }
  else if id = idRetrySrcConnID then some { p with retrySrcConnID := some val }
  else some p

def applyAll : TParams → List (Nat × List Nat) → Option TParams
  | p, [] => some p
  | p, (id, val) :: rest =>
    match applyParam p id val with
    | some q => applyAll q rest
    | none => none

/-- `unmarshalTransportParams(params)`. -/
def unmarshal (b : List Nat) : Option TParams :=
  match splitTLVs b with
  | some l => applyAll defaultParams l
  | none => none

end NetVerif.Model.QuicTransportParams
