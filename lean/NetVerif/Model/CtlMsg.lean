/-
Model of the socket control messages (ancillary data) of golang.org/x/net on linux/amd64:
internal/socket (cmsghdr, CmsgLen/CmsgSpace alignment, ControlMessage.Parse/ParseHeader/Data/Next),
ipv4/control.go + control_unix.go + control_pktinfo.go, ipv6/control.go + control_rfc3542_unix.go.

linux/amd64 only: little-endian native order, `cmsghdr` = {Len uint64, Level int32, Type int32},
8-byte alignment. On Linux the IPv4 `ctlOpts` table has entries for TTL (IP_TTL, 1 byte) and packet
info (IP_PKTINFO, in_pktinfo) only; the entries for Dst and Interface are the zero value (nil
parser) and are skipped by `ControlMessage.Parse` (guard `name > 0`). The IPv6 table
has TrafficClass, HopLimit, PacketInfo (in6_pktinfo), PathMTU (ip6_mtuinfo); NextHop has no entry
on Linux, so `Marshal` never emits it.
Addresses are byte lists (0 = nil, 4 or 16 bytes).
-/
namespace NetVerif.Model.CtlMsg

/-! ### layout constants (tied to the sources by Gen/C60Ctl) -/

def hdrLen : Nat := 16
def protocolIP : Int := 0
def protocolIPv6 : Int := 41
def ipTTL : Int := 2
def ipPktinfo : Int := 8
def ipv6Tclass : Int := 67
def ipv6Hoplimit : Int := 52
def ipv6Pktinfo : Int := 50
def ipv6Pathmtu : Int := 61
def sizeofInetPktinfo : Nat := 12
def sizeofInet6Pktinfo : Nat := 20
def sizeofIPv6Mtuinfo : Nat := 32

/-- `unix.CmsgLen`. -/
def cmsgLen (n : Nat) : Nat := hdrLen + n
/-- `unix.CmsgSpace`: data padded to 8 bytes. -/
def cmsgSpace (n : Nat) : Nat := hdrLen + (n + 7) / 8 * 8

/-! ### little-endian fields -/

def le32 (x : Int) : List Nat :=
  [(x % 256).toNat, (x / 256 % 256).toNat, (x / 65536 % 256).toNat, (x / 16777216 % 256).toNat]
def le64 (x : Int) : List Nat := le32 (x % 4294967296) ++ le32 (x / 4294967296 % 4294967296)
def rdU32 (b : List Nat) : Nat :=
  b.getD 0 0 + b.getD 1 0 * 256 + b.getD 2 0 * 65536 + b.getD 3 0 * 16777216
def rdI32 (b : List Nat) : Int :=
  if rdU32 b ≥ 2147483648 then (rdU32 b : Int) - 4294967296 else rdU32 b
def rdU64 (b : List Nat) : Nat := rdU32 b + rdU32 (b.drop 4) * 4294967296
/-- `int(h.Len)` for a uint64. -/
def rdI64 (b : List Nat) : Int :=
  if rdU64 b ≥ 9223372036854775808 then (rdU64 b : Int) - 18446744073709551616 else rdU64 b

def zeros (n : Nat) : List Nat := List.replicate n 0

/-- `cmsghdr.set(CmsgLen(dataLen), lvl, typ)` followed by the data, padded to `CmsgSpace`. -/
def mkCmsg (lvl typ : Int) (data : List Nat) : List Nat :=
  le64 (cmsgLen data.length : Nat) ++ le32 lvl ++ le32 typ ++ data ++
    zeros (cmsgSpace data.length - cmsgLen data.length)

/-! ### internal/socket.ControlMessage.Parse -/

inductive PErr where
  | invalidHeaderLength | invalidMessageLength | shortBuffer
deriving Repr, DecidableEq

/-- `ControlMessage.Parse`: split into messages (each `m[:l]`). -/
def splitMsgs : Nat → List Nat → Except PErr (List (List Nat))
  | 0, _ => .ok []
  | fuel + 1, m =>
    if m.length ≥ hdrLen then
      let l := rdI64 m
      if l ≤ 0 then .error .invalidHeaderLength
      else if l.toNat < hdrLen then .error .invalidMessageLength
      else if l.toNat > m.length then .error .shortBuffer
      else
        let ll := l.toNat - hdrLen
        let rest := if m.length ≥ cmsgSpace ll then m.drop (cmsgSpace ll) else m.drop (cmsgLen ll)
        match splitMsgs fuel rest with
        | .error e => .error e
        | .ok ms => .ok (m.take l.toNat :: ms)
    else .ok []

/-- `ParseHeader` of one message (length ≥ 16 guaranteed by `splitMsgs`): level, type, data. -/
def msgHeader (m : List Nat) : Int × Int × List Nat :=
  (rdI32 (m.drop 8), rdI32 (m.drop 12), m.drop hdrLen)

/-! ### ipv4.ControlMessage -/

structure CM4 where
  ttl : Int
  src : List Nat
  dst : List Nat
  ifIndex : Int
deriving Repr, DecidableEq

def isV4 (ip : List Nat) : Bool :=
  ip.length == 4 || (ip.length == 16 && ip.take 10 == zeros 10 && ip.getD 10 0 == 255 && ip.getD 11 0 == 255)
def to4 (ip : List Nat) : List Nat := if ip.length == 16 then ip.drop 12 else ip
def isV6only (ip : List Nat) : Bool := ip.length == 16 && !isV4 ip

/-- `ipv4.ControlMessage.Marshal` (Linux: only IP_PKTINFO, carrying Src as `Spec_dst` and IfIndex). -/
def CM4.marshal (cm : CM4) : List Nat :=
  if isV4 cm.src || decide (cm.ifIndex > 0) then
    mkCmsg protocolIP ipPktinfo
      ((if cm.ifIndex > 0 then le32 cm.ifIndex else zeros 4) ++
       (if isV4 cm.src then to4 cm.src else zeros 4) ++ zeros 4)
  else []

inductive PR (α : Type) where
  | ok (v : α)
  | err (e : PErr)
  | panic
deriving Repr

/-- One message applied to an IPv4 control message. The cases of `Parse` are guarded by
`ctlOpts[...].name > 0`, so the zero entries of Dst / Interface (Linux) never match; the `Option`
is kept for the shape of the loop but `none` (a nil-function call) is unreachable — see
`cm4_parse_total`. -/
def CM4.apply (cm : CM4) (m : List Nat) : Option CM4 :=
  let (lvl, typ, data) := msgHeader m
  if lvl ≠ protocolIP then some cm
  else if typ = ipTTL ∧ data.length ≥ 1 then some { cm with ttl := (data.getD 0 0 : Nat) }
  else if typ = ipPktinfo ∧ data.length ≥ sizeofInetPktinfo then
    some { cm with ifIndex := rdI32 data,
                   dst := (if cm.dst.length < 4 then (data.drop 8).take 4
                           else (data.drop 8).take 4 ++ cm.dst.drop 4) }
  else some cm

/-- The message loop of `Parse`; `none` once a nil parser has been called. -/
def CM4.applyAll (cm : CM4) (ms : List (List Nat)) : Option CM4 :=
  ms.foldl (fun acc m => acc.bind (fun c => c.apply m)) (some cm)

/-- `cm.Parse(b)` on a given (usually zero) message. -/
def CM4.parse (cm : CM4) (b : List Nat) : PR CM4 :=
  match splitMsgs (b.length + 1) b with
  | .error e => .err e
  | .ok ms => match cm.applyAll ms with | none => .panic | some cm' => .ok cm'

def CM4.zero : CM4 := ⟨0, [], [], 0⟩

/-! ### ipv6.ControlMessage -/

structure CM6 where
  trafficClass : Int
  hopLimit : Int
  src : List Nat
  dst : List Nat
  ifIndex : Int
  nextHop : List Nat
  mtu : Int
deriving Repr, DecidableEq

def CM6.zero : CM6 := ⟨0, 0, [], [], 0, [], 0⟩

/-- `ipv6.ControlMessage.Marshal` on Linux (no NextHop entry). -/
def CM6.marshal (cm : CM6) : List Nat :=
  (if cm.trafficClass > 0 then mkCmsg protocolIPv6 ipv6Tclass (le32 cm.trafficClass) else []) ++
  (if cm.hopLimit > 0 then mkCmsg protocolIPv6 ipv6Hoplimit (le32 cm.hopLimit) else []) ++
  (if isV6only cm.src || decide (cm.ifIndex > 0) then
     mkCmsg protocolIPv6 ipv6Pktinfo
       ((if isV6only cm.src then cm.src else zeros 16) ++
        (if cm.ifIndex > 0 then le32 cm.ifIndex else zeros 4))
   else [])

/-- `copy(cm.Dst, src16)` after `if len(cm.Dst) < 16 { cm.Dst = make(16) }`. -/
def setDst16 (old new16 : List Nat) : List Nat :=
  if old.length < 16 then new16 else new16 ++ old.drop 16

def CM6.apply (cm : CM6) (m : List Nat) : CM6 :=
  let (lvl, typ, data) := msgHeader m
  if lvl ≠ protocolIPv6 then cm
  else if typ = ipv6Tclass ∧ data.length ≥ 4 then { cm with trafficClass := (rdU32 data : Nat) }
  else if typ = ipv6Hoplimit ∧ data.length ≥ 4 then { cm with hopLimit := (rdU32 data : Nat) }
  else if typ = ipv6Pktinfo ∧ data.length ≥ sizeofInet6Pktinfo then
    { cm with dst := setDst16 cm.dst (data.take 16), ifIndex := rdI32 (data.drop 16) }
  else if typ = ipv6Pathmtu ∧ data.length ≥ sizeofIPv6Mtuinfo then
    { cm with dst := setDst16 cm.dst ((data.drop 8).take 16), ifIndex := (rdU32 (data.drop 24) : Nat),
              mtu := (rdU32 (data.drop 28) : Nat) }
  else cm

def CM6.parse (cm : CM6) (b : List Nat) : Except PErr CM6 :=
  match splitMsgs (b.length + 1) b with
  | .error e => .error e
  | .ok ms => .ok (ms.foldl CM6.apply cm)

end NetVerif.Model.CtlMsg
