import NetVerif.Model.Rangeset
import NetVerif.Model.VarintQuic
/-!
Model of quic/acks.go `ackState` (C25): which packet numbers have been seen, duplicate
suppression, pruning of old ACK ranges (`maxAckRanges`, `handleAck`), and the ACK frame that
`packetWriter.appendAckFrame` builds from `seen` (ranges only; delay is carried, ECN counts are
kept zero) together with the range decoding loop of `consumeAckFrame`.

Timing (`nextAck`, `maxRecvTime`, `mustAckImmediately`) is not modelled: it decides *when* an ACK
is sent, not *what* it acknowledges.  `unackedAckEliciting` is kept because `acksToSend` returns
nothing when it is zero.
Packet numbers are `Int` (Go `int64`, `0 ≤ n < 2^62`).
-/
namespace NetVerif.Model.AckState
open NetVerif.Model.Rangeset

def maxAckRanges : Nat := 8

structure Acks where
  seen : RS := []
  unacked : Nat := 0          -- unackedAckEliciting
  maxAckEliciting : Int := 0
  deriving Repr, DecidableEq

/-- `shouldProcess(num)`. -/
def shouldProcess (a : Acks) (num : Int) : Bool :=
  if Rangeset.min a.seen > num then false
  else if contains a.seen num then false
  else true

/-- The pruning at the end of `receive`:
`if overflow := seen.numRanges() - maxAckRanges; overflow > 0 { seen.removeranges(0, overflow) }`. -/
def prune (s : RS) : RS :=
  if numRanges s > maxAckRanges then removeranges s 0 (numRanges s - maxAckRanges) else s

/-- `receive(now, space, num, ackEliciting, ecn)` (state that matters for C25). -/
def receive (a : Acks) (num : Int) (ackEliciting : Bool) : Acks :=
  { seen := prune (add a.seen num (num + 1)),
    unacked := if ackEliciting then a.unacked + 1 else a.unacked,
    maxAckEliciting := if ackEliciting ∧ num > a.maxAckEliciting then num else a.maxAckEliciting }

/-- `handleAck(largestAcked)`: `seen.sub(0, seen.rangeContaining(largestAcked).start)`. -/
def handleAck (a : Acks) (largest : Int) : Acks :=
  { a with seen := sub a.seen 0 (rangeContaining a.seen largest).s }

/-- `sentAck()`. -/
def sentAck (a : Acks) : Acks := { a with unacked := 0 }

/-- `acksToSend(now)`: the set to acknowledge (Go returns a nil rangeset when there is nothing
unacknowledged; `nextAck` is non-zero exactly when `unackedAckEliciting > 0`). -/
def acksToSend (a : Acks) : RS := if a.unacked = 0 then [] else a.seen

def largestSeen (a : Acks) : Int := Rangeset.max a.seen

/-! ### The ACK frame -/

/-- `quicwire.SizeVarint(uint64(v))` for the values that occur (`0 ≤ v < 2^62`). -/
def szv (v : Int) : Nat := (NetVerif.Model.VarintQuic.sizeVarint v.toNat).getD 8

/-- What `appendAckFrame` puts on the wire (varint values). -/
structure AckFrame where
  largest : Int
  delay : Int
  firstRange : Int
  more : List (Int × Int)    -- (gap, rangeLength) pairs, newest first
  deriving Repr, DecidableEq

/-- The `for i := len(seen)-2; i >= 0; i--` loop: `older` are the ranges below the one just
written, newest first; `nextStart` is `seen[i+1].start`. -/
def frameLoop (avail : Nat) (count : Nat) (nextStart : Int) : List Rg → List (Int × Int)
  | [] => []
  | r :: older =>
    let gap := nextStart - r.e - 1
    let size := (r.e - r.s) - 1
    if avail < szv gap + szv size ∨ count > 62 then []
    else (gap, size) :: frameLoop (avail - (szv gap + szv size)) (count + 1) r.s older

/-- `appendAckFrame(seen, delay, ecnCounts{})` with `avail` bytes left in the packet. -/
def appendAckFrame (seen : RS) (delay : Int) (avail : Nat) : Option AckFrame :=
  match seen.reverse with
  | [] => none
  | last :: older =>
    let largest := Rangeset.max seen
    let firstRange := (last.e - last.s) - 1
    let need := 1 + szv largest + szv delay + 1 + szv firstRange
    if avail < need then none
    else some { largest := largest, delay := delay, firstRange := firstRange,
                more := frameLoop (avail - need) 0 last.s older }

/-- The range loop of `consumeAckFrame`: `rangeMin = rangeMax - rangeLen`, report
`[rangeMin, rangeMax+1)`, then `rangeMax = rangeMin - gap - 2`.  `none` = malformed. -/
def decodeRanges (rangeMax : Int) (rangeLen : Int) : List (Int × Int) → Option (List Rg)
  | [] =>
    let rangeMin := rangeMax - rangeLen
    if rangeMin < 0 ∨ rangeMin > rangeMax then none else some [⟨rangeMin, rangeMax + 1⟩]
  | (gap, len') :: rest =>
    let rangeMin := rangeMax - rangeLen
    if rangeMin < 0 ∨ rangeMin > rangeMax then none
    else match decodeRanges (rangeMin - gap - 2) len' rest with
      | none => none
      | some rs => some (⟨rangeMin, rangeMax + 1⟩ :: rs)

def AckFrame.ranges (f : AckFrame) : Option (List Rg) := decodeRanges f.largest f.firstRange f.more

/-! ### histories -/

inductive Op where
  | receive (num : Int) (ackEliciting : Bool)   -- a packet that passed `shouldProcess` or not: see `process`
  | handleAck (largest : Int)
  | sentAck
  deriving Repr

/-- What conn_recv.go does with an arriving packet number: process (and `receive`) it only if
`shouldProcess` says so. Returns whether it was processed. -/
def arrive (a : Acks) (num : Int) (ackEliciting : Bool) : Acks × Bool :=
  if shouldProcess a num then (receive a num ackEliciting, true) else (a, false)

end NetVerif.Model.AckState
