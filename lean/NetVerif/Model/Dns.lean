/-
Model of golang.org/x/net/dns/dnsmessage (message.go, svcb.go): names with
compression, header, questions, resource headers and bodies, `Message.Pack`
/ `Builder` (writer side) and `Message.Unpack` / `Parser` (reader side).
Shared by C36 (round trip) and C37 (parsing safety).

Conventions
* bytes are `Nat`s (< 256) in `List Nat`; a `Name` is the list of the bytes
  of its presentation form (`"a.b."` = `[97,46,98,46]`), length ≤ 255 as in
  the Go `Name{Data [255]byte; Length uint8}`.
* Go errors are the `Err` enum (innermost error of the `nestedError` chain).
* Reader side is written exactly as the Go loops, with offsets into `msg`.
  `Name.unpack` is one loop with the state `(currOff, ptr, name, newOff)` and
  explicit fuel; running out of fuel is the distinguished error `Err.fuel`
  (C37 proves it never happens with `unpackFuel`).
* Writer side is in "writer style": each `packX` gets the buffer `buf`
  (= `msg[compressionOff:]` in Go) to which its output will be appended and
  returns the bytes to append; Go packers only ever append to `msg`, look at
  `len(msg)` and - `compressionDepth`, since the ptr-depth repair - at the
  names already stored in it. The single exception is `fixLen`, which
  back-patches the 2-byte Length field after the body has been packed behind
  a placeholder; `packResource` packs the body behind the placeholder as Go
  does, and checks that packing it behind the final Length gives the same
  bytes (it does: pointer chains never lead into a Length field; a
  difference would surface as `MODEL-FUEL`, i.e. as a D-tie mismatch).
  Likewise the Builder writes the 12 header bytes only in `Finish`.
* The compression map (`map[string]uint16`) is an association list with
  newest-first lookup (Go only inserts on a miss, so no key is ever updated).
Not modelled: `GoString`, SetParam/GetParam/DeleteParam, nil ResourceBody.
-/
namespace NetVerif.Model.Dns

abbrev Bytes := List Nat

inductive Err
  | baseLen | calcLen | reserved | tooManyPtr | invalidPtr | invalidName
  | resourceLen | segTooLong | nameTooLong | zeroSegLen | resTooLong
  | tooManyQuestions | tooManyAnswers | tooManyAuthorities | tooManyAdditionals
  | nonCanonical | stringTooLong | paramOutOfOrder | tooLongSVCBValue
  | notStarted | sectionDone
  | fuel
  | panic
  deriving DecidableEq, Repr, Inhabited

deriving instance DecidableEq for Except

def Err.tag : Err → String
  | .baseLen => "BaseLen" | .calcLen => "CalcLen" | .reserved => "Reserved"
  | .tooManyPtr => "TooManyPtr" | .invalidPtr => "InvalidPtr" | .invalidName => "InvalidName"
  | .resourceLen => "ResourceLen" | .segTooLong => "SegTooLong" | .nameTooLong => "NameTooLong"
  | .zeroSegLen => "ZeroSegLen" | .resTooLong => "ResTooLong"
  | .tooManyQuestions => "TooManyQuestions" | .tooManyAnswers => "TooManyAnswers"
  | .tooManyAuthorities => "TooManyAuthorities" | .tooManyAdditionals => "TooManyAdditionals"
  | .nonCanonical => "NonCanonical" | .stringTooLong => "StringTooLong"
  | .paramOutOfOrder => "ParamOutOfOrder" | .tooLongSVCBValue => "TooLongSVCBValue"
  | .notStarted => "NotStarted" | .sectionDone => "SectionDone"
  | .fuel => "MODEL-FUEL"
  | .panic => "MODEL-PANIC"

/-! ## Constants (tied to the Go source by `Gen/C36.lean`) -/
def typeA : Nat := 1
def typeNS : Nat := 2
def typeCNAME : Nat := 5
def typeSOA : Nat := 6
def typePTR : Nat := 12
def typeMX : Nat := 15
def typeTXT : Nat := 16
def typeAAAA : Nat := 28
def typeSRV : Nat := 33
def typeOPT : Nat := 41
def typeSVCB : Nat := 64
def typeHTTPS : Nat := 65
/-- `nonEncodedNameMax`. -/
def nameMax : Nat := 254
/-- the `ptr > 10` limit in `Name.unpack`. -/
def ptrLimit : Nat := 10
/-- `1<<6`: first label length that is rejected by `Name.pack`. -/
def segLimit : Nat := 64
/-- `int(^uint16(0)>>2)`: largest offset stored in the compression map. -/
def maxPtr : Nat := 16383
def headerLen : Nat := 12
/-- maximum character-string length of `packText`. -/
def textMax : Nat := 255
def dot : Nat := 46

/-! ## Fixed-width fields -/
def u16 (v : Nat) : Bytes := [v / 256 % 256, v % 256]
def u32 (v : Nat) : Bytes := [v / 16777216 % 256, v / 65536 % 256, v / 256 % 256, v % 256]

/-- `unpackUint16`. -/
def u16At (msg : Bytes) (off : Nat) : Except Err (Nat × Nat) :=
  match msg.drop off with
  | a :: b :: _ => .ok (a * 256 + b, off + 2)
  | _ => .error .baseLen

/-- `unpackUint32`. -/
def u32At (msg : Bytes) (off : Nat) : Except Err (Nat × Nat) :=
  match msg.drop off with
  | a :: b :: c :: d :: _ => .ok (a * 16777216 + b * 65536 + c * 256 + d, off + 4)
  | _ => .error .baseLen

/-- `skipUint16` / `skipType` / `skipClass`. -/
def skip16 (msg : Bytes) (off : Nat) : Except Err Nat :=
  if off + 2 > msg.length then .error .baseLen else .ok (off + 2)
/-- `skipUint32`. -/
def skip32 (msg : Bytes) (off : Nat) : Except Err Nat :=
  if off + 4 > msg.length then .error .baseLen else .ok (off + 4)

/-! ## Names: reader -/

/-- Enough for 127 labels, 10 pointers and the final step (proved in C37). -/
def unpackFuel : Nat := 300

/-- The loop of `Name.unpack`; state `(currOff, ptr, name, newOff)`. -/
def unpackLoop (msg : Bytes) : Nat → Nat → Nat → Bytes → Nat → Except Err (Bytes × Nat)
  | 0, _, _, _, _ => .error .fuel
  | fuel + 1, currOff, ptr, name, newOff =>
    match msg.drop currOff with
    | [] => .error .baseLen
    | c :: rest =>
      if c / 64 = 0 then
        if c = 0 then
          .ok (if name.isEmpty then [46] else name, if ptr = 0 then currOff + 1 else newOff)
        else if rest.length < c then .error .calcLen
        else if (rest.take c).contains 46 then .error .invalidName
        else if name.length + c ≥ 254 then .error .nameTooLong
        else unpackLoop msg fuel (currOff + 1 + c) ptr (name ++ rest.take c ++ [46]) newOff
      else if c / 64 = 3 then
        match rest with
        | [] => .error .invalidPtr
        | c1 :: _ =>
          if ptr + 1 > 10 then .error .tooManyPtr
          else unpackLoop msg fuel (c % 64 * 256 + c1) (ptr + 1) name
                 (if ptr = 0 then currOff + 2 else newOff)
      else .error .reserved

/-- `Name.unpack(msg, off)`: the name and the offset after it. -/
def unpackName (msg : Bytes) (off : Nat) : Except Err (Bytes × Nat) :=
  unpackLoop msg unpackFuel off 0 [] off

/-- The loop of `skipName`. -/
def skipLoop (msg : Bytes) : Nat → Nat → Except Err Nat
  | 0, _ => .error .fuel
  | fuel + 1, newOff =>
    match msg.drop newOff with
    | [] => .error .baseLen
    | c :: rest =>
      if c / 64 = 0 then
        if c = 0 then .ok (newOff + 1)
        else if rest.length < c then .error .calcLen
        else skipLoop msg fuel (newOff + 1 + c)
      else if c / 64 = 3 then .ok (newOff + 2)  -- the second pointer byte is not checked
      else .error .reserved

def skipName (msg : Bytes) (off : Nat) : Except Err Nat :=
  skipLoop msg (msg.length + 1) off

/-! ## Names: writer -/

abbrev CompMap := List (Bytes × Nat)

def lookup (k : Bytes) : CompMap → Option Nat
  | [] => none
  | (k', v) :: m => if k' = k then some v else lookup k m

/-- `byte(ptr>>8|0xC0), byte(ptr)` for a `uint16` ptr. -/
def ptrBytes (p : Nat) : Bytes := [192 + p / 256 % 64, p % 256]

/-- The loop of `compressionDepth`: number of pointers followed so far is `depth`
(at most `maxCompressionPointers` = 10 are counted). -/
def depthLoop (buf : Bytes) : Nat → Nat → Nat → Nat
  | 0, _, depth => depth
  | fuel + 1, off, depth =>
    match buf.drop off with
    | [] => depth
    | c :: rest =>
      if c / 64 = 0 then
        if c = 0 then depth else depthLoop buf fuel (off + 1 + c) depth
      else if c / 64 = 3 then
        match rest with
        | [] => depth
        | c1 :: _ =>
          if depth + 1 ≥ 10 then depth + 1
          else depthLoop buf fuel (c % 64 * 256 + c1) (depth + 1)
      else depth

/-- `compressionDepth(msg, compressionOff, ptr)`: pointers to follow to read the name at `ptr`. -/
def compressionDepth (buf : Bytes) (ptr : Nat) : Nat :=
  depthLoop buf (11 * (buf.length + 2) + 140) ptr 0

/-- The loop of `Name.pack`: `rest` = `n.Data[i:n.Length]`, `lab` = `n.Data[begin:i]`,
`buf` = the message before this name, `out` = bytes emitted for this name so far. -/
def packLoop (buf : Bytes) : Bytes → Bytes → Bytes → Option CompMap → Except Err (Bytes × Option CompMap)
  | [], _, out, comp => .ok (out ++ [0], comp)
  | c :: rest, lab, out, comp =>
    if c = 46 then
      if lab.length ≥ 64 then .error .segTooLong
      else if lab.length = 0 then .error .zeroSegLen
      else packLoop buf rest [] (out ++ lab.length :: lab) comp
    else if lab.isEmpty then
      match comp with
      | some m =>
        let newPtr := buf.length + out.length
        let m' := if newPtr ≤ 16383 then (c :: rest, newPtr) :: m else m
        match lookup (c :: rest) m with
        | some p =>
          if compressionDepth (buf ++ out) p < 10 then .ok (out ++ ptrBytes p, some m)
          else packLoop buf rest [c] out (some m')
        | none => packLoop buf rest [c] out (some m')
      | none => packLoop buf rest [c] out none
    else packLoop buf rest (lab ++ [c]) out comp

/-- `Name.pack`: bytes appended for `name` to the buffer `buf`, and the new map. -/
def packName (name : Bytes) (buf : Bytes) (comp : Option CompMap) : Except Err (Bytes × Option CompMap) :=
  if name.length > 254 then .error .nameTooLong
  else if name.isEmpty || name.getLast? != some 46 then .error .nonCanonical
  else if name = [46] then .ok ([0], comp)
  else packLoop buf name [] [] comp

/-! ## Header -/

structure Header where
  id : Nat
  response : Bool
  opCode : Nat
  authoritative : Bool
  truncated : Bool
  recursionDesired : Bool
  recursionAvailable : Bool
  authenticData : Bool
  checkingDisabled : Bool
  rCode : Nat
  deriving DecidableEq, Repr, Inhabited

def bitIf (b : Bool) (v : Nat) : Nat := if b then v else 0

/-- `Header.pack`: the `bits` word (`uint16` arithmetic). -/
def Header.bits (h : Header) : Nat :=
  (h.opCode * 2048 % 65536) ||| h.rCode ||| bitIf h.recursionAvailable 128 |||
  bitIf h.recursionDesired 256 ||| bitIf h.truncated 512 ||| bitIf h.authoritative 1024 |||
  bitIf h.response 32768 ||| bitIf h.authenticData 32 ||| bitIf h.checkingDisabled 16

/-- `header.header()`. -/
def headerOfBits (id bits : Nat) : Header :=
  { id := id
    response := bits / 32768 % 2 = 1
    opCode := bits / 2048 % 16
    authoritative := bits / 1024 % 2 = 1
    truncated := bits / 512 % 2 = 1
    recursionDesired := bits / 256 % 2 = 1
    recursionAvailable := bits / 128 % 2 = 1
    authenticData := bits / 32 % 2 = 1
    checkingDisabled := bits / 16 % 2 = 1
    rCode := bits % 16 }

/-! ## Message structure -/

structure Question where
  name : Bytes
  typ : Nat
  cls : Nat
  deriving DecidableEq, Repr, Inhabited

structure RHeader where
  name : Bytes
  typ : Nat
  cls : Nat
  ttl : Nat
  length : Nat
  deriving DecidableEq, Repr, Inhabited

inductive Body
  | a (ip : Bytes)
  | aaaa (ip : Bytes)
  | ns (n : Bytes)
  | cname (n : Bytes)
  | ptr (n : Bytes)
  | mx (pref : Nat) (n : Bytes)
  | txt (ss : List Bytes)
  | soa (ns mbox : Bytes) (serial refresh retry expire minTTL : Nat)
  | srv (prio weight port : Nat) (target : Bytes)
  | opt (opts : List (Nat × Bytes))
  | svcb (prio : Nat) (target : Bytes) (params : List (Nat × Bytes))
  | https (prio : Nat) (target : Bytes) (params : List (Nat × Bytes))
  | unknown (typ : Nat) (data : Bytes)
  deriving DecidableEq, Repr, Inhabited

structure Resource where
  hdr : RHeader
  body : Body
  deriving DecidableEq, Repr, Inhabited

structure Message where
  hdr : Header
  questions : List Question
  answers : List Resource
  authorities : List Resource
  additionals : List Resource
  deriving DecidableEq, Repr, Inhabited

/-- `ResourceBody.realType`. -/
def Body.realType : Body → Nat
  | .a _ => typeA | .aaaa _ => typeAAAA | .ns _ => typeNS | .cname _ => typeCNAME
  | .ptr _ => typePTR | .mx _ _ => typeMX | .txt _ => typeTXT | .soa .. => typeSOA
  | .srv .. => typeSRV | .opt _ => typeOPT | .svcb .. => typeSVCB | .https .. => typeHTTPS
  | .unknown t _ => t

/-! ## Writer -/

/-- `TXTResource.pack` / `packText`. -/
def packTexts : List Bytes → Except Err Bytes
  | [] => .ok []
  | s :: ss =>
    if s.length > 255 then .error .stringTooLong
    else match packTexts ss with
      | .ok r => .ok (s.length :: s ++ r)
      | .error e => .error e

/-- `OPTResource.pack` (`uint16(len(opt.Data))` truncates). -/
def packOpts : List (Nat × Bytes) → Bytes
  | [] => []
  | (code, data) :: r => u16 code ++ u16 (data.length % 65536) ++ data ++ packOpts r

/-- `i > 0 && key <= previousKey`. -/
def outOfOrder (prev : Option Nat) (key : Nat) : Bool :=
  match prev with
  | some p => key ≤ p
  | none => false

/-- parameter loop of `SVCBResource.pack`; `prev` = key of the previous parameter. -/
def packParams : Option Nat → List (Nat × Bytes) → Except Err Bytes
  | _, [] => .ok []
  | prev, (key, value) :: r =>
    if outOfOrder prev key then .error .paramOutOfOrder
    else if value.length > 65535 then .error .tooLongSVCBValue
    else match packParams (some key) r with
      | .ok bs => .ok (u16 key ++ u16 value.length ++ value ++ bs)
      | .error e => .error e

def packSVCB (prio : Nat) (target : Bytes) (params : List (Nat × Bytes)) : Except Err Bytes :=
  match packName target [] none with
  | .error e => .error e
  | .ok (tb, _) =>
    match packParams none params with
    | .error e => .error e
    | .ok pb => .ok (u16 prio ++ tb ++ pb)

/-- `ResourceBody.pack` onto the buffer `buf`. -/
def packBody (b : Body) (buf : Bytes) (comp : Option CompMap) : Except Err (Bytes × Option CompMap) :=
  match b with
  | .a ip => .ok (ip, comp)
  | .aaaa ip => .ok (ip, comp)
  | .ns n => packName n buf comp
  | .cname n => packName n buf comp
  | .ptr n => packName n buf comp
  | .mx pref n =>
    match packName n (buf ++ u16 pref) comp with
    | .ok (bs, c) => .ok (u16 pref ++ bs, c)
    | .error e => .error e
  | .txt ss =>
    match packTexts ss with
    | .ok bs => .ok (bs, comp)
    | .error e => .error e
  | .soa ns mbox serial refresh retry expire minTTL =>
    match packName ns buf comp with
    | .error e => .error e
    | .ok (b1, c1) =>
      match packName mbox (buf ++ b1) c1 with
      | .error e => .error e
      | .ok (b2, c2) =>
        .ok (b1 ++ b2 ++ u32 serial ++ u32 refresh ++ u32 retry ++ u32 expire ++ u32 minTTL, c2)
  | .srv prio weight port target =>
    match packName target (buf ++ u16 prio ++ u16 weight ++ u16 port) none with
    | .ok (bs, _) => .ok (u16 prio ++ u16 weight ++ u16 port ++ bs, comp)
    | .error e => .error e
  | .opt opts => .ok (packOpts opts, comp)
  | .svcb prio target params =>
    match packSVCB prio target params with
    | .ok bs => .ok (bs, comp)
    | .error e => .error e
  | .https prio target params =>
    match packSVCB prio target params with
    | .ok bs => .ok (bs, comp)
    | .error e => .error e
  | .unknown _ data => .ok (data, comp)

/-- `Question.pack`. -/
def packQuestion (q : Question) (buf : Bytes) (comp : Option CompMap) : Except Err (Bytes × Option CompMap) :=
  match packName q.name buf comp with
  | .ok (bs, c) => .ok (bs ++ u16 q.typ ++ u16 q.cls, c)
  | .error e => .error e

/-- `Resource.pack` / `Builder.XResource`: header with the `Type` of the body and the caller's
`Length` as placeholder, then the body, then `fixLen` writes the final `Length` (see the note at
the top for the consistency check). -/
def packResource (r : Resource) (buf : Bytes) (comp : Option CompMap) : Except Err (Bytes × Option CompMap) :=
  match packName r.hdr.name buf comp with
  | .error e => .error e
  | .ok (nb, c1) =>
    let pre := buf ++ nb ++ u16 r.body.realType ++ u16 r.hdr.cls ++ u32 r.hdr.ttl
    match packBody r.body (pre ++ u16 r.hdr.length) c1 with
    | .error e => .error e
    | .ok (bb, c2) =>
      if bb.length > 65535 then .error .resTooLong
      else if packBody r.body (pre ++ u16 bb.length) c1 ≠ .ok (bb, c2) then .error .fuel
      else .ok (nb ++ u16 r.body.realType ++ u16 r.hdr.cls ++ u32 r.hdr.ttl ++ u16 bb.length ++ bb, c2)

def packQuestions : List Question → Bytes → Option CompMap → Except Err (Bytes × Option CompMap)
  | [], _, comp => .ok ([], comp)
  | q :: qs, buf, comp =>
    match packQuestion q buf comp with
    | .error e => .error e
    | .ok (b1, c1) =>
      match packQuestions qs (buf ++ b1) c1 with
      | .error e => .error e
      | .ok (b2, c2) => .ok (b1 ++ b2, c2)

def packResources : List Resource → Bytes → Option CompMap → Except Err (Bytes × Option CompMap)
  | [], _, comp => .ok ([], comp)
  | r :: rs, buf, comp =>
    match packResource r buf comp with
    | .error e => .error e
    | .ok (b1, c1) =>
      match packResources rs (buf ++ b1) c1 with
      | .error e => .error e
      | .ok (b2, c2) => .ok (b1 ++ b2, c2)

def packHeader (h : Header) (nq na nu nr : Nat) : Bytes :=
  u16 h.id ++ u16 h.bits ++ u16 nq ++ u16 na ++ u16 nu ++ u16 nr

/-- `Message.AppendPack` (`comp = some []`) and the Builder (`some []` with
`EnableCompression`, `none` without): the packed message. -/
def packMessageWith (m : Message) (comp : Option CompMap) : Except Err Bytes :=
  if m.questions.length > 65535 then .error .tooManyQuestions
  else if m.answers.length > 65535 then .error .tooManyAnswers
  else if m.authorities.length > 65535 then .error .tooManyAuthorities
  else if m.additionals.length > 65535 then .error .tooManyAdditionals
  else
    let h := packHeader m.hdr m.questions.length m.answers.length m.authorities.length m.additionals.length
    match packQuestions m.questions h comp with
    | .error e => .error e
    | .ok (b1, c1) =>
      match packResources m.answers (h ++ b1) c1 with
      | .error e => .error e
      | .ok (b2, c2) =>
        match packResources m.authorities (h ++ b1 ++ b2) c2 with
        | .error e => .error e
        | .ok (b3, c3) =>
          match packResources m.additionals (h ++ b1 ++ b2 ++ b3) c3 with
          | .error e => .error e
          | .ok (b4, _) => .ok (h ++ b1 ++ b2 ++ b3 ++ b4)

/-- `Message.Pack`. -/
def packMessage (m : Message) : Except Err Bytes := packMessageWith m (some [])

/-! ## Reader -/

/-- `unpackBytes` into a fixed array of `n` bytes. -/
def bytesAt (msg : Bytes) (off n : Nat) : Except Err Bytes :=
  if off + n > msg.length then .error .baseLen else .ok ((msg.drop off).take n)

/-- `unpackText`. -/
def textAt (msg : Bytes) (off : Nat) : Except Err (Bytes × Nat) :=
  match msg.drop off with
  | [] => .error .baseLen
  | c :: rest => if rest.length < c then .error .calcLen else .ok (rest.take c, off + 1 + c)

/-- loop of `unpackTXTResource`: `n` bytes of `length` used so far. -/
def txtLoop (msg : Bytes) (length : Nat) : Nat → Nat → Nat → Except Err (List Bytes)
  | 0, _, _ => .error .fuel
  | fuel + 1, off, n =>
    if n < length then
      match textAt msg off with
      | .error e => .error e
      | .ok (t, off') =>
        if length - n < t.length + 1 then .error .calcLen
        else match txtLoop msg length fuel off' (n + t.length + 1) with
          | .ok ts => .ok (t :: ts)
          | .error e => .error e
    else .ok []

/-- loop of `unpackOPTResource`. -/
def optLoop (msg : Bytes) (endOff : Nat) : Nat → Nat → Except Err (List (Nat × Bytes))
  | 0, _ => .error .fuel
  | fuel + 1, off =>
    if off < endOff then
      match u16At msg off with
      | .error e => .error e
      | .ok (code, off1) =>
        match u16At msg off1 with
        | .error e => .error e
        | .ok (l, off2) =>
          if off2 + l > endOff then .error .calcLen  -- the option must end inside the resource
          else if msg.length - off2 < l then .error .calcLen
          else match optLoop msg endOff fuel (off2 + l) with
            | .ok os => .ok ((code, (msg.drop off2).take l) :: os)
            | .error e => .error e
    else .ok []

/-- first pass of `unpackSVCBResource`: `(key, size, valueOff)` of every parameter. -/
def svcbPass1 (msg : Bytes) (bodyEnd : Nat) : Nat → Nat → Option Nat → Except Err (List (Nat × Nat × Nat))
  | 0, _, _ => .error .fuel
  | fuel + 1, off, prev =>
    if off < bodyEnd then
      match u16At msg off with
      | .error e => .error e
      | .ok (key, off1) =>
        if outOfOrder prev key then .error .paramOutOfOrder
        else match u16At msg off1 with
          | .error e => .error e
          | .ok (size, off2) =>
            if off2 + size > bodyEnd then .error .resourceLen
            else match svcbPass1 msg bodyEnd fuel (off2 + size) (some key) with
              | .ok ps => .ok ((key, size, off2) :: ps)
              | .error e => .error e
    else if off ≠ bodyEnd then .error .resourceLen
    else .ok []

/-- second pass: copy the values (`errCalcLen` when a value runs past `msg`). -/
def svcbPass2 (msg : Bytes) : List (Nat × Nat × Nat) → Except Err (List (Nat × Bytes))
  | [] => .ok []
  | (key, size, voff) :: r =>
    if msg.length - voff < size then .error .calcLen
    else match svcbPass2 msg r with
      | .ok ps => .ok ((key, (msg.drop voff).take size) :: ps)
      | .error e => .error e

/-- the loop in `unpackSVCBResource` that rejects a compressed TargetName: walks the labels
stored in place between the start of the name and the offset after it -/
def targetCompressed (msg : Bytes) : Nat → Nat → Nat → Bool
  | 0, _, _ => false
  | fuel + 1, i, stop =>
    if i < stop then
      match msg.drop i with
      | [] => false
      | c :: _ => if c / 64 = 3 then true else targetCompressed msg fuel (i + 1 + c) stop
    else false

def unpackSVCB (msg : Bytes) (off length : Nat) : Except Err (Nat × Bytes × List (Nat × Bytes)) :=
  match u16At msg off with
  | .error e => .error e
  | .ok (prio, off1) =>
    match unpackName msg off1 with
    | .error e => .error e
    | .ok (target, off2) =>
      if targetCompressed msg (off2 + 1) off1 off2 then .error .invalidPtr else
      match svcbPass1 msg (off + length) (msg.length + 1) off2 none with
      | .error e => .error e
      | .ok l =>
        match svcbPass2 msg l with
        | .error e => .error e
        | .ok ps => .ok (prio, target, ps)

def nameOnly (msg : Bytes) (off : Nat) : Except Err Bytes :=
  match unpackName msg off with
  | .ok (n, _) => .ok n
  | .error e => .error e

/-- `unpackResourceBody` (without the offset, which is always `off + hdr.Length`). -/
def unpackBody (msg : Bytes) (off : Nat) (typ length : Nat) : Except Err Body :=
  if typ = 1 then (bytesAt msg off 4).map Body.a
  else if typ = 2 then (nameOnly msg off).map Body.ns
  else if typ = 5 then (nameOnly msg off).map Body.cname
  else if typ = 6 then
    match unpackName msg off with
    | .error e => .error e
    | .ok (ns, o1) =>
      match unpackName msg o1 with
      | .error e => .error e
      | .ok (mbox, o2) =>
        match u32At msg o2 with
        | .error e => .error e
        | .ok (serial, o3) =>
          match u32At msg o3 with
          | .error e => .error e
          | .ok (refresh, o4) =>
            match u32At msg o4 with
            | .error e => .error e
            | .ok (retry, o5) =>
              match u32At msg o5 with
              | .error e => .error e
              | .ok (expire, o6) =>
                match u32At msg o6 with
                | .error e => .error e
                | .ok (minTTL, _) => .ok (.soa ns mbox serial refresh retry expire minTTL)
  else if typ = 12 then (nameOnly msg off).map Body.ptr
  else if typ = 15 then
    match u16At msg off with
    | .error e => .error e
    | .ok (pref, o1) => (nameOnly msg o1).map (Body.mx pref)
  else if typ = 16 then (txtLoop msg length (length + 1) off 0).map Body.txt
  else if typ = 28 then (bytesAt msg off 16).map Body.aaaa
  else if typ = 33 then
    match u16At msg off with
    | .error e => .error e
    | .ok (prio, o1) =>
      match u16At msg o1 with
      | .error e => .error e
      | .ok (weight, o2) =>
        match u16At msg o2 with
        | .error e => .error e
        | .ok (port, o3) => (nameOnly msg o3).map (Body.srv prio weight port)
  else if typ = 64 then
    (unpackSVCB msg off length).map (fun (p, t, ps) => Body.svcb p t ps)
  else if typ = 65 then
    (unpackSVCB msg off length).map (fun (p, t, ps) => Body.https p t ps)
  else if typ = 41 then (optLoop msg (off + length) (msg.length + 1) off).map Body.opt
  else (bytesAt msg off length).map (Body.unknown typ)

/-- `Parser.Question` body. -/
def unpackQuestion (msg : Bytes) (off : Nat) : Except Err (Question × Nat) :=
  match unpackName msg off with
  | .error e => .error e
  | .ok (name, o1) =>
    match u16At msg o1 with
    | .error e => .error e
    | .ok (typ, o2) =>
      match u16At msg o2 with
      | .error e => .error e
      | .ok (cls, o3) => .ok ({ name := name, typ := typ, cls := cls }, o3)

/-- `Parser.resourceHeader`: `ResourceHeader.unpack`, then the check that the record body lies inside
the message (since the rdlength-overrun repair). -/
def unpackRHeader (msg : Bytes) (off : Nat) : Except Err (RHeader × Nat) :=
  match unpackName msg off with
  | .error e => .error e
  | .ok (name, o1) =>
    match u16At msg o1 with
    | .error e => .error e
    | .ok (typ, o2) =>
      match u16At msg o2 with
      | .error e => .error e
      | .ok (cls, o3) =>
        match u32At msg o3 with
        | .error e => .error e
        | .ok (ttl, o4) =>
          match u16At msg o4 with
          | .error e => .error e
          | .ok (len, o5) =>
            if o5 + len > msg.length then .error .resourceLen  -- Parser.resourceHeader: the body must be inside msg
            else .ok ({ name := name, typ := typ, cls := cls, ttl := ttl, length := len }, o5)

/-- `Parser.resource`. -/
def unpackResource (msg : Bytes) (off : Nat) : Except Err (Resource × Nat) :=
  match unpackRHeader msg off with
  | .error e => .error e
  | .ok (h, o1) =>
    match unpackBody msg o1 h.typ h.length with
    | .error e => .error e
    | .ok b => .ok ({ hdr := h, body := b }, o1 + h.length)

/-- `SkipQuestion` body. -/
def skipQuestion (msg : Bytes) (off : Nat) : Except Err Nat :=
  match skipName msg off with
  | .error e => .error e
  | .ok o1 =>
    match skip16 msg o1 with
    | .error e => .error e
    | .ok o2 => skip16 msg o2

/-- `skipResource`. -/
def skipResource (msg : Bytes) (off : Nat) : Except Err Nat :=
  match skipName msg off with
  | .error e => .error e
  | .ok o1 =>
    match skip16 msg o1 with
    | .error e => .error e
    | .ok o2 =>
      match skip16 msg o2 with
      | .error e => .error e
      | .ok o3 =>
        match skip32 msg o3 with
        | .error e => .error e
        | .ok o4 =>
          match u16At msg o4 with
          | .error e => .error e
          | .ok (len, o5) => if o5 + len > msg.length then .error .resourceLen else .ok (o5 + len)

def unpackQuestions (msg : Bytes) : Nat → Nat → Except Err (List Question × Nat)
  | 0, off => .ok ([], off)
  | n + 1, off =>
    match unpackQuestion msg off with
    | .error e => .error e
    | .ok (q, o1) =>
      match unpackQuestions msg n o1 with
      | .error e => .error e
      | .ok (qs, o2) => .ok (q :: qs, o2)

def unpackResources (msg : Bytes) : Nat → Nat → Except Err (List Resource × Nat)
  | 0, off => .ok ([], off)
  | n + 1, off =>
    match unpackResource msg off with
    | .error e => .error e
    | .ok (r, o1) =>
      match unpackResources msg n o1 with
      | .error e => .error e
      | .ok (rs, o2) => .ok (r :: rs, o2)

def skipQuestions (msg : Bytes) : Nat → Nat → Except Err Nat
  | 0, off => .ok off
  | n + 1, off =>
    match skipQuestion msg off with
    | .error e => .error e
    | .ok o1 => skipQuestions msg n o1

def skipResources (msg : Bytes) : Nat → Nat → Except Err Nat
  | 0, off => .ok off
  | n + 1, off =>
    match skipResource msg off with
    | .error e => .error e
    | .ok o1 => skipResources msg n o1

/-- The six `uint16`s of `header.unpack`. -/
structure WireHeader where
  id : Nat
  bits : Nat
  nq : Nat
  na : Nat
  nu : Nat
  nr : Nat
  deriving DecidableEq, Repr, Inhabited

def unpackWireHeader (msg : Bytes) : Except Err WireHeader :=
  match msg with
  | a0 :: a1 :: b0 :: b1 :: c0 :: c1 :: d0 :: d1 :: e0 :: e1 :: f0 :: f1 :: _ =>
    .ok { id := a0 * 256 + a1, bits := b0 * 256 + b1, nq := c0 * 256 + c1, na := d0 * 256 + d1,
          nu := e0 * 256 + e1, nr := f0 * 256 + f1 }
  | _ => .error .baseLen

/-- `Message.Unpack`; also returns the final parser offset. -/
def unpackMessageOff (msg : Bytes) : Except Err (Message × Nat) :=
  match unpackWireHeader msg with
  | .error e => .error e
  | .ok w =>
    match unpackQuestions msg w.nq 12 with
    | .error e => .error e
    | .ok (qs, o1) =>
      match unpackResources msg w.na o1 with
      | .error e => .error e
      | .ok (an, o2) =>
        match unpackResources msg w.nu o2 with
        | .error e => .error e
        | .ok (au, o3) =>
          match unpackResources msg w.nr o3 with
          | .error e => .error e
          | .ok (ad, o4) =>
            .ok ({ hdr := headerOfBits w.id w.bits, questions := qs, answers := an,
                   authorities := au, additionals := ad }, o4)

def unpackMessage (msg : Bytes) : Except Err Message :=
  match unpackMessageOff msg with
  | .ok (m, _) => .ok m
  | .error e => .error e

/-- `Parser` with every record skipped (`SkipAllQuestions` … `SkipAllAdditionals`): final offset. -/
def skipMessage (msg : Bytes) : Except Err Nat :=
  match unpackWireHeader msg with
  | .error e => .error e
  | .ok w =>
    match skipQuestions msg w.nq 12 with
    | .error e => .error e
    | .ok o1 =>
      match skipResources msg w.na o1 with
      | .error e => .error e
      | .ok o2 =>
        match skipResources msg w.nu o2 with
        | .error e => .error e
        | .ok o3 => skipResources msg w.nr o3

/-! ## The Builder -/

/-- What a failed `Name.pack` leaves in the compression map (Go mutates the map in place, and the
Builder keeps using it after a failed call): the map at the point where the loop stopped. -/
def packLoopMap (buf : Bytes) : Bytes → Bytes → Bytes → Option CompMap → Option CompMap
  | [], _, _, comp => comp
  | c :: rest, lab, out, comp =>
    if c = 46 then
      if lab.length ≥ 64 then comp
      else if lab.length = 0 then comp
      else packLoopMap buf rest [] (out ++ lab.length :: lab) comp
    else if lab.isEmpty then
      match comp with
      | some m =>
        let newPtr := buf.length + out.length
        let m' := if newPtr ≤ 16383 then (c :: rest, newPtr) :: m else m
        match lookup (c :: rest) m with
        | some p =>
          if compressionDepth (buf ++ out) p < 10 then some m
          else packLoopMap buf rest [c] out (some m')
        | none => packLoopMap buf rest [c] out (some m')
      | none => packLoopMap buf rest [c] out none
    else packLoopMap buf rest (lab ++ [c]) out comp

/-- the compression map after `Name.pack`, whether it succeeded or not -/
def packNameMap (name : Bytes) (buf : Bytes) (comp : Option CompMap) : Option CompMap :=
  if name.length > 254 then comp
  else if name.isEmpty || name.getLast? != some 46 then comp
  else if name = [46] then comp
  else packLoopMap buf name [] [] comp

/-- the compression map after `ResourceBody.pack`, whether it succeeded or not -/
def packBodyMap (b : Body) (buf : Bytes) (comp : Option CompMap) : Option CompMap :=
  match b with
  | .ns n => packNameMap n buf comp
  | .cname n => packNameMap n buf comp
  | .ptr n => packNameMap n buf comp
  | .mx pref n => packNameMap n (buf ++ u16 pref) comp
  | .soa ns mbox .. =>
    match packName ns buf comp with
    | .error _ => packNameMap ns buf comp
    | .ok (b1, c1) => packNameMap mbox (buf ++ b1) c1
  | _ => comp

/-- `Builder`: `msg` is `b.msg[b.start:]` (the 12 header bytes stay zero until `Finish`),
`sec` the `section` (0 not started, 1 header, 2 questions, 3 answers, 4 authorities,
5 additionals, 6 done), then the header under construction and the compression map. -/
structure Builder where
  msg : Bytes
  sec : Nat
  id : Nat
  bits : Nat
  nq : Nat
  na : Nat
  nu : Nat
  nr : Nat
  comp : Option CompMap
  deriving DecidableEq, Repr, Inhabited

/-- `NewBuilder(buf, h)` -/
def newBuilder (h : Header) : Builder :=
  { msg := List.replicate 12 0, sec := 1, id := h.id % 65536, bits := h.bits, nq := 0, na := 0, nu := 0, nr := 0,
    comp := none }

inductive BOp
  | enableCompression
  | start (s : Nat)          -- StartQuestions (2) … StartAdditionals (5)
  | question (q : Question)
  | resource (r : Resource)  -- the typed XResource method of the body
  | finish
  deriving DecidableEq, Repr, Inhabited

/-- `incrementSectionCount` -/
def Builder.incr (b : Builder) : Except Err Builder :=
  if b.sec = 2 then (if b.nq = 65535 then .error .tooManyQuestions else .ok { b with nq := b.nq + 1 })
  else if b.sec = 3 then (if b.na = 65535 then .error .tooManyAnswers else .ok { b with na := b.na + 1 })
  else if b.sec = 4 then (if b.nu = 65535 then .error .tooManyAuthorities else .ok { b with nu := b.nu + 1 })
  else (if b.nr = 65535 then .error .tooManyAdditionals else .ok { b with nr := b.nr + 1 })

/-- One Builder call: the new state and the error it returned, if any. A failed call leaves
`msg`, the section and the counters alone - but not the compression map, which `Name.pack` has
already updated in place. -/
def Builder.step (b : Builder) : BOp → Builder × Option Err
  | .enableCompression => ({ b with comp := some [] }, none)
  | .start s =>
    if b.sec ≤ 0 then (b, some .notStarted)
    else if b.sec > s then (b, some .sectionDone)
    else ({ b with sec := s }, none)
  | .question q =>
    if b.sec < 2 then (b, some .notStarted)
    else if b.sec > 2 then (b, some .sectionDone)
    else
      match packQuestion q b.msg b.comp with
      | .error e => ({ b with comp := packNameMap q.name b.msg b.comp }, some e)
      | .ok (bs, c) =>
        match ({ b with comp := c } : Builder).incr with
        | .error e => ({ b with comp := c }, some e)
        | .ok b' => ({ b' with msg := b.msg ++ bs }, none)
  | .resource r =>
    if b.sec < 3 then (b, some .notStarted)
    else if b.sec > 5 then (b, some .sectionDone)
    else
      match packName r.hdr.name b.msg b.comp with
      | .error e => ({ b with comp := packNameMap r.hdr.name b.msg b.comp }, some e)
      | .ok (nb, c1) =>
        let pre := b.msg ++ nb ++ u16 r.body.realType ++ u16 r.hdr.cls ++ u32 r.hdr.ttl ++ u16 r.hdr.length
        match packBody r.body pre c1 with
        | .error e => ({ b with comp := packBodyMap r.body pre c1 }, some e)
        | .ok (_, c2) =>
          match packResource r b.msg b.comp with
          | .error e => ({ b with comp := c2 }, some e)
          | .ok (bs, c) =>
            match ({ b with comp := c } : Builder).incr with
            | .error e => ({ b with comp := c }, some e)
            | .ok b' => ({ b' with msg := b.msg ++ bs }, none)
  | .finish =>
    if b.sec < 1 then (b, some .notStarted) else ({ b with sec := 6 }, none)

/-- the bytes `Finish` returns: the header is written over the 12 reserved bytes -/
def Builder.bytes (b : Builder) : Bytes :=
  u16 b.id ++ u16 b.bits ++ u16 b.nq ++ u16 b.na ++ u16 b.nu ++ u16 b.nr ++ b.msg.drop 12

/-- a call sequence: per-call errors, final state -/
def Builder.run (b : Builder) : List BOp → Builder × List (Option Err)
  | [] => (b, [])
  | op :: ops =>
    let (b1, e) := b.step op
    let (b2, es) := b1.run ops
    (b2, e :: es)

/-! ## The record-level Parser API -/

/-- `Parser.skipResource` right after a successful `XHeader` call (`resHeaderValid`): the body is
skipped using the Length that the header call remembered. -/
def skipAfterHeader (msg : Bytes) (bodyOff len : Nat) : Except Err Nat :=
  if bodyOff + len > msg.length then .error .resourceLen else .ok (bodyOff + len)

/-- How a streaming user handles one record: `Question()`/`Answer()`…; `SkipQuestion()`/`SkipAnswer()`…;
`AnswerHeader()` then the typed `XResource()` method; `AnswerHeader()` then `SkipAnswer()`. -/
inductive Step
  | parse | skip | headerBody | headerSkip
  deriving DecidableEq, Repr, Inhabited

inductive Item
  | q (q : Question)
  | r (r : Resource)
  | h (h : RHeader)
  | skipped
  deriving DecidableEq, Repr, Inhabited

/-- one question under a step (there is no header/body split for questions) -/
def walkQuestion (msg : Bytes) (off : Nat) (s : Step) : Except Err (Item × Nat) :=
  match s with
  | .parse | .headerBody =>
    match unpackQuestion msg off with
    | .ok (q, o) => .ok (.q q, o)
    | .error e => .error e
  | .skip | .headerSkip =>
    match skipQuestion msg off with
    | .ok o => .ok (.skipped, o)
    | .error e => .error e

/-- one resource record under a step -/
def walkResource (msg : Bytes) (off : Nat) (s : Step) : Except Err (Item × Nat) :=
  match s with
  | .parse =>
    match unpackResource msg off with
    | .ok (r, o) => .ok (.r r, o)
    | .error e => .error e
  | .headerBody =>
    match unpackRHeader msg off with
    | .error e => .error e
    | .ok (h, o1) =>
      match unpackBody msg o1 h.typ h.length with
      | .error e => .error e
      | .ok b => .ok (.r { hdr := h, body := b }, o1 + h.length)
  | .skip =>
    match skipResource msg off with
    | .ok o => .ok (.skipped, o)
    | .error e => .error e
  | .headerSkip =>
    match unpackRHeader msg off with
    | .error e => .error e
    | .ok (h, o1) =>
      match skipAfterHeader msg o1 h.length with
      | .ok o => .ok (.h h, o)
      | .error e => .error e

def nextStep : List Step → Step × List Step
  | [] => (.parse, [])
  | s :: r => (s, r)

/-- `n` records of one section, one script step per record (default: parse) -/
def walkSection (one : Bytes → Nat → Step → Except Err (Item × Nat)) (msg : Bytes) :
    Nat → Nat → List Step → Except Err (List Item × Nat × List Step)
  | 0, off, sc => .ok ([], off, sc)
  | n + 1, off, sc =>
    match one msg off (nextStep sc).1 with
    | .error e => .error e
    | .ok (it, o1) =>
      match walkSection one msg n o1 (nextStep sc).2 with
      | .error e => .error e
      | .ok (its, o2, sc') => .ok (it :: its, o2, sc')

/-- a whole message through the record-level API under a script: items and final offset -/
def walkMessage (msg : Bytes) (sc : List Step) : Except Err (List Item × Nat) :=
  match unpackWireHeader msg with
  | .error e => .error e
  | .ok w =>
    match walkSection walkQuestion msg w.nq 12 sc with
    | .error e => .error e
    | .ok (i1, o1, s1) =>
      match walkSection walkResource msg w.na o1 s1 with
      | .error e => .error e
      | .ok (i2, o2, s2) =>
        match walkSection walkResource msg w.nu o2 s2 with
        | .error e => .error e
        | .ok (i3, o3, s3) =>
          match walkSection walkResource msg w.nr o3 s3 with
          | .error e => .error e
          | .ok (i4, o4, _) => .ok (i1 ++ i2 ++ i3 ++ i4, o4)

/-- What `Pack` leaves in the message it was called on (and what `Unpack` of the
packed bytes returns): header `Type` from the body, `Length` = packed body length. -/
def normResource (r : Resource) (len : Nat) : Resource :=
  { r with hdr := { r.hdr with typ := r.body.realType, length := len } }

end NetVerif.Model.Dns
