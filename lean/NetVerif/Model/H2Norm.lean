import NetVerif.Model.H2Msg
/-!
# C14 — the documented normalisations between what is submitted and what is observed

Four functions, one per endpoint and direction (strings are byte lists):

* `clientNorm`  : submitted `http.Request`  → wire message   (`httpcommon.EncodeHeaders`,
                  `encodeAndWriteHeaders`, `encodeTrailers`, `actualContentLength`)
* `serverView`  : wire message → what the handler sees        (`newWriterAndRequest`,
                  `httpcommon.NewServerRequest`, `processTrailerHeaders`, `copyTrailersToHandlerRequest`)
* `serverNorm`  : what the handler writes → wire message      (`responseWriterState.writeChunk`,
                  `writeResHeaders.writeFrame`, `encodeHeaders`, `promoteUndeclaredTrailers`)
* `clientView`  : wire message → received `http.Response`     (`handleResponse`, `processTrailers`,
                  `copyTrailers`)

and `normalize = serverView ∘ clientNorm` (request direction).

A header map (`http.Header`) is an association list `key ↦ values` with distinct keys; Go iterates
maps in random order, so the *order of different keys* produced by `clientNorm` is one
representative (the comparison is modulo that order, see `canonFields`).

Not modelled (net/http / net/url internals and paths the generator does not take): URL parsing
(the request target is the `RequestURI` string), non-ASCII hosts (Punycode), CONNECT and extended
CONNECT, `Expect: 100-continue`, HEAD responses, gzip decoding of responses, 1xx responses,
content sniffing and the clock (the sniffed Content-Type and generated Date values are wildcards),
header snapshots taken at handler return (the handler always calls WriteHeader/Write/Flush first),
validation failures (`checkConnHeaders`, `validateHeaders`, `ValidTrailerHeader`: the model assumes
a request/response that passes them).
-/
namespace NetVerif.Model.H2Norm
open NetVerif.Model.H2Frame NetVerif.Model.H2Msg

abbrev Str := List Nat
/-- `http.Header`: distinct keys, each with its value list. -/
abbrev HMap := List (Str × List Str)

/-- ASCII string literal → bytes (`String.toList` reduces in the kernel, `toUTF8` does not; every
literal in this file is ASCII, where code points and UTF-8 bytes coincide). -/
def str (s : String) : Str := s.toList.map (·.toNat)

/-! ## ASCII helpers -/

/-- `lower(b)` of ascii.go / `asciiToLower`. -/
def lowerByte (b : Nat) : Nat := if 65 ≤ b ∧ b ≤ 90 then b + 32 else b
def upperByte (b : Nat) : Nat := if 97 ≤ b ∧ b ≤ 122 then b - 32 else b
/-- `httpcommon.LowerHeader` on a valid (token, hence printable ASCII) name. -/
def lower (s : Str) : Str := s.map lowerByte
/-- `asciiEqualFold`. -/
def eqFold (a b : Str) : Bool := lower a == lower b

/-- the loop of `textproto.canonicalMIMEHeaderKey`: upper-case the first letter and any letter
after a hyphen, lower-case the rest. -/
def canonLoop : Bool → Str → Str
  | _, [] => []
  | up, c :: cs =>
    let c' := if up then upperByte c else lowerByte c
    c' :: canonLoop (c' == 45) cs

/-- `textproto.CanonicalMIMEHeaderKey` = `http.CanonicalHeaderKey` = `httpcommon.CanonicalHeader` =
`serverConn.canonicalHeader`: names containing a non-token byte are returned unchanged. -/
def canonKey (s : Str) : Str :=
  if s.all (fun b => b < 128 && isTokenByte b) then canonLoop true s else s

def isSpTab (b : Nat) : Bool := b == 32 || b == 9
/-- `textproto.TrimString`. -/
def trim (s : Str) : Str := ((s.dropWhile isSpTab).reverse.dropWhile isSpTab).reverse

/-- `strings.Split(s, sep)` for a one-byte separator. -/
def splitOn (sep : Nat) : Str → List Str
  | [] => [[]]
  | c :: cs =>
    if c = sep then [] :: splitOn sep cs
    else match splitOn sep cs with
      | [] => [[c]]
      | h :: t => (c :: h) :: t

/-- `strings.Join(xs, sep)`. -/
def joinWith (sep : Str) : List Str → Str
  | [] => []
  | [x] => x
  | x :: y :: rest => x ++ sep ++ joinWith sep (y :: rest)

/-- bytewise lexicographic `<` (Go string comparison). -/
def strLt : Str → Str → Bool
  | [], [] => false
  | [], _ :: _ => true
  | _ :: _, [] => false
  | a :: as, b :: bs => if a < b then true else if b < a then false else strLt as bs

def insertBy {α : Type} (lt : α → α → Bool) (x : α) : List α → List α
  | [] => [x]
  | y :: ys => if lt x y then x :: y :: ys else y :: insertBy lt x ys

/-- stable insertion sort. -/
def sortBy {α : Type} (lt : α → α → Bool) : List α → List α
  | [] => []
  | x :: xs => insertBy lt x (sortBy lt xs)

def natDigits : Nat → Nat → Str
  | 0, _ => []
  | fuel + 1, n => if n < 10 then [48 + n] else natDigits fuel (n / 10) ++ [48 + n % 10]
/-- `strconv.Itoa` / `FormatInt(n, 10)` for n ≥ 0. -/
def itoa (n : Nat) : Str := natDigits (n + 1) n

def digitsVal : Str → Nat → Option Nat
  | [], acc => some acc
  | c :: cs, acc => if 48 ≤ c ∧ c ≤ 57 then digitsVal cs (acc * 10 + (c - 48)) else none
/-- `strconv.ParseUint(s, 10, 63)`. -/
def parseUint63 (s : Str) : Option Nat :=
  if s.isEmpty then none else
  match digitsVal s 0 with
  | some v => if v < 9223372036854775808 then some v else none
  | none => none

/-! ## Header maps -/

def HMap.get (h : HMap) (k : Str) : List Str :=
  match h.find? (fun e => e.1 == k) with
  | some e => e.2
  | none => []

def HMap.has (h : HMap) (k : Str) : Bool := h.any (fun e => e.1 == k)

def HMap.del (h : HMap) (k : Str) : HMap := h.filter (fun e => !(e.1 == k))

/-- `Header.Add` without canonicalisation (the key is already in the wanted form). -/
def HMap.add (h : HMap) (k v : Str) : HMap :=
  if h.has k then h.map (fun e => if e.1 == k then (e.1, e.2 ++ [v]) else e) else h ++ [(k, [v])]

def HMap.set (h : HMap) (k : Str) (vv : List Str) : HMap :=
  if h.has k then h.map (fun e => if e.1 == k then (e.1, vv) else e) else h ++ [(k, vv)]

def HMap.sorted (h : HMap) : HMap := sortBy (fun a b => strLt a.1 b.1) h

/-- fields → header map with canonical keys (`header.Add(canonicalHeader(name), value)`). -/
def fieldsToMap (fs : List Field) : HMap :=
  fs.foldl (fun h f => h.add (canonKey f.name) f.value) []

/-- comparison form of a field list: pseudo-header prefix in order, then the regular fields stably
sorted by name (the order of different names depends on Go's map iteration order). -/
def canonFields (fs : List Field) : List Field :=
  fs.takeWhile Field.isPseudo ++ sortBy (fun a b => strLt a.name b.name) (fs.dropWhile Field.isPseudo)

/-- coarser comparison form (also sorts the values of one name): used only when two submitted
keys differ just in case, so that their values interleave in map order. -/
def canonFieldsLoose (fs : List Field) : List Field :=
  fs.takeWhile Field.isPseudo ++
    sortBy (fun a b => strLt a.name b.name || (a.name == b.name && strLt a.value b.value))
      (fs.dropWhile Field.isPseudo)

/-! ## SETTINGS_MAX_HEADER_LIST_SIZE -/

/-- `hpack.HeaderField.Size()` summed: the RFC 9113 header list size (name + value + 32 per field). -/
def headerListSize : List Field → Nat
  | [] => 0
  | f :: fs => f.name.length + f.value.length + 32 + headerListSize fs

/-- the size accounting of the emit callback of `Framer.readMetaFrame`
(`if size > remainSize { truncated } ; remainSize -= size`): the remaining budget, or `none` once
the list is truncated (the server then answers 431, the Transport fails the response). -/
def sizeLoop (remain : Nat) : List Field → Option Nat
  | [] => some remain
  | f :: fs =>
    if f.name.length + f.value.length + 32 > remain then none
    else sizeLoop (remain - (f.name.length + f.value.length + 32)) fs

/-- `adjustHTTP1MaxHeaderSize` constants and net/http's `DefaultMaxHeaderBytes`. -/
def perFieldOverhead : Nat := 32
def typicalHeaders : Nat := 10
def defaultMaxHeaderBytes : Nat := 1048576

/-- `serverConn.maxHeaderListSize()`: what the server advertises and enforces,
`uint32(adjustHTTP1MaxHeaderSize(MaxHeaderBytes))` — the conversion truncates (as the code is). -/
def serverHeaderListLimit (maxHeaderBytes : Nat) : Nat :=
  ((if maxHeaderBytes = 0 then defaultMaxHeaderBytes else maxHeaderBytes) + typicalHeaders * perFieldOverhead)
    % 4294967296

/-- `Transport.maxHeaderListSize()` (no `MaxResponseHeaderBytes`): 0 means 10 MiB; 2^32-1 means
"no limit": nothing is advertised and the Framer's own default (16 MiB) applies. -/
def clientHeaderListLimit (maxHeaderListSize : Nat) : Nat :=
  if maxHeaderListSize = 0 then 10485760
  else if maxHeaderListSize ≥ 4294967295 then 16777216
  else maxHeaderListSize

/-! ## Request: client side -/

structure Req where
  method : Str
  scheme : Str
  host : Str          -- Request.Host
  uhost : Str         -- URL.Host
  path : Str          -- URL.RequestURI()
  contentLength : Int -- Request.ContentLength as set by the caller
  nilBody : Bool      -- Request.Body == nil
  body : Str
  header : HMap
  trailer : HMap      -- Request.Trailer (values as they are when the body hits EOF)
  gzip : Bool         -- !Transport.DisableCompression
deriving Repr, Inhabited

/-- `actualContentLength`. -/
def Req.actualCL (r : Req) : Int :=
  if r.nilBody then 0 else if r.contentLength ≠ 0 then r.contentLength else -1

/-- the connection-specific names `EncodeHeaders` never transmits (`asciiEqualFold` chain). -/
def connSpecific : List Str :=
  [str "connection", str "proxy-connection", str "transfer-encoding", str "upgrade", str "keep-alive"]

/-- names whose value comes from elsewhere (`Host` → `:authority`, automatic `content-length`). -/
def replacedNames : List Str := [str "host", str "content-length"]

/-- the cookie crumbs of one Cookie value (`strings.IndexByte(v, ';')` loop). -/
def cookieCrumbs : Nat → Str → List Str
  | 0, _ => []
  | fuel + 1, v =>
    if v.contains 59 then
      v.takeWhile (· != 59) :: cookieCrumbs fuel (((v.dropWhile (· != 59)).drop 1).dropWhile (· == 32))
    else if v.length > 0 then [v] else []

/-- what `enumerateHeaders` emits for one `(k, vv)` of `req.Header`. -/
def reqHeaderFields (k : Str) (vv : List Str) : List Field :=
  let lk := lower k
  if replacedNames.contains lk then []
  else if connSpecific.contains lk then []
  else if lk == str "user-agent" then
    match vv with
    | [] => []
    | v :: _ => if v.isEmpty then [] else [⟨lk, v⟩]
  else if lk == str "cookie" then
    (vv.flatMap (fun v => cookieCrumbs (v.length + 1) v)).map (fun c => ⟨str "cookie", c⟩)
  else if k == str ":protocol" then []
  else vv.map (fun v => ⟨lk, v⟩)

/-- `shouldSendReqContentLength`. -/
def shouldSendCL (method : Str) (cl : Int) : Bool :=
  if cl > 0 then true else if cl < 0 then false
  else method == str "POST" || method == str "PUT" || method == str "PATCH"

/-- names that may not be trailers (`commaSeparatedTrailers`, `NewServerRequest`). -/
def forbiddenTrailer : List Str := [str "Transfer-Encoding", str "Trailer", str "Content-Length"]

/-- `commaSeparatedTrailers`. -/
def trailerDecl (t : HMap) : Str :=
  joinWith [44] (sortBy strLt (t.map (fun e => canonKey e.1)))

/-- `httpcommon.IsRequestGzip` (exact-key lookups, as in Go). -/
def addGzip (r : Req) : Bool :=
  r.gzip && (r.header.get (str "Accept-Encoding")).isEmpty && (r.header.get (str "Range")).isEmpty &&
    !(r.method == str "HEAD")

def defaultUserAgent : Str := str "Go-http-client/2.0"

def Req.authority (r : Req) : Str := if r.host.isEmpty then r.uhost else r.host
def Req.methodOrGet (r : Req) : Str := if r.method.isEmpty then str "GET" else r.method

/-- the request header block fields, in `enumerateHeaders` order (non-CONNECT). -/
def reqFields (r : Req) : List Field :=
  [⟨str ":authority", r.authority⟩, ⟨str ":method", r.methodOrGet⟩, ⟨str ":path", r.path⟩,
   ⟨str ":scheme", r.scheme⟩]
  ++ (if r.trailer.isEmpty then [] else [⟨str "trailer", trailerDecl r.trailer⟩])
  ++ r.header.flatMap (fun e => reqHeaderFields e.1 e.2)
  ++ (if shouldSendCL r.method r.actualCL then [⟨str "content-length", itoa r.actualCL.toNat⟩] else [])
  ++ (if addGzip r then [⟨str "accept-encoding", str "gzip"⟩] else [])
  ++ (if r.header.any (fun e => eqFold e.1 (str "user-agent")) then [] else [⟨str "user-agent", defaultUserAgent⟩])

/-- `EncodeHeaders`' first pass: `hlSize > param.PeerMaxHeaderListSize` ⇒ `ErrRequestHeaderListSize`
(the request is not sent). -/
def clientRefuses (r : Req) (peerLimit : Nat) : Bool :=
  peerLimit > 0 && headerListSize (reqFields r) > peerLimit

/-- `encodeTrailers`: every value of every key, lower-cased name. -/
def reqTrailerFields (t : HMap) : List Field :=
  t.flatMap (fun e => e.2.map (fun v => ⟨lower e.1, v⟩))

/-- `writeRequest`: `hasBody := actualContentLength(req) != 0`. Without a body nothing is written
after the request headers. -/
def Req.hasBody (r : Req) : Bool := !(r.actualCL == 0)

/-- submitted request → wire message. A request without a body (`Body == nil`) ends with its
headers: its announced trailers are not sent (as in HTTP/1, where trailers follow a chunked body);
the `trailer` field announcing them stays in the header block. -/
def clientNorm (r : Req) : Msg :=
  { headers := reqFields r,
    body := if r.hasBody then r.body else [],
    trailers := if r.hasBody then reqTrailerFields r.trailer else [] }

/-- does the client put END_STREAM on HEADERS (`endStream := !res.HasBody`)? -/
def Req.earlyEnd (r : Req) : Bool := !r.hasBody

/-- the frames the Transport writes for a request (`encodeAndWriteHeaders` + `writeRequestBody`),
for a plan `p` (stream id, peer's frame size, cut sequence, END_STREAM placement on DATA). -/
def clientFrames (C : Codec) (s : C.S) (p : Plan) (r : Req) : List SFrame × C.S :=
  encodeFrames C s { p with earlyEnd := r.earlyEnd } (clientNorm r)

/-! ## Request: server side -/

structure HReq where
  method : Str
  uri : Str
  host : Str
  contentLength : Int
  header : HMap
  body : Str
  trailer : HMap
deriving Repr, Inhabited, DecidableEq

/-- `MetaHeadersFrame.PseudoValue`. -/
def pseudoValue (fs : List Field) (name : Str) : Str :=
  match (pseudoFields fs).find? (fun f => f.name == 58 :: name) with
  | some f => f.value
  | none => []

def regularFields (fs : List Field) : List Field := fs.dropWhile Field.isPseudo

/-- trailer keys declared by one `Trailer` value (`NewServerRequest`). -/
def declaredKeys (v : Str) : List Str :=
  ((splitOn 44 v).map (fun k => canonKey (trim k))).filter (fun k => !forbiddenTrailer.contains k)

def dedup : List Str → List Str
  | [] => []
  | x :: xs => x :: (dedup xs).filter (fun y => !(y == x))

/-- `serverConn.newWriterAndRequest` + `NewServerRequest` + trailer copy: what the handler
observes for a wire message. `hdrEnd` = the HEADERS frame carried END_STREAM. -/
def serverView (m : Msg) (hdrEnd : Bool) : HReq :=
  let h0 := fieldsToMap (regularFields m.headers)
  -- Cookie crumbs are merged into one "; "-delimited value
  let h1 := if (h0.get (str "Cookie")).length > 1
            then h0.set (str "Cookie") [joinWith (str "; ") (h0.get (str "Cookie"))] else h0
  let declared := dedup ((h1.get (str "Trailer")).flatMap declaredKeys)
  let h2 := h1.del (str "Trailer")
  let auth := pseudoValue m.headers (str "authority")
  let tmap := fieldsToMap m.trailers
  { method := pseudoValue m.headers (str "method"),
    uri := pseudoValue m.headers (str "path"),
    host := if auth.isEmpty then (h2.get (str "Host")).headD [] else auth,
    contentLength :=
      if hdrEnd then 0
      else if h2.has (str "Content-Length") then
        match parseUint63 ((h2.get (str "Content-Length")).headD []) with
        | some v => v
        | none => 0
      else -1,
    header := h2,
    body := m.body,
    -- only pre-declared trailers are copied to Request.Trailer
    trailer := declared.map (fun k => (k, tmap.get k)) }

/-- request direction, end to end. -/
def normalize (r : Req) : HReq := serverView (clientNorm r) r.earlyEnd

/-! ## Response: server side -/

structure Resp where
  status : Nat
  /-- handler's `Header().Add(k, v)` calls before WriteHeader, grouped (keys as given). -/
  header : HMap
  /-- trailers announced with `Header().Add("Trailer", k)`; values added after the body. -/
  declTrailers : HMap
  /-- trailers set after the body under the `Trailer:` key prefix. -/
  undeclTrailers : HMap
  body : Str
  /-- write sizes in order, `-1` = Flush (the rest of the body is written last). -/
  writes : List Int
  /-- 1 = the handler flushes the header before anything else. -/
  flushFirst : Bool
deriving Repr, Inhabited

/-- `Header().Add`: canonical key. -/
def addAll (h : HMap) (kvs : HMap) : HMap :=
  kvs.foldl (fun h e => e.2.foldl (fun h v => h.add (canonKey e.1) v) h) h

/-- the handler header at WriteHeader time (`snapHeader`). -/
def Resp.snap (r : Resp) : HMap :=
  r.declTrailers.foldl (fun h e => h.add (str "Trailer") e.1) (addAll [] r.header)

/-- `bodyAllowedForStatus`. -/
def bodyAllowed (st : Nat) : Bool := !((100 ≤ st && st ≤ 199) || st == 204 || st == 304)

def Resp.hasFlush (r : Resp) : Bool := r.flushFirst || r.writes.any (· < 0)

/-- bytes sitting in the handler's 4096-byte bufio.Writer when the header goes out: what was
written before the first Flush (everything, if there is no Flush). -/
def Resp.firstChunk (r : Resp) : Nat :=
  if r.flushFirst then 0
  else if r.writes.any (· < 0) then
    min r.body.length ((r.writes.takeWhile (· ≥ 0)).foldl (fun a n => a + n.toNat) 0)
  else r.body.length

def handlerChunkWriteSize : Nat := 4096

/-- the handler has returned when the header is written: no Flush and the whole body fits the
bufio.Writer (`handlerDone` in `writeChunk`). -/
def Resp.doneAtHeader (r : Resp) : Bool := !r.hasFlush && r.body.length ≤ handlerChunkWriteSize

/-- `httpguts.ValidHeaderFieldValue`-filtered, lower-cased fields of `encodeHeaders(enc, h, keys)`;
`keys = none` means all keys, sorted. -/
def encodeHeaderFields (h : HMap) (keys : Option (List Str)) : List Field :=
  let ks : List Str := match keys with
    | some ks => ks
    | none => (h.sorted).map (fun (e : Str × List Str) => e.1)
  ks.flatMap (fun k =>
    let lk := lower k
    if !validWireHeaderFieldName lk then []
    else ((h.get k).filter (fun v => validHeaderFieldValue v &&
            (!(lk == str "transfer-encoding") || v == str "trailers"))).map (fun v => ⟨lk, v⟩))

/-- `rws.trailers` when the trailers are written. `promoteUndeclaredTrailers` (which also sorts)
runs at the top of the `writeChunk` call made at handler return; the announced keys
(`Trailer` header) are declared a few lines further down, in the `writeChunk` call that sends the
header. If that is the same call (`doneAtHeader`), the announced keys are appended after the sort. -/
def Resp.trailerKeys (r : Resp) : List Str :=
  let decl := r.declTrailers.map (fun e => canonKey e.1)
  let und := r.undeclTrailers.map (fun e => canonKey e.1)
  let sortIfMany (ks : List Str) : List Str := if ks.length > 1 then sortBy strLt ks else ks
  if r.doneAtHeader then dedup (sortIfMany (dedup und) ++ decl)
  else sortIfMany (dedup (decl ++ und))

/-- `handlerHeader` restricted to trailer keys at handler return. -/
def Resp.trailerMap (r : Resp) : HMap :=
  let h := addAll [] r.declTrailers
  -- promoteUndeclaredTrailers: handlerHeader[canon(k)] = vv
  r.undeclTrailers.foldl (fun h e => h.set (canonKey e.1) e.2) h

def Resp.trailerFields (r : Resp) : List Field :=
  encodeHeaderFields r.trailerMap (some r.trailerKeys)

/-- a wildcard value: the server computes it from the clock / by sniffing. NUL cannot occur in a
header field value (`ValidHeaderFieldValue` rejects control bytes), so it cannot collide with a
value the handler wrote. -/
def wild : Str := [0]

/-- the response header block of `writeChunk`/`writeResHeaders.writeFrame`. The values of an
automatic `content-type` and `date` are `wild`. -/
def respFields (r : Resp) : List Field :=
  let snap := r.snap
  let clenGet := (snap.get (str "Content-Length")).headD []
  let clenOK := !clenGet.isEmpty && (parseUint63 clenGet).isSome
  let snap1 := if clenGet.isEmpty then snap else snap.del (str "Content-Length")
  let clen : Str :=
    if clenOK then clenGet
    else if !snap1.has (str "Content-Length") && r.doneAtHeader && bodyAllowed r.status then itoa r.body.length
    else []
  let autoCT := (snap1.get (str "Content-Encoding")).headD [] == [] && !snap1.has (str "Content-Type") &&
    bodyAllowed r.status && r.firstChunk > 0
  let autoDate := !snap1.has (str "Date")
  let snap2 := snap1.del (str "Connection")
  [⟨str ":status", itoa r.status⟩] ++ encodeHeaderFields snap2 none
    ++ (if autoCT then [⟨str "content-type", wild⟩] else [])
    ++ (if clen.isEmpty then [] else [⟨str "content-length", clen⟩])
    ++ (if autoDate then [⟨str "date", wild⟩] else [])

/-- handler-written response → wire message. -/
def serverNorm (r : Resp) : Msg :=
  { headers := respFields r, body := r.body, trailers := r.trailerFields }

/-- replace the values of automatic fields by the wildcard (for comparison with `serverNorm`). -/
def maskAuto (expected actual : List Field) : List Field :=
  actual.map (fun f => if expected.any (fun e => e.name == f.name && e.value == wild) then ⟨f.name, wild⟩ else f)

/-! ## Response: client side -/

structure HRes where
  status : Nat
  contentLength : Int
  header : HMap
  body : Str
  trailer : HMap
deriving Repr, Inhabited, DecidableEq

/-- `foreachHeaderElement`. -/
def headerElements (v : Str) : List Str :=
  let t := trim v
  if t.isEmpty then []
  else if !t.contains 44 then [t]
  else ((splitOn 44 t).map trim).filter (fun f => !f.isEmpty)

/-- `handleResponse` + `processTrailers` + `copyTrailers` (non-HEAD, status ≥ 200, no gzip). -/
def clientView (m : Msg) (hdrEnd : Bool) : HRes :=
  let regs := regularFields m.headers
  let isTrailer (f : Field) : Bool := canonKey f.name == str "Trailer"
  let header := fieldsToMap (regs.filter (fun f => !isTrailer f))
  let declared := dedup (((regs.filter isTrailer).flatMap (fun f => headerElements f.value)).map canonKey)
  let clens := header.get (str "Content-Length")
  let tmap := fieldsToMap m.trailers
  { status := (digitsVal (pseudoValue m.headers (str "status")) 0).getD 0,
    contentLength :=
      match clens with
      | [c] => match parseUint63 c with
               | some v => v
               | none => -1
      | _ :: _ :: _ => -1
      | [] => if hdrEnd then 0 else -1,
    header := header,
    body := m.body,
    -- declared keys (nil values) overwritten by whatever trailers arrived, declared or not
    trailer := tmap.foldl (fun (t : HMap) e => t.set e.1 e.2) (declared.map (fun k => (k, []))) }

end NetVerif.Model.H2Norm
