import NetVerif.Model.WriteSched
/-
Executable model of `priorityWriteSchedulerRFC7540` (http2/writesched_priority_rfc7540.go), after the
two repairs (`CloseStream` detaches the node's queue; `OpenStream` takes an opened idle node off the
idle list).

This scheduler copies `writeQueue` *values* in and out of the pool (`q: *ws.queuePool.get()`,
`q := n.q; ws.queuePool.put(&q); n.q = writeQueue{}`).  With the repair every backing array is owned by
exactly one node queue or one pooled queue at any time, so queues are values (`WQ`) here as in the other
schedulers; the pool is only a counter (`poolN`, shown by the white-box dump).
Tree nodes are records in `store`, addressed by a node number `nid` (the Go pointer); `nodes` is the
`map[uint32]*node`.  `kids` holds the sibling list (`kids`/`next` pointers) in order.
`sort.Sort` is modelled as insertion sort, which is what the Go library runs for ≤ 12 elements;
`float64` comparisons in `Less` are modelled with exact integer cross-multiplication (exact while
`|subtreeBytes| < 2^40`).
Core Lean only.
-/
namespace NetVerif.Model.WriteSched

structure Node where
  id : Nat := 0
  q : WQ := {}
  weight : Nat := 0
  state : Nat := 0          -- 0 open, 1 closed, 2 idle
  bytes : Int := 0
  sub : Int := 0            -- subtreeBytes
  parent : Option Nat := none
  kids : List Nat := []
  deriving Repr

structure P7540 where
  store : List Node := [{}]               -- nid 0 is the root
  nodes : List (Nat × Nat) := [(0, 0)]    -- stream id ↦ nid
  maxID : Nat := 0
  closedL : List Nat := []
  idleL : List Nat := []
  maxClosed : Nat := 10
  maxIdle : Nat := 10
  limit : Int := maxInt32
  throttle : Bool := false
  poolN : Nat := 0                        -- len(ws.queuePool)

namespace P7540

def node (s : P7540) (nid : Nat) : Node := s.store.getD nid {}
def setNode (s : P7540) (nid : Nat) (n : Node) : P7540 := { s with store := s.store.set nid n }
def modNode (s : P7540) (nid : Nat) (f : Node → Node) : P7540 := s.setNode nid (f (s.node nid))
def lookup (s : P7540) (id : Nat) : Option Nat := s.nodes.lookup id

/-- `n.setParent(parent)`; `none` result = panic "setParent to self" -/
def setParent (s : P7540) (n : Nat) (parent : Option Nat) : Option P7540 :=
  if some n = parent then none
  else if (s.node n).parent = parent then some s
  else
    let s := match (s.node n).parent with
      | some p => s.modNode p fun pn => { pn with kids := pn.kids.erase n }
      | none => s
    let s := s.modNode n fun nn => { nn with parent := parent }
    match parent with
    | none => some s
    | some p => some (s.modNode p fun pn => { pn with kids := n :: pn.kids })

def setParent! (s : P7540) (n : Nat) (parent : Option Nat) : P7540 := (s.setParent n parent).getD s

/-- `n.addBytes(b)` -/
def addBytes (s : P7540) (n : Nat) (b : Int) : P7540 :=
  let s := s.modNode n fun nn => { nn with bytes := nn.bytes + b }
  let rec up (fuel : Nat) (s : P7540) (x : Option Nat) : P7540 :=
    match fuel, x with
    | 0, _ => s
    | _, none => s
    | fuel + 1, some x => up fuel (s.modNode x fun xn => { xn with sub := xn.sub + b }) (s.node x).parent
  up (s.store.length + 1) s (some n)

/-- `ws.queuePool.get()`: always an empty queue -/
def poolGet (s : P7540) : P7540 := { s with poolN := s.poolN - 1 }

/-- `removeNode(n)` -/
def removeNode (s : P7540) (n : Nat) : P7540 :=
  let rec kidsLoop (fuel : Nat) (s : P7540) : P7540 :=
    match fuel with
    | 0 => s
    | fuel + 1 =>
      match (s.node n).kids with
      | [] => s
      | k :: _ => kidsLoop fuel (s.setParent! k (s.node n).parent)
  let s := kidsLoop (s.store.length + 1) s
  let s := s.setParent! n none
  { s with nodes := s.nodes.filter fun p => p.1 != (s.node n).id }

def getList (s : P7540) (closed : Bool) : List Nat := if closed then s.closedL else s.idleL

def setList (s : P7540) (closed : Bool) (l : List Nat) : P7540 :=
  if closed then { s with closedL := l } else { s with idleL := l }

/-- first half of `addClosedOrIdleNode`: when the list is full, remove its oldest node from the tree -/
def evictHead (s : P7540) (closed : Bool) : P7540 :=
  if (s.getList closed).length = (if closed then s.maxClosed else s.maxIdle) then
    match s.getList closed with
    | x :: rest => (s.removeNode x).setList closed rest
    | [] => s
  else s

/-- `addClosedOrIdleNode` on the closed list (`closed = true`) or the idle list -/
def addClosedOrIdle (s : P7540) (closed : Bool) (n : Nat) : P7540 :=
  if (if closed then s.maxClosed else s.maxIdle) = 0 then s else
  let s := s.evictHead closed
  s.setList closed (s.getList closed ++ [n])

def newNode (s : P7540) (id state : Nat) : P7540 × Nat :=
  let s := s.poolGet
  let nid := s.store.length
  ({ s with store := s.store ++ [{ id := id, q := {}, weight := 15, state := state }] }, nid)

/-- allocate a node for stream `id` in state `st`, link it under `parent`, enter it in the map -/
def addNode (s : P7540) (id st parent : Nat) : P7540 × Nat :=
  let (s, nid) := s.newNode id st
  let s := s.setParent! nid (some parent)
  ({ s with nodes := (id, nid) :: s.nodes }, nid)

def openStream (s : P7540) (id pusher : Nat) : P7540 × Res :=
  match s.lookup id with
  | some cur =>
    if (s.node cur).state != 2 then (s, .panic)
    else ({ s.modNode cur (fun n => { n with state := 0 }) with idleL := s.idleL.erase cur }, .ok)
  | none =>
    let (s, _) := s.addNode id 0 ((s.lookup pusher).getD 0)
    ({ s with maxID := if id > s.maxID then id else s.maxID }, .ok)

/-- first part of `CloseStream`: mark closed, forget the byte count, return the queue to the pool and
detach it from the node (`q := n.q; ws.queuePool.put(&q); n.q = writeQueue{}`) -/
def closeMark (s : P7540) (n : Nat) : P7540 :=
  let s := s.modNode n fun nn => { nn with state := 1 }
  let s := s.addBytes n (-(s.node n).bytes)
  { s.modNode n (fun nn => { nn with q := {} }) with poolN := s.poolN + 1 }

def closeStream (s : P7540) (id : Nat) : P7540 × Res :=
  if id = 0 then (s, .panic) else
  match s.lookup id with
  | none => (s, .panic)
  | some n =>
    if (s.node n).state != 0 then (s, .panic) else
    let s := s.closeMark n
    if s.maxClosed > 0 then (s.addClosedOrIdle true n, .ok) else (s.removeNode n, .ok)

/-- is `n` a proper ancestor of `x`? (the loop `for x := parent.parent; x != nil; x = x.parent`) -/
def isAncestor (s : P7540) (n : Nat) : Nat → Option Nat → Bool
  | 0, _ => false
  | _, none => false
  | fuel + 1, some x => if x = n then true else isAncestor s n fuel (s.node x).parent

/-- first half of `AdjustStream`: find the node, or create an idle one (`none`: the call returns early) -/
def adjustFind (s : P7540) (id : Nat) : Option (P7540 × Nat) :=
  match s.lookup id with
  | some n => some (s, n)
  | none =>
    if id ≤ s.maxID ∨ s.maxIdle = 0 then none else
    let s : P7540 := { s with maxID := id }
    let (s, nid) := s.addNode id 2 0
    some (s.addClosedOrIdle false nid, nid)

/-- second half of `AdjustStream`: re-link node `n` under `dep` -/
def adjustLink (s : P7540) (n dep : Nat) (excl : Bool) (weight : Nat) : P7540 × Res :=
  match s.lookup dep with
  | none => ((s.setParent! n (some 0)).modNode n fun nn => { nn with weight := 15 }, .ok)
  | some parent =>
    if n = parent then (s, .ok) else
    let s := if isAncestor s n (s.store.length + 1) (s.node parent).parent
             then s.setParent! parent (s.node n).parent else s
    let s := if excl then
        (s.node parent).kids.foldl (fun s k => if k != n then s.setParent! k (some n) else s) s
      else s
    ((s.setParent! n (some parent)).modNode n fun nn => { nn with weight := weight }, .ok)

def adjustStream (s : P7540) (id dep : Nat) (excl : Bool) (weight : Nat) : P7540 × Res :=
  if id = 0 then (s, .panic) else
  match s.adjustFind id with
  | none => (s, .ok)
  | some (s, n) => s.adjustLink n dep excl weight

def push (s : P7540) (f : Frame) : P7540 × Res :=
  let target : Option Nat :=
    if f.isControl then some 0 else
    match s.lookup f.streamID with
    | some n => some n
    | none => if f.dataSize > 0 then none else some 0
  match target with
  | none => (s, .panic)
  | some n =>
    (s.modNode n fun nn => { nn with q := nn.q.push f }, .ok)

/-- `sortPriorityNodeSiblingsRFC7540.Less` -/
def less (a b : Node) : Bool :=
  let wi : Int := a.weight + 1
  let wk : Int := b.weight + 1
  if a.sub = 0 ∧ b.sub = 0 then wi ≥ wk
  else if b.sub = 0 then false
  else if b.sub > 0 then a.sub * wk ≤ wi * b.sub
  else a.sub * wk ≥ wi * b.sub   -- `subtreeBytes` can go negative (re-parenting does not move the counts)

/-- inner loop of `insertionSort` on the reversed sorted prefix -/
def bubble (lt : Nat → Nat → Bool) (x : Nat) : List Nat → List Nat
  | [] => [x]
  | p :: rp => if lt x p then p :: bubble lt x rp else x :: p :: rp

def insertionSort (lt : Nat → Nat → Bool) (l : List Nat) : List Nat :=
  (l.foldl (fun rp x => bubble lt x rp) []).reverse

/-- byte limit the `Pop` callback hands to `consume` -/
def visitLimit (s : P7540) (openParent : Bool) : Int := if openParent then s.limit else maxInt32

/-- update of `writeThrottleLimit` after a successful write -/
def afterVisit (s : P7540) (openParent : Bool) : P7540 :=
  if openParent then
    { s with limit := if s.limit + 1024 > maxInt32 then maxInt32 else s.limit + 1024 }
  else if s.throttle then { s with limit := 1024 } else s

/-- the callback of `Pop` on node `n` -/
def visit (e : Env) (s : P7540) (n : Nat) (openParent : Bool) : Env × P7540 × Option Frame :=
  match (s.node n).q.consume e (s.visitLimit openParent) with
  | (_, _, none) => (e, s, none)
  | (e', q, some f) =>
    (e', afterVisit ((s.modNode n fun nn => { nn with q := q }).addBytes n f.dataSize) openParent, some f)

/-- `walkReadyInOrder` with the `Pop` callback; `fuel` bounds the depth of the tree -/
def walk : Nat → Env → P7540 → Nat → Bool → Env × P7540 × Option Frame
  | 0, e, s, _, _ => (e, s, none)
  | fuel + 1, e, s, n, openParent =>
    let r := if (s.node n).q.isEmpty then (e, s, none) else visit e s n openParent
    match r with
    | (e', s', some f) => (e', s', some f)
    | (_, _, none) =>
      let nd := s.node n
      match nd.kids with
      | [] => (e, s, none)
      | k0 :: ks =>
        let openParent := if nd.id != 0 then openParent || nd.state == 0 else openParent
        let needSort := ks.any fun k => (s.node k).weight != (s.node k0).weight
        let s := if needSort then
            s.modNode n fun nn => { nn with kids := insertionSort (fun a b => less (s.node a) (s.node b)) nd.kids }
          else s
        (s.node n).kids.foldl (fun (acc : Env × P7540 × Option Frame) k =>
          match acc with
          | (_, _, some _) => acc
          | (e', s', none) => walk fuel e' s' k openParent) (e, s, none)

def pop (e : Env) (s : P7540) : Env × P7540 × Res :=
  match walk (s.store.length + 1) e s 0 false with
  | (e', s', some f) => (e', s', .frame f)
  | (e', s', none) => (e', s', .none)

def init (maxClosed maxIdle : Nat) (throttle : Bool) : P7540 :=
  { maxClosed := maxClosed, maxIdle := maxIdle, throttle := throttle,
    limit := if throttle then 1024 else maxInt32 }

def step (e : Env) (s : P7540) : Op → Env × P7540 × Res
  | .win id d =>
    if id = 0 then ({ e with connWin := e.connWin + d }, s, .ok)
    else ({ e with win := upd e.win id (e.win id + d) }, s, .ok)
  | .maxframe n => ({ e with maxFrame := n }, s, .ok)
  | .openS id pusher _ => let (s', r) := s.openStream id pusher; (e, s', r)
  | .closeS id => let (s', r) := s.closeStream id; (e, s', r)
  | .adjust id dep excl w _ => let (s', r) := s.adjustStream id dep excl w; (e, s', r)
  | .push f => let (s', r) := s.push f; (e, s', r)
  | .pop _ => s.pop e

def run (e : Env) (s : P7540) : List Op → Env × P7540 × List Res
  | [] => (e, s, [])
  | op :: ops =>
    let (e1, s1, r) := s.step e op
    let (e2, s2, rs) := run e1 s1 ops
    (e2, s2, r :: rs)

end P7540

end NetVerif.Model.WriteSched
