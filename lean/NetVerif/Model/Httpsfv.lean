/-!
Model of golang.org/x/net/internal/httpsfv/httpsfv.go (C56), AS THE CODE IS (after the four
`fix: internal/httpsfv: …` commits: inner lists must be closed, dictionary members need a comma,
only SP is skipped inside inner lists / parameters, U+FFFD is a valid display-string rune).

Strings are byte lists (`List Nat`, every element < 256).  Every Go `consumeX(s)` returning
`(consumed, rest, ok)` becomes `consumeX s : Option (consumed × rest)` (`none` = `ok == false`;
the Go code then returns `rest = s`, which the callers never look at).  Callbacks `f(...)` are
modelled as the list of argument tuples, reported on success only (the only in-tree consumer,
http2 `parseRFC9218Priority`, discards everything when `ok == false`).

Loops whose next input is the `rest` of a sub-parser use fuel `len(s) + 1`; every iteration of
the Go loops consumes at least one byte, so the fuel cannot run out (not proved in Lean: covered
by the differential tie; `parseList_roundtrip_partial` shows it suffices on serialised lists).

Go standard-library functions used by the code and modelled here from their Go source:
`utf8.FullRune`, `utf8.DecodeRune` (for `consumeDisplayString`), `strconv.ParseInt` on an
already validated `-?[0-9]{1,15}` string (`intValue`), `strconv.ParseFloat` on a validated decimal
(reported as the exact number of thousandths; the harness checks the float64 against it).
-/
namespace NetVerif.Model.Httpsfv

/-! ## byte classes (Go: isLCAlpha, isAlpha, isDigit, isVChar, isSP, isTChar) -/

def isLCAlpha (b : Nat) : Bool := decide (b ≥ 97) && decide (b ≤ 122)
def isAlpha (b : Nat) : Bool := isLCAlpha b || (decide (b ≥ 65) && decide (b ≤ 90))
def isDigit (b : Nat) : Bool := decide (b ≥ 48) && decide (b ≤ 57)
def isVChar (b : Nat) : Bool := decide (b ≥ 33) && decide (b ≤ 126)
def isSP (b : Nat) : Bool := b == 32
def isTChar (b : Nat) : Bool :=
  if isAlpha b || isDigit b then true
  else List.elem b [33, 35, 36, 37, 38, 39, 42, 43, 45, 46, 94, 95, 96, 124, 126]

/-- `s[countLeftWhitespace(s):]` — drops leading SP and HTAB. -/
def dropWS : List Nat → List Nat
  | [] => []
  | c :: r => if c != 32 && c != 9 then c :: r else dropWS r

/-- `s[countLeftSP(s):]` — drops leading SP only. -/
def dropSP : List Nat → List Nat
  | [] => []
  | c :: r => if c != 32 then c :: r else dropSP r

/-- `decOctetHex`: lower-case hex only. -/
def decBase16 (c : Nat) : Option Nat :=
  if !isDigit c && !(decide (c ≥ 97) && decide (c ≤ 102)) then none
  else if isDigit c then some (c - 48) else some (c - 97 + 10)

def decOctetHex (c1 c2 : Nat) : Option Nat :=
  match decBase16 c1 with
  | none => none
  | some h => match decBase16 c2 with
    | none => none
    | some l => some (h * 16 + l)

/-! ## keys, numbers, strings, tokens, byte sequences, booleans, dates -/

def isKeyChar (b : Nat) : Bool := isLCAlpha b || isDigit b || List.elem b [95, 45, 46, 42]

def consumeKey (s : List Nat) : Option (List Nat × List Nat) :=
  match s with
  | [] => none
  | c :: _ =>
    if !isLCAlpha c && c != 42 then none
    else some (s.takeWhile isKeyChar, s.dropWhile isKeyChar)

/-- `consumeIntegerOrDecimal` after the optional sign.  `ds` are the digits before a '.', `fr`
    those after it; Go's `i - signOffset` is `ds.length` when the '.' is met and
    `ds.length + 1 + fr.length` at the end of a decimal. -/
def numTail (t : List Nat) : Option (List Nat × List Nat) :=
  let ds := t.takeWhile isDigit
  match t.dropWhile isDigit with
  | 46 :: r2 =>
    if ds.length > 12 then none else
    let fr := r2.takeWhile isDigit
    if ds.length + 1 + fr.length > 16 then none
    else if fr.length == 0 then none
    else if fr.length > 3 then none
    else some (ds ++ 46 :: fr, r2.dropWhile isDigit)
  | r1 => if ds.length > 15 then none else some (ds, r1)

def numBody (t : List Nat) : Option (List Nat × List Nat) :=
  match t with
  | [] => none
  | c :: _ => if !isDigit c then none else numTail t

def consumeIntegerOrDecimal (s : List Nat) : Option (List Nat × List Nat) :=
  match s with
  | 45 :: t =>
    (match numBody t with
     | none => none
     | some (c, r) => some (45 :: c, r))
  | _ => numBody s

/-- The loop of `consumeString` after the opening quote; the consumed text includes the closing quote. -/
def stringBody : List Nat → Option (List Nat × List Nat)
  | [] => none
  | c :: r =>
    if c == 92 then
      match r with
      | [] => none
      | d :: r' =>
        if d != 34 && d != 92 then none
        else match stringBody r' with
          | none => none
          | some (a, rest) => some (92 :: d :: a, rest)
    else if c == 34 then some ([34], r)
    else if !isVChar c && !isSP c then none
    else match stringBody r with
      | none => none
      | some (a, rest) => some (c :: a, rest)

def consumeString (s : List Nat) : Option (List Nat × List Nat) :=
  match s with
  | [] => none
  | c :: r =>
    if c != 34 then none
    else match stringBody r with
      | none => none
      | some (a, rest) => some (34 :: a, rest)

def isTokenChar (b : Nat) : Bool := isTChar b || List.elem b [58, 47]

def consumeToken (s : List Nat) : Option (List Nat × List Nat) :=
  match s with
  | [] => none
  | c :: _ =>
    if !isAlpha c && c != 42 then none
    else some (s.takeWhile isTokenChar, s.dropWhile isTokenChar)

def isB64Char (b : Nat) : Bool := isAlpha b || isDigit b || List.elem b [43, 47, 61]

def byteSeqBody : List Nat → Option (List Nat × List Nat)
  | [] => none
  | c :: r =>
    if c == 58 then some ([58], r)
    else if !isB64Char c then none
    else match byteSeqBody r with
      | none => none
      | some (a, rest) => some (c :: a, rest)

/-- `isBase64`: the text with its trailing '=' removed. -/
def stripPad (s : List Nat) : List Nat := (s.reverse.dropWhile (fun b => b == 61)).reverse

/-- Go `isBase64(s)`: decodable base64 (RFC 4648 §4), missing padding tolerated. -/
def isBase64 (s : List Nat) : Bool :=
  let d := stripPad s
  let pad := s.length - d.length
  if List.elem 61 d then false
  else if d.length % 4 == 0 then pad == 0
  else if d.length % 4 == 2 then decide (pad ≤ 2)
  else if d.length % 4 == 3 then decide (pad ≤ 1)
  else false

def consumeByteSequence (s : List Nat) : Option (List Nat × List Nat) :=
  match s with
  | [] => none
  | c :: r =>
    if c != 58 then none
    else match byteSeqBody r with
      | none => none
      | some (a, rest) => if !isBase64 a.dropLast then none else some (58 :: a, rest)

def consumeBoolean (s : List Nat) : Option (List Nat × List Nat) :=
  match s with
  | a :: b :: r => if a == 63 && (b == 48 || b == 49) then some ([a, b], r) else none
  | _ => none

def consumeDate (s : List Nat) : Option (List Nat × List Nat) :=
  match s with
  | [] => none
  | c :: t =>
    if c != 64 then none
    else match consumeIntegerOrDecimal t with
      | none => none
      | some (num, rest) => if List.elem 46 (64 :: num) then none else some (64 :: num, rest)

/-! ## utf8.FullRune / utf8.DecodeRune (Go standard library) -/

/-- `first[b]` decoded: `none` = `xx`/`as` entries are told apart by `b < 0x80`;
    `some (size, lo, hi)` = multi-byte lead with the accept range for the second byte. -/
def leadInfo (b : Nat) : Option (Nat × Nat × Nat) :=
  if b < 0xC2 then none
  else if b < 0xE0 then some (2, 0x80, 0xBF)
  else if b == 0xE0 then some (3, 0xA0, 0xBF)
  else if b < 0xED then some (3, 0x80, 0xBF)
  else if b == 0xED then some (3, 0x80, 0x9F)
  else if b < 0xF0 then some (3, 0x80, 0xBF)
  else if b == 0xF0 then some (4, 0x90, 0xBF)
  else if b < 0xF4 then some (4, 0x80, 0xBF)
  else if b == 0xF4 then some (4, 0x80, 0x8F)
  else none

def isCont (b : Nat) : Bool := decide (0x80 ≤ b) && decide (b ≤ 0xBF)

def fullRune (p : List Nat) : Bool :=
  match p with
  | [] => false
  | p0 :: tl =>
    match leadInfo p0 with
    | none => true
    | some (sz, lo, hi) =>
      if p.length ≥ sz then true
      else match tl with
        | [] => false
        | p1 :: tl2 =>
          if decide (p1 < lo) || decide (hi < p1) then true
          else match tl2 with
            | [] => false
            | p2 :: _ => !isCont p2

def runeError : Nat := 0xFFFD

/-- `utf8.DecodeRune`: (rune, size). -/
def decodeRune (p : List Nat) : Nat × Nat :=
  match p with
  | [] => (runeError, 0)
  | p0 :: tl =>
    match leadInfo p0 with
    | none => if p0 < 0x80 then (p0, 1) else (runeError, 1)
    | some (sz, lo, hi) =>
      if p.length < sz then (runeError, 1) else
      match tl with
      | [] => (runeError, 1)
      | b1 :: tl2 =>
        if decide (b1 < lo) || decide (hi < b1) then (runeError, 1)
        else if sz ≤ 2 then ((p0 % 32) * 64 + b1 % 64, 2)
        else match tl2 with
          | [] => (runeError, 1)
          | b2 :: tl3 =>
            if !isCont b2 then (runeError, 1)
            else if sz ≤ 3 then ((p0 % 16) * 4096 + (b1 % 64) * 64 + b2 % 64, 3)
            else match tl3 with
              | [] => (runeError, 1)
              | b3 :: _ =>
                if !isCont b3 then (runeError, 1)
                else ((p0 % 8) * 262144 + (b1 % 64) * 4096 + (b2 % 64) * 64 + b3 % 64, 4)

/-- The closure `isPartOfValidRune(ch)`: `buf` is `lastRune[:runeLen]`. `none` = returns false. -/
def feedByte (buf : List Nat) (ch : Nat) : Option (List Nat) :=
  let b := buf ++ [ch]
  if fullRune b then
    let (r, sz) := decodeRune b
    if r == runeError && sz == 1 then none else some (b.drop sz)
  else if b.length ≤ 4 then some b else none

/-- The loop of `consumeDisplayString` after the leading `%"`. -/
def displayBody : List Nat → List Nat → Option (List Nat × List Nat)
  | _, [] => none
  | buf, ch :: r =>
    if !isVChar ch && !isSP ch then none
    else if ch == 34 then (if buf.length > 0 then none else some ([34], r))
    else if ch == 37 then
      match r with
      | h1 :: h2 :: r' =>
        match decOctetHex h1 h2 with
        | none => none
        | some o =>
          match feedByte buf o with
          | none => none
          | some buf' =>
            match displayBody buf' r' with
            | none => none
            | some (a, rest) => some (37 :: h1 :: h2 :: a, rest)
      | _ => none
    else
      match feedByte buf ch with
      | none => none
      | some buf' =>
        match displayBody buf' r with
        | none => none
        | some (a, rest) => some (ch :: a, rest)

def consumeDisplayString (s : List Nat) : Option (List Nat × List Nat) :=
  match s with
  | a :: b :: r =>
    if a == 37 && b == 34 then
      match displayBody [] r with
      | none => none
      | some (c, rest) => some (37 :: 34 :: c, rest)
    else none
  | _ => none

/-! ## bare items -/

def consumeBareItem (s : List Nat) : Option (List Nat × List Nat) :=
  match s with
  | [] => none
  | ch :: _ =>
    if ch == 45 || isDigit ch then consumeIntegerOrDecimal s
    else if ch == 34 then consumeString s
    else if ch == 42 || isAlpha ch then consumeToken s
    else if ch == 58 then consumeByteSequence s
    else if ch == 63 then consumeBoolean s
    else if ch == 64 then consumeDate s
    else if ch == 37 then consumeDisplayString s
    else none

/-! ## Parse* of bare items -/

def digitsValue (ds : List Nat) : Nat := ds.foldl (fun acc d => acc * 10 + (d - 48)) 0

/-- `strconv.ParseInt(s, 10, 64)` on a string already accepted by `consumeIntegerOrDecimal`
    without a '.', (≤ 15 digits: no overflow); `none` when the string has a '.' (ParseInt fails). -/
def intValue (s : List Nat) : Option Int :=
  if List.elem 46 s then none
  else match s with
    | 45 :: ds => some (-(digitsValue ds : Int))
    | ds => some (digitsValue ds : Int)

def parseInteger (s : List Nat) : Option Int :=
  match consumeIntegerOrDecimal s with
  | some (_, []) => intValue s
  | _ => none

/-- ParseDecimal: (negative?, thousandths).  Go returns the float64 nearest to
    `±thousandths/1000`; the sign is kept apart because of `-0.0`. -/
def parseDecimal (s : List Nat) : Option (Bool × Nat) :=
  match consumeIntegerOrDecimal s with
  | some (_, []) =>
    if !List.elem 46 s then none else
    let neg := match s with | 45 :: _ => true | _ => false
    let t := match s with | 45 :: t => t | _ => s
    let ip := t.takeWhile isDigit
    let fr := (t.dropWhile isDigit).drop 1
    some (neg, digitsValue ip * 1000 + digitsValue fr * 10 ^ (3 - fr.length))
  | _ => none

/-- ParseString returns `s[1:len(s)-1]` — the raw text between the quotes (NOT unescaped). -/
def parseString (s : List Nat) : Option (List Nat) :=
  match consumeString s with
  | some (_, []) => some ((s.drop 1).dropLast)
  | _ => none

def parseToken (s : List Nat) : Option (List Nat) :=
  match consumeToken s with
  | some (_, []) => some s
  | _ => none

/-- ParseByteSequence returns `[]byte(s[1:len(s)-1])` — the raw base64 text (NOT decoded). -/
def parseByteSequence (s : List Nat) : Option (List Nat) :=
  match consumeByteSequence s with
  | some (_, []) => some ((s.drop 1).dropLast)
  | _ => none

def parseBoolean (s : List Nat) : Option Bool :=
  match consumeBoolean s with
  | some (_, []) => some (s == [63, 49])
  | _ => none

/-- ParseDate: seconds since the epoch (`time.Unix(n, 0)`). -/
def parseDate (s : List Nat) : Option Int :=
  match consumeDate s with
  | some (_, []) => parseInteger (s.drop 1)
  | _ => none

/-- The decoding loop of ParseDisplayString over `s[2:len(s)-1]`. -/
def decodeDisplay : List Nat → List Nat
  | [] => []
  | c :: r =>
    if c == 37 then
      match r with
      | h1 :: h2 :: r' => (decOctetHex h1 h2).getD 0 :: decodeDisplay r'
      | _ => []   -- unreachable after validation (Go would panic)
    else c :: decodeDisplay r

def parseDisplayString (s : List Nat) : Option (List Nat) :=
  match consumeDisplayString s with
  | some (_, []) => some (decodeDisplay ((s.drop 2).dropLast))
  | _ => none

/-! ## parameters, items, inner lists, lists, dictionaries -/

/-- `s[:len(s)-len(rest)]` -/
def consumedOf (s rest : List Nat) : List Nat := s.take (s.length - rest.length)

def boolTrueText : List Nat := [63, 49]   -- "?1"

/-- The optional `=bareItem` after a parameter key (`val = "?1"` when there is no '='). -/
def paramValue (r1 : List Nat) : Option (List Nat × List Nat) :=
  match r1 with
  | 61 :: r2 => consumeBareItem r2
  | _ => some (boolTrueText, r1)

/-- Loop of `consumeParameter`: returns (callbacks (key, val), rest). -/
def paramLoop : Nat → List Nat → Option (List (List Nat × List Nat) × List Nat)
  | 0, _ => none
  | fuel + 1, rest =>
    match rest with
    | [] => some ([], [])
    | c :: r =>
      if c != 59 then some ([], rest)
      else match consumeKey (dropSP r) with
        | none => none
        | some (key, r1) =>
          match paramValue r1 with
          | none => none
          | some (val, r3) =>
            match paramLoop fuel r3 with
            | none => none
            | some (cbs, out) => some ((key, val) :: cbs, out)

/-- `consumeParameter(s, f)`: (callbacks, consumed, rest). -/
def consumeParameter (s : List Nat) : Option (List (List Nat × List Nat) × List Nat × List Nat) :=
  match paramLoop (s.length + 1) s with
  | none => none
  | some (cbs, rest) => some (cbs, consumedOf s rest, rest)

def parseParameter (s : List Nat) : Option (List (List Nat × List Nat)) :=
  match consumeParameter s with
  | some (cbs, _, []) => some cbs
  | _ => none

/-- `consumeItem(s, f)`: (bareItem, param, consumed, rest). -/
def consumeItem (s : List Nat) : Option (List Nat × List Nat × List Nat × List Nat) :=
  match consumeBareItem s with
  | none => none
  | some (bi, r1) =>
    match consumeParameter r1 with
    | none => none
    | some (_, param, rest) => some (bi, param, consumedOf s rest, rest)

def parseItem (s : List Nat) : Option (List Nat × List Nat) :=
  match consumeItem s with
  | some (bi, param, _, []) => some (bi, param)
  | _ => none

/-- Loop of `consumeBareInnerList` (after the '('): (callbacks (bareItem, param), rest). -/
def innerLoop : Nat → List Nat → Option (List (List Nat × List Nat) × List Nat)
  | 0, _ => none
  | fuel + 1, rest =>
    match rest with
    | [] => none                              -- `for len(rest) != 0` exits: end of inner list not found
    | _ :: _ =>
      match dropSP rest with
      | 41 :: r => some ([], r)
      | rest1 =>
        match consumeBareItem rest1 with
        | none => none
        | some (bi, r1) =>
          match consumeParameter r1 with
          | none => none
          | some (_, param, r2) =>
            match r2 with
            | [] => none
            | c :: _ =>
              if c != 41 && !isSP c then none
              else match innerLoop fuel r2 with
                | none => none
                | some (cbs, out) => some ((bi, param) :: cbs, out)

def consumeBareInnerList (s : List Nat) : Option (List (List Nat × List Nat) × List Nat × List Nat) :=
  match s with
  | [] => none
  | c :: r =>
    if c != 40 then none
    else match innerLoop (r.length + 1) r with
      | none => none
      | some (cbs, rest) => some (cbs, consumedOf s rest, rest)

def parseBareInnerList (s : List Nat) : Option (List (List Nat × List Nat)) :=
  match consumeBareInnerList s with
  | some (cbs, _, []) => some cbs
  | _ => none

/-- A list/dictionary member: bare item or bare inner list, as text. -/
def consumeMember (s : List Nat) : Option (List Nat × List Nat) :=
  match s with
  | 40 :: _ =>
    (match consumeBareInnerList s with
     | none => none
     | some (_, consumed, rest) => some (consumed, rest))
  | _ => consumeBareItem s

/-- Loop of `ParseList`: callbacks (member, param). -/
def listLoop : Nat → List Nat → Option (List (List Nat × List Nat))
  | 0, _ => none
  | fuel + 1, s =>
    match s with
    | [] => some []
    | _ :: _ =>
      match consumeMember s with
      | none => none
      | some (member, s1) =>
        match consumeParameter s1 with
        | none => none
        | some (_, param, s2) =>
          match dropWS s2 with
          | [] => some [(member, param)]
          | c :: s3 =>
            if c != 44 then none
            else match dropWS s3 with
              | [] => none
              | s4 => match listLoop fuel s4 with
                | none => none
                | some cbs => some ((member, param) :: cbs)

def parseList (s : List Nat) : Option (List (List Nat × List Nat)) := listLoop (s.length + 1) s

/-- The optional `=member` after a dictionary key (`val = "?1"` when there is no '='). -/
def dictValue (s1 : List Nat) : Option (List Nat × List Nat) :=
  match s1 with
  | 61 :: s1' => consumeMember s1'
  | _ => some (boolTrueText, s1)

/-- Loop of `ParseDictionary`: callbacks (key, val, param). -/
def dictLoop : Nat → List Nat → Option (List (List Nat × List Nat × List Nat))
  | 0, _ => none
  | fuel + 1, s =>
    match s with
    | [] => some []
    | _ :: _ =>
      match consumeKey s with
      | none => none
      | some (key, s1) =>
        match dictValue s1 with
        | none => none
        | some (val, s2) =>
          match consumeParameter s2 with
          | none => none
          | some (_, param, s3) =>
            match dropWS s3 with
            | [] => some [(key, val, param)]
            | c :: s4 =>
              if c != 44 then none
              else match dropWS s4 with
                | [] => none
                | s6 => match dictLoop fuel s6 with
                  | none => none
                  | some cbs => some ((key, val, param) :: cbs)

def parseDictionary (s : List Nat) : Option (List (List Nat × List Nat × List Nat)) :=
  dictLoop (s.length + 1) s

end NetVerif.Model.Httpsfv
