/-
Model of publicsuffix/list.go.

Labels are `Nat`s: the driver interns label strings with an order-preserving map, so the byte-wise
string comparisons of `find` become `<`/`=` on `Nat`. Domains are label lists in REVERSED order
(TLD first), which is the order in which `PublicSuffix` walks them (`strings.LastIndexByte`).
Public suffixes are reported as a number of labels (counted from the TLD).

* `Rule`, `specGo`/`spec`: the PSL algorithm over a rule list (no trie).
* `nodeAt`: the trie that gen.go builds from a rule list, indexed by path.
* `walk`: the loop of `PublicSuffix` over any path-indexed trie (exact control flow, including the
  ICANN-flag bookkeeping: the flag is taken from the node of the prevailing rule).
* `Flat`, `find`, `flatWalk`: the same loop over the packed `nodes`/`children` tables with the
  binary search `find`; `etld1`: `EffectiveTLDPlusOne`.
-/
namespace NetVerif.Model.PublicSuffix

inductive Kind | normal | wildcard | exception
  deriving DecidableEq, Repr

/-- One PSL rule; `labels` are TLD-first and without the leading `*` / `!`. `icann` = the rule is in
the ICANN section. -/
structure Rule where
  kind : Kind
  labels : List Nat
  icann : Bool
  deriving Repr

/-! ### PSL algorithm over the rule list

The three ways a suffix `p` (TLD-first, `j = p.length` labels) of the domain can be matched:
exception rule `!p`, normal rule `p`, wildcard rule `*.p'` where `p = p' ++ [l]`.
The predicates are parameters so that the driver can answer them from a hash index; the
theorems use the `List.any` versions `hasExc`/`hasNormal`/`hasWild`. -/

def hasKind (rules : List Rule) (k : Kind) (p : List Nat) : Bool :=
  rules.any (fun r => decide (r.kind = k) && decide (r.labels = p))

def hasExc (rules : List Rule) := hasKind rules .exception
def hasNormal (rules : List Rule) := hasKind rules .normal
def hasWild (rules : List Rule) := hasKind rules .wildcard

structure Index where
  exc : List Nat → Bool
  normal : List Nat → Bool
  wild : List Nat → Bool

def listIndex (rules : List Rule) : Index :=
  { exc := hasExc rules, normal := hasNormal rules, wild := hasWild rules }

/-- PSL: scan the suffixes of the domain from the shortest. An exception rule prevails
immediately (public suffix = the rule minus its leftmost label); otherwise the longest suffix
matched by a normal or a wildcard rule. `best = none` at the end = no rule matched. -/
def specGo (ix : Index) : (path rest : List Nat) → (best : Option Nat) → Option Nat
  | _, [], best => best
  | path, l :: more, best =>
    if ix.exc (path ++ [l]) then some (path.length + 1 - 1)
    else
      specGo ix (path ++ [l]) more
        (if ix.normal (path ++ [l]) || ix.wild path then some (path.length + 1) else best)

/-- Number of labels of the public suffix of `d` (TLD-first): default rule `*` when nothing matches. -/
def specLen (ix : Index) (d : List Nat) : Nat := (specGo ix [] d none).getD 1

/-- The prevailing rule's ICANN flag, with the same scan: exception / normal rule at `p` → flag of
the first such rule in the list; wildcard match → flag of the first wildcard rule `*.path`. -/
def firstFlag (rules : List Rule) (k : Kind) (p : List Nat) : Bool :=
  match rules.find? (fun r => decide (r.kind = k) && decide (r.labels = p)) with
  | some r => r.icann
  | none => false

def specFlagGo (rules : List Rule) : (path rest : List Nat) → (best : Bool) → Bool
  | _, [], best => best
  | path, l :: more, best =>
    if hasExc rules (path ++ [l]) then firstFlag rules .exception (path ++ [l])
    else
      specFlagGo rules (path ++ [l]) more
        (if hasNormal rules (path ++ [l]) then firstFlag rules .normal (path ++ [l])
         else if hasWild rules path then firstFlag rules .wildcard path else best)

def specFlag (rules : List Rule) (d : List Nat) : Bool := specFlagGo rules [] d false

/-! ### The trie gen.go builds, indexed by path -/

structure NodeInfo where
  icann : Bool
  /-- 0 normal, 1 exception, 2 parent-only -/
  ntype : Nat
  wildcard : Bool
  deriving DecidableEq, Repr

/-- gen.go: a node exists for every non-empty prefix of a rule's labels. It is created as
(parent-only, icann, no wildcard); a rule ending at the node sets `nodeType` if it is still
parent-only (first normal/exception rule wins), and-s its section into `icann`, or-s `wildcard`. -/
def nodeAt (rules : List Rule) (p : List Nat) : Option NodeInfo :=
  if rules.any (fun r => p.isPrefixOf r.labels) then
    some {
      icann := rules.all (fun r => !decide (r.labels = p) || r.icann)
      ntype := match rules.find? (fun r => decide (r.labels = p) && !decide (r.kind = .wildcard)) with
        | some r => if r.kind = .exception then 1 else 0
        | none => 2
      wildcard := hasWild rules p }
  else none

/-! ### The loop of `PublicSuffix` -/

structure WalkSt where
  wild : Bool
  icannNode : Bool
  suffix : Option Nat
  icann : Bool

/-- `PublicSuffix`'s loop over a path-indexed trie. `look p = none` covers both `lo == hi` and
`find … == notFound`. `suffix = none` is the sentinel `suffix == len(domain)`. -/
def walk (look : List Nat → Option NodeInfo) : (path rest : List Nat) → WalkSt → Option Nat × Bool
  | _, [], st => (st.suffix, st.icann)
  | path, l :: more, st =>
    -- if wildcard { icann = icannNode; suffix = 1 + dot }
    let suffix := if st.wild then some (path.length + 1) else st.suffix
    let icann := if st.wild then st.icannNode else st.icann
    match look (path ++ [l]) with
    | none => (suffix, icann)
    | some nd =>
      if nd.ntype = 1 then (some (path.length + 1 - 1), nd.icann)     -- exception: icann = icannNode; break loop
      else
        let suffix := if nd.ntype = 0 then some (path.length + 1) else suffix
        let icann := if nd.ntype = 0 then nd.icann else icann           -- case nodeTypeNormal: icann = icannNode
        match more with
        | [] => (suffix, icann)                                          -- dot == -1
        | _ :: _ => walk look (path ++ [l]) more
            { wild := nd.wildcard, icannNode := nd.icann, suffix := suffix, icann := icann }

def initSt : WalkSt := { wild := false, icannNode := false, suffix := none, icann := false }

/-- `(number of labels of the public suffix, icann)` as `PublicSuffix` computes them on a trie. -/
def walkResult (look : List Nat → Option NodeInfo) (d : List Nat) : Nat × Bool :=
  let r := walk look [] d initSt
  (r.1.getD 1, r.2)

/-! ### Packed tables and binary search -/

def nodeIcannBit (raw : Nat) : Bool := (raw / 4194304) % 2 = 1         -- >> (16+6), 1 bit
def nodeChildIdx (raw : Nat) : Nat := (raw / 8388608) % 1024           -- >> (16+6+1), 10 bits
def childLo (c : Nat) : Nat := c % 16384
def childHi (c : Nat) : Nat := (c / 16384) % 16384
def childType (c : Nat) : Nat := (c / 268435456) % 4
def childWild (c : Nat) : Bool := (c / 1073741824) % 2 = 1

/-- `find`: binary search for `label` in `[lo, hi)` of the node-label table `lab`. -/
def find (lab : Nat → Nat) (label : Nat) : (fuel lo hi : Nat) → Option Nat
  | 0, _, _ => none
  | fuel + 1, lo, hi =>
    if lo < hi then
      let mid := lo + (hi - lo) / 2
      if lab mid < label then find lab label fuel (mid + 1) hi
      else if lab mid = label then some mid
      else find lab label fuel lo mid
    else none

structure Flat where
  nodes : Array Nat
  labels : Array Nat
  children : Array Nat
  numTLD : Nat

def Flat.lab (f : Flat) (i : Nat) : Nat := f.labels.getD i 0

/-- Node lookup among the children range `[lo, hi)`: index and decoded info plus the child range. -/
def Flat.child (f : Flat) (lo hi label : Nat) : Option (NodeInfo × Nat × Nat) :=
  if lo = hi then none
  else match find f.lab label (hi - lo + 1) lo hi with
    | none => none
    | some i =>
      let raw := f.nodes.getD i 0
      let c := f.children.getD (nodeChildIdx raw) 0
      some ({ icann := nodeIcannBit raw, ntype := childType c, wildcard := childWild c }, childLo c, childHi c)

/-- `PublicSuffix`'s loop over the packed tables (same control flow as `walk`). -/
def flatWalk (f : Flat) : (depth : Nat) → (rest : List Nat) → (lo hi : Nat) → WalkSt → Option Nat × Bool
  | _, [], _, _, st => (st.suffix, st.icann)
  | depth, l :: more, lo, hi, st =>
    let suffix := if st.wild then some (depth + 1) else st.suffix
    let icann := if st.wild then st.icannNode else st.icann
    match f.child lo hi l with
    | none => (suffix, icann)
    | some (nd, lo', hi') =>
      if nd.ntype = 1 then (some (depth + 1 - 1), nd.icann)
      else
        let suffix := if nd.ntype = 0 then some (depth + 1) else suffix
        let icann := if nd.ntype = 0 then nd.icann else icann
        match more with
        | [] => (suffix, icann)
        | _ :: _ => flatWalk f (depth + 1) more lo' hi'
            { wild := nd.wildcard, icannNode := nd.icann, suffix := suffix, icann := icann }

def flatResult (f : Flat) (d : List Nat) : Nat × Bool :=
  let r := flatWalk f 0 d 0 f.numTLD initSt
  (r.1.getD 1, r.2)

/-- Following `p` from the root through the packed tables: the node reached and its child range. -/
def Flat.reach (f : Flat) (p : List Nat) : Option (NodeInfo × Nat × Nat) :=
  p.foldl (fun acc l => acc.bind (fun x => f.child x.2.1 x.2.2 l))
    (some ({ icann := false, ntype := 2, wildcard := false }, 0, f.numTLD))

/-- The trie the packed tables denote, by path (used by the driver to compare the dumped tables
with `nodeAt rules` along the queried paths). -/
def Flat.look (f : Flat) (p : List Nat) : Option NodeInfo := (f.reach p).map (·.1)

/-! ### `EffectiveTLDPlusOne` -/

/-- `d` TLD-first; `emptyLabel l` tells whether a label is the empty string; `k` = number of labels
of `PublicSuffix(domain)` (`none` when the domain parses as an IP address: the suffix is the whole
domain). Result: number of labels of the eTLD+1, `none` = error. -/
def etld1 (emptyLabels : Bool) (nlabels : Nat) (k : Option Nat) : Option Nat :=
  if emptyLabels then none
  else match k with
    | none => none
    | some k => if nlabels ≤ k then none else some (k + 1)

end NetVerif.Model.PublicSuffix
