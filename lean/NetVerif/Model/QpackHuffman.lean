import NetVerif.Model.Qpack
import NetVerif.Model.Huffman
/-
The `Huff` parameter of the QPACK model instantiated with the HPACK Huffman model of
`Model/Huffman.lean` (C04): QPACK strings use the same code through
`hpack.HuffmanEncodeLength`, `hpack.AppendHuffmanString` (byte-level accumulator model
`appendHuffman`) and `hpack.HuffmanDecodeToString` (`decode`, any error = rejection).
Used by the C33 driver and by the unconditional round-trip theorem.
-/
namespace NetVerif.Model.QpackHuffman
open NetVerif.Model

def dec (v : List Nat) : Option (List Nat) :=
  match Huffman.decode v with
  | .ok s => some s
  | .error _ => none

def huff : Qpack.Huff := { encLen := Huffman.encodeLength, enc := Huffman.appendHuffman, dec := dec }

end NetVerif.Model.QpackHuffman
