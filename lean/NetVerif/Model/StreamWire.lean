/-!
Wire-level monitor for C21 (V-tie), for ONE stream type (the driver runs one instance for
bidirectional and one for unidirectional streams). Events are what a peer / the local application
can observe of a real `Conn` (harness/C21/conn_test.go), in order.
-/
namespace NetVerif.Model.StreamWire

inductive Ev where
  | peerOpen (num : Int) (limitErr : Bool)  -- peer sent a frame for its stream `num`; did the Conn answer STREAM_LIMIT_ERROR?
  | accepted (num : Int)                    -- AcceptStream returned the peer's stream `num`
  | maxStreams (v : Int)                    -- the Conn sent MAX_STREAMS v
  | localOpen (res : Option Int)            -- NewStream: `some num` or blocked
  | peerMax (v : Int)                       -- the peer sent MAX_STREAMS v
  | closed                                  -- a peer-initiated stream was completely closed (both directions done)
  | localClosed                             -- a LOCALLY initiated stream was completely closed: must not count
  deriving Repr

structure St where
  cfg : Int      -- configured Max{Bidi,Uni}RemoteStreams (after defaults)
  adv : Int      -- last limit the peer was told (transport parameter, then MAX_STREAMS frames)
  grant : Int    -- largest limit the peer granted us
  lcount : Int   -- streams opened locally
  ccount : Int   -- peer streams completely closed
  deriving Repr

def check (st : St) : Ev → Bool
  | .peerOpen n err => err == decide (n ≥ st.adv)
  | .accepted n => decide (n < st.adv)
  | .maxStreams v => decide (st.adv ≤ v) && decide (v ≤ st.ccount + st.cfg)
  | .localOpen (some n) => decide (n = st.lcount) && decide (n < st.grant)
  | .localOpen none => decide (st.lcount ≥ st.grant)
  | .peerMax _ => true
  | .closed => true
  | .localClosed => true

def next (st : St) : Ev → St
  | .maxStreams v => { st with adv := v }
  | .localOpen (some _) => { st with lcount := st.lcount + 1 }
  | .peerMax v => { st with grant := max st.grant v }
  | .closed => { st with ccount := st.ccount + 1 }
  | _ => st

def run (st : St) : List Ev → Bool
  | [] => true
  | e :: es => check st e && run (next st e) es

def after (st : St) (tr : List Ev) : St := tr.foldl next st

/-- The initial state is acceptable: the limit in the transport parameters does not exceed the
configuration nor `implicitStreamLimit`. -/
def initOk (cfg tp : Int) : Bool := decide (tp = min cfg 100) && decide (0 ≤ cfg)

end NetVerif.Model.StreamWire
